(* Lemmas for C15: the SAX-handler fold (Model/Introspect.v) run over the
   element events that _getXml / generateIntrospectionXML produce. *)
From Coq Require Import Permutation.
From Tx Require Import Lib.Base.
From Tx Require Import Model.SigSplit.
From Tx Require Import Model.Introspect.
From Tx Require Import Spec.SigTy.
From Tx Require Import Spec.IntrospectSpec.
From Tx Require Import Proofs.SigSplitProofs.
Local Open Scope N_scope.

(* ========================================================================= *)
(* 1. association lists and the sort                                           *)
(* ========================================================================= *)

Lemma str_eqb_eq a b : str_eqb a b = true -> a = b.
Proof. apply str_eqb_spec. Qed.

Lemma str_eqb_neq a b : a <> b -> str_eqb a b = false.
Proof.
  intros H. destruct (str_eqb a b) eqn:E; [|reflexivity]. apply str_eqb_eq in E. contradiction.
Qed.

Lemma str_eqb_sym a b : str_eqb a b = str_eqb b a.
Proof.
  destruct (str_eqb a b) eqn:E.
  - apply str_eqb_eq in E. subst. symmetry. apply str_eqb_refl.
  - destruct (str_eqb b a) eqn:E'; [|reflexivity]. apply str_eqb_eq in E'. subst.
    rewrite str_eqb_refl in E. discriminate.
Qed.

Section Alist.
  Context {V : Type}.
  Implicit Types (l : list (str * V)) (k n : str) (v : V).

  Lemma alist_get_none_notin k l : alist_get str_eqb k l = None <-> ~ In k (map fst l).
  Proof.
    induction l as [|[k' v'] l IH]; cbn [alist_get map fst In]; [tauto|].
    destruct (str_eqb k k') eqn:E.
    - apply str_eqb_eq in E. subst. split; [discriminate | intros H; exfalso; apply H; left; reflexivity].
    - rewrite IH. split; [intros H [H'|H']; [subst; rewrite str_eqb_refl in E; discriminate | tauto] | tauto].
  Qed.

  Lemma alist_get_some_in k v l : alist_get str_eqb k l = Some v -> In (k, v) l.
  Proof.
    induction l as [|[k' v'] l IH]; cbn [alist_get In]; [discriminate|].
    destruct (str_eqb k k') eqn:E.
    - apply str_eqb_eq in E. subst. intros H; injection H as ->. left; reflexivity.
    - intros H. right. apply IH, H.
  Qed.

  Lemma alist_set_fresh k v l : ~ In k (map fst l) -> alist_set str_eqb k v l = l ++ [(k, v)].
  Proof.
    induction l as [|[k' v'] l IH]; cbn [alist_set map fst In app]; [reflexivity|].
    intros H. rewrite str_eqb_neq by (intros ->; apply H; left; reflexivity).
    rewrite IH by tauto. reflexivity.
  Qed.

  Lemma alist_set_keys k v l : In k (map fst l) -> map fst (alist_set str_eqb k v l) = map fst l.
  Proof.
    induction l as [|[k' v'] l IH]; cbn [alist_set map fst In]; [tauto|].
    intros H. destruct (str_eqb k k') eqn:E; [reflexivity|].
    cbn [map fst]. rewrite IH; [reflexivity|].
    destruct H as [H|H]; [subst; rewrite str_eqb_refl in E; discriminate | exact H].
  Qed.

  Lemma alist_set_nodup k v l : NoDup (map fst l) -> NoDup (map fst (alist_set str_eqb k v l)).
  Proof.
    intros H. destruct (in_dec (list_eq_dec N.eq_dec) k (map fst l)) as [Hin|Hnin].
    - rewrite alist_set_keys by exact Hin. exact H.
    - rewrite alist_set_fresh by exact Hnin. rewrite map_app. cbn [map fst].
      apply Permutation_NoDup with (l := k :: map fst l);
        [apply Permutation_cons_append | constructor; assumption].
  Qed.

  Lemma alist_set_forall (P : str * V -> Prop) k v l :
    Forall P l -> P (k, v) -> (forall k' v', P (k', v') -> str_eqb k k' = true -> P (k', v)) ->
    Forall P (alist_set str_eqb k v l).
  Proof.
    intros Hl Hkv Hrep. induction Hl as [|[k' v'] l Hx Hl IH]; cbn [alist_set].
    - constructor; [exact Hkv | constructor].
    - destruct (str_eqb k k') eqn:E.
      + constructor; [eapply Hrep; eassumption | exact Hl].
      + constructor; assumption.
  Qed.

  Lemma alist_get_set n k v l :
    alist_get str_eqb n (alist_set str_eqb k v l) = if str_eqb n k then Some v else alist_get str_eqb n l.
  Proof.
    induction l as [|[k' v'] l IH]; cbn [alist_set alist_get].
    - reflexivity.
    - destruct (str_eqb k k') eqn:E.
      + apply str_eqb_eq in E. subst k'. cbn [alist_get]. destruct (str_eqb n k); reflexivity.
      + cbn [alist_get]. rewrite IH. destruct (str_eqb n k') eqn:E'; [|reflexivity].
        apply str_eqb_eq in E'. subst k'. rewrite str_eqb_sym, E. reflexivity.
  Qed.
End Alist.

Lemma insert_sorted_perm x l : Permutation (insert_sorted x l) (x :: l).
Proof.
  induction l as [|y r IH]; cbn [insert_sorted]; [reflexivity|].
  destruct (str_leb x y); [reflexivity|].
  rewrite IH. apply perm_swap.
Qed.

Lemma sort_strs_perm l : Permutation (sort_strs l) l.
Proof.
  unfold sort_strs. induction l as [|x l IH]; cbn [fold_right]; [reflexivity|].
  rewrite insert_sorted_perm. constructor. exact IH.
Qed.

Lemma mem_str_in x l : mem_str x l = true <-> In x l.
Proof.
  unfold mem_str. rewrite existsb_exists. split.
  - intros [y [Hy E]]. apply str_eqb_eq in E. subst. exact Hy.
  - intros H. exists x. split; [exact H | apply str_eqb_refl].
Qed.

(* ========================================================================= *)
(* 2. sorted_items                                                             *)
(* ========================================================================= *)

Definition key_is_name (kv : str * member) : Prop := fst kv = member_name (snd kv).

Definition lookup_item (d : list (str * member)) (k : str) : list member :=
  match alist_get str_eqb k d with Some v => [v] | None => [] end.

Lemma sorted_items_unfold d : sorted_items d = flat_map (lookup_item d) (sort_strs (map fst d)).
Proof. reflexivity. Qed.

Lemma items_names d ks :
  Forall key_is_name d -> (forall k, In k ks -> In k (map fst d)) ->
  map member_name (flat_map (lookup_item d) ks) = ks.
Proof.
  intros Hd. induction ks as [|k ks IH]; intros Hin; cbn [flat_map map]; [reflexivity|].
  unfold lookup_item at 1. destruct (alist_get str_eqb k d) as [v|] eqn:E.
  - cbn [app map]. rewrite IH by (intros; apply Hin; right; assumption).
    f_equal. apply alist_get_some_in in E. rewrite Forall_forall in Hd. symmetry. apply (Hd _ E).
  - exfalso. apply alist_get_none_notin in E. apply E, Hin. left; reflexivity.
Qed.

Lemma sorted_items_names d :
  Forall key_is_name d -> map member_name (sorted_items d) = sort_strs (map fst d).
Proof.
  intros Hd. rewrite sorted_items_unfold. apply items_names; [exact Hd|].
  intros k Hk. eapply Permutation_in; [apply sort_strs_perm | exact Hk].
Qed.

Lemma sorted_items_nodup d :
  Forall key_is_name d -> NoDup (map fst d) -> NoDup (map member_name (sorted_items d)).
Proof.
  intros Hd Hn. rewrite sorted_items_names by exact Hd.
  eapply Permutation_NoDup; [symmetry; apply sort_strs_perm | exact Hn].
Qed.

Lemma sorted_items_forall (P : member -> Prop) d :
  Forall (fun kv => P (snd kv)) d -> Forall P (sorted_items d).
Proof.
  intros Hd. rewrite sorted_items_unfold. apply Forall_flat_map. apply Forall_forall. intros k _.
  unfold lookup_item. destruct (alist_get str_eqb k d) as [v|] eqn:E; [|constructor].
  constructor; [|constructor]. apply alist_get_some_in in E. rewrite Forall_forall in Hd. apply (Hd _ E).
Qed.

(* looking a name up in the rebuilt dictionary = looking it up in the original *)
Lemma items_lookup (g : member -> member) d n ks :
  Forall key_is_name d ->
  alist_get str_eqb n (map (fun m => (member_name m, g m)) (flat_map (lookup_item d) ks))
  = if mem_str n ks then option_map g (alist_get str_eqb n d) else None.
Proof.
  intros Hd. induction ks as [|k ks IH]; cbn [flat_map map alist_get]; [reflexivity|].
  unfold mem_str in *. cbn [existsb]. unfold lookup_item at 1.
  destruct (alist_get str_eqb k d) as [v|] eqn:E.
  - cbn [app map alist_get].
    assert (Hk : member_name v = k).
    { apply alist_get_some_in in E. rewrite Forall_forall in Hd. symmetry. apply (Hd _ E). }
    rewrite Hk. destruct (str_eqb n k) eqn:En.
    + apply str_eqb_eq in En. subst n. rewrite E. reflexivity.
    + cbn [orb]. exact IH.
  - cbn [app]. rewrite IH. destruct (str_eqb n k) eqn:En; [|reflexivity].
    apply str_eqb_eq in En. subst n. rewrite E. cbn [orb option_map].
    destruct (existsb (str_eqb k) ks); reflexivity.
Qed.

Lemma sorted_items_lookup (g : member -> member) d n :
  Forall key_is_name d ->
  alist_get str_eqb n (map (fun m => (member_name m, g m)) (sorted_items d))
  = option_map g (alist_get str_eqb n d).
Proof.
  intros Hd. rewrite sorted_items_unfold, items_lookup by exact Hd.
  destruct (mem_str n (sort_strs (map fst d))) eqn:E; [reflexivity|].
  assert (Hn : ~ In n (map fst d)).
  { intros H. assert (H' : In n (sort_strs (map fst d)))
      by (eapply Permutation_in; [symmetry; apply sort_strs_perm | exact H]).
    apply mem_str_in in H'. congruence. }
  apply alist_get_none_notin in Hn. rewrite Hn. reflexivity.
Qed.

(* ========================================================================= *)
(* 3. running the handler                                                      *)
(* ========================================================================= *)

Lemma run_app sk evs1 : forall st evs2,
  run sk st (evs1 ++ evs2) = do st' <- run sk st evs1; run sk st' evs2.
Proof.
  induction evs1 as [|e evs1 IH]; intros st evs2; cbn [app run bind]; [reflexivity|].
  destruct (step sk st e); cbn [bind]; [apply IH | reflexivity].
Qed.

Lemma run_app_ok sk st st' evs1 evs2 :
  run sk st evs1 = Ok st' -> run sk st (evs1 ++ evs2) = run sk st' evs2.
Proof. intros H. rewrite run_app, H. reflexivity. Qed.

(* the handler is inside a freshly created interface object [obj], the last
   object of the heap *)
Definition bstate h0 kn out obj mem locs ism : hstate :=
  mkH (h0 ++ [obj]) kn out mem locs ism (Some (length h0)) false.

Definition in_block (st : hstate) h0 kn out obj : Prop :=
  exists mem locs ism, st = bstate h0 kn out obj mem locs ism.

Lemma nth_error_last {A} (h0 : list A) x : nth_error (h0 ++ [x]) (length h0) = Some x.
Proof. induction h0; cbn; auto. Qed.

Lemma heap_upd_last h0 x f : heap_upd (length h0) f (h0 ++ [x]) = h0 ++ [f x].
Proof. induction h0 as [|y h0 IH]; cbn [length app heap_upd]; [reflexivity | rewrite IH; reflexivity]. Qed.

Lemma of_nat_not_m1 n : (Z.of_nat n =? -1)%Z = false.
Proof. apply Z.eqb_neq. lia. Qed.

(* an event that leaves a skipping handler skipping *)
Definition inert (e : event) : Prop :=
  match e with EvStart _ _ => True | EvEnd tag => str_eqb tag t_interface = false end.

Lemma run_skip sk st evs : Forall inert evs -> h_skip st = true -> run sk st evs = Ok st.
Proof.
  intros H Hs. induction H as [|e evs He _ IH]; cbn [run]; [reflexivity|].
  assert (E : step sk st e = Ok st).
  { destruct e as [tag attrs|tag]; cbn [step]; rewrite Hs; [reflexivity|].
    cbn [inert] in He. rewrite He. reflexivity. }
  rewrite E. cbn [bind]. exact IH.
Qed.

Lemma inert_flat_map {A} (f : A -> list event) l :
  (forall x, Forall inert (f x)) -> Forall inert (flat_map f l).
Proof. intros H. apply Forall_flat_map. apply Forall_forall. intros; apply H. Qed.

(* --- arguments ---------------------------------------------------------- *)

Lemma run_args_in sk h0 kn out obj l : forall m,
  run sk (bstate h0 kn out obj (Some (MMeth m)) [] true) (flat_map arg_in l)
  = Ok (bstate h0 kn out obj
          (Some (MMeth (mkMeth (m_name m) (m_nargs m + Z.of_nat (length l)) (m_nret m)
                               (m_sigIn m ++ concat l) (m_sigOut m)))) [] true).
Proof.
  induction l as [|t l IH]; intros m.
  - cbn [flat_map run length concat]. rewrite Z.add_0_r, app_nil_r. destruct m; reflexivity.
  - cbn [flat_map]. rewrite run_app_ok with
      (st' := bstate h0 kn out obj
                (Some (MMeth (mkMeth (m_name m) (m_nargs m + 1) (m_nret m) (m_sigIn m ++ t) (m_sigOut m)))) [] true)
      by reflexivity.
    rewrite IH. cbn [m_name m_nargs m_nret m_sigIn m_sigOut length concat].
    rewrite Nat2Z.inj_succ, <- app_assoc. do 5 f_equal. lia.
Qed.

Lemma run_args_out sk h0 kn out obj l : forall m,
  run sk (bstate h0 kn out obj (Some (MMeth m)) [] true) (flat_map arg_out l)
  = Ok (bstate h0 kn out obj
          (Some (MMeth (mkMeth (m_name m) (m_nargs m) (m_nret m + Z.of_nat (length l))
                               (m_sigIn m) (m_sigOut m ++ concat l)))) [] true).
Proof.
  induction l as [|t l IH]; intros m.
  - cbn [flat_map run length concat]. rewrite Z.add_0_r, app_nil_r. destruct m; reflexivity.
  - cbn [flat_map]. rewrite run_app_ok with
      (st' := bstate h0 kn out obj
                (Some (MMeth (mkMeth (m_name m) (m_nargs m) (m_nret m + 1) (m_sigIn m) (m_sigOut m ++ t)))) [] true)
      by reflexivity.
    rewrite IH. cbn [m_name m_nargs m_nret m_sigIn m_sigOut length concat].
    rewrite Nat2Z.inj_succ, <- app_assoc. do 5 f_equal. lia.
Qed.

Lemma run_args_sig sk h0 kn out obj l : forall s,
  run sk (bstate h0 kn out obj (Some (MSig s)) [] false) (flat_map arg_sig l)
  = Ok (bstate h0 kn out obj
          (Some (MSig (mkSgnl (s_name s) (s_nargs s + Z.of_nat (length l)) (s_sig s ++ concat l)))) [] false).
Proof.
  induction l as [|t l IH]; intros s.
  - cbn [flat_map run length concat]. rewrite Z.add_0_r, app_nil_r. destruct s; reflexivity.
  - cbn [flat_map]. rewrite run_app_ok with
      (st' := bstate h0 kn out obj
                (Some (MSig (mkSgnl (s_name s) (s_nargs s + 1) (s_sig s ++ t)))) [] false)
      by reflexivity.
    rewrite IH. cbn [s_name s_nargs s_sig length concat].
    rewrite Nat2Z.inj_succ, <- app_assoc. do 5 f_equal. lia.
Qed.

(* --- one member ------------------------------------------------------------ *)

(* members as the declaring API leaves them: counts agree with the splitter *)
Definition meth_ok (m : member) : Prop :=
  exists x ins outs, m = MMeth x /\
    gen_complete_types (m_sigIn x) = Ok ins /\ gen_complete_types (m_sigOut x) = Ok outs /\
    m_nargs x = Z.of_nat (length ins) /\ m_nret x = Z.of_nat (length outs).

Definition sig_ok (m : member) : Prop :=
  exists x args, m = MSig x /\ gen_complete_types (s_sig x) = Ok args /\
    s_nargs x = Z.of_nat (length args).

Definition prop_ok (m : member) : Prop :=
  exists p, m = MProp p /\ In (p_access p) [s_read; s_write; s_readwrite].

(* what the parser makes of a property: the notification mode becomes a bool *)
Definition norm_prop (m : member) : member :=
  match m with
  | MProp p => MProp (mkProp (p_name p) (p_sig p) (p_access p)
                             (EmBool (mem_str (emits_text (p_emits p)) [s_true; s_invalidates])))
  | _ => m
  end.

(* running the events of one member inside a block adds [g m] to dictionary k *)
Definition member_runs (k : kind) (g : member -> member) (m : member) (evs : list event) : Prop :=
  Forall inert evs /\
  forall sk st h0 kn out obj, in_block st h0 kn out obj ->
    exists st', run sk st evs = Ok st' /\ in_block st' h0 kn out (dict_put k obj (g m)).

Lemma gen_method_ok m : meth_ok m ->
  exists evs, gen_method m = Ok evs /\ member_runs KMeth (fun x => x) m evs.
Proof.
  intros [x [ins [outs [-> [Hi [Ho [Hn Hr]]]]]]].
  exists (method_events (m_name x) ins outs). split; [cbn [gen_method]; rewrite Hi, Ho; reflexivity|].
  split.
  - unfold method_events. constructor; [exact I|].
    apply Forall_app; split; [apply inert_flat_map; intros; repeat constructor|].
    apply Forall_app; split; [apply inert_flat_map; intros; repeat constructor | repeat constructor].
  - intros sk st h0 kn out obj [mem [locs [ism ->]]].
    eexists. split; [|exists (Some (MMeth x)), [(length h0, KMeth)], true; reflexivity].
    unfold method_events.
    change (run sk (bstate h0 kn out obj mem locs ism)
              (EvStart t_method [(a_name, m_name x)]
               :: flat_map arg_in ins ++ flat_map arg_out outs ++ [EvEnd t_method]))
      with (run sk (bstate h0 kn out obj (Some (MMeth (mkMeth (m_name x) 0 0 [] []))) [] true)
              (flat_map arg_in ins ++ flat_map arg_out outs ++ [EvEnd t_method])).
    rewrite (run_app_ok _ _ _ _ _ (run_args_in sk h0 kn out obj ins _)).
    rewrite (run_app_ok _ _ _ _ _ (run_args_out sk h0 kn out obj outs _)).
    cbn [m_name m_nargs m_nret m_sigIn m_sigOut app].
    rewrite (gen_complete_types_concat _ _ Hi), (gen_complete_types_concat _ _ Ho).
    rewrite !Z.add_0_l, <- Hn, <- Hr.
    replace (mkMeth (m_name x) (m_nargs x) (m_nret x) (m_sigIn x) (m_sigOut x)) with x by (destruct x; reflexivity).
    cbn [run]. unfold bstate at 1.
    change (step sk _ (EvEnd t_method))
      with (store (mkH (h0 ++ [obj]) kn out (Some (MMeth x)) [] true (Some (length h0)) false) KMeth add_method).
    unfold store. cbn [h_cur h_heap h_member]. rewrite nth_error_last.
    cbn [add_method]. rewrite Hn, of_nat_not_m1. cbn [bind fst snd].
    rewrite heap_upd_last. reflexivity.
Qed.

Lemma gen_signal_ok m : sig_ok m ->
  exists evs, gen_signal m = Ok evs /\ member_runs KSig (fun x => x) m evs.
Proof.
  intros [x [args [-> [Ha Hn]]]].
  exists (signal_events (s_name x) args). split; [cbn [gen_signal]; rewrite Ha; reflexivity|].
  split.
  - unfold signal_events. constructor; [exact I|].
    apply Forall_app; split; [apply inert_flat_map; intros; repeat constructor | repeat constructor].
  - intros sk st h0 kn out obj [mem [locs [ism ->]]].
    eexists. split; [|exists (Some (MSig x)), [(length h0, KSig)], false; reflexivity].
    unfold signal_events.
    change (run sk (bstate h0 kn out obj mem locs ism)
              (EvStart t_signal [(a_name, s_name x)] :: flat_map arg_sig args ++ [EvEnd t_signal]))
      with (run sk (bstate h0 kn out obj (Some (MSig (mkSgnl (s_name x) 0 []))) [] false)
              (flat_map arg_sig args ++ [EvEnd t_signal])).
    rewrite (run_app_ok _ _ _ _ _ (run_args_sig sk h0 kn out obj args _)).
    cbn [s_name s_nargs s_sig app].
    rewrite (gen_complete_types_concat _ _ Ha), Z.add_0_l, <- Hn.
    replace (mkSgnl (s_name x) (s_nargs x) (s_sig x)) with x by (destruct x; reflexivity).
    cbn [run]. unfold bstate at 1.
    change (step sk _ (EvEnd t_signal))
      with (store (mkH (h0 ++ [obj]) kn out (Some (MSig x)) [] false (Some (length h0)) false) KSig add_signal).
    unfold store. cbn [h_cur h_heap h_member]. rewrite nth_error_last.
    cbn [add_signal]. rewrite Hn, of_nat_not_m1. cbn [bind fst snd].
    rewrite heap_upd_last. reflexivity.
Qed.

Lemma gen_property_ok m : prop_ok m ->
  exists evs, gen_property m = Ok evs /\ member_runs KProp norm_prop m evs.
Proof.
  intros [p [-> Hacc]].
  exists (property_events (p_name p) (p_sig p) (p_access p) (p_emits p)). split; [reflexivity|].
  split; [repeat constructor|].
  intros sk st h0 kn out obj [mem [locs [ism ->]]].
  eexists. split; [|exists (Some (norm_prop (MProp p))), [(length h0, KProp)], false; reflexivity].
  destruct p as [n sg acc em]. cbn [p_name p_sig p_access p_emits norm_prop] in *.
  set (np := MProp (mkProp n sg acc (EmBool (mem_str (emits_text em) [s_true; s_invalidates])))).
  assert (E : run sk (bstate h0 kn out obj mem locs ism) (property_events n sg acc em)
              = bind (store (bstate h0 kn out obj (Some np) [] false) KProp add_property) (fun st' => Ok st')).
  { subst np. destruct Hacc as [<-|[<-|[<-|[]]]]; reflexivity. }
  rewrite E. unfold store, bstate. cbn [h_cur h_heap h_member]. rewrite nth_error_last.
  cbn [add_property bind fst snd]. rewrite heap_upd_last. reflexivity.
Qed.

(* --- all members of one kind ------------------------------------------------ *)

Lemma run_members k g genf (ok : member -> Prop) :
  (forall m, ok m -> exists evs, genf m = Ok evs /\ member_runs k g m evs) ->
  forall ms, Forall ok ms ->
  exists evss, map_res genf ms = Ok evss /\ Forall inert (concat evss) /\
    forall sk st h0 kn out obj, in_block st h0 kn out obj ->
      exists st', run sk st (concat evss) = Ok st' /\
        in_block st' h0 kn out (fold_left (fun o m => dict_put k o (g m)) ms obj).
Proof.
  intros Hgen ms Hms. induction Hms as [|m ms Hm _ IH].
  - exists []. split; [reflexivity|]. split; [constructor|].
    intros sk st h0 kn out obj Hb. exists st. split; [reflexivity | exact Hb].
  - destruct (Hgen m Hm) as [evs [Eg [Hinert Hrun]]]. destruct IH as [evss [Em [Hinert' Hrun']]].
    exists (evs :: evss). split; [cbn [map_res]; rewrite Eg, Em; reflexivity|].
    split; [cbn [concat]; apply Forall_app; split; assumption|].
    intros sk st h0 kn out obj Hb. cbn [concat fold_left].
    destruct (Hrun sk st h0 kn out obj Hb) as [st1 [E1 Hb1]].
    destruct (Hrun' sk st1 h0 kn out _ Hb1) as [st2 [E2 Hb2]].
    exists st2. split; [rewrite (run_app_ok _ _ _ _ _ E1); exact E2 | exact Hb2].
Qed.

Lemma dict_of_set_dict k i d : dict_of k (set_dict k i d) = d.
Proof. destruct k; reflexivity. Qed.

Lemma set_dict_set_dict k i d1 d2 : set_dict k (set_dict k i d1) d2 = set_dict k i d2.
Proof. destruct k; reflexivity. Qed.

Lemma set_dict_same k i : set_dict k i (dict_of k i) = i.
Proof. destruct k, i; reflexivity. Qed.

Lemma fold_dict_put k g ms :
  (forall m, member_name (g m) = member_name m) -> NoDup (map member_name ms) ->
  forall obj, (forall m, In m ms -> ~ In (member_name m) (map fst (dict_of k obj))) ->
  fold_left (fun o m => dict_put k o (g m)) ms obj
  = set_dict k obj (dict_of k obj ++ map (fun m => (member_name m, g m)) ms).
Proof.
  intros Hg. induction ms as [|m ms IH]; intros Hnd obj Hfresh; cbn [fold_left map].
  - rewrite app_nil_r. symmetry. apply set_dict_same.
  - cbn [map] in Hnd. apply NoDup_cons_iff in Hnd as [Hm Hnd].
    unfold dict_put at 2. rewrite Hg.
    rewrite alist_set_fresh by (apply Hfresh; left; reflexivity).
    rewrite IH; [|exact Hnd|].
    + rewrite dict_of_set_dict, set_dict_set_dict, <- app_assoc. reflexivity.
    + intros m' Hm'. rewrite dict_of_set_dict, map_app. cbn [map fst]. intros Hin.
      apply in_app_or in Hin as [Hin|[Hin|[]]].
      * apply (Hfresh m' (or_intror Hm') Hin).
      * apply Hm. rewrite Hin. apply in_map. exact Hm'.
Qed.

(* --- one interface block ------------------------------------------------------ *)

(* interface objects as the declaring API (DBusInterface + addX) leaves them *)
Definition dict_ok (ok : member -> Prop) (d : list (str * member)) : Prop :=
  NoDup (map fst d) /\ Forall key_is_name d /\ Forall (fun kv => ok (snd kv)) d.

Definition consistent (i : iface) : Prop :=
  dict_ok meth_ok (i_methods i) /\ dict_ok sig_ok (i_signals i) /\ dict_ok prop_ok (i_props i).

(* what parsing the generated XML of i yields: members in name order, the
   notification mode of each property turned into a bool *)
Definition normalise (i : iface) : iface :=
  mkIface (i_name i)
          (map (fun m => (member_name m, m)) (sorted_items (i_methods i)))
          (map (fun m => (member_name m, m)) (sorted_items (i_signals i)))
          (map (fun m => (member_name m, norm_prop m)) (sorted_items (i_props i))).

Lemma norm_prop_name m : member_name (norm_prop m) = member_name m.
Proof. destruct m; reflexivity. Qed.

Lemma gen_iface_runs i : consistent i ->
  exists body, gen_iface i = Ok (EvStart t_interface [(a_name, i_name i)] :: body ++ [EvEnd t_interface]) /\
    Forall inert body /\
    forall sk st h0 kn out, in_block st h0 kn out (mkIface (i_name i) [] [] []) ->
      exists st', run sk st body = Ok st' /\ in_block st' h0 kn out (normalise i).
Proof.
  intros [[Mn [Mk Mo]] [[Sn [Sk So]] [Pn [Pk Po]]]].
  destruct (run_members KMeth (fun x => x) gen_method meth_ok gen_method_ok _
              (sorted_items_forall _ _ Mo)) as [ms [Em [Im Rm]]].
  destruct (run_members KSig (fun x => x) gen_signal sig_ok gen_signal_ok _
              (sorted_items_forall _ _ So)) as [ss [Es [Is Rs]]].
  destruct (run_members KProp norm_prop gen_property prop_ok gen_property_ok _
              (sorted_items_forall _ _ Po)) as [ps [Ep [Ip Rp]]].
  exists (concat ms ++ concat ss ++ concat ps). split.
  - unfold gen_iface. rewrite Em, Es, Ep. cbn [bind]. rewrite <- !app_assoc. reflexivity.
  - split; [repeat (apply Forall_app; split); assumption|].
    intros sk st h0 kn out Hb.
    destruct (Rm sk st h0 kn out _ Hb) as [st1 [E1 Hb1]].
    destruct (Rs sk st1 h0 kn out _ Hb1) as [st2 [E2 Hb2]].
    destruct (Rp sk st2 h0 kn out _ Hb2) as [st3 [E3 Hb3]].
    exists st3. split.
    + rewrite (run_app_ok _ _ _ _ _ E1), (run_app_ok _ _ _ _ _ E2). exact E3.
    + pose proof (fold_dict_put KMeth (fun x => x) (sorted_items (i_methods i))
                    (fun _ => eq_refl) (sorted_items_nodup _ Mk Mn)
                    (mkIface (i_name i) [] [] []) (fun _ _ H => H)) as F1.
      cbn [dict_of set_dict app i_name i_methods i_signals i_props] in F1.
      rewrite F1 in Hb3.
      pose proof (fold_dict_put KSig (fun x => x) (sorted_items (i_signals i))
                    (fun _ => eq_refl) (sorted_items_nodup _ Sk Sn)
                    (mkIface (i_name i) (map (fun m => (member_name m, m)) (sorted_items (i_methods i))) [] [])
                    (fun _ _ H => H)) as F2.
      cbn [dict_of set_dict app i_name i_methods i_signals i_props] in F2.
      rewrite F2 in Hb3.
      pose proof (fold_dict_put KProp norm_prop (sorted_items (i_props i))
                    norm_prop_name (sorted_items_nodup _ Pk Pn)
                    (mkIface (i_name i) (map (fun m => (member_name m, m)) (sorted_items (i_methods i)))
                             (map (fun m => (member_name m, m)) (sorted_items (i_signals i))) [])
                    (fun _ _ H => H)) as F3.
      cbn [dict_of set_dict app i_name i_methods i_signals i_props] in F3.
      rewrite F3 in Hb3.
      exact Hb3.
Qed.

(* ========================================================================= *)
(* 4. whole blocks and documents, as transitions of (heap, known, result)      *)
(* ========================================================================= *)

Definition world : Type := list iface * list (str * nat) * list nat.
Definition world_of (st : hstate) : world := (h_heap st, h_known st, h_out st).

(* The cache rule applied to one interface block whose declared content is i *)
Definition expect_block (replace : bool) (w : world) (i : iface) : world :=
  match w with
  | (heap, known, out) =>
      match reuse replace known (i_name i) with
      | Some id => (heap, known, out ++ [id])
      | None => (heap ++ [normalise i], alist_set str_eqb (i_name i) (length heap) known,
                 out ++ [length heap])
      end
  end.

Lemma step_start_interface sk st attrs :
  h_skip st = false -> step sk st (EvStart t_interface attrs) = start_interface sk st attrs.
Proof. intros H. cbn [step]. rewrite H. reflexivity. Qed.

Lemma step_end_interface sk st : step sk st (EvEnd t_interface) = Ok (end_interface st).
Proof. cbn [step]. destruct (h_skip st); reflexivity. Qed.

Lemma run_block replace i : consistent i ->
  exists evs, gen_iface i = Ok evs /\
    forall st, h_skip st = false ->
      exists st', run (negb replace) st evs = Ok st' /\ h_skip st' = false /\
                  world_of st' = expect_block replace (world_of st) i.
Proof.
  intros Hc. destruct (gen_iface_runs i Hc) as [body [Eg [Hin Hrun]]].
  eexists; split; [exact Eg|]. intros st Hs.
  destruct st as [heap known out mem locs ism cur skip]. cbn [h_skip] in Hs. subst skip.
  cbn [run]. rewrite step_start_interface by reflexivity.
  unfold start_interface. change (attr a_name [(a_name, i_name i)]) with (Ok (i_name i)).
  cbn [bind h_known h_heap h_out h_member h_locs h_isMethod h_cur h_skip].
  unfold world_of, expect_block, reuse. cbn [h_known h_heap h_out].
  assert (Hnew : exists st',
    run (negb replace)
        (mkH (heap ++ [mkIface (i_name i) [] [] []]) (alist_set str_eqb (i_name i) (length heap) known)
             (out ++ [length heap]) mem locs ism (Some (length heap)) false)
        (body ++ [EvEnd t_interface]) = Ok st' /\ h_skip st' = false /\
    (h_heap st', h_known st', h_out st')
    = (heap ++ [normalise i], alist_set str_eqb (i_name i) (length heap) known, out ++ [length heap])).
  { destruct (Hrun (negb replace) _ heap (alist_set str_eqb (i_name i) (length heap) known)
                   (out ++ [length heap])
                   (ex_intro _ mem (ex_intro _ locs (ex_intro _ ism eq_refl))))
      as [st1 [E1 [mem1 [locs1 [ism1 ->]]]]].
    eexists. rewrite (run_app_ok _ _ _ _ _ E1). cbn [run]. rewrite step_end_interface. cbn [bind].
    split; [reflexivity|]. split; reflexivity. }
  destruct replace; cbn [negb]; [exact Hnew|].
  destruct (alist_get str_eqb (i_name i) known) as [id|] eqn:E; [|exact Hnew].
  cbn [bind]. eexists. rewrite run_app_ok with (st' := mkH heap known (out ++ [id]) mem locs ism cur true)
    by (apply run_skip; [exact Hin | reflexivity]).
  cbn [run]. rewrite step_end_interface. cbn [bind]. split; [reflexivity|]. split; reflexivity.
Qed.

Lemma run_blocks replace ifs : Forall consistent ifs ->
  exists evss, map_res gen_iface ifs = Ok evss /\
    forall st, h_skip st = false ->
      exists st', run (negb replace) st (concat evss) = Ok st' /\ h_skip st' = false /\
                  world_of st' = fold_left (expect_block replace) ifs (world_of st).
Proof.
  induction 1 as [|i ifs Hi _ IH].
  - exists []. split; [reflexivity|]. intros st Hs. exists st. split; [reflexivity|]. split; [exact Hs | reflexivity].
  - destruct (run_block replace i Hi) as [evs [Eg Hrun]]. destruct IH as [evss [Em Hruns]].
    exists (evs :: evss). split; [cbn [map_res]; rewrite Eg, Em; reflexivity|].
    intros st Hs. destruct (Hrun st Hs) as [st1 [E1 [Hs1 W1]]].
    destruct (Hruns st1 Hs1) as [st2 [E2 [Hs2 W2]]].
    exists st2. cbn [concat fold_left]. rewrite (run_app_ok _ _ _ _ _ E1).
    split; [exact E2|]. split; [exact Hs2|]. rewrite W2, W1. reflexivity.
Qed.

(* --- the standard interfaces of _intro ---------------------------------------- *)

Definition std_ifaces : list iface :=
  [ mkIface n_introspectable [(n_Introspect, MMeth (mkMeth n_Introspect 0 1 [] sig_s))] [] [];
    mkIface n_peer [(n_Ping, MMeth (mkMeth n_Ping 0 0 [] []))] [] [];
    mkIface n_objectmanager
            [(n_GetManagedObjects, MMeth (mkMeth n_GetManagedObjects 0 1 [] sig_managed))] [] [] ].

Lemma dict_ok_nil ok : dict_ok ok [].
Proof. repeat split; constructor. Qed.

Lemma std_consistent : Forall consistent std_ifaces.
Proof.
  assert (S1 : forall n x, meth_ok (MMeth x) -> n = m_name x -> dict_ok meth_ok [(n, MMeth x)]).
  { intros n x Hx ->. repeat split.
    - constructor; [intros [] | constructor].
    - constructor; [reflexivity | constructor].
    - constructor; [exact Hx | constructor]. }
  unfold std_ifaces.
  constructor; [|constructor; [|constructor; [|constructor]]];
    (split; [|split; apply dict_ok_nil]); apply S1; try reflexivity.
  - exists (mkMeth n_Introspect 0 1 [] sig_s), [], [sig_s]. repeat split; reflexivity.
  - exists (mkMeth n_Ping 0 0 [] []), [], []. repeat split; reflexivity.
  - exists (mkMeth n_GetManagedObjects 0 1 [] sig_managed), [], [sig_managed]. repeat split; reflexivity.
Qed.

(* the literal _intro block is what _getXml would print for them *)
Lemma intro_events_gen :
  exists evss, map_res gen_iface std_ifaces = Ok evss /\ concat evss = intro_events.
Proof. eexists. split; [vm_compute; reflexivity | reflexivity]. Qed.

Lemma std_normal : map normalise std_ifaces = std_ifaces.
Proof. reflexivity. Qed.

(* --- a whole document ------------------------------------------------------------ *)

Definition node_event (e : event) : Prop :=
  match e with EvStart tag _ => tag = t_node | EvEnd tag => tag = t_node end.

Lemma run_nodes sk st evs : Forall node_event evs -> h_skip st = false -> run sk st evs = Ok st.
Proof.
  intros H Hs. induction H as [|e evs He _ IH]; cbn [run]; [reflexivity|].
  assert (E : step sk st e = Ok st).
  { destruct e as [tag attrs|tag]; cbn [node_event] in He; subst tag; cbn [step]; rewrite Hs; reflexivity. }
  rewrite E. exact IH.
Qed.

Definition result_of (w : world) : list nat * list iface * list (str * nat) :=
  match w with (heap, known, out) => (out, heap, known) end.

Lemma parse_doc replace heap known path exported ifs :
  alist_get str_eqb path exported = Some ifs -> Forall consistent ifs ->
  exists evs, gen_doc path exported = Ok (Some evs) /\
    parse replace heap known evs
    = Ok (result_of (fold_left (expect_block replace) (ifs ++ std_ifaces) (heap, known, []))).
Proof.
  intros Hobj Hc.
  destruct (run_blocks replace ifs Hc) as [evss [Em Hrun]].
  destruct (run_blocks replace std_ifaces std_consistent) as [evss' [Em' Hrun']].
  destruct intro_events_gen as [evss0 [Em0 Ec0]]. rewrite Em0 in Em'. injection Em' as <-.
  unfold gen_doc. rewrite Hobj, Em. cbn [bind].
  set (children := flat_map (fun m => empty_elem t_node [(a_name, m)]) _).
  eexists. split.
  { destruct (child_names _ _); reflexivity. }
  unfold parse. cbn [run].
  change (step (negb replace) (init_state heap known) (EvStart t_node [(a_name, path)]))
    with (Ok (init_state heap known)).
  cbn [bind]. rewrite <- app_assoc.
  destruct (Hrun (init_state heap known) eq_refl) as [st1 [E1 [Hs1 W1]]].
  rewrite (run_app_ok _ _ _ _ _ E1). rewrite <- Ec0.
  destruct (Hrun' st1 Hs1) as [st2 [E2 [Hs2 W2]]].
  rewrite (run_app_ok _ _ _ _ _ E2).
  rewrite run_nodes; [|idtac|exact Hs2].
  - cbn [bind]. rewrite fold_left_app. change (heap, known, []) with (world_of (init_state heap known)).
    rewrite <- W1, <- W2. reflexivity.
  - apply Forall_app. split; [|repeat constructor].
    subst children. apply Forall_flat_map. apply Forall_forall. intros; repeat constructor.
Qed.

(* ========================================================================= *)
(* 5. the two readings of the cache rule                                        *)
(* ========================================================================= *)

(* every interface of the list registered, in order, under consecutive indices *)
Definition register_all (ifs : list iface) (base : nat) (known : list (str * nat)) : list (str * nat) :=
  fold_left (fun k p => alist_set str_eqb (i_name (fst p)) (snd p) k)
            (combine ifs (seq base (length ifs))) known.

Definition fresh (replace : bool) (known : list (str * nat)) (ifs : list iface) : Prop :=
  replace = true \/
  (NoDup (map i_name ifs) /\ forall i, In i ifs -> alist_get str_eqb (i_name i) known = None).

Lemma expect_fresh replace ifs : forall heap known out,
  fresh replace known ifs ->
  fold_left (expect_block replace) ifs (heap, known, out)
  = (heap ++ map normalise ifs, register_all ifs (length heap) known,
     out ++ seq (length heap) (length ifs)).
Proof.
  induction ifs as [|i ifs IH]; intros heap known out H.
  - cbn. rewrite !app_nil_r. reflexivity.
  - cbn [fold_left expect_block].
    assert (E : reuse replace known (i_name i) = None).
    { destruct H as [->|[_ H]]; [reflexivity|]. unfold reuse. destruct replace; [reflexivity|].
      apply H. left; reflexivity. }
    rewrite E, IH.
    + unfold register_all. cbn [length seq combine fold_left map fst snd].
      rewrite app_length. cbn [length]. rewrite <- !app_assoc. cbn [app].
      replace (length heap + 1)%nat with (S (length heap)) by lia. reflexivity.
    + destruct H as [->|[Hnd H]]; [left; reflexivity | right].
      cbn [map] in Hnd. apply NoDup_cons_iff in Hnd as [Hi Hnd]. split; [exact Hnd|].
      intros i' Hi'. rewrite alist_get_set, str_eqb_neq; [apply H; right; exact Hi'|].
      intros Heq. apply Hi. rewrite <- Heq. apply in_map. exact Hi'.
Qed.

Lemma expect_known ifs : forall ids heap known out,
  Forall2 (fun i id => alist_get str_eqb (i_name i) known = Some id) ifs ids ->
  fold_left (expect_block false) ifs (heap, known, out) = (heap, known, out ++ ids).
Proof.
  intros ids heap known out H. revert out.
  induction H as [|i id ifs ids Hi _ IH]; intros out; cbn [fold_left].
  - rewrite app_nil_r. reflexivity.
  - cbn [expect_block reuse]. rewrite Hi, IH, <- app_assoc. reflexivity.
Qed.

(* ========================================================================= *)
(* 6. what a client observes of an interface object                             *)
(* ========================================================================= *)

Definition observe (i : iface) : observed :=
  mkObs (i_name i)
        (fun n => match alist_get str_eqb n (i_methods i) with
                  | Some (MMeth m) => Some (m_sigIn m, m_sigOut m, m_nargs m, m_nret m)
                  | _ => None end)
        (fun n => match alist_get str_eqb n (i_signals i) with
                  | Some (MSig s) => Some (s_sig s, s_nargs s)
                  | _ => None end)
        (fun n => match alist_get str_eqb n (i_props i) with
                  | Some (MProp p) => Some (p_sig p, p_access p)
                  | _ => None end).

Lemma sorted_items_lookup_id d n :
  Forall key_is_name d ->
  alist_get str_eqb n (map (fun m => (member_name m, m)) (sorted_items d)) = alist_get str_eqb n d.
Proof.
  intros H. pose proof (sorted_items_lookup (fun x => x) d n H) as E. cbv beta in E.
  rewrite E. destruct (alist_get str_eqb n d); reflexivity.
Qed.

Lemma normalise_same i : consistent i -> same_interface (observe (normalise i)) (observe i).
Proof.
  intros [[_ [Mk _]] [[_ [Sk _]] [_ [Pk _]]]].
  split; [reflexivity|]. split; [|split]; intros n; cbn [observe normalise o_method o_signal o_prop
                                                        i_methods i_signals i_props].
  - rewrite sorted_items_lookup_id by exact Mk. reflexivity.
  - rewrite sorted_items_lookup_id by exact Sk. reflexivity.
  - rewrite sorted_items_lookup by exact Pk.
    destruct (alist_get str_eqb n (i_props i)) as [[m|s|p]|]; reflexivity.
Qed.

(* ========================================================================= *)
(* 7. the declaring API produces consistent objects                             *)
(* ========================================================================= *)

Lemma dict_put_ok (ok : member -> Prop) d m :
  dict_ok ok d -> ok m -> dict_ok ok (alist_set str_eqb (member_name m) m d).
Proof.
  intros [Hn [Hk Ho]] Hm. split; [apply alist_set_nodup; exact Hn|]. split.
  - apply alist_set_forall; [exact Hk | reflexivity|].
    intros k' v' _ E. apply str_eqb_eq in E. unfold key_is_name. cbn [fst snd]. congruence.
  - apply alist_set_forall; [exact Ho | exact Hm | intros; exact Hm].
Qed.

Lemma count_types_ok s c :
  count_types s = Ok c -> exists l, gen_complete_types s = Ok l /\ c = Z.of_nat (length l).
Proof.
  unfold count_types. destruct (gen_complete_types s) as [l|]; cbn [bind]; [|discriminate].
  intros H. injection H as <-. exists l. split; reflexivity.
Qed.

Lemma add_decl_consistent i d i' :
  consistent i -> add_decl i d = Ok i' -> consistent i' /\ i_name i' = i_name i.
Proof.
  intros [Hm [Hs Hp]] H. destruct d as [n a r|n a|n sg rd wr e]; cbn [add_decl] in H.
  - cbn [add_method new_method m_nargs m_sigIn m_sigOut m_name] in H.
    change ((-1 =? -1)%Z) with true in H. cbv iota in H.
    destruct (count_types a) as [ca|] eqn:Ea; cbn [bind] in H; [|discriminate].
    destruct (count_types r) as [cr|] eqn:Er; cbn [bind fst] in H; [|discriminate].
    injection H as <-. destruct (count_types_ok _ _ Ea) as [la [Ga ->]].
    destruct (count_types_ok _ _ Er) as [lr [Gr ->]].
    split; [|destruct i; reflexivity]. split; [|split]; [|destruct i; exact Hs | destruct i; exact Hp].
    unfold dict_put. cbn [dict_of]. destruct i as [nm ms ss ps]. cbn [set_dict i_methods] in *.
    apply (dict_put_ok meth_ok ms (MMeth (mkMeth n (Z.of_nat (length la)) (Z.of_nat (length lr)) a r))
             Hm).
    eexists _, la, lr. repeat split; assumption.
  - cbn [add_signal new_signal s_nargs s_sig s_name] in H.
    change ((-1 =? -1)%Z) with true in H. cbv iota in H.
    destruct (count_types a) as [ca|] eqn:Ea; cbn [bind fst] in H; [|discriminate].
    injection H as <-. destruct (count_types_ok _ _ Ea) as [la [Ga ->]].
    split; [|destruct i; reflexivity]. split; [|split]; [destruct i; exact Hm | | destruct i; exact Hp].
    unfold dict_put. cbn [dict_of]. destruct i as [nm ms ss ps]. cbn [set_dict i_signals] in *.
    apply (dict_put_ok sig_ok ss (MSig (mkSgnl n (Z.of_nat (length la)) a)) Hs).
    eexists _, la. repeat split; assumption.
  - cbn [add_property bind fst] in H. injection H as <-.
    split; [|destruct i; reflexivity]. split; [|split]; [destruct i; exact Hm | destruct i; exact Hs |].
    unfold dict_put. cbn [dict_of]. destruct i as [nm ms ss ps]. cbn [set_dict i_props] in *.
    apply (dict_put_ok prop_ok ps (MProp (new_property n sg rd wr e)) Hp).
    eexists. split; [reflexivity|]. cbn [new_property p_access].
    destruct wr, rd; cbn; tauto.
Qed.

Lemma add_decls_consistent ds : forall i i',
  consistent i -> add_decls i ds = Ok i' -> consistent i' /\ i_name i' = i_name i.
Proof.
  induction ds as [|d ds IH]; intros i i' Hc H; cbn [add_decls] in H.
  - injection H as <-. split; [exact Hc | reflexivity].
  - destruct (add_decl i d) as [i1|] eqn:E; cbn [bind] in H; [|discriminate].
    destruct (add_decl_consistent _ _ _ Hc E) as [Hc1 Hn1].
    destruct (IH _ _ Hc1 H) as [Hc' Hn']. split; [exact Hc' | congruence].
Qed.

Lemma new_iface_consistent name ds i :
  new_iface name ds = Ok i -> consistent i /\ i_name i = name.
Proof.
  intros H. apply add_decls_consistent in H; [exact H|].
  repeat split; constructor.
Qed.

(* ========================================================================= *)
(* 8. typed definitions: the declaring API meets the specification              *)
(* ========================================================================= *)

Definition decl_of (d : tdecl) : decl :=
  match d with
  | TMethod n i o => DMeth n (show_list i) (show_list o)
  | TSignal n a => DSig n (show_list a)
  | TProperty n t acc nt =>
      DProp n (show t)
            (match acc with AWrite => false | _ => true end)
            (match acc with ARead => false | _ => true end)
            (match nt with NTrue => EaTrue | NFalse => EaFalse | NInvalidates => EaInvalidates end)
  end.

Lemma fold_last {A D} (f : option A -> D -> option A) :
  (forall acc d, f acc d = match f None d with Some v => Some v | None => acc end) ->
  forall ds acc, fold_left f ds acc = match fold_left f ds None with Some v => Some v | None => acc end.
Proof.
  intros Hf. induction ds as [|d ds IH]; intros acc; cbn [fold_left]; [reflexivity|].
  rewrite (IH (f acc d)), (IH (f None d)), (Hf acc d).
  destruct (fold_left f ds None); [reflexivity|]. destruct (f None d); reflexivity.
Qed.

Lemma count_types_show ts : count_types (show_list ts) = Ok (count ts).
Proof.
  unfold count_types. rewrite gen_complete_types_show. cbn [bind]. rewrite map_length. reflexivity.
Qed.

Definition spec_m (io : list ty * list ty) : str * str * Z * Z :=
  (show_list (fst io), show_list (snd io), count (fst io), count (snd io)).
Definition spec_s (a : list ty) : str * Z := (show_list a, count a).
Definition spec_p (ta : ty * access) : str * str := (show (fst ta), access_name (snd ta)).

Definition over {A B} (f : A -> B) (o : option A) (dflt : option B) : option B :=
  match o with Some a => Some (f a) | None => dflt end.

Lemma add_decl_typed i0 d :
  exists i1, add_decl i0 (decl_of d) = Ok i1 /\ i_name i1 = i_name i0 /\
    (forall n, o_method (observe i1) n = over spec_m (last_method n [d]) (o_method (observe i0) n)) /\
    (forall n, o_signal (observe i1) n = over spec_s (last_signal n [d]) (o_signal (observe i0) n)) /\
    (forall n, o_prop (observe i1) n = over spec_p (last_property n [d]) (o_prop (observe i0) n)).
Proof.
  destruct i0 as [nm ms ss ps].
  destruct d as [m i o|m a|m t acc nt]; cbn [decl_of add_decl].
  - cbn [add_method new_method m_nargs m_sigIn m_sigOut m_name].
    change ((-1 =? -1)%Z) with true. cbv iota. rewrite !count_types_show. cbn [bind fst].
    eexists. split; [reflexivity|]. split; [reflexivity|].
    split; [|split]; intros n; cbn [observe o_method o_signal o_prop dict_put set_dict dict_of
                                    i_methods i_signals i_props i_name member_name m_name
                                    last_method last_signal last_property fold_left over]; try reflexivity.
    rewrite alist_get_set, (str_eqb_sym n m). destruct (str_eqb m n); reflexivity.
  - cbn [add_signal new_signal s_nargs s_sig s_name].
    change ((-1 =? -1)%Z) with true. cbv iota. rewrite !count_types_show. cbn [bind fst].
    eexists. split; [reflexivity|]. split; [reflexivity|].
    split; [|split]; intros n; cbn [observe o_method o_signal o_prop dict_put set_dict dict_of
                                    i_methods i_signals i_props i_name member_name s_name
                                    last_method last_signal last_property fold_left over]; try reflexivity.
    rewrite alist_get_set, (str_eqb_sym n m). destruct (str_eqb m n); reflexivity.
  - cbn [add_property bind fst].
    eexists. split; [reflexivity|]. split; [reflexivity|].
    split; [|split]; intros n; cbn [observe o_method o_signal o_prop dict_put set_dict dict_of
                                    i_methods i_signals i_props i_name member_name p_name new_property
                                    last_method last_signal last_property fold_left over]; try reflexivity.
    rewrite alist_get_set, (str_eqb_sym n m). destruct (str_eqb m n); [|reflexivity].
    destruct acc; reflexivity.
Qed.

Lemma last_method_cons n d ds :
  last_method n (d :: ds) = match last_method n ds with Some v => Some v | None => last_method n [d] end.
Proof.
  unfold last_method. cbn [fold_left]. apply fold_last.
  intros acc [m i o|m a|m t a x]; try reflexivity. destruct (str_eqb m n); reflexivity.
Qed.

Lemma last_signal_cons n d ds :
  last_signal n (d :: ds) = match last_signal n ds with Some v => Some v | None => last_signal n [d] end.
Proof.
  unfold last_signal. cbn [fold_left]. apply fold_last.
  intros acc [m i o|m a|m t a x]; try reflexivity. destruct (str_eqb m n); reflexivity.
Qed.

Lemma last_property_cons n d ds :
  last_property n (d :: ds) = match last_property n ds with Some v => Some v | None => last_property n [d] end.
Proof.
  unfold last_property. cbn [fold_left]. apply fold_last.
  intros acc [m i o|m a|m t a x]; try reflexivity. destruct (str_eqb m n); reflexivity.
Qed.

Lemma add_decls_typed ds : forall i0,
  exists i, add_decls i0 (map decl_of ds) = Ok i /\ i_name i = i_name i0 /\
    (forall n, o_method (observe i) n = over spec_m (last_method n ds) (o_method (observe i0) n)) /\
    (forall n, o_signal (observe i) n = over spec_s (last_signal n ds) (o_signal (observe i0) n)) /\
    (forall n, o_prop (observe i) n = over spec_p (last_property n ds) (o_prop (observe i0) n)).
Proof.
  induction ds as [|d ds IH]; intros i0.
  - exists i0. cbn [map add_decls]. repeat split; reflexivity.
  - destruct (add_decl_typed i0 d) as [i1 [E1 [N1 [M1 [S1 P1]]]]].
    destruct (IH i1) as [i [E [N [M [S P]]]]].
    exists i. cbn [map add_decls]. rewrite E1. cbn [bind]. split; [exact E|]. split; [congruence|].
    split; [|split]; intros n.
    + rewrite M, M1, (last_method_cons n d ds). destruct (last_method n ds); reflexivity.
    + rewrite S, S1, (last_signal_cons n d ds). destruct (last_signal n ds); reflexivity.
    + rewrite P, P1, (last_property_cons n d ds). destruct (last_property n ds); reflexivity.
Qed.

(* the declaring API accepts every typed definition and the object it builds
   shows exactly that definition *)
Lemma new_iface_typed name ds :
  exists i, new_iface name (map decl_of ds) = Ok i /\ declared name ds (observe i).
Proof.
  destruct (add_decls_typed ds (mkIface name [] [] [])) as [i [E [N [M [S P]]]]].
  exists i. split; [exact E|]. split; [exact N|].
  split; [|split]; intros n.
  - rewrite M. destruct (last_method n ds); reflexivity.
  - rewrite S. destruct (last_signal n ds); reflexivity.
  - rewrite P. destruct (last_property n ds); reflexivity.
Qed.

Lemma declared_same name ds a b : same_interface a b -> declared name ds b -> declared name ds a.
Proof.
  intros [Hn [Hm [Hs Hp]]] [Dn [Dm [Ds Dp]]].
  split; [congruence|]. split; [|split]; intros n; [rewrite Hm | rewrite Hs | rewrite Hp]; auto.
Qed.

(* ========================================================================= *)
(* 9. the property theorems                                                     *)
(* ========================================================================= *)

(* exact form on the model: the objects built from the generated document are
   the normal forms of the exported ones *)
Theorem roundtrip_exact replace heap known path exported ifs :
  alist_get str_eqb path exported = Some ifs ->
  Forall consistent ifs ->
  fresh replace known (ifs ++ std_ifaces) ->
  exists evs, gen_doc path exported = Ok (Some evs) /\
    parse replace heap known evs
    = Ok (seq (length heap) (length ifs + 3),
          heap ++ map normalise ifs ++ std_ifaces,
          register_all (ifs ++ std_ifaces) (length heap) known).
Proof.
  intros Hobj Hc Hf. destruct (parse_doc replace heap known path exported ifs Hobj Hc) as [evs [Eg Ep]].
  exists evs. split; [exact Eg|]. rewrite Ep, expect_fresh by exact Hf.
  cbn [result_of app]. rewrite map_app, std_normal, app_length. reflexivity.
Qed.

Theorem known_reused heap known path exported ifs ids :
  alist_get str_eqb path exported = Some ifs ->
  Forall consistent ifs ->
  Forall2 (fun i id => alist_get str_eqb (i_name i) known = Some id) (ifs ++ std_ifaces) ids ->
  exists evs, gen_doc path exported = Ok (Some evs) /\
    parse false heap known evs = Ok (ids, heap, known).
Proof.
  intros Hobj Hc Hk. destruct (parse_doc false heap known path exported ifs Hobj Hc) as [evs [Eg Ep]].
  exists evs. split; [exact Eg|]. rewrite Ep, (expect_known _ ids) by exact Hk. reflexivity.
Qed.

Lemma nth_error_mid {A} (h : list A) x t : nth_error (h ++ x :: t) (length h) = Some x.
Proof. induction h; cbn; auto. Qed.

Lemma recovered_all (P : str * list tdecl -> iface -> Prop) defs ifs tail :
  Forall2 (fun def i => P def (normalise i)) defs ifs ->
  forall heap,
  Forall2 (fun def id => exists r, nth_error (heap ++ map normalise ifs ++ tail) id = Some r /\ P def r)
          defs (seq (length heap) (length defs)).
Proof.
  induction 1 as [|def i defs ifs Hd _ IH]; intros heap; cbn [length seq map app]; constructor.
  - exists (normalise i). split; [apply nth_error_mid | exact Hd].
  - specialize (IH (heap ++ [normalise i])). rewrite app_length in IH. cbn [length] in IH.
    replace (length heap + 1)%nat with (S (length heap)) in IH by lia.
    rewrite <- app_assoc in IH. exact IH.
Qed.

Lemma firstn_seq_le n : forall a m, (n <= m)%nat -> firstn n (seq a m) = seq a n.
Proof.
  induction n as [|n IH]; intros a m H; [reflexivity|].
  destruct m as [|m]; [lia|]. cbn [seq firstn]. rewrite IH by lia. reflexivity.
Qed.

Definition std_names : list str := [n_introspectable; n_peer; n_objectmanager].

(* processing further blocks only appends to the heap and to the result *)
Lemma expect_extends replace l : forall h k o,
  exists h2 k' o2, fold_left (expect_block replace) l (h, k, o) = (h ++ h2, k', o ++ o2) /\
                   length o2 = length l.
Proof.
  induction l as [|i l IH]; intros h k o.
  - exists [], k, []. rewrite !app_nil_r. split; reflexivity.
  - cbn [fold_left expect_block]. destruct (reuse replace k (i_name i)) as [id|].
    + destruct (IH h k (o ++ [id])) as [h2 [k' [o2 [E L]]]].
      exists h2, k', (id :: o2). rewrite E, <- app_assoc. split; [reflexivity | cbn [length]; lia].
    + destruct (IH (h ++ [normalise i]) (alist_set str_eqb (i_name i) (length h) k) (o ++ [length h]))
        as [h2 [k' [o2 [E L]]]].
      exists (normalise i :: h2), k', (length h :: o2). rewrite E, <- !app_assoc.
      split; [reflexivity | cbn [length]; lia].
Qed.

Theorem roundtrip (defs : list (str * list tdecl)) :
  exists ifs,
    (* the declaring API accepts every definition and builds what was declared *)
    Forall2 (fun def i => new_iface (fst def) (map decl_of (snd def)) = Ok i /\
                          declared (fst def) (snd def) (observe i)) defs ifs /\
    (* and the document generated for an object exporting them parses back to
       objects showing exactly the same definitions, in order *)
    forall replace heap known path exported,
      alist_get str_eqb path exported = Some ifs ->
      (replace = true \/
       (NoDup (map fst defs) /\ forall n, In n (map fst defs) -> alist_get str_eqb n known = None)) ->
      exists evs out heap' known',
        gen_doc path exported = Ok (Some evs) /\
        parse replace heap known evs = Ok (out, heap', known') /\
        length out = (length defs + 3)%nat /\
        Forall2 (fun def id => exists r, nth_error heap' id = Some r /\
                                         declared (fst def) (snd def) (observe r))
                defs (firstn (length defs) out).
Proof.
  assert (Hex : exists ifs, Forall2 (fun def i => new_iface (fst def) (map decl_of (snd def)) = Ok i /\
                                                  declared (fst def) (snd def) (observe i)) defs ifs).
  { induction defs as [|[name ds] defs [ifs IH]]; [exists []; constructor|].
    destruct (new_iface_typed name ds) as [i [E D]]. exists (i :: ifs). constructor; [split; assumption | exact IH]. }
  destruct Hex as [ifs Hifs]. exists ifs. split; [exact Hifs|].
  intros replace heap known path exported Hobj Hfresh.
  assert (Hc : Forall consistent ifs).
  { clear -Hifs. induction Hifs as [|def i defs ifs [E _] _ IH]; constructor; [|exact IH].
    apply (new_iface_consistent _ _ _ E). }
  assert (Hnames : map i_name ifs = map fst defs).
  { clear -Hifs. induction Hifs as [|def i defs ifs [E _] _ IH]; [reflexivity|].
    cbn [map]. rewrite IH. f_equal. apply (new_iface_consistent _ _ _ E). }
  assert (Hlen : length ifs = length defs) by (rewrite <- (map_length i_name), Hnames, map_length; reflexivity).
  assert (Hf : fresh replace known ifs).
  { destruct Hfresh as [->|[Hnd Hk]]; [left; reflexivity | right].
    rewrite Hnames. split; [exact Hnd|].
    intros i Hi. apply Hk. rewrite <- Hnames. apply in_map. exact Hi. }
  destruct (parse_doc replace heap known path exported ifs Hobj Hc) as [evs [Eg Ep]].
  rewrite fold_left_app, (expect_fresh replace ifs heap known [] Hf) in Ep. cbn [app] in Ep.
  destruct (expect_extends replace std_ifaces (heap ++ map normalise ifs)
              (register_all ifs (length heap) known) (seq (length heap) (length ifs)))
    as [h2 [k' [o2 [E L]]]].
  rewrite E in Ep. cbn [result_of] in Ep.
  exists evs. eexists _, _, _. split; [exact Eg|]. split; [exact Ep|].
  split; [rewrite app_length, seq_length, L; cbn [std_ifaces length]; lia|].
  rewrite Hlen.
  replace (firstn (length defs) (seq (length heap) (length defs) ++ o2))
    with (seq (length heap) (length defs)).
  2:{ rewrite <- (seq_length (length defs) (length heap)) at 2. rewrite firstn_app_exact. reflexivity. }
  rewrite <- app_assoc.
  apply recovered_all with (P := fun def r => declared (fst def) (snd def) (observe r)).
  clear -Hifs Hc. induction Hifs as [|def i defs ifs [_ D] _ IH]; constructor.
  - apply Forall_inv in Hc. eapply declared_same; [apply normalise_same; exact Hc | exact D].
  - apply IH. apply Forall_inv_tail in Hc. exact Hc.
Qed.

(* --- statements over objects built by the declaring API ------------------------ *)

(* i is an object DBusInterface(name, *ds) returns, for some declarations with
   arbitrary signature strings the API accepts *)
Definition built (i : iface) : Prop := exists name ds, new_iface name ds = Ok i.

Lemma built_consistent ifs : Forall built ifs -> Forall consistent ifs.
Proof.
  intros H. eapply Forall_impl; [|exact H]. intros i [name [ds E]].
  apply (new_iface_consistent _ _ _ E).
Qed.

Lemma register_all_other ifs : forall base known n,
  ~ In n (map i_name ifs) ->
  alist_get str_eqb n (register_all ifs base known) = alist_get str_eqb n known.
Proof.
  induction ifs as [|i ifs IH]; intros base known n Hn; [reflexivity|].
  unfold register_all. cbn [length seq combine fold_left fst snd].
  fold (register_all ifs (S base) (alist_set str_eqb (i_name i) base known)).
  cbn [map In] in Hn. rewrite IH by tauto. rewrite alist_get_set, str_eqb_neq; [reflexivity|].
  intros ->. tauto.
Qed.

(* after a fresh parse every interface of the document is the known one *)
Lemma register_all_get ifs : forall base known k i,
  NoDup (map i_name ifs) -> nth_error ifs k = Some i ->
  alist_get str_eqb (i_name i) (register_all ifs base known) = Some (base + k)%nat.
Proof.
  induction ifs as [|i0 ifs IH]; intros base known k i Hnd Hk; [destruct k; discriminate|].
  unfold register_all. cbn [length seq combine fold_left fst snd].
  fold (register_all ifs (S base) (alist_set str_eqb (i_name i0) base known)).
  cbn [map] in Hnd. apply NoDup_cons_iff in Hnd as [H0 Hnd].
  destruct k as [|k]; cbn [nth_error] in Hk.
  - injection Hk as <-. rewrite register_all_other by exact H0.
    rewrite alist_get_set, str_eqb_refl. f_equal. lia.
  - rewrite (IH (S base) _ k i Hnd Hk). f_equal. lia.
Qed.

Theorem roundtrip_built replace heap known path exported ifs :
  alist_get str_eqb path exported = Some ifs ->
  Forall built ifs ->
  fresh replace known (ifs ++ std_ifaces) ->
  exists evs, gen_doc path exported = Ok (Some evs) /\
    parse replace heap known evs
    = Ok (seq (length heap) (length ifs + 3),
          heap ++ map normalise ifs ++ std_ifaces,
          register_all (ifs ++ std_ifaces) (length heap) known) /\
    Forall (fun i => same_interface (observe (normalise i)) (observe i)) ifs.
Proof.
  intros Hobj Hb Hf. pose proof (built_consistent _ Hb) as Hc.
  destruct (roundtrip_exact replace heap known path exported ifs Hobj Hc Hf) as [evs [Eg Ep]].
  exists evs. split; [exact Eg|]. split; [exact Ep|].
  eapply Forall_impl; [|exact Hc]. intros i. apply normalise_same.
Qed.

Theorem known_reused_built heap known path exported ifs ids :
  alist_get str_eqb path exported = Some ifs ->
  Forall built ifs ->
  Forall2 (fun i id => alist_get str_eqb (i_name i) known = Some id) (ifs ++ std_ifaces) ids ->
  exists evs, gen_doc path exported = Ok (Some evs) /\
    parse false heap known evs = Ok (ids, heap, known).
Proof.
  intros Hobj Hb. apply known_reused; [exact Hobj | apply built_consistent; exact Hb].
Qed.

Theorem known_replaced_built heap known path exported ifs :
  alist_get str_eqb path exported = Some ifs ->
  Forall built ifs ->
  exists evs, gen_doc path exported = Ok (Some evs) /\
    parse true heap known evs
    = Ok (seq (length heap) (length ifs + 3),
          heap ++ map normalise ifs ++ std_ifaces,
          register_all (ifs ++ std_ifaces) (length heap) known).
Proof.
  intros Hobj Hb.
  destruct (roundtrip_exact true heap known path exported ifs Hobj (built_consistent _ Hb)
              (or_introl eq_refl)) as [evs [Eg Ep]].
  exists evs. split; assumption.
Qed.

(* --- non-vacuity ------------------------------------------------------------------ *)

Definition ex_sig_in : list ty :=
  [TBasic BInt32; TArr (TEntry (TBasic BString) TVariant);
   TStruct [TBasic BByte; TStruct [TArr (TArr (TBasic BPath)); TBasic BDouble]]].
Definition ex_sig_out : list ty :=
  [TArr (TStruct [TBasic BString; TArr (TEntry (TBasic BUInt32) (TStruct [TVariant; TBasic BFd]))])].
Definition ex_name : str := [97; 46; 98].             (* "a.b" *)
Definition ex_defs : list (str * list tdecl) :=
  [(ex_name, [TMethod [77] ex_sig_in ex_sig_out;      (* M *)
              TMethod [65] [] [TBasic BBool];         (* A *)
              TSignal [83] ex_sig_out;                (* S *)
              TProperty [80] (TArr (TBasic BByte)) AReadWrite NInvalidates;   (* P *)
              TProperty [81] (TBasic BString) AWrite NFalse])].               (* Q *)

Lemma example_valid : forallb wf (ex_sig_in ++ ex_sig_out) = true.
Proof. reflexivity. Qed.

(* declare the example interface, generate the document of an object exporting
   it at "/", parse it in the world (heap, known); report the number of element
   events, the result indices, the heap size, what the object created first shows
   for method M and property Q, and the index now known under the name *)
Definition ex_run (replace : bool) (heap : list iface) (known : list (str * nat)) :=
  do i <- new_iface ex_name (map decl_of (snd (hd (ex_name, []) ex_defs)));
  do oevs <- gen_doc [47] [([47], [i])];
  match oevs with
  | None => Err EOther
  | Some evs =>
      do r <- parse replace heap known evs;
      let '(out, heap', known') := r in
      Ok (length evs, out, length heap',
          option_map (fun r => (o_method (observe r) [77], o_prop (observe r) [81]))
                     (nth_error heap' (length heap)),
          alist_get str_eqb ex_name known')
  end.

Lemma example_runs :
  ex_run false [] []
  = Ok (46%nat, [0; 1; 2; 3]%nat, 4%nat,
        Some (Some (show_list ex_sig_in, show_list ex_sig_out, 3%Z, 1%Z), Some ([115], s_write)),
        Some 0%nat).
Proof. vm_compute. reflexivity. Qed.

Definition ex_old : iface := mkIface ex_name [] [] [].
Definition ex_known : list (str * nat) :=
  [(ex_name, 0%nat); (n_introspectable, 1%nat); (n_peer, 1%nat); (n_objectmanager, 1%nat)].

Lemma example_reused :
  ex_run false [ex_old; ex_old] ex_known = Ok (46%nat, [0; 1; 1; 1]%nat, 2%nat, None, Some 0%nat) /\
  ex_run true [ex_old; ex_old] ex_known
  = Ok (46%nat, [2; 3; 4; 5]%nat, 6%nat,
        Some (Some (show_list ex_sig_in, show_list ex_sig_out, 3%Z, 1%Z), Some ([115], s_write)),
        Some 2%nat).
Proof. split; vm_compute; reflexivity. Qed.
