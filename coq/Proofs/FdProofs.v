(* Proofs for C20 (descriptors stay with their message), receiving side:
   Model/FdFraming.v against Spec/FdSpec.v, on top of the framing proofs (C04)
   and the message proofs (C03). *)
From Tx Require Import Lib.Base Model.PyVal Model.Validators Model.Marshal Model.Message Model.Framing
  Model.FdFraming
  Spec.WireSpec Spec.Readback Spec.WireTyped Spec.Conforms Spec.MsgSpec Spec.FramingSpec Spec.FdSpec
  Proofs.SigProofs Proofs.BytesProofs Proofs.MarshalProofs Proofs.UnmarshalProofs Proofs.MessageProofs
  Proofs.FramingProofs.
From Coq Require Import ZifyBool ZifyNat ZifyN.
Local Open Scope N_scope.

(* ------------------------------------------------------------------------ *)
(* 1. the pre-repair parseMessage is Message.parse_message                      *)

Lemma parse_message_fd_legacy fuel raw fds :
  parse_message_fd true fuel raw fds = parse_message false fuel raw fds.
Proof.
  unfold parse_message_fd, parse_message, body_fds.
  destruct raw as [|b0 r]; [reflexivity|].
  destruct (m_unmarshal fuel header_format (b0 :: r) 0 (b0 =? 108) fds) as [[nh hval]|e]; [|reflexivity].
  cbn [bind].
  destruct hval as [|h0 [|h1 [|h2 [|h3 [|h4 [|h5 [|h6 [|h7 hr]]]]]]]]; reflexivity.
Qed.

(* ------------------------------------------------------------------------ *)
(* 2. well-typedness does not depend on the descriptor list                     *)

Lemma readback_key_indep fds fds' kt k : key_ty kt = true -> readback fds kt k = readback fds' kt k.
Proof. destruct kt; try discriminate; destruct k; reflexivity. Qed.

Lemma wt_indep fds fds' : forall w t, wt fds t w -> wt fds' t w.
Proof.
  induction w as [z|b|bits|s|l IH|l IH|vt x IH] using wval_ind'; intros t H.
  - destruct t; exact H.
  - destruct t; exact H.
  - destruct t; exact H.
  - destruct t; exact H.
  - destruct t as [| | | | | | | | | | | | |et| | |]; try exact H.
    destruct H as [Hall Hkeys]. change (wt_all fds et l) in Hall.
    assert (Hall' : wt_all fds' et l).
    { clear Hkeys. induction IH as [|x l Hx Hl IHl]; [exact I|].
      destruct Hall as [H1 H2]. split; [apply Hx; exact H1 | apply IHl; exact H2]. }
    split; [exact Hall'|].
    destruct et as [| | | | | | | | | | | | | | |kt vt|]; try exact I.
    assert (E : map (entry_key fds' (TDictEntry kt vt)) l = map (entry_key fds (TDictEntry kt vt)) l).
    { clear Hkeys Hall' IH. induction l as [|e l IHl]; [reflexivity|].
      destruct Hall as [H1 H2]. cbn [map]. rewrite (IHl H2). f_equal.
      destruct e as [| | | | |fs|]; try contradiction.
      destruct fs as [|k [|x' [|? ?]]]; try contradiction.
      destruct H1 as (Hk & _ & _). cbn [entry_key]. apply readback_key_indep. exact Hk. }
    rewrite E. exact Hkeys.
  - destruct t as [| | | | | | | | | | | | | |ts|kt vt|]; try exact H.
    + rewrite wt_struct_unfold in *. destruct H as [Hne Hall]. split; [exact Hne|].
      change (wt_fields fds ts l) in Hall. change (wt_fields fds' ts l).
      clear Hne. revert ts Hall. induction IH as [|x l Hx Hl IHl]; intros ts Hall.
      * exact Hall.
      * destruct ts as [|t ts]; [contradiction|]. destruct Hall as [H1 H2].
        split; [apply Hx; exact H1 | apply IHl; exact H2].
    + destruct l as [|k [|x [|? ?]]]; try contradiction.
      destruct H as (Hk & H1 & H2). inversion IH as [|? ? Ik IH']; subst. inversion IH' as [|? ? Ix _]; subst.
      split; [exact Hk|]. split; [apply Ik; exact H1 | apply Ix; exact H2].
  - destruct t; try exact H. destruct H as [Hl Hx]. split; [exact Hl | apply IH; exact Hx].
Qed.

Lemma wt_seq_indep fds fds' ts ws : wt_seq fds ts ws -> wt_seq fds' ts ws.
Proof.
  revert ws; induction ts as [|t ts IH]; intros [|w ws] H; try exact H.
  destruct H as [H1 H2]. split; [eapply wt_indep; exact H1 | apply IH; exact H2].
Qed.

Lemma msg_wt_indep fds fds' s : msg_wt fds s -> msg_wt fds' s.
Proof.
  intros (Ht & Hf & Hs & Hfs & Hwb & Hsig & Hlen).
  repeat split; try assumption; try lia.
  - clear -Hfs. induction Hfs as [|[[code t] w] r (Hc & Hl & Hw & Hty) Hr IH]; constructor; [|exact IH].
    repeat split; try assumption; try lia. eapply wt_indep; exact Hw.
  - eapply wt_seq_indep; exact Hwb.
Qed.

(* ------------------------------------------------------------------------ *)
(* 3. what parseMessage sets from the header does not depend on the queue; the
      UNIX_FDS attribute is the declared count                                  *)

Lemma attrs_of_fields_indep fds fds' fields : Forall (field_ok fds) fields ->
  attrs_of_fields fds fields = attrs_of_fields fds' fields.
Proof.
  induction 1 as [|[[code t] w] r (Hc & Hl & Hw & Ht) Hr IH]; [reflexivity|].
  unfold attrs_of_fields in *. cbn [flat_map]. rewrite IH. f_equal.
  destruct (attr_of_code code) as [a|] eqn:E; [|reflexivity].
  f_equal. f_equal.
  destruct code as [|p|p]; try discriminate.
  do 4 (try destruct p as [p|p|]); try discriminate; cbn in Ht; subst t; destruct w; reflexivity.
Qed.

Lemma wt_u32_int fdl w : wt fdl TUInt32 w -> exists z, w = WInt z /\ (0 <= z < 4294967296)%Z.
Proof.
  destruct w; cbn; try contradiction. intros H. eexists. split; [reflexivity|]. lia.
Qed.

Lemma get_attr_fds fdl fields : Forall (field_ok fdl) fields ->
  get_attr AUnixFds (attrs_of_fields fdl fields) = option_map PInt (fds_field fields).
Proof.
  induction 1 as [|[[code t] w] r (Hc & Hl & Hw & Ht) Hr IH]; [reflexivity|].
  unfold attrs_of_fields. cbn [flat_map fds_field]. fold (attrs_of_fields fdl r).
  destruct (attr_of_code code) as [a|] eqn:E.
  - cbn [app get_attr]. rewrite IH. destruct (fds_field r) as [z|]; [reflexivity|]. cbn [option_map].
    destruct code as [|p|p]; try discriminate.
    do 4 (try destruct p as [p|p|]); try discriminate; injection E as <-; try reflexivity.
    cbn in Ht. subst t. destruct (wt_u32_int fdl w Hw) as (z & -> & _). reflexivity.
  - cbn [app]. rewrite IH. destruct (fds_field r) as [z|]; [reflexivity|].
    destruct code as [|p|p]; try reflexivity.
    do 4 (try destruct p as [p|p|]); try discriminate; reflexivity.
Qed.

Lemma fds_field_range fdl fields z : Forall (field_ok fdl) fields -> fds_field fields = Some z ->
  (0 <= z < 4294967296)%Z.
Proof.
  induction 1 as [|[[code t] w] r (Hc & Hl & Hw & Ht) Hr IH]; [discriminate|].
  cbn [fds_field]. destruct (fds_field r) as [z'|].
  - intros E. injection E as <-. apply IH. reflexivity.
  - destruct code as [|p|p]; try discriminate.
    do 4 (try destruct p as [p|p|]); try discriminate.
    cbn in Ht. subst t. destruct (wt_u32_int fdl w Hw) as (z' & -> & R). intros E. injection E as <-. exact R.
Qed.

Lemma firstn_own {A} (own later : list A) : firstn (length own) (own ++ later) = own.
Proof. apply firstn_app_exact. Qed.

Lemma clip_own own later z : (0 <= z)%Z -> Z.to_nat z = length own -> clip (own ++ later) z = length own.
Proof.
  intros Hz E. unfold clip. rewrite app_length.
  destruct (Z.ltb_spec z 0); lia.
Qed.

(* parseMessage on the specification encoding of a well-typed message, with the
   message's own descriptors at the head of the queue and ANY descriptors behind
   them: header as sent, every UNIX_FD argument resolved within the own ones *)
Theorem parse_fd_refines own later s fuel :
  msg_wt own s -> declared s = length own -> (msg_depth s <= fuel)%nat ->
  parse_message_fd false fuel (msg_enc s) (Some (own ++ later)) =
    Ok (Z.to_N (s_type s), s_serial s, expect_reply_of s, auto_start_of s,
        attrs_of_fields own (s_fields s), recovered_body own s).
Proof.
  intros Wo Hdecl Hd. set (q := own ++ later).
  pose proof (msg_wt_indep own q s Wo) as W.
  pose proof W as (Ht & Hf & Hs & Hfs & _ & Hsig & Hlen).
  pose proof Wo as (_ & _ & _ & Hfso & Hwb & _ & _).
  fold two32 in Hlen.
  assert (HR : hdr_ranges s) by (unfold hdr_ranges; lia).
  assert (Hb : len (msg_body s) < two32).
  { unfold msg_enc in Hlen. rewrite !len_app in Hlen. lia. }
  assert (Hh : len (msg_header s) < two32).
  { unfold msg_enc in Hlen. rewrite !len_app in Hlen. lia. }
  unfold msg_depth in Hd.
  unfold parse_message_fd.
  assert (E0 : exists r, msg_enc s = (if s_le s then 108 else 66) :: r).
  { unfold msg_enc. rewrite (msg_header_eq s) by (try lia; exact Hb). eexists. reflexivity. }
  destruct E0 as [r0 E0]. rewrite E0.
  assert (Ele : ((if s_le s then 108 else 66) =? 108) = s_le s) by (destruct (s_le s); reflexivity).
  rewrite Ele. rewrite <- E0. clear E0 Ele r0.
  assert (Hu : m_unmarshal fuel header_format (msg_enc s) 0 (s_le s) (Some q)
               = Ok (len (msg_header s), readback_seq q hdr_ts (hdr_ws s (len (msg_body s))))).
  { pose proof (unmarshal_inverts q (s_le s) hdr_ts (hdr_ws s (len (msg_body s))) []
                  (padding 8 (length (msg_header s)) ++ msg_body s) fuel
                  (wt_hdr q s _ W Hb)) as U.
    cbn [length app] in U. change (len []) with 0 in U.
    change (enc_seq hdr_ts (hdr_ws s (len (msg_body s))) 0 (s_le s)) with (msg_header s) in U.
    apply U; [rewrite wdepth_hdr; lia|exact Hh]. }
  rewrite Hu. cbn [bind]. rewrite readback_hdr.
  assert (Hmt : negb ((1 <=? s_type s)%Z && (s_type s <=? 4)%Z) = false).
  { destruct (Z.leb_spec 1 (s_type s)), (Z.leb_spec (s_type s) 4); try lia; reflexivity. }
  rewrite Hmt.
  rewrite (set_fields_spec q (s_fields s) []). cbn [bind app].
  rewrite (get_attr_sig q _ Hfs).
  unfold expect_reply_of, auto_start_of. rewrite <- even_testbit0, <- even_testbit1.
  rewrite (attrs_of_fields_indep q own _ Hfs).
  assert (Hskip : skipn (N.to_nat (N.min (len (msg_header s) + pad_len 8 (len (msg_header s))) (len (msg_enc s))))
                        (msg_enc s) = msg_body s).
  { change 8 with (N.of_nat 8). unfold len at 2. rewrite (pad_len_spec 8) by (unfold good_align; auto).
    unfold msg_enc. rewrite app_assoc. apply skipn_all_app.
    rewrite !len_app, N.min_l by lia. unfold len. rewrite app_length. lia. }
  rewrite Hskip.
  (* the list handed to the body decoder is the message's own *)
  assert (Hbf : body_fds false (attrs_of_fields own (s_fields s)) (Some q) = Ok (Some own)).
  { unfold body_fds. rewrite (get_attr_fds own _ Hfso). unfold declared in Hdecl.
    destruct (fds_field (s_fields s)) as [z|] eqn:Ez; cbn [option_map].
    - pose proof (fds_field_range own _ z Hfso Ez) as Rz.
      cbn [bound_of bind slice_to]. unfold q. rewrite (clip_own own later z) by lia.
      rewrite firstn_own. reflexivity.
    - destruct own; [reflexivity|discriminate]. }
  unfold recovered_body.
  pose proof (unmarshal_inverts own (s_le s) (s_body_ts s) (s_body s) [] [] fuel Hwb) as U.
  cbn [length app] in U. change (len []) with 0 in U. rewrite app_nil_r in U.
  change (enc_seq (s_body_ts s) (s_body s) 0 (s_le s)) with (msg_body s) in U.
  specialize (U ltac:(lia) Hb).
  destruct (s_body_ts s) as [|t ts] eqn:Ets.
  - destruct Hsig as [-> | ->]; reflexivity.
  - rewrite Hsig. cbn [option_map]. unfold truthy. cbn [unwrap].
    destruct (show_list (t :: ts)) eqn:E; [apply show_list_nil in E; discriminate|].
    cbn [negb]. rewrite Hbf. cbn [bind]. rewrite U. reflexivity.
Qed.

(* rawDBusMessageReceived: the message is delivered as sent and exactly the
   declared count leaves the queue *)
Theorem raw_received_own own later s fuel :
  msg_wt own s -> declared s = length own -> (msg_depth s <= fuel)%nat ->
  exists p, raw_received false fuel (msg_enc s) (own ++ later) = Ok (p, later) /\
            view p = seen_of (mkSent s own).
Proof.
  intros Wo Hdecl Hd. unfold raw_received.
  rewrite (parse_fd_refines own later s fuel Wo Hdecl Hd). cbn [bind].
  pose proof Wo as (Ht & _ & _ & Hfso & _).
  rewrite (get_attr_fds own _ Hfso). unfold declared in Hdecl.
  eexists. split.
  - destruct (fds_field (s_fields s)) as [z|] eqn:Ez; cbn [option_map].
    + pose proof (fds_field_range own _ z Hfso Ez) as Rz.
      cbn [bound_of bind slice_from]. rewrite (clip_own own later z) by lia.
      rewrite skipn_app_exact. reflexivity.
    + destruct own; [reflexivity|discriminate].
  - unfold view, seen_of. cbn [sn_msg sn_fds].
    rewrite attrs_of_fields_recovered. unfold recovered_fields.
    rewrite Z2N.id by lia. reflexivity.
Qed.

(* ------------------------------------------------------------------------ *)
(* 4. prefixes, and how many messages a prefix of the stream completes          *)

Lemma prefix_app_cancel {A} (a p l : list A) : prefix (a ++ p) (a ++ l) -> prefix p l.
Proof. intros [r E]. exists r. rewrite <- app_assoc in E. apply app_inv_head in E. exact E. Qed.

Lemma prefix_app_l {A} (a b l : list A) : prefix (a ++ b) l -> prefix a l.
Proof. intros [r E]. exists (b ++ r). rewrite E, app_assoc. reflexivity. Qed.

Lemma prefix_long {A} : forall (a p b : list A), prefix p (a ++ b) -> (length a <= length p)%nat ->
  exists p2, p = a ++ p2 /\ prefix p2 b.
Proof.
  induction a as [|x a IH]; intros p b H L.
  - exists p. split; [reflexivity|exact H].
  - destruct p as [|y p]; [cbn in L; lia|]. destruct H as [r E]. cbn in E. injection E as <- E.
    destruct (IH p b) as (p2 & -> & P2); [exists r; exact E | cbn in L; lia |].
    exists p2. split; [reflexivity|exact P2].
Qed.

Lemma prefix_short {A} : forall (a p b : list A), prefix p (a ++ b) -> (length p <= length a)%nat ->
  exists y, a = p ++ y.
Proof.
  induction a as [|x a IH]; intros p b H L.
  - destruct p; [exists []; reflexivity | cbn in L; lia].
  - destruct p as [|y p]; [eexists; reflexivity|]. destruct H as [r E]. cbn in E. injection E as <- E.
    destruct (IH p b) as (z & ->); [exists r; exact E | cbn in L; lia |].
    exists z. reflexivity.
Qed.

Definition wire_all (l : list sent) : bytes := concat (map wire l).
Definition fds_all (l : list sent) : list pyval := concat (map sn_fds l).

Lemma wire_all_app a b : wire_all (a ++ b) = wire_all a ++ wire_all b.
Proof. unfold wire_all. rewrite map_app, concat_app. reflexivity. Qed.

Lemma fds_all_app a b : fds_all (a ++ b) = fds_all a ++ fds_all b.
Proof. unfold fds_all. rewrite map_app, concat_app. reflexivity. Qed.

Lemma complete_app : forall a b m,
  complete (a ++ b) (length (wire_all a) + m) = (length a + complete b m)%nat.
Proof.
  induction a as [|x a IH]; intros b m; [reflexivity|].
  cbn [app complete length]. unfold wire_all in *. cbn [map concat]. rewrite app_length.
  destruct (Nat.leb_spec (length (wire x)) (length (wire x) + length (concat (map wire a)) + m)) as [_|X]; [|lia].
  replace (length (wire x) + length (concat (map wire a)) + m - length (wire x))%nat
    with (length (concat (map wire a)) + m)%nat by lia.
  rewrite IH. reflexivity.
Qed.

(* the messages a prefix completes fit into it; what follows them is incomplete *)
Lemma complete_fits : forall l n, (length (wire_all (firstn (complete l n) l)) <= n)%nat.
Proof.
  induction l as [|x l IH]; intros n; [cbn; lia|].
  cbn [complete]. destruct (Nat.leb_spec (length (wire x)) n) as [L|L]; [|cbn; lia].
  cbn [firstn]. unfold wire_all in *. cbn [map concat]. rewrite app_length.
  specialize (IH (n - length (wire x))%nat). lia.
Qed.

Lemma complete_rest : forall l n,
  complete (skipn (complete l n) l) (n - length (wire_all (firstn (complete l n) l))) = 0%nat.
Proof.
  induction l as [|x l IH]; intros n; [reflexivity|].
  cbn [complete]. destruct (Nat.leb_spec (length (wire x)) n) as [L|L].
  - cbn [skipn firstn]. unfold wire_all in *. cbn [map concat]. rewrite app_length.
    replace (n - (length (wire x) + length (concat (map wire (firstn (complete l (n - length (wire x))) l)))))%nat
      with (n - length (wire x) - length (concat (map wire (firstn (complete l (n - length (wire x))) l))))%nat by lia.
    apply IH.
  - cbn [skipn firstn wire_all map concat length complete]. rewrite Nat.sub_0_r.
    destruct (Nat.leb_spec (length (wire x)) n); [lia|reflexivity].
Qed.

(* ------------------------------------------------------------------------ *)
(* 5. framing of a prefix of back-to-back well-framed messages                   *)

Lemma take_N_short l n : len l < n -> take_N l n = None.
Proof.
  intros H. destruct (take_N l n) as [[a b]|] eqn:T; [|reflexivity].
  apply take_N_Some in T as [E L]. rewrite E, len_app in H. lia.
Qed.

Lemma frames_of_nil : frames_of [] = ([], Some []).
Proof. reflexivity. Qed.

Lemma frames_prefix : forall l p,
  Forall (fun x => wellframed (wire x)) l -> prefix p (wire_all l) ->
  frames_of p = (map Msg (map wire (firstn (complete l (length p)) l)),
                 Some (skipn (length (wire_all (firstn (complete l (length p)) l))) p)).
Proof.
  induction l as [|x l IH]; intros p HW HP.
  - destruct HP as [r E]. unfold wire_all in E. cbn in E. symmetry in E. apply app_eq_nil in E as [-> _].
    reflexivity.
  - inversion HW as [|? ? [W1 W2] HW']; subst. unfold wire_all in HP. cbn [map concat] in HP.
    cbn [complete]. destruct (Nat.leb_spec (length (wire x)) (length p)) as [L|L].
    + destruct (prefix_long _ _ _ HP L) as (p2 & -> & P2).
      rewrite frames_of_step.
      destruct (take_N_le (wire x) 16 W1) as (a & b & T). rewrite (take_N_mono _ _ _ _ p2 T).
      rewrite frame_total_app by exact W1. rewrite W2. change (size (wire x)) with (len (wire x)).
      rewrite take_N_app.
      replace (length (wire x ++ p2) - length (wire x))%nat with (length p2) by (rewrite app_length; lia).
      rewrite (IH p2 HW' P2). cbn [firstn map]. f_equal. f_equal.
      unfold wire_all. cbn [map concat]. rewrite app_length.
      rewrite (skipn_add (length (wire x))). rewrite skipn_app_exact. reflexivity.
    + destruct (prefix_short _ _ _ HP ltac:(lia)) as (y & Ey).
      cbn [firstn map wire_all concat length skipn].
      rewrite frames_of_step.
      destruct (take_N p 16) as [[h0 t0]|] eqn:T16; [|reflexivity].
      assert (L16 : 16 <= len p) by (apply take_N_Some in T16 as [E L']; rewrite E, len_app; lia).
      assert (FT : frame_total p = len (wire x)).
      { transitivity (frame_total (wire x)); [rewrite Ey; symmetry; apply frame_total_app; exact L16 | exact W2]. }
      rewrite take_N_short; [reflexivity|]. rewrite FT. unfold len. lia.
Qed.

(* the specification encoding of a well-typed message is well framed *)
Lemma wire_wellframed fds s : msg_wt fds s -> wellframed (msg_enc s).
Proof.
  intros (Ht & Hf & Hs & _ & _ & _ & Hlen).
  destruct (c03_frame_shape s ltac:(lia) Hf Hs Hlen) as (H16 & HF & Hle).
  apply wellframed_from_frame_len; [exact H16|].
  assert (E : negb (is_big (msg_enc s)) = s_le s).
  { unfold is_big. destruct (msg_enc s) as [|b0 r] eqn:Em.
    - unfold len in H16. cbn in H16. lia.
    - cbn [hd] in Hle. rewrite negb_involutive.
      destruct (s_le s).
      + apply N.eqb_eq. apply Hle. reflexivity.
      + apply N.eqb_neq. intros X. apply Hle in X. discriminate. }
  rewrite E. exact HF.
Qed.

(* ------------------------------------------------------------------------ *)
(* 6. the connection: every history in stream order                            *)

Lemma bytes_of_app a b : bytes_of (a ++ b) = bytes_of a ++ bytes_of b.
Proof.
  induction a as [|[v|x] a IH]; cbn [app bytes_of]; [reflexivity|exact IH|].
  rewrite IH, app_assoc. reflexivity.
Qed.

Lemma fds_of_app a b : fds_of (a ++ b) = fds_of a ++ fds_of b.
Proof.
  induction a as [|[v|x] a IH]; cbn [app fds_of]; [reflexivity| |exact IH].
  rewrite IH. reflexivity.
Qed.

Lemma stream_order_prefix msgs ins i : stream_order msgs (ins ++ [i]) -> stream_order msgs ins.
Proof.
  intros (H1 & H2 & H3). rewrite bytes_of_app in H1. rewrite fds_of_app in H2.
  split; [eapply prefix_app_l; exact H1|]. split; [eapply prefix_app_l; exact H2|].
  intros pre b post E. apply (H3 pre b (post ++ [i])). rewrite E, <- app_assoc. reflexivity.
Qed.

Lemma sent_wellframed x : sent_ok x -> wellframed (wire x).
Proof. intros [W _]. eapply wire_wellframed. exact W. Qed.

Lemma complete_zero l : Forall sent_ok l -> complete l 0 = 0%nat.
Proof.
  intros H. destruct l as [|x l]; [reflexivity|]. inversion H as [|? ? Hx _]; subst.
  destruct (sent_wellframed x Hx) as [W _]. cbn [complete].
  destruct (Nat.leb_spec (length (wire x)) 0) as [L|L]; [|reflexivity].
  unfold size in W. lia.
Qed.

Lemma seen_of_eta x : seen_of (mkSent (sn_msg x) (sn_fds x)) = seen_of x.
Proof. destruct x; reflexivity. Qed.

Section Recv.
  Context {A : Type}.
  Variable astep : A -> bytes -> A * ares.
  Variable maxl : N.
  Variable fuel : nat.

  Lemma bin_process_closed (s s' : st A) evs : bin_process s = (s', evs) -> s_closed s' = s_closed s.
  Proof.
    unfold bin_process. destruct (bin_loop _ _ _ _) as [[[b n] big] e]. intros H. inversion H; subst.
    reflexivity.
  Qed.

  (* one read on an authenticated connection: the events are the frames of
     buffer ++ read, the new buffer is what framing leaves over *)
  Lemma recv_authed (s s' : st A) b evs :
    s_authed s = true -> s_closed s = false -> Inv astep maxl s ->
    recv astep maxl s b = (s', evs) ->
    frames_of (s_buf s ++ b) = (evs, Some (s_buf s')) /\
    s_authed s' = true /\ s_closed s' = false /\ Inv astep maxl s'.
  Proof.
    intros Ha Hc HI R.
    destruct (recv_sem astep maxl s b [] s' evs HI Hc ltac:(congruence) R) as (X1 & X2 & _).
    assert (Hf : s_authed s' = true /\ s_closed s' = false).
    { unfold recv in R. rewrite Ha in R.
      pose proof (bin_process_fields _ _ _ R) as (_ & _ & F3).
      pose proof (bin_process_closed _ _ _ R) as F4. cbn in F3, F4. split; congruence. }
    destruct Hf as [Ha' Hc'].
    split; [|auto].
    unfold extends in X1. pose proof X2 as (_ & _ & _ & Q). rewrite Q in X1. cbn [fst snd] in X1.
    unfold sem_from in X1. rewrite Hc, Ha in X1. rewrite !app_nil_r in X1.
    unfold residual in X1. rewrite Hc' in X1. exact X1.
  Qed.

  Lemma deliver_all_own : forall newly q',
    Forall sent_ok newly -> Forall (fun x => (msg_depth (sn_msg x) <= fuel)%nat) newly ->
    exists ps, deliver_all false fuel (map Msg (map wire newly)) (fds_all newly ++ q')
               = (map Deliver ps, q', false) /\
               map view ps = map seen_of newly.
  Proof.
    induction newly as [|x r IH]; intros q' HS HD.
    - exists []. split; reflexivity.
    - inversion HS as [|? ? [W Hdecl] HS']; subst. inversion HD as [|? ? D HD']; subst.
      destruct (IH q' HS' HD') as (ps & E & V).
      unfold fds_all. cbn [map concat]. fold (fds_all r). rewrite <- app_assoc.
      destruct (raw_received_own (sn_fds x) (fds_all r ++ q') (sn_msg x) fuel W Hdecl D) as (p & Ep & Vp).
      exists (p :: ps). cbn [deliver_all]. unfold wire at 1. rewrite Ep, E. split; [reflexivity|].
      cbn [map]. rewrite Vp, V, seen_of_eta. reflexivity.
  Qed.

  Lemma run_conn_app c a b :
    run_conn astep maxl false fuel c (a ++ b) =
    let '(c1, o1) := run_conn astep maxl false fuel c a in
    let '(c2, o2) := run_conn astep maxl false fuel c1 b in (c2, o1 ++ o2).
  Proof.
    revert c; induction a as [|i a IH]; intros c; cbn [app run_conn].
    - destruct (run_conn astep maxl false fuel c b); reflexivity.
    - destruct (step astep maxl false fuel c i) as [c1 o1]. rewrite IH.
      destruct (run_conn astep maxl false fuel c1 a) as [c2 o2].
      destruct (run_conn astep maxl false fuel c2 b) as [c3 o3]. rewrite app_assoc. reflexivity.
  Qed.

  Definition Rel (msgs : list sent) (ins : list input) (c : conn A) (o : list out) : Prop :=
    exists done todo ps,
      msgs = done ++ todo /\ o = map Deliver ps /\ map view ps = map seen_of done /\
      c_dead c = false /\ s_closed (c_st c) = false /\ s_authed (c_st c) = true /\
      Inv astep maxl (c_st c) /\
      bytes_of ins = wire_all done ++ s_buf (c_st c) /\
      complete todo (length (s_buf (c_st c))) = 0%nat /\
      fds_of ins = fds_all done ++ c_q c.

  Lemma Inv_ready client a : Inv astep maxl (c_st (ready client a)).
  Proof.
    unfold Inv, ready. cbn. repeat split; try congruence. left. reflexivity.
  Qed.

  Lemma run_rel client a msgs :
    Forall sent_ok msgs -> Forall (fun x => (msg_depth (sn_msg x) <= fuel)%nat) msgs ->
    forall ins, stream_order msgs ins ->
    forall c o, run_conn astep maxl false fuel (ready client a) ins = (c, o) -> Rel msgs ins c o.
  Proof.
    intros HS HD. induction ins as [|i ins IH] using rev_ind; intros SO c o R.
    - cbn in R. inversion R; subst. exists [], msgs, [].
      cbn. repeat split; try reflexivity.
      + apply Inv_ready.
      + apply complete_zero. exact HS.
    - rewrite run_conn_app in R.
      destruct (run_conn astep maxl false fuel (ready client a) ins) as [c1 o1] eqn:R1.
      specialize (IH (stream_order_prefix _ _ _ SO) c1 o1 eq_refl).
      destruct IH as (done & todo & ps & Em & Eo & Ev & Hdead & Hcl & Hau & HI & Eb & Hz & Ef).
      cbn [run_conn] in R.
      destruct (step astep maxl false fuel c1 i) as [c2 o2] eqn:St.
      inversion R; subst c o. clear R.
      unfold step in St. rewrite Hdead, Hcl in St. cbn [orb] in St.
      destruct i as [v|b].
      + (* a descriptor arrives *)
        inversion St; subst c2 o2. clear St.
        exists done, todo, ps. cbn [c_dead c_st c_q].
        rewrite bytes_of_app, fds_of_app. cbn [bytes_of fds_of]. rewrite !app_nil_r.
        split; [exact Em|]. split; [exact Eo|]. split; [exact Ev|]. split; [reflexivity|].
        split; [exact Hcl|]. split; [exact Hau|]. split; [exact HI|]. split; [exact Eb|].
        split; [exact Hz|]. rewrite Ef, app_assoc. reflexivity.
      + (* bytes arrive *)
        destruct (recv astep maxl (c_st c1) b) as [s' evs] eqn:Rv.
        destruct (recv_authed _ _ _ _ Hau Hcl HI Rv) as (F & Hau' & Hcl' & HI').
        destruct SO as (SO1 & SO2 & SO3).
        rewrite bytes_of_app in SO1. cbn [bytes_of] in SO1. rewrite app_nil_r in SO1.
        rewrite fds_of_app in SO2. cbn [fds_of] in SO2. rewrite app_nil_r in SO2.
        assert (HSt : Forall sent_ok todo) by (rewrite Em in HS; apply Forall_app in HS; tauto).
        assert (HDt : Forall (fun x => (msg_depth (sn_msg x) <= fuel)%nat) todo)
          by (rewrite Em in HD; apply Forall_app in HD; tauto).
        set (buf := s_buf (c_st c1)) in *.
        assert (HP : prefix (buf ++ b) (wire_all todo)).
        { change (prefix (bytes_of ins ++ b) (wire_all msgs)) in SO1.
          rewrite Eb, Em, wire_all_app, <- app_assoc in SO1.
          eapply prefix_app_cancel. exact SO1. }
        assert (HWt : Forall (fun x => wellframed (wire x)) todo).
        { eapply Forall_impl; [|exact HSt]. intros x Hx. apply sent_wellframed. exact Hx. }
        rewrite (frames_prefix todo (buf ++ b) HWt HP) in F.
        set (j := complete todo (length (buf ++ b))) in *.
        set (newly := firstn j todo) in *.
        set (todo' := skipn j todo).
        assert (Et : todo = newly ++ todo') by (symmetry; apply firstn_skipn).
        injection F as Fe Fb.
        pose proof (complete_fits todo (length (buf ++ b))) as Fits. fold j newly in Fits.
        assert (HP' : prefix (buf ++ b) (wire_all newly ++ wire_all todo')).
        { rewrite <- wire_all_app, <- Et. exact HP. }
        destruct (prefix_long _ _ _ HP' Fits) as (p2 & Ep2 & _).
        assert (Eb' : s_buf s' = p2).
        { rewrite <- Fb, Ep2. apply skipn_app_exact. }
        assert (Hz' : complete todo' (length p2) = 0%nat).
        { pose proof (complete_rest todo (length (buf ++ b))) as CR. fold j newly todo' in CR.
          replace (length p2) with (length (buf ++ b) - length (wire_all newly))%nat;
            [exact CR | rewrite Ep2, app_length; lia]. }
        (* the descriptors of the newly complete messages are at the head of the queue *)
        assert (Hk : complete msgs (length (bytes_of ins) + length b) = (length done + j)%nat).
        { rewrite Em, Eb, app_length, <- Nat.add_assoc, complete_app. fold buf.
          rewrite <- app_length. reflexivity. }
        assert (Hq : exists q', c_q c1 = fds_all newly ++ q').
        { specialize (SO3 ins b [] eq_refl). rewrite Hk in SO3.
          assert (Eu : fds_upto msgs (length done + j) = fds_all done ++ fds_all newly).
          { unfold fds_upto. rewrite Em, firstn_app_2. fold newly.
            rewrite map_app, concat_app. reflexivity. }
          rewrite Eu, Ef, !app_length in SO3.
          change (prefix (fds_of ins) (fds_all msgs)) in SO2.
          rewrite Ef, Em, Et, !fds_all_app in SO2.
          apply prefix_app_cancel in SO2.
          destruct (prefix_long _ _ _ SO2 ltac:(lia)) as (q' & Eq & _). exists q'. exact Eq. }
        destruct Hq as (q' & Eq).
        assert (HSn : Forall sent_ok newly).
        { rewrite Et in HSt. apply Forall_app in HSt. tauto. }
        assert (HDn : Forall (fun x => (msg_depth (sn_msg x) <= fuel)%nat) newly).
        { rewrite Et in HDt. apply Forall_app in HDt. tauto. }
        destruct (deliver_all_own newly q' HSn HDn) as (ps' & Ed & Vd).
        rewrite <- Fe, Eq, Ed in St. inversion St; subst c2 o2. clear St.
        exists (done ++ newly), todo', (ps ++ ps'). cbn [c_dead c_st c_q].
        split; [rewrite Em, Et, app_assoc; reflexivity|].
        split; [rewrite map_app, Eo, app_nil_r; reflexivity|].
        split; [rewrite !map_app, Ev, Vd; reflexivity|].
        split; [reflexivity|]. split; [exact Hcl'|]. split; [exact Hau'|]. split; [exact HI'|].
        split; [|split].
        * rewrite bytes_of_app. cbn [bytes_of]. rewrite app_nil_r, Eb. fold buf.
          rewrite <- app_assoc, Ep2, Eb', wire_all_app, <- app_assoc. reflexivity.
        * rewrite Eb'. exact Hz'.
        * rewrite fds_of_app. cbn [fds_of]. rewrite app_nil_r, Ef, Eq, fds_all_app, <- app_assoc.
          reflexivity.
  Qed.

  (* the connection does exactly what the specification requires *)
  Theorem attribution client a msgs ins :
    Forall sent_ok msgs -> Forall (fun x => (msg_depth (sn_msg x) <= fuel)%nat) msgs ->
    stream_order msgs ins ->
    let '(seen, q, rest) := expected msgs ins in
    exists ps, run_fd astep maxl false fuel client a ins = (map Deliver ps, q, Some rest) /\
               map view ps = seen.
  Proof.
    intros HS HD SO. unfold expected, run_fd.
    destruct (run_conn astep maxl false fuel (ready client a) ins) as [c o] eqn:R.
    destruct (run_rel client a msgs HS HD ins SO c o R)
      as (done & todo & ps & Em & Eo & Ev & Hdead & Hcl & Hau & HI & Eb & Hz & Ef).
    assert (Hk : complete msgs (length (bytes_of ins)) = length done).
    { rewrite Em, Eb, app_length, complete_app, Hz. lia. }
    rewrite Hk.
    assert (Efn : firstn (length done) msgs = done) by (rewrite Em; apply firstn_app_exact).
    unfold fds_upto. rewrite Efn. fold (fds_all done). fold (wire_all done).
    exists ps. split; [|exact Ev].
    rewrite Hdead. unfold residual. rewrite Hcl. subst o.
    rewrite Ef, Eb, !skipn_app_exact. reflexivity.
  Qed.
End Recv.

(* ------------------------------------------------------------------------ *)
(* 7. the decision procedure for stream_order is sound                          *)

Lemma is_prefix_sound {A} (eqb : A -> A -> bool) :
  (forall x y, eqb x y = true -> x = y) ->
  forall p l, is_prefix eqb p l = true -> prefix p l.
Proof.
  intros He. induction p as [|x p IH]; intros l H.
  - exists l. reflexivity.
  - destruct l as [|y l]; [discriminate|]. cbn in H. apply andb_true_iff in H as [H1 H2].
    apply He in H1. subst y. destruct (IH l H2) as [r ->]. exists r. reflexivity.
Qed.

Lemma pv_eqb_sound x y : pv_eqb x y = true -> x = y.
Proof. destruct x, y; try discriminate. cbn. intros H. apply Z.eqb_eq in H. congruence. Qed.

Lemma order_ok_sound msgs : forall ins nb nf, order_ok msgs ins nb nf = true ->
  forall pre b post, ins = pre ++ Read b :: post ->
    (length (fds_upto msgs (complete msgs (nb + length (bytes_of pre) + length b)))
     <= nf + length (fds_of pre))%nat.
Proof.
  induction ins as [|i ins IH]; intros nb nf H pre b post E.
  - destruct pre; discriminate.
  - destruct pre as [|i0 pre].
    + cbn [app] in E. injection E as -> ->. cbn [order_ok] in H. apply andb_true_iff in H as [H1 _].
      apply Nat.leb_le in H1. cbn [bytes_of fds_of length]. rewrite !Nat.add_0_r. exact H1.
    + cbn [app] in E. injection E as <- E. destruct i as [v|b0]; cbn [order_ok] in H.
      * specialize (IH nb (S nf) H pre b post E). cbn [bytes_of fds_of length]. lia.
      * apply andb_true_iff in H as [_ H2].
        specialize (IH (nb + length b0)%nat nf H2 pre b post E).
        cbn [bytes_of fds_of]. rewrite app_length.
        replace (nb + (length b0 + length (bytes_of pre)) + length b)%nat
          with (nb + length b0 + length (bytes_of pre) + length b)%nat by lia. exact IH.
Qed.

Theorem stream_order_b_sound msgs ins : stream_order_b msgs ins = true -> stream_order msgs ins.
Proof.
  unfold stream_order_b. intros H. apply andb_true_iff in H as [H H3]. apply andb_true_iff in H as [H1 H2].
  split; [|split].
  - eapply is_prefix_sound; [|exact H1]. intros x y. apply N.eqb_eq.
  - eapply is_prefix_sound; [|exact H2]. exact pv_eqb_sound.
  - intros pre b post E. exact (order_ok_sound msgs ins 0 0 H3 pre b post E).
Qed.

