(* Proofs for C08: the pending-call model (Model/Calls.v) against the
   specification (Spec/CallSpec.v). *)
From Tx Require Import Lib.Base Model.Calls Spec.CallSpec.
Local Open Scope N_scope.

(* ------------------------------------------------------------------------ *)
(* 1. the value convention and the RemoteError fields                        *)

Lemma starts_with_paren s : starts_with [40] s = sig_first_is_paren (Some s).
Proof.
  destruct s as [|c s]; cbn [starts_with sig_first_is_paren]; [reflexivity|].
  rewrite andb_true_r. apply N.eqb_sym.
Qed.

Lemma cvt_reply_spec m rs : cvt_reply (Some m) rs = reply_outcome rs m.
Proof.
  destruct m as [sg vals]. unfold cvt_reply, reply_outcome, cvt_check_fails, py_body, carried, sig_of.
  cbn [m_sig m_vals].
  assert (Hconv : forall c s,
            match vals with
            | [] => OValue None
            | [v] => if negb (sig_first_is_paren (Some (c :: s))) then OValue (Some v)
                     else OValue (Some (VSeq [v]))
            | _ => OValue (Some (VSeq vals))
            end = OValue (convention (c :: s) vals)).
  { intros c s. unfold convention. destruct vals as [|v [|w r]]; try reflexivity.
    rewrite starts_with_paren. unfold sig_first_is_paren. destruct (c =? 40); reflexivity. }
  destruct sg as [[|c s]|]; destruct rs as [| |[|d t]]; cbn [truthy_sig matches_declared str_eqb list_eqb negb orb sig_ne];
    try reflexivity; try apply Hconv.
  (* declared non-empty signature against a non-empty one *)
  match goal with |- context [negb ?b] => destruct b end; cbn [negb]; [apply Hconv | reflexivity].
Qed.

Lemma cvt_reply_none rs : cvt_reply None rs = OValue None.
Proof. reflexivity. Qed.

Lemma mk_remote_error_spec name m : mk_remote_error name m = error_outcome name m.
Proof.
  destruct m as [sg vals]. unfold mk_remote_error, error_outcome, py_body, carried, sig_of, error_message.
  cbn [m_sig m_vals].
  destruct sg as [[|c s]|]; cbn [truthy_sig]; try reflexivity.
  destruct vals as [|[z|t|l] r]; reflexivity.
Qed.

Lemma has_deadline_truthy t : truthy_timeout t = has_deadline t.
Proof. destruct t as [[|p]|]; reflexivity. Qed.

(* ------------------------------------------------------------------------ *)
(* 2. generic list facts                                                      *)

Lemma filter_map_comm {A B} (f : A -> B) (p : B -> bool) l :
  filter p (map f l) = map f (filter (fun x => p (f x)) l).
Proof.
  induction l as [|a l IH]; cbn [map filter]; [reflexivity|].
  destruct (p (f a)); cbn [map]; rewrite IH; reflexivity.
Qed.

Lemma filter_filter_andb {A} (p q : A -> bool) l :
  filter q (filter p l) = filter (fun x => p x && q x) l.
Proof.
  induction l as [|a l IH]; cbn [filter]; [reflexivity|].
  destruct (p a); cbn [filter andb]; [destruct (q a)|]; rewrite IH; reflexivity.
Qed.

Lemma filter_all_true {A} (p : A -> bool) l :
  (forall x, In x l -> p x = true) -> filter p l = l.
Proof.
  induction l as [|a l IH]; intros H; cbn [filter]; [reflexivity|].
  rewrite (H a (or_introl eq_refl)). f_equal. apply IH. intros x Hx. apply H. right; exact Hx.
Qed.

Lemma filter_all_false {A} (p : A -> bool) l :
  (forall x, In x l -> p x = false) -> filter p l = [].
Proof.
  induction l as [|a l IH]; intros H; cbn [filter]; [reflexivity|].
  rewrite (H a (or_introl eq_refl)). apply IH. intros x Hx. apply H. right; exact Hx.
Qed.

Lemma flat_map_if_filter {A B} (p : A -> bool) (g : A -> list B) l :
  flat_map (fun x => if p x then g x else []) l = flat_map g (filter p l).
Proof.
  induction l as [|a l IH]; cbn [flat_map filter]; [reflexivity|].
  destruct (p a); cbn [flat_map app]; rewrite IH; reflexivity.
Qed.

Lemma flat_map_singleton {A B} (g : A -> B) l : flat_map (fun x => [g x]) l = map g l.
Proof. induction l as [|a l IH]; cbn [flat_map map app]; [reflexivity|]. rewrite IH; reflexivity. Qed.

Lemma flat_map_nil {A B} (g : A -> list B) l :
  (forall x, In x l -> g x = []) -> flat_map g l = [].
Proof.
  induction l as [|a l IH]; intros H; cbn [flat_map]; [reflexivity|].
  rewrite (H a (or_introl eq_refl)). cbn [app]. apply IH. intros x Hx. apply H. right; exact Hx.
Qed.

Lemma NoDup_map_filter {A B} (f : A -> B) (p : A -> bool) l :
  NoDup (map f l) -> NoDup (map f (filter p l)).
Proof.
  induction l as [|a l IH]; cbn [map filter]; intros H; [constructor|].
  inversion H as [|x xs Hnin Hnd]; subst.
  destruct (p a); cbn [map]; [|apply IH; exact Hnd].
  constructor; [|apply IH; exact Hnd].
  intros Hin. apply Hnin. apply in_map_iff in Hin as [y [Hy Hin]].
  apply filter_In in Hin as [Hin _]. apply in_map_iff. exists y. split; assumption.
Qed.

Lemma NoDup_map_inj_in {A B} (f : A -> B) l x y :
  NoDup (map f l) -> In x l -> In y l -> f x = f y -> x = y.
Proof.
  induction l as [|a l IH]; cbn [map]; intros Hnd Hx Hy E; [contradiction|].
  inversion Hnd as [|z zs Hnin Hnd']; subst.
  destruct Hx as [->|Hx]; destruct Hy as [->|Hy]; try reflexivity.
  - exfalso. apply Hnin. rewrite E. apply in_map. exact Hy.
  - exfalso. apply Hnin. rewrite <- E. apply in_map. exact Hx.
  - apply IH; assumption.
Qed.

(* association lists keyed by N, built from a list through [key] and [f] *)
Section Keyed.
  Context {A V : Type} (key : A -> N) (f : A -> V).
  Let ent (x : A) : N * V := (key x, f x).
  Let hit (s : N) (x : A) : bool := s =? key x.

  Lemma keyed_get s l : alist_get N.eqb s (map ent l) = option_map f (find (hit s) l).
  Proof.
    induction l as [|a l IH]; cbn [map alist_get find]; [reflexivity|].
    unfold ent at 1, hit at 1. destruct (s =? key a); [reflexivity | exact IH].
  Qed.

  Lemma keyed_del s l :
    NoDup (map key l) ->
    alist_del N.eqb s (map ent l) = map ent (filter (fun x => negb (hit s x)) l).
  Proof.
    induction l as [|a l IH]; cbn [map alist_del filter]; intros Hnd; [reflexivity|].
    inversion Hnd as [|z zs Hnin Hnd']; subst.
    unfold ent at 1, hit at 1. destruct (s =? key a) eqn:E; cbn [negb map].
    - apply N.eqb_eq in E. subst s.
      rewrite filter_all_true; [reflexivity|].
      intros x Hx. unfold hit. apply negb_true_iff. apply N.eqb_neq. intros E.
      apply Hnin. rewrite E. apply in_map. exact Hx.
    - f_equal. apply IH. exact Hnd'.
  Qed.

  Lemma keyed_set_fresh s v l :
    (forall x, In x l -> key x <> s) ->
    alist_set N.eqb s v (map ent l) = map ent l ++ [(s, v)].
  Proof.
    induction l as [|a l IH]; cbn [map alist_set app]; intros H; [reflexivity|].
    unfold ent at 1. destruct (s =? key a) eqn:E.
    - apply N.eqb_eq in E. exfalso. apply (H a (or_introl eq_refl)). congruence.
    - unfold ent at 1. f_equal. apply IH. intros x Hx. apply H. right; exact Hx.
  Qed.

  Lemma keyed_flat_hit {B} s (h : A -> B) l :
    NoDup (map key l) ->
    flat_map (fun x => if hit s x then [h x] else []) l =
    match find (hit s) l with Some x => [h x] | None => [] end.
  Proof.
    induction l as [|a l IH]; cbn [map flat_map find]; intros Hnd; [reflexivity|].
    inversion Hnd as [|z zs Hnin Hnd']; subst.
    destruct (hit s a) eqn:E; cbn [app].
    - rewrite flat_map_nil; [reflexivity|].
      intros x Hx. destruct (hit s x) eqn:E2; [|reflexivity].
      exfalso. apply Hnin. unfold hit in E, E2. apply N.eqb_eq in E, E2.
      rewrite <- E, E2. apply in_map. exact Hx.
    - apply IH. exact Hnd'.
  Qed.

  Lemma find_hit_filter s (d : A -> bool) l x :
    NoDup (map key l) -> find (hit s) l = Some x ->
    find (hit s) (filter d l) = if d x then Some x else None.
  Proof.
    induction l as [|a l IH]; cbn [map find filter]; intros Hnd Hf; [discriminate|].
    inversion Hnd as [|z zs Hnin Hnd']; subst.
    destruct (hit s a) eqn:E.
    - injection Hf as ->. destruct (d x); cbn [find]; [rewrite E; reflexivity|].
      destruct (find (hit s) (filter d l)) as [y|] eqn:Ey; [|reflexivity].
      exfalso. apply find_some in Ey as [Hin Hy]. apply filter_In in Hin as [Hin _].
      apply Hnin. unfold hit in E, Hy. apply N.eqb_eq in E, Hy. rewrite <- E, Hy. apply in_map. exact Hin.
    - destruct (d a); cbn [find]; [rewrite E|]; apply IH; assumption.
  Qed.

  Lemma find_hit_filter_none s (d : A -> bool) l :
    find (hit s) l = None -> find (hit s) (filter d l) = None.
  Proof.
    intros Hf. destruct (find (hit s) (filter d l)) as [y|] eqn:Ey; [|reflexivity].
    apply find_some in Ey as [Hin Hy]. apply filter_In in Hin as [Hin _].
    rewrite (find_none _ _ Hf y Hin) in Hy. discriminate.
  Qed.
End Keyed.

(* ------------------------------------------------------------------------ *)
(* 3. the calls of a history, one event at a time                            *)

Definition extend (e : event) (c : call) : call :=
  Call (c_id c) (c_serial c) (c_imm c) (c_deadline c) (c_rs c) (c_after c ++ [e]).

Definition new_call (id : nat) (serial : N) (e : event) : list call :=
  match e with
  | ECall k t rs => [Call id serial (immediate k serial) (has_deadline t) rs []]
  | _ => []
  end.

Definition surv (e : event) (c : call) : bool :=
  match terminal c e with None => true | Some _ => false end.

Definition live (c : call) : bool := match c_imm c with None => true | Some _ => false end.

Definition hits (s : N) (c : call) : bool := s =? c_serial c.

Lemma count_calls_snoc pre e :
  count_calls (pre ++ [e]) = (count_calls pre + match e with ECall _ _ _ => 1 | _ => 0 end)%nat.
Proof.
  induction pre as [|a pre IH]; cbn [app count_calls].
  - destruct e; reflexivity.
  - destruct a; rewrite IH; reflexivity.
Qed.

Lemma serial_after_snoc pre e s :
  serial_after (pre ++ [e]) s =
  match e with
  | ECall k _ _ => if takes_serial k then serial_after pre s + 1 else serial_after pre s
  | _ => serial_after pre s
  end.
Proof.
  revert s. induction pre as [|a pre IH]; intros s; cbn [app serial_after].
  - destruct e; reflexivity.
  - destruct a; apply IH.
Qed.

Lemma calls_of_snoc pre e id s :
  calls_of (pre ++ [e]) id s =
  map (extend e) (calls_of pre id s) ++ new_call (id + count_calls pre) (serial_after pre s) e.
Proof.
  revert id s. induction pre as [|a pre IH]; intros id s; cbn [app calls_of map count_calls serial_after].
  - rewrite Nat.add_0_r. destruct e; reflexivity.
  - destruct a; try apply IH.
    cbn [map app]. rewrite IH. unfold extend at 2. cbn [c_id c_serial c_imm c_deadline c_rs c_after].
    rewrite Nat.add_succ_r. reflexivity.
Qed.

Lemma terminal_extend e' c e : terminal (extend e' c) e = terminal c e.
Proof. destruct e; reflexivity. Qed.

Lemma first_terminal_extend e' c l : first_terminal (extend e' c) l = first_terminal c l.
Proof.
  induction l as [|e l IH]; cbn [first_terminal]; [reflexivity|].
  rewrite terminal_extend, IH. reflexivity.
Qed.

Lemma first_terminal_snoc c l e :
  first_terminal c (l ++ [e]) =
  match first_terminal c l with Some o => Some o | None => terminal c e end.
Proof.
  induction l as [|a l IH]; cbn [app first_terminal].
  - destruct (terminal c e); reflexivity.
  - destruct (terminal c a); [reflexivity | exact IH].
Qed.

Lemma outcome_of_extend e c :
  outcome_of (extend e c) =
  match outcome_of c with
  | Some o => Some o
  | None => terminal c e
  end.
Proof.
  unfold outcome_of. cbn [extend c_imm c_after].
  destruct (c_imm c) as [o|]; [reflexivity|].
  rewrite first_terminal_extend. apply first_terminal_snoc.
Qed.

Lemma still_open_extend e c : still_open (extend e c) = still_open c && surv e c.
Proof.
  unfold still_open, surv. rewrite outcome_of_extend.
  destruct (outcome_of c); [reflexivity|]. destruct (terminal c e); reflexivity.
Qed.

Lemma still_open_live c : still_open c = true -> live c = true.
Proof. unfold still_open, outcome_of, live. destruct (c_imm c); [discriminate | reflexivity]. Qed.

(* serials: every call carries a serial >= the first one; a live call
   carries one below the next free serial; live calls carry distinct ones *)
Lemma serial_after_mono evs s : s <= serial_after evs s.
Proof.
  revert s. induction evs as [|a evs IH]; intros s; cbn [serial_after]; [lia|].
  destruct a; try apply IH. destruct (takes_serial k); [|apply IH].
  specialize (IH (s + 1)). lia.
Qed.

Lemma calls_of_lower evs id s c : In c (calls_of evs id s) -> s <= c_serial c.
Proof.
  revert id s. induction evs as [|a evs IH]; intros id s; cbn [calls_of]; [contradiction|].
  destruct a; try apply IH. intros [<-|Hin]; [cbn [c_serial]; lia|].
  apply IH in Hin. destruct (takes_serial k); lia.
Qed.

Lemma live_takes_serial k s : immediate k s = None -> takes_serial k = true.
Proof. destruct k; cbn [immediate takes_serial]; try reflexivity. discriminate. Qed.

Lemma calls_of_upper evs id s c :
  In c (calls_of evs id s) -> live c = true -> c_serial c < serial_after evs s.
Proof.
  revert id s. induction evs as [|a evs IH]; intros id s; cbn [calls_of serial_after]; [contradiction|].
  destruct a; try apply IH. intros [<-|Hin] Hl.
  - unfold live in Hl. cbn [c_imm c_serial] in *.
    destruct (immediate k s) eqn:E; [discriminate|]. rewrite (live_takes_serial _ _ E).
    pose proof (serial_after_mono evs (s + 1)). lia.
  - apply (IH _ _ Hin Hl).
Qed.

Lemma calls_of_live_nodup evs id s :
  NoDup (map c_serial (filter live (calls_of evs id s))).
Proof.
  revert id s. induction evs as [|a evs IH]; intros id s; cbn [calls_of]; [constructor|].
  destruct a; try apply IH.
  cbn [filter]. unfold live at 1. cbn [c_imm].
  destruct (immediate k s) eqn:E; [apply IH|].
  cbn [map c_serial]. constructor; [|apply IH].
  rewrite (live_takes_serial _ _ E). intros Hin.
  apply in_map_iff in Hin as [c [Hc Hin]]. apply filter_In in Hin as [Hin _].
  apply calls_of_lower in Hin. lia.
Qed.

Lemma calls_of_ids evs id s c : In c (calls_of evs id s) -> (id <= c_id c < id + count_calls evs)%nat.
Proof.
  revert id s. induction evs as [|a evs IH]; intros id s; cbn [calls_of count_calls]; [contradiction|].
  destruct a; try apply IH. intros [<-|Hin]; [cbn [c_id]; lia|].
  apply IH in Hin. lia.
Qed.

(* the open calls of a history *)
Definition open_calls (s0 : N) (evs : list event) : list call :=
  filter still_open (calls_of evs 0 s0).

Lemma open_calls_nodup s0 evs : NoDup (map c_serial (open_calls s0 evs)).
Proof.
  unfold open_calls.
  rewrite <- (filter_all_true live (filter still_open (calls_of evs 0 s0))).
  - rewrite filter_filter_andb.
    rewrite (filter_ext _ (fun x => live x && still_open x)).
    + rewrite <- filter_filter_andb. apply NoDup_map_filter. apply calls_of_live_nodup.
    + intros c. apply andb_comm.
  - intros c Hc. apply filter_In in Hc as [_ Hc]. apply still_open_live. exact Hc.
Qed.

Lemma open_calls_upper s0 evs c : In c (open_calls s0 evs) -> c_serial c < serial_after evs s0.
Proof.
  unfold open_calls. intros Hc. apply filter_In in Hc as [Hin Ho].
  apply (calls_of_upper _ _ _ _ Hin (still_open_live _ Ho)).
Qed.

Lemma open_calls_snoc s0 pre e :
  open_calls s0 (pre ++ [e]) =
  map (extend e) (filter (surv e) (open_calls s0 pre)) ++
  filter still_open (new_call (count_calls pre) (serial_after pre s0) e).
Proof.
  unfold open_calls. rewrite calls_of_snoc, filter_app, filter_map_comm. cbn [Nat.add].
  f_equal. f_equal. rewrite filter_filter_andb. apply filter_ext. intros c. apply still_open_extend.
Qed.

Lemma map_extend_entry {B} (g : call -> B) e l :
  (forall c, g (extend e c) = g c) -> map g (map (extend e) l) = map g l.
Proof. intros H. rewrite map_map. apply map_ext. exact H. Qed.

Lemma filter_deadline_extend e l :
  filter c_deadline (map (extend e) l) = map (extend e) (filter c_deadline l).
Proof. rewrite filter_map_comm. reflexivity. Qed.

(* ------------------------------------------------------------------------ *)
(* 4. the invariant tying the model state to the specification's view         *)

Definition entry (c : call) : N * pcall := (c_serial c, PCall (c_id c) (c_deadline c) (c_rs c)).
Definition tentry (c : call) : N * nat := (c_serial c, c_id c).

Lemma entry_get s l :
  alist_get N.eqb s (map entry l) = option_map (fun c => snd (entry c)) (find (hits s) l).
Proof. exact (keyed_get c_serial (fun c => PCall (c_id c) (c_deadline c) (c_rs c)) s l). Qed.

Lemma entry_del s l :
  NoDup (map c_serial l) ->
  alist_del N.eqb s (map entry l) = map entry (filter (fun c => negb (hits s c)) l).
Proof. exact (keyed_del c_serial (fun c => PCall (c_id c) (c_deadline c) (c_rs c)) s l). Qed.

Lemma entry_set_fresh s v l :
  (forall c, In c l -> c_serial c <> s) ->
  alist_set N.eqb s v (map entry l) = map entry l ++ [(s, v)].
Proof. exact (keyed_set_fresh c_serial (fun c => PCall (c_id c) (c_deadline c) (c_rs c)) s v l). Qed.

Lemma tentry_get s l :
  alist_get N.eqb s (map tentry l) = option_map c_id (find (hits s) l).
Proof. exact (keyed_get c_serial c_id s l). Qed.

Lemma tentry_del s l :
  NoDup (map c_serial l) ->
  alist_del N.eqb s (map tentry l) = map tentry (filter (fun c => negb (hits s c)) l).
Proof. exact (keyed_del c_serial c_id s l). Qed.

Lemma flat_hits {B} s (h : call -> B) l :
  NoDup (map c_serial l) ->
  flat_map (fun c => if hits s c then [h c] else []) l =
  match find (hits s) l with Some c => [h c] | None => [] end.
Proof. exact (keyed_flat_hit c_serial s h l). Qed.

Lemma find_hits_filter s d l c :
  NoDup (map c_serial l) -> find (hits s) l = Some c ->
  find (hits s) (filter d l) = if d c then Some c else None.
Proof. exact (find_hit_filter c_serial s d l c). Qed.

Lemma find_hits_filter_none s d l :
  find (hits s) l = None -> find (hits s) (filter d l) = None.
Proof. exact (find_hit_filter_none c_serial s d l). Qed.

Record Inv (s0 : N) (pre : list event) (st : state) : Prop := {
  inv_serial : st_next_serial st = serial_after pre s0;
  inv_id : st_next_id st = count_calls pre;
  inv_pending : st_pending st = map entry (open_calls s0 pre);
  inv_timers : st_timers st = map tentry (filter c_deadline (open_calls s0 pre));
  inv_fault : st_fault st = false
}.

Lemma inv_init s0 : Inv s0 [] (init s0).
Proof. constructor; reflexivity. Qed.

Lemma inv_snoc_intro s0 pre e st' :
  st_next_serial st' = serial_after (pre ++ [e]) s0 ->
  st_next_id st' = count_calls (pre ++ [e]) ->
  st_pending st' =
    map entry (filter (surv e) (open_calls s0 pre)) ++
    map entry (filter still_open (new_call (count_calls pre) (serial_after pre s0) e)) ->
  st_timers st' =
    map tentry (filter c_deadline (filter (surv e) (open_calls s0 pre))) ++
    map tentry (filter c_deadline (filter still_open (new_call (count_calls pre) (serial_after pre s0) e))) ->
  st_fault st' = false ->
  Inv s0 (pre ++ [e]) st'.
Proof.
  intros H1 H2 H3 H4 H5. constructor; try assumption.
  - rewrite H3, open_calls_snoc, map_app. f_equal.
    symmetry. apply map_extend_entry. reflexivity.
  - rewrite H4, open_calls_snoc, filter_app, map_app, filter_deadline_extend. f_equal.
    symmetry. apply map_extend_entry. reflexivity.
Qed.

Definition delivered_open (e : event) (l : list call) : list (nat * outcome) :=
  flat_map (fun c => match terminal c e with Some o => [(c_id c, o)] | None => [] end) l.

Definition delivered_imm (s0 : N) (pre : list event) (e : event) : list (nat * outcome) :=
  match e with
  | ECall k _ _ =>
      match immediate k (serial_after pre s0) with
      | Some o => [(count_calls pre, o)]
      | None => []
      end
  | _ => []
  end.

Lemma delivered_at_open s0 pre e :
  delivered_at s0 pre e = delivered_open e (open_calls s0 pre) ++ delivered_imm s0 pre e.
Proof.
  unfold delivered_at, delivered_open, open_calls. rewrite flat_map_if_filter. reflexivity.
Qed.

Lemma surv_hits_filter s e l :
  (forall c, surv e c = negb (hits s c)) ->
  filter (surv e) l = filter (fun c => negb (hits s c)) l.
Proof. intros H. apply filter_ext. exact H. Qed.

(* --- a call ----------------------------------------------------------------- *)

Lemma ltb_limit s : (max_serial <? s) = negb (s <=? serial_limit).
Proof. unfold max_serial, serial_limit. apply N.ltb_antisym. Qed.

Lemma step_call s0 pre st k t rs :
  Inv s0 pre st ->
  Inv s0 (pre ++ [ECall k t rs]) (step st (ECall k t rs)) /\
  st_done (step st (ECall k t rs)) = st_done st ++ delivered_at s0 pre (ECall k t rs).
Proof.
  intros [Hs Hi Hp Ht Hf]. destruct st as [ns ni pend tim dn flt].
  cbn [st_next_serial st_next_id st_pending st_timers st_fault st_done] in *. subst ns ni pend tim flt.
  rewrite delivered_at_open.
  set (L := open_calls s0 pre) in *. set (ser := serial_after pre s0). set (id := count_calls pre).
  assert (Hsurv : filter (surv (ECall k t rs)) L = L).
  { apply filter_all_true. intros c _. reflexivity. }
  assert (Hdel : delivered_open (ECall k t rs) L = []).
  { unfold delivered_open. apply flat_map_nil. intros c _. reflexivity. }
  rewrite Hdel. cbn [app].
  assert (Hser : serial_after (pre ++ [ECall k t rs]) s0 = if takes_serial k then ser + 1 else ser)
    by (rewrite serial_after_snoc; reflexivity).
  assert (Hid : count_calls (pre ++ [ECall k t rs]) = S id)
    by (rewrite count_calls_snoc; fold id; lia).
  cbn [step]. unfold call_remote.
  cbn [st_next_serial st_next_id st_pending st_timers st_fault st_done].
  destruct k.
  - (* CkNormal *)
    rewrite ltb_limit. unfold delivered_imm. fold ser id. cbn [immediate].
    destruct (ser <=? serial_limit) eqn:Elim; cbn [negb].
    + rewrite has_deadline_truthy.
      split; [|destruct (has_deadline t); cbn [set_timers set_pending st_done st_next_serial st_next_id st_pending st_timers st_fault];
                rewrite app_nil_r; reflexivity].
      apply inv_snoc_intro; fold L ser id; rewrite ?Hsurv;
        unfold new_call; cbn [immediate filter still_open outcome_of c_imm c_after first_terminal c_deadline];
        rewrite ?Elim; cbn [filter still_open outcome_of c_imm c_after first_terminal c_deadline].
      * destruct (has_deadline t); cbn [set_timers set_pending st_next_serial]; rewrite Hser; reflexivity.
      * destruct (has_deadline t); cbn [set_timers set_pending st_next_id]; rewrite Hid; reflexivity.
      * assert (Hfresh : forall c, In c L -> c_serial c <> ser).
        { intros c Hc. apply open_calls_upper in Hc. fold ser in Hc. lia. }
        destruct (has_deadline t); cbn [set_timers set_pending st_pending st_next_serial st_next_id st_timers st_done st_fault];
          rewrite (entry_set_fresh _ _ _ Hfresh); reflexivity.
      * destruct (has_deadline t); cbn [set_timers set_pending st_pending st_next_serial st_next_id st_timers st_done st_fault filter map c_deadline];
          [reflexivity | rewrite app_nil_r; reflexivity].
      * destruct (has_deadline t); reflexivity.
    + split; [|reflexivity].
      apply inv_snoc_intro; fold L ser id; rewrite ?Hsurv;
        unfold new_call; cbn [immediate]; rewrite ?Elim;
        cbn [filter still_open outcome_of c_imm map complete st_next_serial st_next_id st_pending st_timers st_fault];
        rewrite ?app_nil_r; try reflexivity.
      * rewrite Hser. reflexivity.
      * rewrite Hid. reflexivity.
  - (* CkNoReply *)
    rewrite ltb_limit. unfold delivered_imm. fold ser id. cbn [immediate].
    split.
    + apply inv_snoc_intro; fold L ser id; rewrite ?Hsurv;
        unfold new_call; cbn [immediate];
        destruct (ser <=? serial_limit); cbn [negb];
        cbn [filter still_open outcome_of c_imm map complete st_next_serial st_next_id st_pending st_timers st_fault];
        rewrite ?app_nil_r; try reflexivity; try (rewrite Hser; reflexivity); try (rewrite Hid; reflexivity).
    + destruct (ser <=? serial_limit); reflexivity.
  - (* CkInvalid *)
    unfold delivered_imm. fold ser id. cbn [immediate].
    split; [|reflexivity].
    apply inv_snoc_intro; fold L ser id; rewrite ?Hsurv;
      unfold new_call; cbn [immediate];
      cbn [filter still_open outcome_of c_imm map complete st_next_serial st_next_id st_pending st_timers st_fault];
      rewrite ?app_nil_r; try reflexivity.
    * rewrite Hser. reflexivity.
    * rewrite Hid. reflexivity.
Qed.

(* --- a method return or an error reply ---------------------------------------- *)

Lemma filter_comm {A} (p q : A -> bool) l : filter p (filter q l) = filter q (filter p l).
Proof. rewrite !filter_filter_andb. apply filter_ext. intros x. apply andb_comm. Qed.

Definition misses (s : N) (c : call) : bool := negb (hits s c).

Lemma timers_after_miss s L :
  NoDup (map c_serial L) ->
  alist_del N.eqb s (map tentry (filter c_deadline L)) =
  map tentry (filter c_deadline (filter (misses s) L)).
Proof.
  intros Hnd. rewrite tentry_del by (apply NoDup_map_filter; exact Hnd).
  f_equal. apply filter_comm.
Qed.

Lemma find_none_misses s l : find (hits s) l = None -> filter (misses s) l = l.
Proof.
  intros Hf. apply filter_all_true. intros c Hc. unfold misses.
  rewrite (find_none _ _ Hf c Hc). reflexivity.
Qed.

Lemma timers_unchanged s L :
  find (hits s) (filter c_deadline L) = None ->
  filter c_deadline (filter (misses s) L) = filter c_deadline L.
Proof. intros Hf. rewrite filter_comm. apply find_none_misses. exact Hf. Qed.

Definition not_a_call (e : event) : Prop := match e with ECall _ _ _ => False | _ => True end.

Lemma not_a_call_facts e s0 pre :
  not_a_call e ->
  (forall id ser, new_call id ser e = []) /\ delivered_imm s0 pre e = [] /\
  count_calls (pre ++ [e]) = count_calls pre /\ serial_after (pre ++ [e]) s0 = serial_after pre s0.
Proof.
  intros H. rewrite count_calls_snoc, serial_after_snoc.
  destruct e; try contradiction; repeat split; try reflexivity; apply Nat.add_0_r.
Qed.

Definition mcancel (b : bool) (st : state) (s : N) : state := if b then cancel_timer st s else st.

Lemma mcancel_frame b st s :
  st_next_serial (mcancel b st s) = st_next_serial st /\
  st_next_id (mcancel b st s) = st_next_id st /\
  st_pending (mcancel b st s) = st_pending st /\
  st_done (mcancel b st s) = st_done st.
Proof.
  unfold mcancel, cancel_timer. destruct b; [destruct (find_timer s (st_timers st))|];
    repeat split; reflexivity.
Qed.

(* cancelling the timer of the open call that owns serial s, if it has one *)
Lemma mcancel_timers s L c0 st :
  NoDup (map c_serial L) -> find (hits s) L = Some c0 ->
  st_timers st = map tentry (filter c_deadline L) ->
  st_timers (mcancel (c_deadline c0) st s) = map tentry (filter c_deadline (filter (misses s) L)) /\
  st_fault (mcancel (c_deadline c0) st s) = st_fault st.
Proof.
  intros Hnd Efind Ht.
  pose proof (find_hits_filter s c_deadline L c0 Hnd Efind) as Hfd.
  unfold mcancel. destruct (c_deadline c0).
  - unfold cancel_timer, find_timer, remove_timer. rewrite Ht, tentry_get, Hfd.
    cbn [option_map set_timers st_timers st_fault].
    split; [apply timers_after_miss; exact Hnd | reflexivity].
  - split; [|reflexivity]. rewrite Ht, timers_unchanged by exact Hfd. reflexivity.
Qed.

Lemma step_reply s0 pre st e s (o : retsig -> outcome) :
  not_a_call e ->
  (forall c, terminal c e = if hits s c then Some (o (c_rs c)) else None) ->
  step st e = reply_received st s o ->
  Inv s0 pre st ->
  Inv s0 (pre ++ [e]) (step st e) /\
  st_done (step st e) = st_done st ++ delivered_at s0 pre e.
Proof.
  intros Hnc Hterm Hstep [Hs Hi Hp Ht Hf]. rewrite Hstep. clear Hstep.
  destruct (not_a_call_facts e s0 pre Hnc) as (Hnew & Himm & Hcnt & Hsa).
  rewrite delivered_at_open, Himm, app_nil_r.
  pose proof (open_calls_nodup s0 pre) as Hnd.
  set (L := open_calls s0 pre) in *.
  assert (Hsurv : filter (surv e) L = filter (misses s) L).
  { apply filter_ext. intros c. unfold surv, misses. rewrite Hterm. destruct (hits s c); reflexivity. }
  assert (Hdel : delivered_open e L =
                 match find (hits s) L with Some c => [(c_id c, o (c_rs c))] | None => [] end).
  { unfold delivered_open. rewrite <- (flat_hits s (fun c => (c_id c, o (c_rs c))) L Hnd).
    apply flat_map_ext. intros c. rewrite Hterm. destruct (hits s c); reflexivity. }
  rewrite Hdel. unfold reply_received. rewrite Hp, entry_get.
  destruct (find (hits s) L) as [c0|] eqn:Efind; cbn [option_map].
  - (* the reply belongs to the open call c0 *)
    cbn [entry snd pc_timer pc_id pc_rs].
    change (if c_deadline c0 then cancel_timer st s else st) with (mcancel (c_deadline c0) st s).
    destruct (mcancel_frame (c_deadline c0) st s) as (F1 & F2 & F3 & F4).
    destruct (mcancel_timers s L c0 st Hnd Efind Ht) as (Htim & Hflt).
    split.
    + apply inv_snoc_intro; fold L; rewrite ?Hnew, ?Hsurv; cbn [filter map]; rewrite ?app_nil_r;
        cbn [complete set_pending st_next_serial st_next_id st_pending st_timers st_fault].
      * rewrite F1, Hsa. exact Hs.
      * rewrite F2, Hcnt. exact Hi.
      * rewrite F3, Hp. apply entry_del. exact Hnd.
      * exact Htim.
      * rewrite Hflt. exact Hf.
    + cbn [complete set_pending st_done]. rewrite F4. reflexivity.
  - (* nobody is waiting for this serial *)
    rewrite app_nil_r. split; [|reflexivity].
    apply inv_snoc_intro; fold L; rewrite ?Hnew, ?Hsurv, ?(find_none_misses _ _ Efind);
      cbn [filter map]; rewrite ?app_nil_r.
    + rewrite Hsa. exact Hs.
    + rewrite Hcnt. exact Hi.
    + exact Hp.
    + exact Ht.
    + exact Hf.
Qed.

Lemma step_return s0 pre st s m :
  Inv s0 pre st ->
  Inv s0 (pre ++ [EReturn s m]) (step st (EReturn s m)) /\
  st_done (step st (EReturn s m)) = st_done st ++ delivered_at s0 pre (EReturn s m).
Proof.
  apply (step_reply s0 pre st (EReturn s m) s (fun rs => cvt_reply (Some m) rs)).
  - exact I.
  - intros c. cbn [terminal]. rewrite cvt_reply_spec. reflexivity.
  - reflexivity.
Qed.

Lemma step_error s0 pre st s n m :
  Inv s0 pre st ->
  Inv s0 (pre ++ [EError s n m]) (step st (EError s n m)) /\
  st_done (step st (EError s n m)) = st_done st ++ delivered_at s0 pre (EError s n m).
Proof.
  apply (step_reply s0 pre st (EError s n m) s (fun _ => mk_remote_error n m)).
  - exact I.
  - intros c. cbn [terminal]. rewrite mk_remote_error_spec. reflexivity.
  - reflexivity.
Qed.

(* --- a deadline passes ---------------------------------------------------------- *)

Lemma step_timer s0 pre st s :
  Inv s0 pre st ->
  Inv s0 (pre ++ [ETimer s]) (step st (ETimer s)) /\
  st_done (step st (ETimer s)) = st_done st ++ delivered_at s0 pre (ETimer s).
Proof.
  intros [Hs Hi Hp Ht Hf].
  destruct (not_a_call_facts (ETimer s) s0 pre I) as (Hnew & Himm & Hcnt & Hsa).
  rewrite delivered_at_open, Himm, app_nil_r.
  pose proof (open_calls_nodup s0 pre) as Hnd.
  set (L := open_calls s0 pre) in *.
  assert (Hnd2 : NoDup (map c_serial (filter c_deadline L))) by (apply NoDup_map_filter; exact Hnd).
  assert (Hdel : delivered_open (ETimer s) L =
                 match find (hits s) (filter c_deadline L) with
                 | Some c => [(c_id c, OTimeOut)] | None => [] end).
  { unfold delivered_open.
    rewrite <- (flat_hits s (fun c => (c_id c, OTimeOut)) (filter c_deadline L) Hnd2).
    rewrite <- flat_map_if_filter. apply flat_map_ext. intros c. cbn [terminal]. unfold hits.
    destruct (s =? c_serial c); destruct (c_deadline c); reflexivity. }
  rewrite Hdel. cbn [step]. unfold timer_fires, find_timer, remove_timer.
  rewrite Ht, tentry_get.
  destruct (find (hits s) (filter c_deadline L)) as [c0|] eqn:Efind; cbn [option_map].
  - (* the timer of the open call c0 runs *)
    destruct (find_some _ _ Efind) as [Hin2 Hhit].
    apply filter_In in Hin2 as [Hin Hdl].
    assert (Hsurv : filter (surv (ETimer s)) L = filter (misses s) L).
    { apply filter_ext_in. intros c Hc. unfold surv, misses. cbn [terminal]. fold (hits s c).
      destruct (hits s c) eqn:Ec; cbn [andb negb]; [|reflexivity].
      assert (c = c0) as ->.
      { apply (NoDup_map_inj_in c_serial L); try assumption.
        unfold hits in Ec, Hhit. apply N.eqb_eq in Ec, Hhit. congruence. }
      rewrite Hdl. reflexivity. }
    unfold on_method_timeout. cbn [set_timers st_pending]. rewrite Hp, entry_get.
    destruct (find (hits s) L) as [c1|] eqn:Efind1;
      [|rewrite (find_none _ _ Efind1 c0 Hin) in Hhit; discriminate].
    cbn [option_map].
    split; [|reflexivity].
    apply inv_snoc_intro; fold L; rewrite ?Hnew, ?Hsurv; cbn [filter map]; rewrite ?app_nil_r;
      cbn [complete set_pending set_timers st_next_serial st_next_id st_pending st_timers st_fault].
    + rewrite Hsa. exact Hs.
    + rewrite Hcnt. exact Hi.
    + apply entry_del. exact Hnd.
    + apply timers_after_miss. exact Hnd.
    + exact Hf.
  - (* no timer is armed for this serial *)
    assert (Hsurv : filter (surv (ETimer s)) L = L).
    { apply filter_all_true. intros c Hc. unfold surv. cbn [terminal]. fold (hits s c).
      destruct (hits s c) eqn:Ec; [|reflexivity]. destruct (c_deadline c) eqn:Ed; [|reflexivity].
      assert (Hin2 : In c (filter c_deadline L)) by (apply filter_In; split; assumption).
      rewrite (find_none _ _ Efind c Hin2) in Ec. discriminate. }
    rewrite app_nil_r. split; [|reflexivity].
    apply inv_snoc_intro; fold L; rewrite ?Hnew, ?Hsurv; cbn [filter map]; rewrite ?app_nil_r.
    + rewrite Hsa. exact Hs.
    + rewrite Hcnt. exact Hi.
    + exact Hp.
    + exact Ht.
    + exact Hf.
Qed.

(* --- the connection is lost -------------------------------------------------------- *)

Lemma lose_one_entry r st c :
  lose_one r st (entry c) = complete (mcancel (c_deadline c) st (c_serial c)) (c_id c) (OLost r).
Proof. reflexivity. Qed.

Lemma lose_fold r l : forall st,
  st_timers st = map tentry (filter c_deadline l) ->
  let st' := fold_left (lose_one r) (map entry l) st in
  st_timers st' = [] /\ st_fault st' = st_fault st /\
  st_done st' = st_done st ++ map (fun c => (c_id c, OLost r)) l /\
  st_next_serial st' = st_next_serial st /\ st_next_id st' = st_next_id st.
Proof.
  induction l as [|c l IH]; intros st Ht; cbv zeta; cbn [map fold_left].
  - cbn [filter map] in Ht. rewrite app_nil_r. repeat split; try reflexivity. exact Ht.
  - rewrite lose_one_entry.
    destruct (mcancel_frame (c_deadline c) st (c_serial c)) as (F1 & F2 & F3 & F4).
    assert (Hc : st_timers (mcancel (c_deadline c) st (c_serial c)) = map tentry (filter c_deadline l) /\
                 st_fault (mcancel (c_deadline c) st (c_serial c)) = st_fault st).
    { unfold mcancel. cbn [filter] in Ht. destruct (c_deadline c); [|split; [exact Ht | reflexivity]].
      unfold cancel_timer, find_timer, remove_timer. rewrite Ht.
      cbn [map tentry alist_get alist_del]. rewrite N.eqb_refl.
      cbn [set_timers st_timers st_fault]. split; reflexivity. }
    destruct Hc as [Hc1 Hc2].
    specialize (IH (complete (mcancel (c_deadline c) st (c_serial c)) (c_id c) (OLost r))).
    cbv zeta in IH. cbn [complete st_timers st_fault st_done st_next_serial st_next_id] in IH.
    destruct (IH Hc1) as (I1 & I2 & I3 & I4 & I5).
    repeat split.
    + exact I1.
    + rewrite I2. exact Hc2.
    + rewrite I3, F4, <- app_assoc. reflexivity.
    + rewrite I4. exact F1.
    + rewrite I5. exact F2.
Qed.

Lemma step_lost s0 pre st r :
  Inv s0 pre st ->
  Inv s0 (pre ++ [ELost r]) (step st (ELost r)) /\
  st_done (step st (ELost r)) = st_done st ++ delivered_at s0 pre (ELost r).
Proof.
  intros [Hs Hi Hp Ht Hf].
  destruct (not_a_call_facts (ELost r) s0 pre I) as (Hnew & Himm & Hcnt & Hsa).
  rewrite delivered_at_open, Himm, app_nil_r.
  set (L := open_calls s0 pre) in *.
  assert (Hsurv : filter (surv (ELost r)) L = []).
  { apply filter_all_false. intros c _. reflexivity. }
  assert (Hdel : delivered_open (ELost r) L = map (fun c => (c_id c, OLost r)) L).
  { unfold delivered_open. cbn [terminal]. apply flat_map_singleton. }
  rewrite Hdel. cbn [step]. unfold connection_lost. rewrite Hp.
  destruct (lose_fold r L st Ht) as (I1 & I2 & I3 & I4 & I5).
  split; [|exact I3].
  apply inv_snoc_intro; fold L; rewrite ?Hnew, ?Hsurv; cbn [filter map app];
    cbn [set_pending st_next_serial st_next_id st_pending st_timers st_fault].
  - rewrite I4, Hsa. exact Hs.
  - rewrite I5, Hcnt. exact Hi.
  - reflexivity.
  - exact I1.
  - rewrite I2. exact Hf.
Qed.

(* --- every event ------------------------------------------------------------------- *)

Lemma step_inv s0 pre st e :
  Inv s0 pre st ->
  Inv s0 (pre ++ [e]) (step st e) /\
  st_done (step st e) = st_done st ++ delivered_at s0 pre e.
Proof.
  destruct e.
  - apply step_call.
  - apply step_return.
  - apply step_error.
  - apply step_timer.
  - apply step_lost.
Qed.

(* ------------------------------------------------------------------------ *)
(* 5. every history                                                           *)

Lemma run_snoc s0 evs e : run s0 (evs ++ [e]) = step (run s0 evs) e.
Proof. unfold run. rewrite fold_left_app. reflexivity. Qed.

Lemma run_inv s0 evs : Inv s0 evs (run s0 evs).
Proof.
  induction evs as [|e evs IH] using rev_ind; [apply inv_init|].
  rewrite run_snoc. apply step_inv. exact IH.
Qed.

Lemma run_done_snoc s0 evs e :
  st_done (run s0 (evs ++ [e])) = st_done (run s0 evs) ++ delivered_at s0 evs e.
Proof. rewrite run_snoc. apply step_inv. apply run_inv. Qed.

Lemma run_done_from s0 post : forall pre,
  st_done (fold_left step post (run s0 pre)) = st_done (run s0 pre) ++ completions_from s0 pre post.
Proof.
  induction post as [|e post IH]; intros pre; cbn [fold_left completions_from].
  - rewrite app_nil_r. reflexivity.
  - rewrite <- run_snoc, IH, run_done_snoc, app_assoc. reflexivity.
Qed.

Lemma completions_spec s0 evs : completions (run s0 evs) = spec_completions s0 evs.
Proof.
  unfold completions, spec_completions.
  change (run s0 evs) with (fold_left step evs (run s0 [])). rewrite run_done_from. reflexivity.
Qed.

Lemma no_leftovers s0 evs :
  pending_serials (run s0 evs) = open_serials s0 evs /\
  timer_serials (run s0 evs) = open_deadline_serials s0 evs /\
  st_fault (run s0 evs) = false.
Proof.
  destruct (run_inv s0 evs) as [_ _ Hp Ht Hf].
  unfold pending_serials, timer_serials, open_serials, open_deadline_serials.
  rewrite Hp, Ht. unfold open_calls. rewrite filter_filter_andb, !map_map.
  repeat split; try assumption; apply map_ext; reflexivity.
Qed.

(* --- call by call -------------------------------------------------------------- *)

Definition is_id (i : nat) (x : nat * outcome) : bool := Nat.eqb (fst x) i.
Definition has_id (i : nat) (c : call) : bool := Nat.eqb (c_id c) i.
Definition opt_list (i : nat) (o : option outcome) : list (nat * outcome) :=
  match o with Some o => [(i, o)] | None => [] end.

Lemma calls_of_id_nodup evs id s : NoDup (map c_id (calls_of evs id s)).
Proof.
  revert id s. induction evs as [|a evs IH]; intros id s; cbn [calls_of]; [constructor|].
  destruct a; try apply IH. cbn [map c_id]. constructor; [|apply IH].
  intros Hin. apply in_map_iff in Hin as [c [Hc Hin]]. apply calls_of_ids in Hin. lia.
Qed.

Lemma find_has_id_in l c :
  NoDup (map c_id l) -> In c l -> find (has_id (c_id c)) l = Some c.
Proof.
  induction l as [|a l IH]; cbn [map find]; intros Hnd Hin; [contradiction|].
  inversion Hnd as [|z zs Hnin Hnd']; subst.
  destruct Hin as [->|Hin].
  - unfold has_id. rewrite Nat.eqb_refl. reflexivity.
  - destruct (has_id (c_id c) a) eqn:E; [|apply IH; assumption].
    exfalso. apply Hnin. unfold has_id in E. apply Nat.eqb_eq in E. rewrite E. apply in_map. exact Hin.
Qed.

Lemma filter_flat_by_id i (g : call -> list (nat * outcome)) l :
  NoDup (map c_id l) ->
  (forall c x, In x (g c) -> fst x = c_id c) ->
  filter (is_id i) (flat_map g l) =
  match find (has_id i) l with Some c => g c | None => [] end.
Proof.
  intros Hnd Hg.
  assert (Hother : forall c, has_id i c = false -> filter (is_id i) (g c) = []).
  { intros c Hc. apply filter_all_false. intros x Hx. unfold is_id. rewrite (Hg c x Hx). exact Hc. }
  assert (Hsame : forall c, has_id i c = true -> filter (is_id i) (g c) = g c).
  { intros c Hc. apply filter_all_true. intros x Hx. unfold is_id. rewrite (Hg c x Hx). exact Hc. }
  induction l as [|a l IH]; cbn [map flat_map find]; [reflexivity|].
  inversion Hnd as [|z zs Hnin Hnd']; subst.
  rewrite filter_app. destruct (has_id i a) eqn:E.
  - rewrite (Hsame a E).
    assert (Hrest : find (has_id i) l = None).
    { destruct (find (has_id i) l) as [y|] eqn:Ey; [|reflexivity].
      exfalso. apply find_some in Ey as [Hin Hy]. apply Hnin.
      unfold has_id in E, Hy. apply Nat.eqb_eq in E, Hy. rewrite E, <- Hy. apply in_map. exact Hin. }
    rewrite (IH Hnd'), Hrest, app_nil_r. reflexivity.
  - rewrite (Hother a E). cbn [app]. apply IH. exact Hnd'.
Qed.

Lemma find_map_extend i e l :
  find (has_id i) (map (extend e) l) = option_map (extend e) (find (has_id i) l).
Proof.
  induction l as [|a l IH]; cbn [map find option_map]; [reflexivity|].
  change (has_id i (extend e a)) with (has_id i a).
  destruct (has_id i a); [reflexivity | exact IH].
Qed.

Lemma find_app_none {A} (p : A -> bool) l1 l2 :
  find p (l1 ++ l2) = match find p l1 with Some x => Some x | None => find p l2 end.
Proof.
  induction l1 as [|a l1 IH]; cbn [app find]; [reflexivity|].
  destruct (p a); [reflexivity | exact IH].
Qed.

Lemma done_by_id s0 evs i :
  filter (is_id i) (st_done (run s0 evs)) =
  match find (has_id i) (calls_of evs 0 s0) with
  | Some c => opt_list i (outcome_of c)
  | None => []
  end.
Proof.
  induction evs as [|e evs IH] using rev_ind; [reflexivity|].
  rewrite run_done_snoc, filter_app, IH. clear IH.
  rewrite calls_of_snoc, find_app_none, find_map_extend. cbn [Nat.add].
  unfold delivered_at. rewrite filter_app.
  rewrite (filter_flat_by_id i _ _ (calls_of_id_nodup evs 0 s0)).
  2:{ intros c x Hx. destruct (still_open c); [|contradiction].
      destruct (terminal c e); [|contradiction]. destruct Hx as [<-|[]]. reflexivity. }
  destruct (find (has_id i) (calls_of evs 0 s0)) as [c|] eqn:Efind; cbn [option_map].
  - (* an earlier call *)
    destruct (find_some _ _ Efind) as [Hin Hid]. unfold has_id in Hid. apply Nat.eqb_eq in Hid.
    assert (Hlt : (i < count_calls evs)%nat) by (apply calls_of_ids in Hin; lia).
    assert (Himm : filter (is_id i)
                     match e with
                     | ECall k _ _ =>
                         match immediate k (serial_after evs s0) with
                         | Some o => [(count_calls evs, o)]
                         | None => []
                         end
                     | _ => []
                     end = []).
    { apply filter_all_false. intros x Hx. unfold is_id.
      destruct e; try contradiction. destruct (immediate k _); [|contradiction].
      destruct Hx as [<-|[]]. cbn [fst]. apply Nat.eqb_neq. lia. }
    rewrite Himm, app_nil_r, outcome_of_extend. unfold still_open.
    destruct (outcome_of c) as [o|]; cbn [opt_list]; [reflexivity|].
    cbn [app]. rewrite Hid. destruct (terminal c e); reflexivity.
  - (* not a call of the history so far: only the new call can have this id *)
    cbn [app]. destruct e; cbn [new_call find]; try reflexivity.
    unfold has_id, outcome_of. cbn [c_id c_imm c_after first_terminal].
    destruct (immediate k (serial_after evs s0)) as [o|]; cbn [filter]; unfold is_id; cbn [fst].
    + destruct (count_calls evs =? i)%nat eqn:E; [|reflexivity].
      apply Nat.eqb_eq in E. subst i. reflexivity.
    + destruct (count_calls evs =? i)%nat; reflexivity.
Qed.

Lemma each_call_once s0 evs c :
  In c (calls_of evs 0 s0) ->
  filter (is_id (c_id c)) (completions (run s0 evs)) = opt_list (c_id c) (outcome_of c).
Proof.
  intros Hin. unfold completions. rewrite done_by_id.
  rewrite (find_has_id_in _ _ (calls_of_id_nodup evs 0 s0) Hin). reflexivity.
Qed.

Lemma only_calls_complete s0 evs i o :
  In (i, o) (completions (run s0 evs)) ->
  exists c, In c (calls_of evs 0 s0) /\ c_id c = i /\ outcome_of c = Some o.
Proof.
  intros Hin.
  assert (Hf : In (i, o) (filter (is_id i) (st_done (run s0 evs)))).
  { apply filter_In. split; [exact Hin|]. unfold is_id. cbn [fst]. apply Nat.eqb_refl. }
  rewrite done_by_id in Hf.
  destruct (find (has_id i) (calls_of evs 0 s0)) as [c|] eqn:Efind; [|contradiction].
  destruct (find_some _ _ Efind) as [Hc Hid]. unfold has_id in Hid. apply Nat.eqb_eq in Hid.
  exists c. split; [exact Hc|]. split; [exact Hid|].
  destruct (outcome_of c) as [o'|]; [|contradiction].
  destruct Hf as [E|[]]. congruence.
Qed.

Lemma nodup_by_count (l : list (nat * outcome)) :
  (forall i, (length (filter (is_id i) l) <= 1)%nat) -> NoDup (map fst l).
Proof.
  induction l as [|a l IH]; intros H; cbn [map]; [constructor|].
  constructor.
  - intros Hin. apply in_map_iff in Hin as [b [Hb Hin]].
    specialize (H (fst a)). cbn [filter] in H. unfold is_id at 1 in H. rewrite Nat.eqb_refl in H.
    cbn [length] in H.
    assert (Hb' : In b (filter (is_id (fst a)) l)).
    { apply filter_In. split; [exact Hin|]. unfold is_id. rewrite Hb. apply Nat.eqb_refl. }
    destruct (filter (is_id (fst a)) l); [contradiction|]. cbn [length] in H. lia.
  - apply IH. intros i. specialize (H i). cbn [filter] in H.
    destruct (is_id i a); cbn [length] in H; lia.
Qed.

Lemma at_most_once s0 evs : NoDup (map fst (completions (run s0 evs))).
Proof.
  apply nodup_by_count. intros i. unfold completions. rewrite done_by_id.
  destruct (find (has_id i) (calls_of evs 0 s0)) as [c|]; [|cbn [length]; lia].
  destruct (outcome_of c); cbn [opt_list length]; lia.
Qed.
