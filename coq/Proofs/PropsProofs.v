(* Proofs for C17: the property model (Model/PropsModel.v, configuration
   `current`) against the specification Spec/PropsSpec.v. *)
From Tx Require Import Lib.Base Model.PyVal Model.Marshal Model.PropsModel Spec.PropsSpec.
Local Open Scope N_scope.

(* --- association lists ------------------------------------------------------ *)
Section Alist.
  Context {K V : Type} (eqb : K -> K -> bool).
  Hypothesis eqb_spec : forall a b, eqb a b = true <-> a = b.

  Lemma eqb_refl a : eqb a a = true.
  Proof. apply eqb_spec; reflexivity. Qed.

  Lemma eqb_neq a b : a <> b -> eqb a b = false.
  Proof. intro H. destruct (eqb a b) eqn:E; [apply eqb_spec in E; contradiction|reflexivity]. Qed.

  Lemma aget_set_same k (v : V) l : alist_get eqb k (alist_set eqb k v l) = Some v.
  Proof.
    induction l as [|[k' v'] l IH]; cbn [alist_set alist_get].
    - rewrite eqb_refl; reflexivity.
    - destruct (eqb k k') eqn:E; cbn [alist_get]; rewrite E; [reflexivity|exact IH].
  Qed.

  Lemma aget_set_other k k' (v : V) l :
    k <> k' -> alist_get eqb k' (alist_set eqb k v l) = alist_get eqb k' l.
  Proof.
    intro N. induction l as [|[k0 v0] l IH]; cbn [alist_set alist_get].
    - rewrite (eqb_neq k' k); [reflexivity|congruence].
    - destruct (eqb k k0) eqn:E; cbn [alist_get].
      + apply eqb_spec in E; subst k0. rewrite (eqb_neq k' k); [reflexivity|congruence].
      + destruct (eqb k' k0); [reflexivity|exact IH].
  Qed.

  Lemma aget_in k (v : V) l : alist_get eqb k l = Some v -> In (k, v) l.
  Proof.
    induction l as [|[k0 v0] l IH]; cbn [alist_get]; [discriminate|].
    destruct (eqb k k0) eqn:E.
    - intro H; inversion H; subst. apply eqb_spec in E; subst. left; reflexivity.
    - intro H; right; exact (IH H).
  Qed.

  Lemma in_aset k (v : V) k0 v0 l :
    In (k, v) (alist_set eqb k0 v0 l) -> (k = k0 /\ v = v0) \/ In (k, v) l.
  Proof.
    induction l as [|[k1 v1] l IH]; cbn [alist_set].
    - intros [H|[]]; inversion H; left; split; reflexivity.
    - destruct (eqb k0 k1) eqn:E.
      + apply eqb_spec in E; subst k1. intros [H|H].
        * inversion H; left; split; reflexivity.
        * right; right; exact H.
      + intros [H|H]; [right; left; exact H|].
        destruct (IH H) as [H'|H']; [left; exact H'|right; right; exact H'].
  Qed.

  Lemma in_keys_aget k l : In k (map fst l) -> exists v : V, alist_get eqb k l = Some v.
  Proof.
    induction l as [|[k0 v0] l IH]; cbn [map fst alist_get]; [intros []|].
    intros [H|H].
    - subst. rewrite eqb_refl. eexists; reflexivity.
    - destruct (eqb k k0); [eexists; reflexivity|exact (IH H)].
  Qed.
End Alist.

Definition str_spec := str_eqb_spec.

Lemma key_eqb_spec (a b : key) : key_eqb current a b = true <-> a = b.
Proof.
  destruct a as [a1 a2], b as [b1 b2]. unfold key_eqb; cbn [legacy_key current fst snd].
  rewrite andb_true_iff, !str_eqb_spec. split; [intros [-> ->]; reflexivity|intro H; inversion H; auto].
Qed.

(* --- first_some / find ------------------------------------------------------ *)
Lemma first_some_split {A B} (f : A -> option B) l y :
  first_some f l = Some y ->
  exists l1 x l2, l = l1 ++ x :: l2 /\ f x = Some y /\ forall z, In z l1 -> f z = None.
Proof.
  induction l as [|x l IH]; cbn [first_some]; [discriminate|].
  destruct (f x) eqn:E.
  - intro H; inversion H; subst. exists [], x, l. repeat split; auto. intros z [].
  - intro H. destruct (IH H) as (l1 & x' & l2 & -> & Hx & Hn).
    exists (x :: l1), x', l2. repeat split; auto.
    intros z [<-|Hz]; [exact E|exact (Hn z Hz)].
Qed.

Lemma first_some_none {A B} (f : A -> option B) l :
  first_some f l = None <-> forall z, In z l -> f z = None.
Proof.
  induction l as [|x l IH]; cbn [first_some].
  - split; [intros _ z []|reflexivity].
  - destruct (f x) eqn:E.
    + split; [discriminate|]. intro H. rewrite (H x (or_introl eq_refl)) in E. discriminate.
    + rewrite IH. split.
      * intros H z [<-|Hz]; [exact E|exact (H z Hz)].
      * intros H z Hz. apply H. right; exact Hz.
Qed.

Lemma find_split {A} (g : A -> bool) l1 x l2 :
  g x = true -> (forall z, In z l1 -> g z = false) -> find g (l1 ++ x :: l2) = Some x.
Proof.
  intros Hx Hn. induction l1 as [|z l1 IH]; cbn [app find].
  - rewrite Hx; reflexivity.
  - rewrite (Hn z (or_introl eq_refl)). apply IH. intros z' Hz'. apply Hn. right; exact Hz'.
Qed.

Lemma find_unique {A} (g : A -> bool) l x :
  In x l -> g x = true -> (forall z, In z l -> g z = true -> z = x) -> find g l = Some x.
Proof.
  induction l as [|y l IH]; [intros []|]. intros Hin Hx Hu. cbn [find].
  destruct (g y) eqn:E.
  - f_equal. apply Hu; [left; reflexivity|exact E].
  - destruct Hin as [->|Hin]; [congruence|].
    apply IH; auto. intros z Hz. apply Hu. right; exact Hz.
Qed.

Lemma nodup_map_inj {A B} (f : A -> B) l x y :
  NoDup (map f l) -> In x l -> In y l -> f x = f y -> x = y.
Proof.
  induction l as [|z l IH]; [intros _ []|].
  cbn [map]. intros Hnd Hx Hy E. inversion Hnd as [|? ? Hni Hnd']; subst.
  destruct Hx as [->|Hx], Hy as [->|Hy]; auto.
  - exfalso. apply Hni. rewrite E. apply in_map; exact Hy.
  - exfalso. apply Hni. rewrite <- E. apply in_map; exact Hx.
Qed.

Lemma nodup_mid {A B} (f : A -> B) l1 x l2 z :
  NoDup (map f (l1 ++ x :: l2)) -> In z l1 -> f z <> f x.
Proof.
  induction l1 as [|y l1 IH]; [intros _ []|].
  cbn [app map]. intros Hnd [->|Hz].
  - inversion Hnd as [|? ? Hni _]; subst. intro E. apply Hni. rewrite E.
    rewrite map_app. apply in_or_app. right. left. reflexivity.
  - inversion Hnd; subst. apply IH; assumption.
Qed.

Lemma map_res_ok {A B} (f : A -> res B) (g : A -> B) l :
  (forall x, In x l -> f x = Ok (g x)) -> map_res f l = Ok (map g l).
Proof.
  induction l as [|x l IH]; intro H; cbn [map_res map]; [reflexivity|].
  rewrite (H x (or_introl eq_refl)). cbn [Base.bind]. rewrite IH; [reflexivity|].
  intros y Hy. apply H. right; exact Hy.
Qed.

(* --- the compiled hierarchy is the specification's table ---------------------- *)
Section Hier.
  Variable h : hier.
  Hypothesis Hwf : wf h.

  Definition bind_of (d : dprop) : bind :=
    match denotes h d with
    | Some (i, p) => mkB (d_attr d) i p (match d_iface d with Some _ => true | None => false end)
    | None => mkB (d_attr d) [] (mkP [] [] ARead EmFalse) false
    end.

  Definition spec_binds : list (list bind) := map (fun c => map bind_of (c_attrs c)) h.

  Let Hnames : NoDup (map i_name (all_ifaces h)) := proj1 Hwf.

  Lemma resolve_ok d n p :
    denotes h d = Some (n, p) -> resolve (get_interfaces h) d = Ok (bind_of d).
  Proof.
    intro Hd. unfold bind_of. rewrite Hd.
    unfold denotes in Hd. apply first_some_split in Hd as (l1 & x & l2 & Hl & Hx & Hn).
    unfold get_interfaces. fold (all_ifaces h). pose proof Hnames as Hnd. rewrite Hl in Hnd |- *.
    rewrite <- app_assoc. cbn [app].
    unfold resolve. destruct (d_iface d) as [n0|] eqn:Ei.
    - destruct (str_eqb (i_name x) n0) eqn:En; [|discriminate].
      apply str_eqb_spec in En. destruct (find_prop x (d_pname d)) as [p'|] eqn:Ep; [|discriminate].
      cbn [option_map] in Hx. injection Hx as <- <-. cbn [Base.bind].
      rewrite (find_split (fun i => str_eqb (i_name i) n0) l1 x).
      + rewrite Ep. rewrite En. reflexivity.
      + rewrite En. apply str_eqb_refl.
      + intros z Hz. destruct (str_eqb (i_name z) n0) eqn:E; [|reflexivity].
        apply str_eqb_spec in E. exfalso. apply (nodup_mid i_name l1 x l2 z Hnd Hz). congruence.
    - destruct (find_prop x (d_pname d)) as [p'|] eqn:Ep; [|discriminate].
      cbn [option_map] in Hx. injection Hx as <- <-.
      rewrite (find_split _ l1 x).
      + cbn [Base.bind]. rewrite (find_split (fun i => str_eqb (i_name i) (i_name x)) l1 x).
        * rewrite Ep. reflexivity.
        * apply str_eqb_refl.
        * intros z Hz. destruct (str_eqb (i_name z) (i_name x)) eqn:E; [|reflexivity].
          apply str_eqb_spec in E. exfalso. exact (nodup_mid i_name l1 x l2 z Hnd Hz E).
      + rewrite Ep; reflexivity.
      + intros z Hz. specialize (Hn z Hz). cbn beta in Hn.
        destruct (find_prop z (d_pname d)); [discriminate|reflexivity].
  Qed.

  Lemma compile_ok : compile h = Ok spec_binds.
  Proof.
    unfold compile, spec_binds. apply map_res_ok. intros c Hc.
    apply map_res_ok. intros d Hd.
    pose proof Hwf as (_ & _ & _ & _ & Hall).
    destruct (denotes h d) as [[n p]|] eqn:E; [exact (resolve_ok d n p E)|].
    exfalso. exact (Hall c d Hc Hd E).
  Qed.
End Hier.

(* --- what a class cache contains ---------------------------------------------- *)
Definition cinv (c : cache) (bl : list bind) : Prop :=
  (forall iname ic, In (iname, ic) c -> forall n b, In (n, b) ic ->
     In b bl /\ b_iface b = iname /\ b_name b = n) /\
  (forall b, In b bl -> exists ic, alist_get str_eqb (b_iface b) c = Some ic /\
                         exists b', alist_get str_eqb (b_name b) ic = Some b').

Lemma str_dec (a b : str) : a = b \/ a <> b.
Proof. destruct (str_eqb a b) eqn:E; [left; apply str_eqb_spec; exact E|right; intro H; apply str_eqb_spec in H; congruence]. Qed.

Lemma cinv_put c bl b : cinv c bl -> cinv (cache_put c b) (bl ++ [b]).
Proof.
  intros [HS HC]. unfold cache_put.
  set (ic_old := match alist_get str_eqb (b_iface b) c with Some ic => ic | None => [] end).
  set (newic := alist_set str_eqb (b_name b) b ic_old).
  split.
  - intros iname ic Hin n b0 Hb0.
    apply (in_aset str_eqb str_eqb_spec) in Hin as [[-> ->]|Hin].
    + apply (in_aset str_eqb str_eqb_spec) in Hb0 as [[-> ->]|Hb0].
      * split; [apply in_or_app; right; left; reflexivity|split; reflexivity].
      * subst ic_old. destruct (alist_get str_eqb (b_iface b) c) as [ic0|] eqn:E; [|destruct Hb0].
        apply (aget_in str_eqb str_eqb_spec) in E.
        destruct (HS _ _ E _ _ Hb0) as (H1 & H2 & H3).
        split; [apply in_or_app; left; exact H1|split; assumption].
    + destruct (HS _ _ Hin _ _ Hb0) as (H1 & H2 & H3).
      split; [apply in_or_app; left; exact H1|split; assumption].
  - intros b0 Hb0. apply in_app_or in Hb0 as [Hb0|[<-|[]]].
    + destruct (HC b0 Hb0) as (ic0 & Hic0 & b' & Hb').
      destruct (str_dec (b_iface b) (b_iface b0)) as [Ei|Ei].
      * exists newic. split; [rewrite <- Ei; apply (aget_set_same str_eqb str_eqb_spec)|].
        assert (ic_old = ic0) as Eo by (subst ic_old; rewrite Ei, Hic0; reflexivity).
        subst newic. rewrite Eo.
        destruct (str_dec (b_name b) (b_name b0)) as [En|En].
        -- exists b. rewrite <- En. apply (aget_set_same str_eqb str_eqb_spec).
        -- exists b'. rewrite (aget_set_other str_eqb str_eqb_spec); assumption.
      * exists ic0. split; [rewrite (aget_set_other str_eqb str_eqb_spec); assumption|].
        exists b'; exact Hb'.
    + exists newic. split; [apply (aget_set_same str_eqb str_eqb_spec)|].
      exists b. apply (aget_set_same str_eqb str_eqb_spec).
Qed.

Lemma cinv_fold bl : forall c bl0, cinv c bl0 -> cinv (fold_left cache_put bl c) (bl0 ++ bl).
Proof.
  induction bl as [|b bl IH]; intros c bl0 H; cbn [fold_left].
  - rewrite app_nil_r; exact H.
  - replace (bl0 ++ b :: bl) with ((bl0 ++ [b]) ++ bl) by (rewrite <- app_assoc; reflexivity).
    apply IH. apply cinv_put; exact H.
Qed.

Lemma cinv_of bl : cinv (cache_of bl) bl.
Proof.
  apply (cinv_fold bl [] []). split; [intros ? ? []|intros ? []].
Qed.

(* one class *)
Lemma search_one_sound bl i n b :
  search_one (cache_of bl) i n = Some b ->
  In b bl /\ b_name b = n /\ (nonempty i = true -> b_iface b = i).
Proof.
  destruct (cinv_of bl) as [HS _]. unfold search_one.
  destruct (nonempty i) eqn:Ei.
  - destruct (alist_get str_eqb i (cache_of bl)) as [ic|] eqn:E; [|discriminate].
    intro H. apply (aget_in str_eqb str_eqb_spec) in E, H.
    destruct (HS _ _ E _ _ H) as (H1 & H2 & H3). auto.
  - intro H. apply first_some_split in H as (l1 & [iname ic] & l2 & Hl & Hx & _).
    cbn [snd] in Hx. apply (aget_in str_eqb str_eqb_spec) in Hx.
    assert (In (iname, ic) (cache_of bl)) as Hin by (rewrite Hl; apply in_or_app; right; left; reflexivity).
    destruct (HS _ _ Hin _ _ Hx) as (H1 & H2 & H3). split; [exact H1|split; [exact H3|discriminate]].
Qed.

Lemma search_one_complete bl i n :
  search_one (cache_of bl) i n = None ->
  forall b, In b bl -> b_name b = n -> (nonempty i = true -> b_iface b = i) -> False.
Proof.
  destruct (cinv_of bl) as [_ HC]. unfold search_one. intros H b Hb Hn Hi.
  destruct (HC b Hb) as (ic & Hic & b' & Hb'). rewrite Hn in Hb'.
  destruct (nonempty i) eqn:Ei.
  - rewrite <- (Hi eq_refl) in H. rewrite Hic, Hb' in H. discriminate.
  - rewrite first_some_none in H. apply (aget_in str_eqb str_eqb_spec) in Hic.
    specialize (H _ Hic). cbn [snd] in H. congruence.
Qed.

Lemma search_sound bs i n b :
  search (map cache_of bs) i n = Some b ->
  In b (concat bs) /\ b_name b = n /\ (nonempty i = true -> b_iface b = i).
Proof.
  unfold search. intro H. apply first_some_split in H as (l1 & c & l2 & Hl & Hx & _).
  assert (In c (map cache_of bs)) as Hc by (rewrite Hl; apply in_or_app; right; left; reflexivity).
  apply in_map_iff in Hc as (bl & <- & Hbl).
  destruct (search_one_sound bl i n b Hx) as (H1 & H2 & H3).
  split; [apply in_concat; exists bl; split; assumption|split; assumption].
Qed.

Lemma search_complete bs i n :
  search (map cache_of bs) i n = None ->
  forall b, In b (concat bs) -> b_name b = n -> (nonempty i = true -> b_iface b = i) -> False.
Proof.
  unfold search. rewrite first_some_none. intros H b Hb Hn Hi.
  apply in_concat in Hb as (bl & Hbl & Hb).
  apply (search_one_complete bl i n (H _ (in_map cache_of _ _ Hbl)) b Hb Hn Hi).
Qed.

Lemma find_app_ {A} (g : A -> bool) l1 l2 :
  find g (l1 ++ l2) = match find g l1 with Some x => Some x | None => find g l2 end.
Proof. induction l1 as [|x l1 IH]; cbn [app find]; [reflexivity|]. destruct (g x); [reflexivity|exact IH]. Qed.

Lemma find_prop_name i n p : find_prop i n = Some p -> p_name p = n.
Proof.
  unfold find_prop. intro H. apply find_some in H as [_ H]. apply str_eqb_spec; exact H.
Qed.

(* --- names resolve the same way in model and specification ---------------------- *)
Section Resolution.
  Variable h : hier.
  Hypothesis Hwf : wf h.

  Definition flat : list bind := concat (spec_binds h).
  Definition decl_of (b : bind) : decl := mkDecl (b_attr b) (b_iface b) (b_prop b).

  Lemma denotes_in d n p :
    denotes h d = Some (n, p) ->
    exists i, In i (all_ifaces h) /\ i_name i = n /\ find_prop i (d_pname d) = Some p.
  Proof.
    unfold denotes. intro H. apply first_some_split in H as (l1 & x & l2 & Hl & Hx & _).
    exists x. split; [rewrite Hl; apply in_or_app; right; left; reflexivity|].
    destruct (match d_iface d with Some n0 => str_eqb (i_name x) n0 | None => true end); [|discriminate].
    destruct (find_prop x (d_pname d)) as [p'|]; [|discriminate].
    cbn [option_map] in Hx. injection Hx as <- <-. split; reflexivity.
  Qed.

  Lemma flat_in b :
    In b flat ->
    exists c d, In c h /\ In d (c_attrs c) /\ b = bind_of h d /\
                denotes h d = Some (b_iface b, b_prop b) /\ b_attr b = d_attr d.
  Proof.
    unfold flat, spec_binds. intro H. apply in_concat in H as (bl & Hbl & Hb).
    apply in_map_iff in Hbl as (c & <- & Hc). apply in_map_iff in Hb as (d & <- & Hd).
    exists c, d. pose proof Hwf as (_ & _ & _ & _ & Hall). specialize (Hall c d Hc Hd).
    unfold bind_of. destruct (denotes h d) as [[n p]|]; [|congruence].
    cbn [b_iface b_prop b_attr]. repeat split; assumption.
  Qed.

  Lemma flat_iface b :
    In b flat -> exists i, In i (all_ifaces h) /\ i_name i = b_iface b /\
                           find_prop i (b_name b) = Some (b_prop b).
  Proof.
    intro H. destruct (flat_in b H) as (c & d & _ & _ & _ & Hd & _).
    destruct (denotes_in d _ _ Hd) as (i & Hi & Hn & Hp).
    exists i. split; [exact Hi|split; [exact Hn|]].
    unfold b_name. rewrite (find_prop_name _ _ _ Hp). exact Hp.
  Qed.

  (* K1: one declaration per (interface, name) *)
  Lemma prop_unique b b' :
    In b flat -> In b' flat -> b_iface b = b_iface b' -> b_name b = b_name b' -> b_prop b = b_prop b'.
  Proof.
    intros Hb Hb' Ei En.
    destruct (flat_iface b Hb) as (i & Hi & Hni & Hpi).
    destruct (flat_iface b' Hb') as (i' & Hi' & Hni' & Hpi').
    assert (i = i') as <-.
    { apply (nodup_map_inj i_name (all_ifaces h)); [exact (proj1 Hwf)|assumption|assumption|congruence]. }
    rewrite En in Hpi. congruence.
  Qed.

  Lemma flat_attrs : map b_attr flat = flat_map (fun c => map d_attr (c_attrs c)) h.
  Proof.
    unfold flat, spec_binds.
    assert (forall l, map b_attr (concat (map (fun c => map (bind_of h) (c_attrs c)) l))
                      = flat_map (fun c => map d_attr (c_attrs c)) l) as G.
    { induction l as [|c l IH]; cbn [map concat flat_map]; [reflexivity|].
      rewrite map_app, IH. f_equal. rewrite map_map. apply map_ext. intro d.
      unfold bind_of. destruct (denotes h d) as [[n p]|]; reflexivity. }
    apply G.
  Qed.

  (* K2: an attribute name reaches one descriptor *)
  Lemma find_attr b : In b flat -> find (fun b' => str_eqb (b_attr b') (b_attr b)) flat = Some b.
  Proof.
    intro Hb. apply find_unique; [exact Hb|apply str_eqb_refl|].
    intros z Hz E. apply str_eqb_spec in E.
    apply (nodup_map_inj b_attr flat); [|assumption|assumption|exact E].
    rewrite flat_attrs. exact (proj1 (proj2 (proj2 (proj2 Hwf)))).
  Qed.

  Lemma declared_flat : declared h = map decl_of flat.
  Proof.
    unfold declared, flat, spec_binds. pose proof Hwf as (_ & _ & _ & _ & Hall).
    rewrite flat_map_concat_map, concat_map, map_map. f_equal.
    apply map_ext_in. intros c Hc.
    rewrite flat_map_concat_map, map_map.
    assert (forall ds, (forall d, In d ds -> denotes h d <> None) ->
              concat (map (fun d => match denotes h d with
                                    | Some (i, p) => [mkDecl (d_attr d) i p]
                                    | None => []
                                    end) ds) = map (fun d => decl_of (bind_of h d)) ds) as G2.
    { induction ds as [|d ds IHd]; intro Hds; [reflexivity|].
      change (concat (map ?f (d :: ds))) with (f d ++ concat (map f ds)).
      change (map ?g (d :: ds)) with (g d :: map g ds).
      rewrite IHd by (intros d' Hd'; apply Hds; right; exact Hd').
      specialize (Hds d (or_introl eq_refl)).
      destruct (denotes h d) as [[n p]|] eqn:E; [|congruence].
      replace (decl_of (bind_of h d)) with (mkDecl (d_attr d) n p)
        by (unfold bind_of; rewrite E; reflexivity).
      reflexivity. }
    apply G2. intros d Hd. exact (Hall c d Hc Hd).
  Qed.

  (* the attribute table of the model is the specification's *)
  Lemma lookup_attr_from_find l : forall k a,
    option_map snd (lookup_attr_from k l a) = find (fun b => str_eqb (b_attr b) a) (concat l).
  Proof.
    induction l as [|bl l IH]; intros k a; cbn [lookup_attr_from concat]; [reflexivity|].
    rewrite find_app_. destruct (find (fun b => str_eqb (b_attr b) a) bl); [reflexivity|apply IH].
  Qed.

  Lemma lookup_attr_in b : In b flat -> exists k, lookup_attr (spec_binds h) (b_attr b) = Some (k, b).
  Proof.
    intro Hb. pose proof (lookup_attr_from_find (spec_binds h) 0%nat (b_attr b)) as H.
    fold flat in H. rewrite (find_attr b Hb) in H. unfold lookup_attr.
    destruct (lookup_attr_from 0 (spec_binds h) (b_attr b)) as [[k b']|]; [|discriminate].
    cbn [option_map snd] in H. exists k. congruence.
  Qed.

  Lemma by_attr_lookup a :
    match lookup_attr (spec_binds h) a, by_attr h a with
    | Some (_, b), Some d => d = decl_of b /\ In b flat
    | None, None => True
    | _, _ => False
    end.
  Proof.
    pose proof (lookup_attr_from_find (spec_binds h) 0%nat a) as H. fold flat in H.
    unfold by_attr. rewrite declared_flat. unfold lookup_attr.
    assert (forall l, find (fun d => str_eqb (dc_attr d) a) (map decl_of l)
                      = option_map decl_of (find (fun b => str_eqb (b_attr b) a) l)) as G.
    { induction l as [|x l IH]; cbn [map find]; [reflexivity|].
      cbn [decl_of dc_attr]. destruct (str_eqb (b_attr x) a); [reflexivity|exact IH]. }
    rewrite G, <- H.
    destruct (lookup_attr_from 0 (spec_binds h) a) as [[k b]|] eqn:E; cbn [option_map snd]; [|exact I].
    split; [reflexivity|].
    cbn [option_map snd] in H. symmetry in H. apply find_some in H. exact (proj1 H).
  Qed.

  (* K3: a remote call names the same property for the model and the specification *)
  Lemma named_search i n :
    clear h i n ->
    match search (caches (spec_binds h)) i n, named h i n with
    | Some b, Some d => In b flat /\ dc_iface d = b_iface b /\ dc_prop d = b_prop b /\ b_name b = n
    | None, None => True
    | _, _ => False
    end.
  Proof.
    intro Hclear. unfold named, caches. rewrite declared_flat.
    set (g := fun d => (negb (nonempty i) || str_eqb (dc_iface d) i) && str_eqb (dc_name d) n).
    assert (forall b, g (decl_of b) = true <-> (b_name b = n /\ (nonempty i = true -> b_iface b = i))) as Hg.
    { intro b. unfold g, decl_of, dc_name. cbn [dc_iface dc_prop]. fold (b_name b).
      rewrite andb_true_iff, orb_true_iff, negb_true_iff, !str_eqb_spec. split.
      - intros [[H|H] H2]; split; auto. intro H3; congruence.
      - intros [H1 H2]. split; [|exact H1]. destruct (nonempty i); [right; auto|left; reflexivity]. }
    destruct (search (map cache_of (spec_binds h)) i n) as [b|] eqn:Es.
    - apply search_sound in Es as (Hb & Hn & Hi). fold flat in Hb.
      destruct (find g (map decl_of flat)) as [d|] eqn:Ef.
      + apply find_some in Ef as [Hd Hgd]. apply in_map_iff in Hd as (b' & <- & Hb').
        apply Hg in Hgd as [Hn' Hi'].
        assert (b_iface b' = b_iface b) as Ei.
        { destruct Hclear as [Hne|Hc].
          - rewrite (Hi Hne), (Hi' Hne); reflexivity.
          - apply (Hc (decl_of b') (decl_of b)).
            + rewrite declared_flat. apply in_map; exact Hb'.
            + rewrite declared_flat. apply in_map; exact Hb.
            + exact Hn'.
            + exact Hn. }
        cbn [decl_of dc_iface dc_prop]. repeat split; try assumption.
        apply prop_unique; try assumption. congruence.
      + exfalso. pose proof (find_none _ _ Ef (decl_of b) (in_map decl_of _ _ Hb)) as Hf.
        assert (g (decl_of b) = true) as Ht by (apply Hg; split; assumption). congruence.
    - destruct (find g (map decl_of flat)) as [d|] eqn:Ef; [|exact I].
      apply find_some in Ef as [Hd Hgd]. apply in_map_iff in Hd as (b' & <- & Hb').
      apply Hg in Hgd as [Hn' Hi']. exact (search_complete _ _ _ Es b' Hb' Hn' Hi').
  Qed.
End Resolution.

(* --- the model follows the specification over every history -------------------- *)
Definition is_changed (s : signal) : bool := match s with SigChanged _ _ _ _ _ => true | _ => false end.

Section Main.
  Variable h : hier.
  Hypothesis Hwf : wf h.

  Definition op_clear (o : op) : Prop :=
    match o with OGet _ i n | OSet _ i n _ => clear h i n | _ => True end.

  Definition stepc := step current (iface_names h) (spec_binds h).
  Definition runc := run current (iface_names h) (spec_binds h).

  Definition sinv (hist : list op) (st : state) : Prop :=
    (forall c, exp_on st c = exported_on hist c) /\
    s_handler st = handler_of hist /\
    forall i n, read_val current st (i, n) = latest h hist i n.

  (* how one operation moves the export tables and the object's handler *)
  Definition exp_after (o : op) (old : nat -> bool) (c : nat) : bool :=
    match o with
    | OExport c' => if Nat.eqb c' c then true else old c
    | OUnexport c' => if Nat.eqb c' c then false else old c
    | _ => old c
    end.
  Definition handler_after (o : op) (old : option nat) : option nat :=
    match o with OExport c => Some c | _ => old end.

  Lemma existsb_filter_neq l c c' :
    existsb (Nat.eqb c) (filter (fun x => negb (Nat.eqb x c')) l)
    = if Nat.eqb c' c then false else existsb (Nat.eqb c) l.
  Proof.
    induction l as [|x l IH]; cbn [filter existsb]; [destruct (Nat.eqb c' c); reflexivity|].
    destruct (Nat.eqb x c') eqn:Ex; cbn [negb existsb].
    - apply Nat.eqb_eq in Ex; subst x. rewrite IH.
      destruct (Nat.eqb c' c) eqn:E; [reflexivity|].
      rewrite Nat.eqb_sym, E. reflexivity.
    - rewrite IH. destruct (Nat.eqb c' c) eqn:E; [|reflexivity].
      apply Nat.eqb_eq in E; subst c'. rewrite Nat.eqb_sym, Ex. reflexivity.
  Qed.

  Lemma read_store st k v i n :
    read_val current (store current st k v) (i, n)
    = if str_eqb (fst k) i && str_eqb (snd k) n then v else read_val current st (i, n).
  Proof.
    unfold read_val, store. cbn [s_vals]. destruct k as [k1 k2]. cbn [fst snd].
    destruct (str_eqb k1 i && str_eqb k2 n) eqn:E.
    - apply andb_true_iff in E as [E1 E2]. apply str_eqb_spec in E1, E2. subst.
      rewrite (aget_set_same (key_eqb current) key_eqb_spec). reflexivity.
    - rewrite (aget_set_other (key_eqb current) key_eqb_spec); [reflexivity|].
      intro H. inversion H; subst. rewrite !str_eqb_refl in E. discriminate.
  Qed.

  Lemma set_resolved_state st b v :
    fst (fst (set_resolved current st b v)) = store current st (key_of b) v.
  Proof.
    unfold set_resolved. cbn [legacy_sigtype current].
    destruct (p_emits (b_prop b)); try reflexivity.
    destruct (wrap_decl (p_sig (b_prop b)) v); [|reflexivity].
    destruct (s_handler st); [|reflexivity].
    destruct (wire_variant a) as [[sg x]|]; reflexivity.
  Qed.

  Lemma assign_current st a v :
    assign current (spec_binds h) st a v
    = match lookup_attr (spec_binds h) a with
      | None => (st, true, [])
      | Some (_, b) => set_resolved current st b v
      end.
  Proof. unfold assign. destruct (lookup_attr (spec_binds h) a) as [[k b]|]; reflexivity. Qed.

  (* what one operation does to the export tables, the handler and the stored values *)
  Lemma step_state st o :
    op_clear o ->
    let st' := fst (fst (stepc st o)) in
    (forall c, exp_on st' c = exp_after o (exp_on st) c) /\
    s_handler st' = handler_after o (s_handler st) /\
    forall i n,
      read_val current st' (i, n)
      = match write_of h (exp_on st (arrives o)) o with
        | Some (d, v) => if str_eqb (dc_iface d) i && str_eqb (dc_name d) n then v
                         else read_val current st (i, n)
        | None => read_val current st (i, n)
        end.
  Proof.
    intro Hc. unfold stepc.
    destruct o as [a v|c'|c'|c' i n|c' i n v|c' i]; cbn [step write_of arrives exp_after handler_after].
    - rewrite assign_current. pose proof (by_attr_lookup h Hwf a) as H.
      destruct (lookup_attr (spec_binds h) a) as [[k b]|]; destruct (by_attr h a) as [d|]; try contradiction.
      + destruct H as [-> Hb]. cbn [option_map].
        destruct (set_resolved current st b v) as [[st' ok] sg] eqn:E.
        pose proof (set_resolved_state st b v) as Hs. rewrite E in Hs. cbn [fst] in Hs |- *. subst st'.
        split; [reflexivity|]. split; [reflexivity|]. intros i n. rewrite read_store. reflexivity.
      + cbn [option_map fst]. repeat split; reflexivity.
    - unfold export. cbn zeta.
      match goal with |- context [fold_left ?f ?l ?a] => destruct (fold_left f l a) end;
        cbn [fst]; (split; [intro c; unfold exp_on; cbn [s_exps existsb]; rewrite (Nat.eqb_sym c c');
                            destruct (Nat.eqb c' c); reflexivity|split; reflexivity]).
    - unfold unexport. destruct (exp_on st c') eqn:E; cbn [fst].
      + split; [|split; reflexivity]. intro c. unfold exp_on. cbn [s_exps]. apply existsb_filter_neq.
      + split; [|split; reflexivity]. intro c. destruct (Nat.eqb c' c) eqn:Ec; [|reflexivity].
        apply Nat.eqb_eq in Ec; subst c'. exact E.
    - destruct (exp_on st c') eqn:E; cbn [fst]; repeat split; reflexivity.
    - destruct (exp_on st c') eqn:E; [|cbn [fst]; repeat split; reflexivity].
      unfold prop_set. pose proof (named_search h Hwf i n Hc) as H.
      destruct (search (caches (spec_binds h)) i n) as [b|]; destruct (named h i n) as [d|]; try contradiction.
      + destruct H as (Hb & Ei & Ep & En). unfold writable. rewrite Ep.
        destruct (p_acc (b_prop b)) eqn:Ea.
        * cbn [fst]. repeat split; reflexivity.
        * rewrite assign_current. destruct (lookup_attr_in h Hwf b Hb) as (k & ->).
          destruct (set_resolved current (all_built (spec_binds h) st) b v) as [[st' ok] sg] eqn:Es.
          pose proof (set_resolved_state (all_built (spec_binds h) st) b v) as Hs. rewrite Es in Hs.
          cbn [fst] in Hs |- *. subst st'.
          split; [reflexivity|]. split; [reflexivity|]. intros i' n'. rewrite read_store.
          unfold key_of. cbn [fst snd]. rewrite Ei. unfold dc_name. rewrite Ep. reflexivity.
        * rewrite assign_current. destruct (lookup_attr_in h Hwf b Hb) as (k & ->).
          destruct (set_resolved current (all_built (spec_binds h) st) b v) as [[st' ok] sg] eqn:Es.
          pose proof (set_resolved_state (all_built (spec_binds h) st) b v) as Hs. rewrite Es in Hs.
          cbn [fst] in Hs |- *. subst st'.
          split; [reflexivity|]. split; [reflexivity|]. intros i' n'. rewrite read_store.
          unfold key_of. cbn [fst snd]. rewrite Ei. unfold dc_name. rewrite Ep. reflexivity.
      + cbn [fst]. repeat split; reflexivity.
    - destruct (exp_on st c') eqn:E; cbn [fst]; repeat split; reflexivity.
  Qed.
End Main.

Section Theorems.
  Variable h : hier.
  Hypothesis Hwf : wf h.

  Lemma run_from_app cf ins bs l1 : forall st l2,
    run_from cf ins bs st (l1 ++ l2) = run_from cf ins bs (run_from cf ins bs st l1) l2.
  Proof. induction l1 as [|o l1 IH]; intros st l2; cbn [app run_from]; [reflexivity|apply IH]. Qed.

  Lemma runc_snoc hist o : runc h (hist ++ [o]) = fst (fst (stepc h (runc h hist) o)).
  Proof. unfold runc, run. rewrite run_from_app. reflexivity. Qed.

  Lemma exported_snoc hist o c :
    exported_on (hist ++ [o]) c = exp_after o (exported_on hist) c.
  Proof. unfold exported_on. rewrite rev_app_distr. destruct o; reflexivity. Qed.

  Lemma handler_snoc hist o : handler_of (hist ++ [o]) = handler_after o (handler_of hist).
  Proof. unfold handler_of. rewrite rev_app_distr. destruct o; reflexivity. Qed.

  Lemma latest_snoc hist o i n :
    latest h (hist ++ [o]) i n
    = match write_of h (exported_on hist (arrives o)) o with
      | Some (d, v) => if str_eqb (dc_iface d) i && str_eqb (dc_name d) n then v else latest h hist i n
      | None => latest h hist i n
      end.
  Proof. unfold latest, exported_on. rewrite rev_app_distr. reflexivity. Qed.

  Lemma exp_after_ext o f g c : (forall c, f c = g c) -> exp_after o f c = exp_after o g c.
  Proof. intro H. destruct o; cbn [exp_after]; rewrite ?H; reflexivity. Qed.

  Lemma sinv_step hist st o :
    sinv h hist st -> op_clear h o -> sinv h (hist ++ [o]) (fst (fst (stepc h st o))).
  Proof.
    intros (He & Hh & Hv) Hc. destruct (step_state h Hwf st o Hc) as (He' & Hh' & Hv').
    split; [|split].
    - intro c. rewrite He', exported_snoc. apply exp_after_ext. exact He.
    - rewrite Hh', handler_snoc, Hh. reflexivity.
    - intros i n. rewrite Hv', latest_snoc, He.
      destruct (write_of h (exported_on hist (arrives o)) o) as [[d v]|]; rewrite Hv; reflexivity.
  Qed.

  (* the state after ANY history of clear operations holds, for every property,
     the value the specification calls the latest, and the export tables and
     handler reference the history determines *)
  Lemma sinv_run hist : Forall (op_clear h) hist -> sinv h hist (runc h hist).
  Proof.
    induction hist as [|o hist IH] using rev_ind; intro Hf.
    - split; [intro c; reflexivity|]. split; [reflexivity|]. intros i n. reflexivity.
    - apply Forall_app in Hf as [Hf Ho]. inversion Ho; subst.
      rewrite runc_snoc. apply sinv_step; [apply IH; exact Hf|assumption].
  Qed.

  (* Get *)
  Lemma get_reply hist st c i n :
    sinv h hist st -> clear h i n ->
    snd (fst (stepc h st (OGet c i n))) = s_get present h hist c i n.
  Proof.
    intros (He & Hh & Hv) Hc. unfold stepc, s_get. cbn [step]. rewrite <- He.
    destruct (exp_on st c); [|reflexivity]. cbn [fst snd].
    unfold prop_get. pose proof (named_search h Hwf i n Hc) as H.
    destruct (search (caches (spec_binds h)) i n) as [b|]; destruct (named h i n) as [d|]; try contradiction; [|reflexivity].
    destruct H as (Hb & Ei & Ep & En). unfold readable, shown. rewrite Ep.
    destruct (p_acc (b_prop b)); try reflexivity;
      unfold getattr; destruct (lookup_attr_in h Hwf b Hb) as (k & ->); cbn [Base.bind];
      unfold key_of; rewrite Hv, Ei; unfold dc_name; rewrite Ep; reflexivity.
  Qed.

  (* PropertiesChanged *)
  Lemma set_resolved_signals st b v :
    filter is_changed (snd (set_resolved current st b v))
    = if (match p_emits (b_prop b) with EmTrue => true | _ => false end)
      then match s_handler st with
           | Some c =>
               match present (p_sig (b_prop b)) v with
               | Ok (sg, x) => [SigChanged c (b_iface b) (b_name b) sg x]
               | Err _ => []
               end
           | None => []
           end
      else [].
  Proof.
    unfold set_resolved, present. cbn [legacy_sigtype current].
    destruct (p_emits (b_prop b)); cbn [snd filter]; try reflexivity.
    destruct (wrap_decl (p_sig (b_prop b)) v) as [w|e]; cbn [Base.bind].
    - destruct (s_handler st); [|reflexivity].
      destruct (wire_variant w) as [[sg x]|]; reflexivity.
    - destruct (s_handler st); reflexivity.
  Qed.

  Lemma changed_signals hist st o :
    sinv h hist st -> op_clear h o ->
    filter is_changed (snd (stepc h st o)) = s_changed present h hist o.
  Proof.
    intros (He & Hh & Hv) Hc. unfold stepc, s_changed. rewrite <- He, <- Hh.
    destruct o as [a v|c'|c'|c' i n|c' i n v|c' i]; cbn [step write_of arrives].
    - rewrite assign_current. pose proof (by_attr_lookup h Hwf a) as H.
      destruct (lookup_attr (spec_binds h) a) as [[k b]|]; destruct (by_attr h a) as [d|]; try contradiction; [|reflexivity].
      destruct H as [-> Hb]. cbn [option_map decl_of dc_prop dc_iface].
      destruct (set_resolved current st b v) as [[st' ok] sg] eqn:E.
      pose proof (set_resolved_signals st b v) as Hs. rewrite E in Hs. cbn [snd] in Hs |- *.
      rewrite Hs. unfold notifies, dc_name. cbn [dc_prop]. reflexivity.
    - unfold export. cbn zeta.
      match goal with |- context [fold_left ?f ?l ?a] => destruct (fold_left f l a) end; reflexivity.
    - unfold unexport. destruct (exp_on st c'); reflexivity.
    - destruct (exp_on st c'); reflexivity.
    - destruct (exp_on st c') eqn:E; [|reflexivity].
      unfold prop_set. pose proof (named_search h Hwf i n Hc) as H.
      destruct (search (caches (spec_binds h)) i n) as [b|]; destruct (named h i n) as [d|]; try contradiction; [|reflexivity].
      destruct H as (Hb & Ei & Ep & En). unfold writable. rewrite Ep.
      destruct (p_acc (b_prop b)) eqn:Ea; [reflexivity| |];
        rewrite assign_current; destruct (lookup_attr_in h Hwf b Hb) as (k & ->);
        destruct (set_resolved current (all_built (spec_binds h) st) b v) as [[st' ok] sg] eqn:Es;
        pose proof (set_resolved_signals (all_built (spec_binds h) st) b v) as Hs; rewrite Es in Hs;
        cbn [snd all_built s_handler] in Hs |- *; rewrite Hs;
        unfold notifies, dc_name; rewrite Ep, Ei; reflexivity.
    - destruct (exp_on st c'); reflexivity.
  Qed.

  (* the specified signals are among those the statement demands *)
  Lemma changed_demanded_refl conns hist o :
    changed_demanded present h conns hist o (s_changed present h hist o).
  Proof.
    unfold changed_demanded. destruct (handler_of hist) as [c|] eqn:E.
    - destruct (exported_on hist c); [reflexivity|].
      destruct (existsb (exported_on hist) conns); [reflexivity|right; reflexivity].
    - unfold s_changed. rewrite E.
      destruct (write_of h (exported_on hist (arrives o)) o) as [[d v]|]; [|reflexivity].
      destruct (notifies (dc_prop d)); reflexivity.
  Qed.

  (* refusals: a Set that the specification does not count as a write answers
     with an error and emits nothing; reads never emit *)
  Lemma set_refused st c i n v :
    clear h i n -> write_of h (exp_on st c) (OSet c i n v) = None ->
    snd (fst (stepc h st (OSet c i n v))) = RErr /\ snd (stepc h st (OSet c i n v)) = [].
  Proof.
    intros Hc. unfold stepc. cbn [step write_of].
    destruct (exp_on st c) eqn:E; [|intros _; split; reflexivity].
    unfold prop_set. pose proof (named_search h Hwf i n Hc) as H.
    destruct (search (caches (spec_binds h)) i n) as [b|]; destruct (named h i n) as [d|]; try contradiction;
      [|intros _; split; reflexivity].
    destruct H as (Hb & Ei & Ep & En). unfold writable. rewrite Ep.
    destruct (p_acc (b_prop b)); [intros _; split; reflexivity|discriminate|discriminate].
  Qed.

  Lemma set_accepted st c i n v d :
    clear h i n -> s_handler st <> None -> write_of h (exp_on st c) (OSet c i n v) = Some (d, v) ->
    snd (fst (stepc h st (OSet c i n v)))
    = if notifies (dc_prop d) && negb (is_ok (present (p_sig (dc_prop d)) v)) then RErr else ROk.
  Proof.
    intros Hc Hh. unfold stepc. cbn [step write_of].
    destruct (exp_on st c) eqn:E; [|discriminate].
    destruct (s_handler st) as [L|] eqn:EL; [clear Hh|congruence].
    unfold prop_set. pose proof (named_search h Hwf i n Hc) as H.
    destruct (search (caches (spec_binds h)) i n) as [b|]; destruct (named h i n) as [d'|]; try contradiction;
      [|discriminate].
    destruct H as (Hb & Ei & Ep & En). unfold writable. rewrite Ep.
    destruct (p_acc (b_prop b)) eqn:Ea; [discriminate| |];
      intro Hd; injection Hd as <-;
      rewrite assign_current; destruct (lookup_attr_in h Hwf b Hb) as (k & ->);
      unfold set_resolved, present, notifies; cbn [legacy_sigtype current all_built s_handler];
      rewrite Ep, EL;
      (destruct (p_emits (b_prop b)); cbn [andb fst snd]; try reflexivity;
       destruct (wrap_decl (p_sig (b_prop b)) v) as [w|e]; cbn [Base.bind is_ok negb fst snd andb];
       [ destruct (wire_variant w) as [[sg x]|]; reflexivity | reflexivity ]).
  Qed.

  Lemma exp_in_handler older c : exp_in older c = true -> handler_in older <> None.
  Proof.
    induction older as [|o r IH]; cbn [exp_in handler_in]; [discriminate|].
    destruct o; try exact IH; [discriminate|].
    destruct (Nat.eqb c0 c); [discriminate|exact IH].
  Qed.
End Theorems.

(* --- GetAll ------------------------------------------------------------------------ *)
Definition Lof (i : str) (cs : list cache) : list bind :=
  flat_map (fun c : cache => match @alist_get str icache str_eqb i c with Some ic => map snd ic | None => [] end) cs.

Lemma get_all_named_fold bs st i : forall cs r,
  get_all_named current bs st cs i r = fold_left (addp current bs st) (Lof i cs) r.
Proof.
  induction cs as [|c cs IH]; intro r; cbn [get_all_named Lof flat_map]; [reflexivity|].
  cbn [legacy_break current]. fold (Lof i cs).
  destruct (alist_get str_eqb i c) as [ic|]; [|cbn [app]; apply IH].
  rewrite fold_left_app. rewrite IH. unfold addps. reflexivity.
Qed.

Lemma Lof_sound i bs b :
  In b (Lof i (map cache_of bs)) -> In b (concat bs) /\ b_iface b = i.
Proof.
  unfold Lof. intro H. apply in_flat_map in H as (c & Hc & Hb).
  apply in_map_iff in Hc as (bl & <- & Hbl).
  destruct (alist_get str_eqb i (cache_of bl)) as [ic|] eqn:E; [|destruct Hb].
  apply in_map_iff in Hb as ([n b'] & <- & Hin). cbn [snd].
  destruct (cinv_of bl) as [HS _]. apply (aget_in str_eqb str_eqb_spec) in E.
  destruct (HS _ _ E _ _ Hin) as (H1 & H2 & _).
  split; [apply in_concat; exists bl; split; assumption|exact H2].
Qed.

Lemma Lof_complete i bs b :
  In b (concat bs) -> b_iface b = i ->
  exists b', In b' (Lof i (map cache_of bs)) /\ b_name b' = b_name b.
Proof.
  intros Hb Hi. apply in_concat in Hb as (bl & Hbl & Hb).
  destruct (cinv_of bl) as [HS HC]. destruct (HC b Hb) as (ic & Hic & b' & Hb').
  rewrite Hi in Hic. exists b'. split.
  - unfold Lof. apply in_flat_map. exists (cache_of bl). split; [apply in_map; exact Hbl|].
    rewrite Hic. apply (aget_in str_eqb str_eqb_spec) in Hb'.
    apply in_map_iff. exists (b_name b, b'). split; [reflexivity|exact Hb'].
  - apply (aget_in str_eqb str_eqb_spec) in Hic, Hb'. exact (proj2 (proj2 (HS _ _ Hic _ _ Hb'))).
Qed.

Section GetAll.
  Variable bs : list (list bind).
  Variable st : state.

  Definition rd (b : bind) : bool := match p_acc (b_prop b) with AWrite => false | _ => true end.
  Definition wr (b : bind) : res pyval := wrap_decl (p_sig (b_prop b)) (read_val current st (key_of b)).

  Lemma fold_addp_err L : forall e, fold_left (addp current bs st) L (Err e) = Err e.
  Proof. induction L as [|b L IH]; intro e; cbn [fold_left]; [reflexivity|]. cbn [addp Base.bind]. apply IH. Qed.

  Lemma fold_addp L : forall r0,
    (forall b, In b L -> getattr current bs st (b_attr b) = Ok (read_val current st (key_of b))) ->
    match fold_left (addp current bs st) L (Ok r0) with
    | Ok r =>
        (forall n w, In (n, w) r -> In (n, w) r0 \/
                                   exists b, In b L /\ rd b = true /\ b_name b = n /\ wr b = Ok w) /\
        (forall b, In b L -> rd b = true -> exists w, alist_get str_eqb (b_name b) r = Some w) /\
        (forall n w, alist_get str_eqb n r0 = Some w -> exists w', alist_get str_eqb n r = Some w')
    | Err _ => exists b e, In b L /\ rd b = true /\ wr b = Err e
    end.
  Proof.
    induction L as [|b L IH]; intros r0 Hg; cbn [fold_left].
    - split; [intros n w H; left; exact H|]. split; [intros b []|]. intros n w H; exists w; exact H.
    - assert (forall b', In b' L -> getattr current bs st (b_attr b') = Ok (read_val current st (key_of b'))) as Hg'
          by (intros b' Hb'; apply Hg; right; exact Hb').
      unfold addp at 2. cbn [Base.bind]. destruct (p_acc (b_prop b)) eqn:Ea.
      1,3: rewrite (Hg b (or_introl eq_refl)); cbn [Base.bind]; fold (wr b);
        destruct (wr b) as [w|e] eqn:Ew; cbn [Base.bind];
        [ specialize (IH (alist_set str_eqb (b_name b) w r0) Hg');
          destruct (fold_left (addp current bs st) L (Ok (alist_set str_eqb (b_name b) w r0))) as [r|e];
          [ destruct IH as (I1 & I2 & I3); split; [|split]
          | destruct IH as (b' & e' & H1 & H2 & H3); exists b', e'; split; [right; exact H1|split; assumption] ]
        | rewrite fold_addp_err; exists b, e; split; [left; reflexivity|split; [unfold rd; rewrite Ea; reflexivity|exact Ew]] ].
      + intros n w0 H. destruct (I1 n w0 H) as [H'|(b' & H1 & H2 & H3 & H4)].
        * apply (in_aset str_eqb str_eqb_spec) in H' as [[-> ->]|H']; [|left; exact H'].
          right. exists b. split; [left; reflexivity|]. split; [unfold rd; rewrite Ea; reflexivity|split; [reflexivity|exact Ew]].
        * right. exists b'. split; [right; exact H1|repeat split; assumption].
      + intros b' [<-|Hb'] Hr; [|exact (I2 b' Hb' Hr)].
        apply (I3 (b_name b) w). apply (aget_set_same str_eqb str_eqb_spec).
      + intros n w0 H. destruct (str_dec (b_name b) n) as [<-|Hn].
        * apply (I3 (b_name b) w). apply (aget_set_same str_eqb str_eqb_spec).
        * apply (I3 n w0). rewrite (aget_set_other str_eqb str_eqb_spec); assumption.
      + intros n w0 H. destruct (I1 n w0 H) as [H'|(b' & H1 & H2 & H3 & H4)].
        * apply (in_aset str_eqb str_eqb_spec) in H' as [[-> ->]|H']; [|left; exact H'].
          right. exists b. split; [left; reflexivity|]. split; [unfold rd; rewrite Ea; reflexivity|split; [reflexivity|exact Ew]].
        * right. exists b'. split; [right; exact H1|repeat split; assumption].
      + intros b' [<-|Hb'] Hr; [|exact (I2 b' Hb' Hr)].
        apply (I3 (b_name b) w). apply (aget_set_same str_eqb str_eqb_spec).
      + intros n w0 H. destruct (str_dec (b_name b) n) as [<-|Hn].
        * apply (I3 (b_name b) w). apply (aget_set_same str_eqb str_eqb_spec).
        * apply (I3 n w0). rewrite (aget_set_other str_eqb str_eqb_spec); assumption.
      + (* write-only: skipped *)
        specialize (IH r0 Hg').
        destruct (fold_left (addp current bs st) L (Ok r0)) as [r|e].
        * destruct IH as (I1 & I2 & I3). split; [|split].
          -- intros n w0 H. destruct (I1 n w0 H) as [H'|(b' & H1 & H2)]; [left; exact H'|].
             right. exists b'. split; [right; exact H1|exact H2].
          -- intros b' [<-|Hb'] Hr; [unfold rd in Hr; rewrite Ea in Hr; discriminate|exact (I2 b' Hb' Hr)].
          -- exact I3.
        * destruct IH as (b' & e' & H1 & H2). exists b', e'. split; [right; exact H1|exact H2].
  Qed.
End GetAll.

Lemma wire_dict_spec r :
  match wire_dict r with
  | Ok d => (forall n w, In (n, w) r -> exists x, wire_variant w = Ok x) /\
            (forall n, alist_get str_eqb n d
                       = match alist_get str_eqb n r with
                         | Some w => match wire_variant w with Ok x => Some x | Err _ => None end
                         | None => None
                         end)
  | Err _ => exists n w e, In (n, w) r /\ wire_variant w = Err e
  end.
Proof.
  unfold wire_dict. induction r as [|[n w] r IH]; cbn [map_res].
  - split; [intros ? ? []|reflexivity].
  - cbn [snd fst]. destruct (wire_variant w) as [x|e] eqn:Ew; cbn [Base.bind].
    + destruct (map_res _ r) as [d|e]; cbn [Base.bind].
      * destruct IH as [I1 I2]. split.
        -- intros n' w' [H|H]; [inversion H; subst; exists x; exact Ew|exact (I1 n' w' H)].
        -- intro n'. cbn [alist_get]. destruct (str_eqb n' n); [rewrite Ew; reflexivity|apply I2].
      * destruct IH as (n' & w' & e' & H1 & H2). exists n', w', e'. split; [right; exact H1|exact H2].
    + exists n, w, e. split; [left; reflexivity|exact Ew].
Qed.

Section GetAllExact.
  Variable h : hier.
  Hypothesis Hwf : wf h.

  Lemma entry_of_bind hist i b :
    In b (flat h) -> b_iface b = i -> rd b = true ->
    s_entry present h hist i (b_name b)
    = Some (present (p_sig (b_prop b)) (latest h hist i (b_name b))).
  Proof.
    intros Hb Hi Hr. unfold s_entry. rewrite (declared_flat h Hwf).
    set (g := fun d => str_eqb (dc_iface d) i && str_eqb (dc_name d) (b_name b) && readable (dc_prop d)).
    destruct (find g (map decl_of (flat h))) as [d|] eqn:Ef.
    - apply find_some in Ef as [Hd Hg]. apply in_map_iff in Hd as (b' & <- & Hb').
      unfold g in Hg. cbn [decl_of dc_iface dc_prop] in Hg. unfold dc_name in Hg. cbn [dc_prop] in Hg.
      apply andb_true_iff in Hg as [Hg _]. apply andb_true_iff in Hg as [H1 H2].
      apply str_eqb_spec in H1, H2. fold (b_name b') in H2.
      assert (b_prop b' = b_prop b) as Ep.
      { apply (prop_unique h Hwf b' b Hb' Hb); [transitivity i; [exact H1|symmetry; exact Hi]|exact H2]. }
      unfold shown, dc_name. cbn [decl_of dc_iface dc_prop]. rewrite Ep, H1. reflexivity.
    - exfalso. pose proof (find_none _ _ Ef (decl_of b) (in_map decl_of _ _ Hb)) as Hf.
      unfold g in Hf. cbn [decl_of dc_iface dc_prop] in Hf. unfold dc_name in Hf. cbn [dc_prop] in Hf.
      fold (b_name b) in Hf. rewrite Hi, !str_eqb_refl in Hf. unfold rd in Hr. unfold readable in Hf.
      cbn [andb] in Hf. congruence.
  Qed.

  Lemma entry_some hist i n r :
    s_entry present h hist i n = Some r ->
    exists b, In b (flat h) /\ b_iface b = i /\ b_name b = n /\ rd b = true.
  Proof.
    unfold s_entry. rewrite (declared_flat h Hwf).
    destruct (find _ (map decl_of (flat h))) as [d|] eqn:Ef; [|discriminate]. intros _.
    apply find_some in Ef as [Hd Hg]. apply in_map_iff in Hd as (b & <- & Hb).
    cbn [decl_of dc_iface dc_prop] in Hg. unfold dc_name in Hg. cbn [dc_prop] in Hg.
    apply andb_true_iff in Hg as [Hg H3]. apply andb_true_iff in Hg as [H1 H2].
    apply str_eqb_spec in H1, H2. exists b. repeat split; assumption.
  Qed.

  (* GetAll i = exactly the readable properties of interface i, over the whole hierarchy *)
  Lemma getall_exact hist st c i :
    sinv h hist st -> nonempty i = true -> exp_on st c = true ->
    match snd (fst (stepc h st (OGetAll c i))) with
    | RDict d =>
        (forall n, alist_get str_eqb n d
                   = match s_entry present h hist i n with Some (Ok x) => Some x | _ => None end) /\
        (forall n e, s_entry present h hist i n <> Some (Err e))
    | RErr => exists n e, s_entry present h hist i n = Some (Err e)
    | _ => False
    end.
  Proof.
    intros (He & Hh & Hv) Hne Hex. unfold stepc. cbn [step]. rewrite Hex. cbn [fst snd].
    unfold prop_get_all, get_all. rewrite Hne. unfold caches.
    rewrite get_all_named_fold.
    set (L := Lof i (map cache_of (spec_binds h))).
    assert (forall b, In b L -> In b (flat h) /\ b_iface b = i) as HL
        by (intros b Hb; exact (Lof_sound i _ b Hb)).
    assert (forall b, In b L -> getattr current (spec_binds h) st (b_attr b) = Ok (read_val current st (key_of b))) as Hg.
    { intros b Hb. unfold getattr. destruct (lookup_attr_in h Hwf b (proj1 (HL b Hb))) as (k & ->). reflexivity. }
    assert (forall b, In b L -> rd b = true ->
              s_entry present h hist i (b_name b)
              = Some (do w <- wr st b; wire_variant w)) as Hent.
    { intros b Hb Hr. destruct (HL b Hb) as [Hf Hi].
      rewrite (entry_of_bind hist i b Hf Hi Hr). unfold present, wr, key_of. rewrite Hv, Hi. reflexivity. }
    pose proof (fold_addp (spec_binds h) st L [] Hg) as HF.
    destruct (fold_left (addp current (spec_binds h) st) L (Ok [])) as [r|e]; cbn [Base.bind].
    - destruct HF as (F1 & F2 & _).
      assert (forall n w, In (n, w) r -> s_entry present h hist i n = Some (wire_variant w)) as Hin.
      { intros n w H. destruct (F1 n w H) as [[]|(b & Hb & Hr & Hn & Hw)].
        rewrite <- Hn, (Hent b Hb Hr), Hw. reflexivity. }
      pose proof (wire_dict_spec r) as HW.
      destruct (wire_dict r) as [d|e'].
      + destruct HW as [W1 W2].
        assert (forall n, alist_get str_eqb n d
                   = match s_entry present h hist i n with Some (Ok x) => Some x | _ => None end) as Hmain.
        { intro n. rewrite W2. destruct (alist_get str_eqb n r) as [w|] eqn:Eg.
          - apply (aget_in str_eqb str_eqb_spec) in Eg. rewrite (Hin n w Eg).
            destruct (wire_variant w); reflexivity.
          - destruct (s_entry present h hist i n) as [re|] eqn:Ee; [|reflexivity].
            exfalso. destruct (entry_some hist i n re Ee) as (b & Hb & Hi & Hn & Hr).
            destruct (Lof_complete i (spec_binds h) b Hb Hi) as (b' & Hb' & Hn').
            fold L in Hb'. destruct (HL b' Hb') as [Hf' Hi'].
            assert (rd b' = true) as Hr'.
            { unfold rd in *. rewrite (prop_unique h Hwf b' b Hf' Hb); congruence. }
            destruct (F2 b' Hb' Hr') as (w & Hw). rewrite Hn', Hn in Hw. congruence. }
        split; [exact Hmain|].
        intros n e Hn. specialize (Hmain n). rewrite Hn in Hmain.
        destruct (entry_some hist i n _ Hn) as (b & Hb & Hi & Hnn & Hr).
        destruct (Lof_complete i (spec_binds h) b Hb Hi) as (b' & Hb' & Hn').
        fold L in Hb'. destruct (HL b' Hb') as [Hf' Hi'].
        assert (rd b' = true) as Hr'.
        { unfold rd in *. rewrite (prop_unique h Hwf b' b Hf' Hb); congruence. }
        destruct (F2 b' Hb' Hr') as (w & Hw). rewrite Hn', Hnn in Hw.
        apply (aget_in str_eqb str_eqb_spec) in Hw. pose proof (Hin n w Hw) as H1.
        destruct (W1 n w Hw) as (x & Hx). rewrite Hx in H1. congruence.
      + destruct HW as (n & w & e0 & H1 & H2). exists n, e0. rewrite (Hin n w H1), H2. reflexivity.
    - destruct HF as (b & e0 & Hb & Hr & Hw). exists (b_name b), e0.
      rewrite (Hent b Hb Hr), Hw. reflexivity.
  Qed.
End GetAllExact.

(* --- reflection of the decidable forms --------------------------------------------- *)
Lemma nodup_b_sound l : nodup_b l = true -> NoDup l.
Proof.
  induction l as [|x l IH]; cbn [nodup_b]; [constructor|].
  intro H. apply andb_true_iff in H as [H1 H2]. constructor; [|exact (IH H2)].
  intro Hin. apply negb_true_iff in H1.
  assert (existsb (str_eqb x) l = true) as E by (apply existsb_exists; exists x; split; [exact Hin|apply str_eqb_refl]).
  congruence.
Qed.

Lemma wf_b_sound h : wf_b h = true -> wf h.
Proof.
  unfold wf_b, wf. intro H.
  apply andb_true_iff in H as [H H5]. apply andb_true_iff in H as [H H4].
  apply andb_true_iff in H as [H H3]. apply andb_true_iff in H as [H1 H2].
  split; [exact (nodup_b_sound _ H1)|].
  split; [intros i Hi; rewrite forallb_forall in H2; exact (nodup_b_sound _ (H2 i Hi))|].
  split; [intros i Hi; rewrite forallb_forall in H3; exact (H3 i Hi)|].
  split; [exact (nodup_b_sound _ H4)|].
  intros c d Hc Hd. rewrite forallb_forall in H5. specialize (H5 c Hc).
  rewrite forallb_forall in H5. specialize (H5 d Hd).
  destruct (denotes h d); [discriminate|discriminate].
Qed.

Lemma clear_b_sound h i n : clear_b h i n = true -> clear h i n.
Proof.
  unfold clear_b, clear. destruct (nonempty i); [left; reflexivity|]. cbn [orb]. intro H. right.
  intros d d' Hd Hd' Hn Hn'.
  assert (forall x, In x (declared h) -> dc_name x = n ->
            In x (filter (fun d => str_eqb (dc_name d) n) (declared h))) as Hf
      by (intros x Hx Hxn; apply filter_In; split; [exact Hx|apply str_eqb_spec; exact Hxn]).
  pose proof (Hf d Hd Hn) as F1. pose proof (Hf d' Hd' Hn') as F2.
  destruct (filter (fun d => str_eqb (dc_name d) n) (declared h)) as [|d0 r]; [destruct F1|].
  rewrite forallb_forall in H.
  assert (forall x, In x (d0 :: r) -> dc_iface x = dc_iface d0) as G.
  { intros x [<-|Hx]; [reflexivity|]. apply str_eqb_spec. exact (H x Hx). }
  rewrite (G d F1), (G d' F2). reflexivity.
Qed.

(* --- the statements of Props/C17.v ---------------------------------------------------- *)
Section Final.
  Variable h : hier.
  Variable bs : list (list bind).
  Hypothesis Hwf : wf h.
  Hypothesis Hcomp : compile h = Ok bs.

  Let Hbs : bs = spec_binds h.
  Proof. rewrite (compile_ok h Hwf) in Hcomp. injection Hcomp as <-. reflexivity. Qed.

  Notation stepm := (step current (iface_names h) bs).
  Notation runm := (run current (iface_names h) bs).

  Lemma c17_get_latest hist c i n :
    Forall (op_clear h) hist -> clear h i n ->
    snd (fst (stepm (runm hist) (OGet c i n))) = s_get present h hist c i n.
  Proof.
    intros Hf Hcl. rewrite Hbs. exact (get_reply h Hwf hist _ c i n (sinv_run h Hwf hist Hf) Hcl).
  Qed.

  Lemma c17_access_matrix hist o :
    Forall (op_clear h) hist -> op_clear h o ->
    let st := runm hist in
    let out := stepm st o in
    (forall i n,
        read_val current (fst (fst out)) (i, n)
        = match write_of h (exported_on hist (arrives o)) o with
          | Some (d, v) => if str_eqb (dc_iface d) i && str_eqb (dc_name d) n then v
                           else read_val current st (i, n)
          | None => read_val current st (i, n)
          end) /\
    (forall c i n v, o = OSet c i n v -> write_of h (exported_on hist c) o = None ->
                     snd (fst out) = RErr /\ snd out = []) /\
    (forall c i n v d, o = OSet c i n v -> write_of h (exported_on hist c) o = Some (d, v) ->
                       snd (fst out) = if notifies (dc_prop d) && negb (is_ok (present (p_sig (dc_prop d)) v))
                                       then RErr else ROk) /\
    (forall c i n, o = OGet c i n ->
                   match named h i n with Some d => readable (dc_prop d) = false | None => True end ->
                   snd (fst out) = RErr).
  Proof.
    intros Hf Hc. cbn zeta. rewrite Hbs.
    pose proof (sinv_run h Hwf hist Hf) as Hs. destruct Hs as (He & Hh & Hv). fold (runc h hist) in *.
    fold (stepc h (runc h hist) o).
    split; [|split; [|split]].
    - intros i n. rewrite <- He. exact (proj2 (proj2 (step_state h Hwf (runc h hist) o Hc)) i n).
    - intros c i n v -> Hw. rewrite <- He in Hw. exact (set_refused h Hwf _ c i n v Hc Hw).
    - intros c i n v d -> Hw. rewrite <- He in Hw.
      apply (set_accepted h Hwf _ c i n v d Hc); [|exact Hw].
      rewrite Hh. cbn [write_of] in Hw. destruct (exp_on (runc h hist) c) eqn:E; [|discriminate].
      rewrite He in E. exact (exp_in_handler _ c E).
    - intros c i n -> Hn. rewrite (get_reply h Hwf hist _ c i n (conj He (conj Hh Hv)) Hc).
      unfold s_get. destruct (exported_on hist c); [|reflexivity].
      destruct (named h i n) as [d|]; [rewrite Hn|]; reflexivity.
  Qed.

  Lemma c17_getall_exact hist c i :
    Forall (op_clear h) hist -> nonempty i = true -> exported_on hist c = true ->
    match snd (fst (stepm (runm hist) (OGetAll c i))) with
    | RDict d =>
        (forall n, alist_get str_eqb n d
                   = match s_entry present h hist i n with Some (Ok x) => Some x | _ => None end) /\
        (forall n e, s_entry present h hist i n <> Some (Err e))
    | RErr => exists n e, s_entry present h hist i n = Some (Err e)
    | _ => False
    end.
  Proof.
    intros Hf Hne Hex. rewrite Hbs. pose proof (sinv_run h Hwf hist Hf) as Hs.
    apply (getall_exact h Hwf hist _ c i Hs Hne). rewrite (proj1 Hs). exact Hex.
  Qed.

  Lemma c17_changed_signal hist o :
    Forall (op_clear h) hist -> op_clear h o ->
    filter is_changed (snd (stepm (runm hist) o)) = s_changed present h hist o.
  Proof.
    intros Hf Hc. rewrite Hbs. exact (changed_signals h Hwf hist _ o (sinv_run h Hwf hist Hf) Hc).
  Qed.

  (* the emitted signals are among those the statement demands, for any set of connections *)
  Lemma c17_changed_signal_handlers conns hist o :
    Forall (op_clear h) hist -> op_clear h o ->
    changed_demanded present h conns hist o
      (filter is_changed (snd (stepm (runm hist) o))).
  Proof.
    intros Hf Hc. rewrite (c17_changed_signal hist o Hf Hc). apply changed_demanded_refl.
  Qed.
End Final.
