(* Proofs for C03: the message model (Model/Message.v) against the message
   specification (Spec/MsgSpec.v), on top of the marshalling refinement
   (MarshalProofs.v, UnmarshalProofs.v). *)
From Tx Require Import Lib.Base Gen.Generated Model.PyVal Model.Validators Model.Marshal Model.Message
  Spec.WireSpec Spec.Readback Spec.Conforms Spec.WireTyped Spec.Grammar Spec.MsgSpec
  Proofs.BytesProofs Proofs.SigProofs Proofs.MarshalProofs Proofs.UnmarshalProofs Proofs.ValidatorsProofs.
From Coq Require Import Sorted.
Local Open Scope N_scope.

(* ---------------------------------------------------------------------------
   1. layout of the specification encoding                                      *)

Definition farr_ty : ty := TStruct [TByte; TVariant].

Definition fields_bytes (le : bool) (fields : list (Z * ty * wval)) : bytes :=
  arr_body farr_ty le (map field_w fields) 16.

Lemma padding_1 o : padding 1 o = [].
Proof. unfold padding. rewrite Nat.mod_1_r. reflexivity. Qed.

Lemma uint1 le v : v < 256 -> uint 1 le v = [v].
Proof. intros H. destruct le; cbn; rewrite N.mod_small by exact H; reflexivity. Qed.

Lemma enc_byte o le z : (0 <= z < 256)%Z -> enc TByte (WInt z) o le = [Z.to_N z].
Proof.
  intros H. unfold enc. cbn [align]. rewrite padding_1. cbn [app encb width].
  unfold twos. change (2 ^ (8 * Z.of_nat 1))%Z with 256%Z. rewrite Z.mod_small by exact H.
  apply uint1. lia.
Qed.

Lemma enc_u32 o le z : (o mod 4 = 0)%nat -> (0 <= z < 4294967296)%Z ->
  enc TUInt32 (WInt z) o le = uint 4 le (Z.to_N z).
Proof.
  intros Ho H. rewrite enc_aligned by exact Ho. cbn [encb width].
  unfold twos. change (2 ^ (8 * Z.of_nat 4))%Z with 4294967296%Z. rewrite Z.mod_small by exact H.
  reflexivity.
Qed.

Lemma msg_header_eq s :
  (0 <= s_type s < 256)%Z -> (0 <= s_flags s < 256)%Z -> (0 <= s_serial s < 4294967296)%Z ->
  len (msg_body s) < two32 ->
  msg_header s =
    [if s_le s then 108 else 66; Z.to_N (s_type s); Z.to_N (s_flags s); 1]
    ++ uint 4 (s_le s) (len (msg_body s)) ++ uint 4 (s_le s) (Z.to_N (s_serial s))
    ++ uint 4 (s_le s) (len (fields_bytes (s_le s) (s_fields s))) ++ fields_bytes (s_le s) (s_fields s).
Proof.
  intros Ht Hf Hs Hb. unfold msg_header, hdr_ts, hdr_ws. cbn [enc_seq].
  rewrite (enc_byte 0 (s_le s) (if s_le s then 108 else 66)%Z) by (destruct (s_le s); lia).
  cbn [length Nat.add].
  rewrite (enc_byte 1 (s_le s) (s_type s) Ht). cbn [length Nat.add].
  rewrite (enc_byte 2 (s_le s) (s_flags s) Hf). cbn [length Nat.add].
  rewrite (enc_byte 3 (s_le s) 1%Z) by lia. cbn [length Nat.add].
  rewrite (enc_u32 4 (s_le s)) by (try reflexivity; unfold two32, len in *; lia).
  rewrite uint_length. cbn [Nat.add].
  rewrite (enc_u32 8 (s_le s) (s_serial s)) by (try reflexivity; exact Hs).
  rewrite uint_length. cbn [Nat.add].
  rewrite enc_aligned by reflexivity. rewrite encb_array.
  change (padding (align (TStruct [TByte; TVariant])) (12 + 4)) with (@nil N).
  cbn [length Nat.add app]. rewrite app_nil_r.
  destruct (s_le s); cbn [app]; rewrite N2Z.id; reflexivity.
Qed.

(* byte ranges of a wire message that make the fixed part well defined *)
Definition hdr_ranges (s : smsg) : Prop :=
  (0 <= s_type s < 256)%Z /\ (0 <= s_flags s < 256)%Z /\ (0 <= s_serial s < 4294967296)%Z.

Lemma msg_header_length s : hdr_ranges s -> len (msg_body s) < two32 ->
  length (msg_header s) = (16 + length (fields_bytes (s_le s) (s_fields s)))%nat.
Proof.
  intros (Ht & Hf & Hs) Hb. rewrite (msg_header_eq s Ht Hf Hs Hb).
  rewrite !app_length, !uint_length. cbn [length]. lia.
Qed.

Lemma Forall_repeat_n {A} (x : A) n : Forall (fun b => b = x) (repeat_n x n).
Proof. induction n; cbn; constructor; auto. Qed.

Lemma msg_enc_layout s : hdr_ranges s -> len (msg_body s) < two32 ->
  wellformed_layout (msg_enc s) (s_le s) (Z.to_N (s_type s)) (Z.to_N (s_flags s)) (s_serial s).
Proof.
  intros HR Hb. pose proof (msg_header_length s HR Hb) as HL. destruct HR as (Ht & Hf & Hs).
  exists (fields_bytes (s_le s) (s_fields s)), (padding 8 (length (msg_header s))), (msg_body s).
  split; [|split; [|split]].
  - unfold msg_enc. rewrite (msg_header_eq s Ht Hf Hs Hb) at 1. unfold len.
    rewrite <- !app_assoc. reflexivity.
  - unfold padding. apply Forall_repeat_n.
  - rewrite padding_length. lia.
  - rewrite <- HL. apply (padding_then_aligned 8). unfold good_align. auto.
Qed.

(* the length the framing layer computes from the first 16 bytes *)
Lemma slice_at (pre b post : bytes) a n :
  a = len pre -> n = len b -> slice (pre ++ b ++ post) a n = b.
Proof. intros -> ->. unfold len at 1. apply win_slice, win_intro. Qed.

Lemma dec_uint4 le v : v < two32 -> dec_uint le (uint 4 le v) = v.
Proof. intros H. rewrite <- enc_uint_spec. apply dec_enc_uint. exact H. Qed.

Lemma frame_len_enc s rest : hdr_ranges s -> len (msg_enc s) < two32 ->
  frame_len (s_le s) (msg_enc s ++ rest) = len (msg_enc s).
Proof.
  intros HR Hlen.
  assert (Hb : len (msg_body s) < two32).
  { unfold msg_enc in Hlen. rewrite !len_app in Hlen. lia. }
  pose proof (msg_header_length s HR Hb) as HL.
  assert (Hfa : len (fields_bytes (s_le s) (s_fields s)) < two32).
  { unfold msg_enc in Hlen. rewrite !len_app in Hlen. unfold len in *. lia. }
  destruct HR as (Ht & Hf & Hs).
  unfold frame_len.
  set (le := s_le s) in *. set (fb := fields_bytes le (s_fields s)) in *.
  assert (E : msg_enc s ++ rest =
    [if le then 108 else 66; Z.to_N (s_type s); Z.to_N (s_flags s); 1]
    ++ uint 4 le (len (msg_body s)) ++ uint 4 le (Z.to_N (s_serial s))
    ++ uint 4 le (len fb) ++ (fb ++ padding 8 (length (msg_header s)) ++ msg_body s ++ rest)).
  { unfold msg_enc. rewrite (msg_header_eq s Ht Hf Hs Hb) at 1. fold le. fold fb.
    rewrite <- !app_assoc. reflexivity. }
  rewrite E.
  rewrite (slice_at [_; _; _; _] (uint 4 le (len (msg_body s))) _ 4 4)
    by (try reflexivity; rewrite len_uint; reflexivity).
  rewrite dec_uint4 by exact Hb.
  rewrite (app_assoc [_; _; _; _]), (app_assoc (_ ++ _) (uint 4 le (Z.to_N _))).
  rewrite (slice_at _ (uint 4 le (len fb)) _ 12 4)
    by (rewrite ?len_app, ?len_uint; reflexivity).
  rewrite dec_uint4 by exact Hfa.
  unfold msg_enc. rewrite !len_app.
  replace (16 + len fb) with (N.of_nat (16 + length fb)) by (unfold len; lia).
  change 8 with (N.of_nat 8). rewrite (pad_len_spec 8) by (unfold good_align; auto).
  rewrite <- HL. unfold len. lia.
Qed.

(* ---------------------------------------------------------------------------
   2. names accepted by the validators are strings a STRING field can carry     *)

Definition ascii_nz (c : N) : bool := (0 <? c) && (c <? 128).

Lemma ascii_string_ok s : forallb ascii_nz s = true -> string_ok s = true.
Proof.
  unfold string_ok. induction s as [|c s IH]; [reflexivity|].
  cbn [forallb]. rewrite andb_true_iff. unfold ascii_nz at 1.
  rewrite andb_true_iff, N.ltb_lt, N.ltb_lt. intros [[H0 H1] Hs]. specialize (IH Hs).
  apply andb_true_iff in IH as [I1 I2].
  cbn [existsb utf8_valid]. destruct (N.eqb_spec 0 c) as [E|_]; [lia|].
  destruct (N.ltb_spec c 128) as [_|X]; [|lia]. cbn [orb]. rewrite I1, I2. reflexivity.
Qed.

Lemma forallb_impl {A} (f g : A -> bool) l :
  (forall x, f x = true -> g x = true) -> forallb f l = true -> forallb g l = true.
Proof.
  intros H. induction l as [|x l IH]; [reflexivity|]. cbn [forallb].
  rewrite !andb_true_iff. intros [a b]. split; [apply H, a|apply IH, b].
Qed.

Lemma bus_ok_ascii c : bus_ok c = true -> ascii_nz c = true.
Proof.
  unfold bus_ok, is_alnum_, is_alpha, is_digit, ascii_nz, c_dot, c_colon.
  rewrite ?orb_true_iff, ?andb_true_iff, ?N.leb_le, ?N.eqb_eq, ?N.ltb_lt. lia.
Qed.

Lemma alnum_bus c : is_alnum_ c = true -> bus_ok c = true.
Proof. unfold bus_ok. intros ->. reflexivity. Qed.

Lemma path_ok_ascii c : path_ok c = true -> ascii_nz c = true.
Proof.
  unfold path_ok, is_alnum_, is_alpha, is_digit, ascii_nz, c_slash.
  rewrite ?orb_true_iff, ?andb_true_iff, ?N.leb_le, ?N.eqb_eq, ?N.ltb_lt. lia.
Qed.

Lemma if_ok_ascii c : if_ok c = true -> ascii_nz c = true.
Proof.
  unfold if_ok, is_alnum_, is_alpha, is_digit, ascii_nz, c_dot.
  rewrite ?orb_true_iff, ?andb_true_iff, ?N.leb_le, ?N.eqb_eq, ?N.ltb_lt. lia.
Qed.

Lemma mbr_ok_ascii c : mbr_ok c = true -> ascii_nz c = true.
Proof.
  unfold mbr_ok, is_alnum_, is_alpha, is_digit, ascii_nz.
  rewrite ?orb_true_iff, ?andb_true_iff, ?N.leb_le, ?N.eqb_eq, ?N.ltb_lt. lia.
Qed.

Lemma andb_r a b : a && b = true -> b = true.
Proof. intros H. apply andb_true_iff in H. tauto. Qed.
Lemma andb_l a b : a && b = true -> a = true.
Proof. intros H. apply andb_true_iff in H. tauto. Qed.

Lemma path_string_ok s : validate_path s = true -> string_ok s = true.
Proof.
  unfold validate_path. intros H. apply andb_r in H.
  apply ascii_string_ok. eapply forallb_impl; [exact path_ok_ascii|exact H].
Qed.

Lemma iface_string_ok s : validate_iface s = true -> string_ok s = true.
Proof.
  unfold validate_iface, validate_iface_legacy. intros H.
  apply andb_l, andb_l, andb_r in H.
  apply ascii_string_ok. eapply forallb_impl; [exact if_ok_ascii|exact H].
Qed.

Lemma bus_string_ok s : validate_bus s = true -> string_ok s = true.
Proof.
  unfold validate_bus, validate_bus_legacy. intros H.
  apply andb_l, andb_l, andb_l, andb_l, andb_r in H.
  apply ascii_string_ok. eapply forallb_impl; [exact bus_ok_ascii|exact H].
Qed.

Lemma member_string_ok s : validate_member s = true -> string_ok s = true.
Proof.
  unfold validate_member. intros H. apply andb_r in H.
  apply ascii_string_ok. eapply forallb_impl; [exact mbr_ok_ascii|exact H].
Qed.

Lemma string_ok_conf s : string_ok s = true -> conf TString (PStr s) (WStr s).
Proof.
  unfold string_ok. rewrite andb_true_iff, negb_true_iff. intros [H1 H2].
  cbn. auto.
Qed.

(* ---------------------------------------------------------------------------
   3. the header list the constructors build conforms to the field array        *)

Definition hdr_item (attrs : list (attr * pyval)) (a : attr) : list pyval :=
  match get_attr a attrs with
  | Some PNone | None => []
  | Some v => [PList [PInt (Z.of_N (attr_code a)); header_value a v]]
  end.

Definition field_spec (m : amsg) (a : attr) : list (Z * ty * wval) :=
  match a with
  | APath => opt_field 1 TObjPath WStr (a_path m)
  | AInterface => opt_field 2 TString WStr (a_interface m)
  | AMember => opt_field 3 TString WStr (a_member m)
  | AErrorName => opt_field 4 TString WStr (a_error_name m)
  | AReplySerial => opt_field 5 TUInt32 WInt (a_reply_serial m)
  | ADestination => opt_field 6 TString WStr (a_destination m)
  | ASender => opt_field 7 TString WStr (a_sender m)
  | ASignature => opt_field 8 TSig (fun ts => WStr (show_list ts)) (a_sig m)
  | AUnixFds => []
  end.

Lemma header_list_no_fds mt attrs fds : no_fds fds ->
  header_list mt attrs fds = flat_map (hdr_item attrs) (hattrs mt).
Proof.
  intros [-> | ->]; unfold header_list; rewrite andb_false_r; reflexivity.
Qed.

Lemma conf_all_app et a la : forall b lb,
  conf_all et a la -> conf_all et b lb -> conf_all et (a ++ b) (la ++ lb).
Proof.
  revert la; induction a as [|x a IH]; intros [|y la] b lb Ha Hb; cbn in Ha; try contradiction.
  - exact Hb.
  - destruct Ha as [H1 H2]. cbn [app conf_all]. split; [exact H1|]. apply IH; assumption.
Qed.

Lemma field_conf code t hv w :
  (0 <= code < 256)%Z -> sig_from_py hv = Ok (show t) -> (length (show t) <= 255)%nat -> conf t hv w ->
  conf farr_ty (PList [PInt code; hv]) (field_w (code, t, w)).
Proof.
  intros Hc Hs Hl Hv. unfold farr_ty, field_w. rewrite conf_struct.
  exists [PInt code; hv]. split; [reflexivity|]. cbn [conf_fields]. split; [|split; [|exact I]].
  - cbn. split; [reflexivity|]. lia.
  - cbn [conf]. auto.
Qed.

Lemma show_list_ascii ts : is_ascii (show_list ts) = true.
Proof.
  unfold is_ascii. induction ts as [|t ts IH]; [reflexivity|].
  rewrite show_list_cons, forallb_app, IH. pose proof (show_ascii t) as H. unfold is_ascii in H.
  rewrite H. reflexivity.
Qed.

Lemma hdr_item_conf fdl m attrs body a :
  valid_amsg fdl m -> args_denote attrs body m ->
  conf_all farr_ty (hdr_item attrs a) (map field_w (field_spec m a)).
Proof.
  intros (_ & Vp & Vi & Vm & Ve & Vd & Vs & Vr & Vg & _) [Ha _].
  specialize (Ha a). unfold hdr_item.
  destruct a; cbn [field_py field_spec] in *.
  - destruct (a_path m) as [s|]; cbn [option_map opt_field map] in *.
    + rewrite Ha. cbn [conf_all]. split; [|exact I]. cbn in Vp.
      rewrite <- validate_path_grammar in Vp. pose proof (path_string_ok s Vp) as So.
      unfold string_ok in So. apply andb_true_iff in So as [S1 S2]. apply negb_true_iff in S1.
      apply field_conf; [cbn; lia|reflexivity|cbn; lia|]. cbn. auto.
    + destruct Ha as [-> | ->]; exact I.
  - destruct (a_interface m) as [s|]; cbn [option_map opt_field map] in *.
    + rewrite Ha. cbn [conf_all]. split; [|exact I]. cbn in Vi.
      rewrite <- validate_iface_grammar in Vi.
      apply field_conf; [cbn; lia|reflexivity|cbn; lia|]. apply string_ok_conf, iface_string_ok, Vi.
    + destruct Ha as [-> | ->]; exact I.
  - destruct (a_member m) as [s|]; cbn [option_map opt_field map] in *.
    + rewrite Ha. cbn [conf_all]. split; [|exact I]. cbn in Vm.
      rewrite <- validate_member_grammar in Vm.
      apply field_conf; [cbn; lia|reflexivity|cbn; lia|]. apply string_ok_conf, member_string_ok, Vm.
    + destruct Ha as [-> | ->]; exact I.
  - destruct (a_error_name m) as [s|]; cbn [option_map opt_field map] in *.
    + rewrite Ha. cbn [conf_all]. split; [|exact I]. cbn in Ve. unfold g_error in Ve.
      rewrite <- validate_iface_grammar in Ve.
      apply field_conf; [cbn; lia|reflexivity|cbn; lia|]. apply string_ok_conf, iface_string_ok, Ve.
    + destruct Ha as [-> | ->]; exact I.
  - destruct (a_reply_serial m) as [z|]; cbn [option_map opt_field map] in *.
    + rewrite Ha. cbn [conf_all]. split; [|exact I].
      apply field_conf; [cbn; lia|reflexivity|cbn; lia|]. cbn. split; [reflexivity|]. lia.
    + destruct Ha as [-> | ->]; exact I.
  - destruct (a_destination m) as [s|]; cbn [option_map opt_field map] in *.
    + rewrite Ha. cbn [conf_all]. split; [|exact I]. cbn in Vd.
      rewrite <- validate_bus_grammar in Vd.
      apply field_conf; [cbn; lia|reflexivity|cbn; lia|]. apply string_ok_conf, bus_string_ok, Vd.
    + destruct Ha as [-> | ->]; exact I.
  - destruct (a_sender m) as [s|]; cbn [option_map opt_field map] in *.
    + rewrite Ha. cbn [conf_all]. split; [|exact I]. cbn in Vs.
      apply field_conf; [cbn; lia|reflexivity|cbn; lia|]. apply string_ok_conf, Vs.
    + destruct Ha as [-> | ->]; exact I.
  - unfold body_ts in Vg. destruct (a_sig m) as [ts|]; cbn [option_map opt_field map] in *.
    + rewrite Ha. cbn [conf_all]. split; [|exact I].
      apply field_conf; [cbn; lia|reflexivity|cbn; lia|]. cbn.
      split; [reflexivity|]. split; [apply show_list_ascii|exact Vg].
    + destruct Ha as [-> | ->]; exact I.
  - destruct Ha as [-> | ->]; exact I.
Qed.

Lemma hdr_items_conf fdl m attrs body order :
  valid_amsg fdl m -> args_denote attrs body m ->
  conf_all farr_ty (flat_map (hdr_item attrs) order) (map field_w (flat_map (field_spec m) order)).
Proof.
  intros V A. induction order as [|a order IH]; [exact I|].
  cbn [flat_map]. rewrite map_app. apply conf_all_app; [|exact IH].
  exact (hdr_item_conf fdl m attrs body a V A).
Qed.

Lemma valid_type fdl m : valid_amsg fdl m ->
  a_type m = 1 \/ a_type m = 2 \/ a_type m = 3 \/ a_type m = 4.
Proof.
  intros [H _]. destruct (a_type m) as [|p]; [contradiction|].
  destruct p as [[p|p|]|[p|p|]|]; try contradiction; try (destruct p; contradiction); auto.
  - destruct p; try contradiction. auto.
Qed.

Lemma fields_of_hattrs fdl m : valid_amsg fdl m ->
  fields_of m = flat_map (field_spec m) (hattrs (a_type m)).
Proof.
  intros V. pose proof (valid_type fdl m V) as T. destruct V as [V _]. unfold fields_of.
  destruct T as [T | [T | [T | T]]]; rewrite T in *; cbn [hattrs flat_map field_spec];
    unfold absent in V; decompose [and] V; clear V;
    repeat match goal with H : _ = None |- _ => rewrite H; clear H end;
    cbn [opt_field app]; rewrite ?app_nil_r; reflexivity.
Qed.

(* ---------------------------------------------------------------------------
   4. the constructors produce the specification encoding                       *)

Lemma geta_some attrs a v : get_attr a attrs = Some v -> geta attrs a = v.
Proof. unfold geta. intros ->. reflexivity. Qed.

Lemma geta_absent attrs a :
  get_attr a attrs = None \/ get_attr a attrs = Some PNone -> geta attrs a = PNone.
Proof. unfold geta. intros [-> | ->]; reflexivity. Qed.

Lemma opt_valid_str f s : f s = true -> opt_valid f false (PStr s) = Ok tt.
Proof. intros H. cbn. rewrite H. reflexivity. Qed.

(* "if x is not None: validate(x)" on an optional string field *)
Lemma opt_check f g attrs a (o : option str) :
  (forall s, f s = g s) -> opt_ok g o ->
  match option_map PStr o with
  | Some v => get_attr a attrs = Some v
  | None => get_attr a attrs = None \/ get_attr a attrs = Some PNone
  end ->
  match geta attrs a with PNone => Ok tt | v => opt_valid f false v end = Ok tt.
Proof.
  intros E Ho H. destruct o as [s|]; cbn [option_map opt_ok] in *.
  - rewrite (geta_some _ _ _ H). apply opt_valid_str. rewrite E. exact Ho.
  - rewrite (geta_absent _ _ H). reflexivity.
Qed.

Lemma req_check f g attrs a (o : option str) :
  (forall s, f s = g s) -> opt_ok g o -> present o ->
  match option_map PStr o with
  | Some v => get_attr a attrs = Some v
  | None => get_attr a attrs = None \/ get_attr a attrs = Some PNone
  end ->
  opt_valid f false (geta attrs a) = Ok tt.
Proof.
  intros E Ho Hp H. destruct o as [s|]; [|exfalso; apply Hp; reflexivity]. cbn [option_map opt_ok] in *.
  rewrite (geta_some _ _ _ H). apply opt_valid_str. rewrite E. exact Ho.
Qed.

Lemma validate_args_ok fdl m attrs body :
  valid_amsg fdl m -> args_denote attrs body m -> validate_args false (a_type m) attrs = Ok tt.
Proof.
  intros V A. pose proof (valid_type fdl m V) as T.
  destruct V as (Vt & Vp & Vi & Vm & Ve & Vd & _). destruct A as [Ha _].
  pose proof (Ha APath) as Hpath. pose proof (Ha AInterface) as Hif. pose proof (Ha AMember) as Hmb.
  pose proof (Ha AErrorName) as Her. pose proof (Ha ADestination) as Hds. cbn [field_py] in *.
  unfold validate_args.
  destruct T as [T | [T | [T | T]]]; rewrite T in *.
  - destruct Vt as (Pp & Pm & _ & _ & Pr).
    rewrite (req_check _ _ _ _ _ validate_member_grammar Vm Pm Hmb). cbn [bind].
    rewrite (opt_check _ _ _ _ _ validate_iface_grammar Vi Hif). cbn [bind].
    rewrite (opt_check _ _ _ _ _ validate_bus_grammar Vd Hds). cbn [bind].
    destruct (a_path m) as [p|]; [|exfalso; apply Pp; reflexivity]. cbn [option_map] in Hpath.
    rewrite (geta_some _ _ _ Hpath). unfold py_str_eqb. cbn [str_of unwrap].
    destruct (str_eqb p reserved_path) eqn:E; [|reflexivity].
    apply str_eqb_spec in E. subst p. exfalso. apply Pr. reflexivity.
  - exact (opt_check _ _ _ _ _ validate_bus_grammar Vd Hds).
  - destruct Vt as (Pe & _).
    rewrite (opt_check _ _ _ _ _ validate_bus_grammar Vd Hds). cbn [bind].
    exact (req_check _ _ _ _ _ validate_iface_grammar Ve Pe Her).
  - destruct Vt as (Pp & Pi & Pm & _).
    rewrite (req_check _ _ _ _ _ validate_member_grammar Vm Pm Hmb). cbn [bind].
    rewrite (req_check _ _ _ _ _ validate_iface_grammar Vi Pi Hif). cbn [bind].
    exact (opt_check _ _ _ _ _ validate_bus_grammar Vd Hds).
Qed.

Lemma show_list_nil ts : show_list ts = [] -> ts = [].
Proof.
  destruct ts as [|t ts]; [reflexivity|]. rewrite show_list_cons. intros H.
  apply app_eq_nil in H as [H _]. exfalso. exact (show_nonempty t H).
Qed.

Lemma marshal_body_refines fdl m attrs body fuel fds :
  valid_amsg fdl m -> args_denote attrs body m ->
  (wdepth_list (a_body m) <= fuel)%nat -> len (enc_seq (body_ts m) (a_body m) 0 true) < two32 ->
  marshal_body fuel attrs body fds = Ok (enc_seq (body_ts m) (a_body m) 0 true, fds).
Proof.
  intros V [Ha Hb] Hd Hs. specialize (Ha ASignature). cbn [field_py] in Ha.
  unfold marshal_body, body_ts in *.
  destruct (a_sig m) as [ts|]; cbn [option_map] in Ha.
  - rewrite Ha. unfold sig_truthy, truthy. cbn [unwrap].
    destruct ts as [|t ts].
    + reflexivity.
    + destruct (show_list (t :: ts)) eqn:E; [apply show_list_nil in E; discriminate|].
      cbn [negb str_of unwrap]. rewrite <- E.
      destruct Hb as (vs & Hi & Hc).
      change 0 with (N.of_nat 0).
      rewrite (marshal_refines (t :: ts) body vs (a_body m) 0 true fds fuel Hi Hc Hd Hs).
      reflexivity.
  - destruct Ha as [-> | ->]; reflexivity.
Qed.

Lemma flags_of_byte m : flags_of (negb (a_no_reply m)) (negb (a_no_auto_start m)) = flags_byte m.
Proof. unfold flags_of, flags_byte. destruct (a_no_reply m), (a_no_auto_start m); reflexivity. Qed.

Lemma wdepth_hdr s n : wdepth_list (hdr_ws s n) = wdepth_list (hdr_ws s 0).
Proof. reflexivity. Qed.

Theorem construct_refines fdl m attrs body next fuel fds :
  valid_amsg fdl m -> args_denote attrs body m -> no_fds fds ->
  (0 <= next < 4294967296)%Z ->
  (msg_depth (smsg_of m true next) <= fuel)%nat ->
  len (msg_enc (smsg_of m true next)) <= max_msg_len ->
  construct_st false fuel (a_type m) (negb (a_no_reply m)) (negb (a_no_auto_start m)) attrs body next fds
  = (Ok (msg_header (smsg_of m true next),
         padding 8 (length (msg_header (smsg_of m true next))),
         msg_body (smsg_of m true next), fds), (next + 1)%Z).
Proof.
  intros V A F Hn Hd Hsz. set (s := smsg_of m true next) in *.
  unfold construct_st. rewrite (validate_args_ok fdl m attrs body V A).
  unfold marshal_msg_st.
  assert (Hlen : len (msg_header s) + len (padding 8 (length (msg_header s))) + len (msg_body s) <= max_msg_len).
  { unfold msg_enc in Hsz. rewrite !len_app in Hsz. lia. }
  unfold max_msg_len in *.
  assert (Hbody : msg_body s = enc_seq (body_ts m) (a_body m) 0 true) by reflexivity.
  unfold msg_depth in Hd.
  rewrite (marshal_body_refines fdl m attrs body fuel fds V A) by (try rewrite <- Hbody; unfold two32; cbn [s_body s smsg_of] in *; lia).
  rewrite <- Hbody. unfold marshal_header.
  rewrite (header_list_no_fds _ _ _ F).
  pose proof (valid_type fdl m V) as T.
  set (hl := [PInt 108; PInt (Z.of_N (a_type m)); PInt (flags_of (negb (a_no_reply m)) (negb (a_no_auto_start m)));
             PInt 1; PInt (Z.of_N (len (msg_body s))); PInt next;
             PList (flat_map (hdr_item attrs) (hattrs (a_type m)))]).
  assert (Hconf : conf_seq hdr_ts hl (hdr_ws s (len (msg_body s)))).
  { unfold hl, hdr_ts, hdr_ws. cbn [conf_seq s_le s_type s_flags s_serial s_fields s smsg_of].
    rewrite flags_of_byte.
    repeat split; try reflexivity; try (cbn; lia).
    - unfold flags_byte. destruct (a_no_reply m), (a_no_auto_start m); reflexivity.
    - unfold int_range. unfold len in *. lia.
    - rewrite conf_array. eexists. split; [reflexivity|].
      rewrite (fields_of_hattrs fdl m V). exact (hdr_items_conf fdl m attrs body _ V A). }
  change header_format with (show_list hdr_ts). change 0 with (N.of_nat 0).
  rewrite (marshal_refines hdr_ts (PList hl) hl _ 0 true None fuel eq_refl Hconf).
  - cbn [bind]. change (enc_seq hdr_ts (hdr_ws s (len (msg_body s))) 0 true) with (msg_header s).
    change max_msg_len with 134217728.
    replace (pad_len 8 (len (msg_header s))) with (len (padding 8 (length (msg_header s)))).
    + rewrite zeros_padding.
      destruct (N.ltb_spec 134217728 (len (msg_header s) + len (padding 8 (length (msg_header s))) + len (msg_body s))) as [X|_]; [lia|].
      reflexivity.
    + symmetry. change 8 with (N.of_nat 8) at 1. apply pad_len_spec. unfold good_align. auto.
  - rewrite wdepth_hdr. lia.
  - change (enc_seq hdr_ts (hdr_ws s (len (msg_body s))) 0 true) with (msg_header s). unfold two32. lia.
Qed.

(* ---------------------------------------------------------------------------
   5. parseMessage recovers any well-typed wire message                         *)

(* the attribute list parseMessage sets, in header order; unknown codes skipped *)
Definition attrs_of_fields (fdl : list pyval) (fields : list (Z * ty * wval)) : list (attr * pyval) :=
  flat_map (fun f => let '(code, t, w) := f in
                     match attr_of_code code with Some a => [(a, readback fdl t w)] | None => [] end) fields.

Lemma attr_of_code_known code :
  match attr_of_code code with Some a => known_code code = true /\ Z.of_N (attr_code a) = code
                             | None => known_code code = false end.
Proof.
  unfold known_code.
  destruct code as [|p|p]; try reflexivity.
  do 4 (try destruct p as [p|p|]); try reflexivity; cbn; try (split; reflexivity);
    destruct p; reflexivity.
Qed.

Lemma attrs_of_fields_recovered fdl fields :
  map (fun p => (Z.of_N (attr_code (fst p)), snd p)) (attrs_of_fields fdl fields)
  = flat_map (fun f => let '(code, t, w) := f in
                       if known_code code then [(code, readback fdl t w)] else []) fields.
Proof.
  induction fields as [|[[code t] w] r IH]; [reflexivity|].
  unfold attrs_of_fields in *. cbn [flat_map]. rewrite map_app, IH. f_equal.
  pose proof (attr_of_code_known code) as K.
  destruct (attr_of_code code) as [a|].
  - destruct K as [-> K2]. cbn. rewrite K2. reflexivity.
  - rewrite K. reflexivity.
Qed.

Lemma wt_hdr fdl s blen : msg_wt fdl s -> blen < two32 ->
  wt_seq fdl hdr_ts (hdr_ws s blen).
Proof.
  intros (Ht & Hf & Hs & Hfs & _) Hb. unfold hdr_ts, hdr_ws. cbn [wt_seq].
  repeat split; try (cbn; destruct (s_le s); lia); try (unfold two32 in *; cbn; lia).
  change (wt_all fdl (TStruct [TByte; TVariant]) (map field_w (s_fields s))).
  induction Hfs as [|[[code t] w] r (Hc & Hl & Hw & _) Hr IH]; [exact I|].
  cbn [map wt_all]. split; [|exact IH].
  cbn [field_w]. rewrite wt_struct_unfold. split; [discriminate|].
  split; [cbn; lia|]. split; [|exact I]. cbn [wt]. auto.
Qed.

Lemma readback_hdr fdl s blen :
  readback_seq fdl hdr_ts (hdr_ws s blen) =
  [PInt (if s_le s then 108 else 66); PInt (s_type s); PInt (s_flags s); PInt 1; PInt (Z.of_N blen);
   PInt (s_serial s);
   PList (map (fun f => let '(code, t, w) := f in PList [PInt code; readback fdl t w]) (s_fields s))].
Proof.
  unfold hdr_ts, hdr_ws. cbn [readback_seq]. repeat f_equal.
  rewrite readback_array_plain by discriminate. f_equal. rewrite map_map.
  apply map_ext. intros [[code t] w]. reflexivity.
Qed.

Lemma set_fields_spec fdl fields : forall acc,
  set_fields (map (fun f => let '(code, t, w) := f in PList [PInt code; readback fdl t w]) fields) acc
  = Ok (acc ++ attrs_of_fields fdl fields).
Proof.
  induction fields as [|[[code t] w] r IH]; intros acc.
  - cbn. rewrite app_nil_r. reflexivity.
  - cbn [map set_fields int_of]. unfold attrs_of_fields. cbn [flat_map]. fold (attrs_of_fields fdl r).
    destruct (attr_of_code code) as [a|].
    + rewrite IH, <- app_assoc. reflexivity.
    + apply IH.
Qed.

Lemma wt_sig_str fdl w : wt fdl TSig w -> exists s, w = WStr s.
Proof. destruct w; cbn; try contradiction. intros _. eexists. reflexivity. Qed.

Lemma get_attr_sig fdl fields : Forall (field_ok fdl) fields ->
  get_attr ASignature (attrs_of_fields fdl fields) = option_map PStr (sig_field fields).
Proof.
  induction 1 as [|[[code t] w] r (Hc & Hl & Hw & Ht) Hr IH]; [reflexivity|].
  unfold attrs_of_fields. cbn [flat_map sig_field]. fold (attrs_of_fields fdl r).
  destruct (attr_of_code code) as [a|] eqn:E.
  - cbn [app get_attr]. rewrite IH. destruct (sig_field r) as [sg|]; [reflexivity|]. cbn [option_map].
    destruct code as [|p|p]; try discriminate.
    do 4 (try destruct p as [p|p|]); try discriminate; injection E as <-; try reflexivity.
    cbn in Ht. subst t. destruct (wt_sig_str fdl w Hw) as [sg ->]. reflexivity.
  - cbn [app]. rewrite IH. destruct (sig_field r) as [sg|]; [reflexivity|].
    destruct code as [|p|p]; try reflexivity.
    do 4 (try destruct p as [p|p|]); try discriminate; reflexivity.
Qed.

Lemma even_testbit0 z : Z.even z = negb (Z.testbit z 0).
Proof. rewrite Z.bit0_odd, Z.negb_odd. reflexivity. Qed.

Lemma even_testbit1 z : Z.even (z / 2) = negb (Z.testbit z 1).
Proof.
  rewrite even_testbit0. f_equal. change 1%Z with (Z.succ 0).
  apply Z.div2_bits. lia.
Qed.

Lemma skipn_all_app {A} (a b : list A) n : n = length a -> skipn n (a ++ b) = b.
Proof. intros ->. apply skipn_app_exact. Qed.

Theorem parse_refines fdl s fuel :
  msg_wt fdl s -> (msg_depth s <= fuel)%nat ->
  parse_message false fuel (msg_enc s) (Some fdl) =
    Ok (Z.to_N (s_type s), s_serial s, expect_reply_of s, auto_start_of s,
        attrs_of_fields fdl (s_fields s), recovered_body fdl s).
Proof.
  intros W Hd. pose proof W as (Ht & Hf & Hs & Hfs & Hwb & Hsig & Hlen).
  fold two32 in Hlen.
  assert (HR : hdr_ranges s) by (unfold hdr_ranges; lia).
  assert (Hb : len (msg_body s) < two32).
  { unfold msg_enc in Hlen. rewrite !len_app in Hlen. lia. }
  assert (Hh : len (msg_header s) < two32).
  { unfold msg_enc in Hlen. rewrite !len_app in Hlen. lia. }
  unfold msg_depth in Hd.
  unfold parse_message.
  assert (E0 : exists r, msg_enc s = (if s_le s then 108 else 66) :: r).
  { unfold msg_enc. rewrite (msg_header_eq s) by (try lia; exact Hb). eexists. reflexivity. }
  destruct E0 as [r0 E0]. rewrite E0.
  assert (Ele : ((if s_le s then 108 else 66) =? 108) = s_le s) by (destruct (s_le s); reflexivity).
  rewrite Ele. rewrite <- E0. clear E0 Ele r0.
  (* the header *)
  assert (Hu : m_unmarshal fuel header_format (msg_enc s) 0 (s_le s) (Some fdl)
               = Ok (len (msg_header s), readback_seq fdl hdr_ts (hdr_ws s (len (msg_body s))))).
  { pose proof (unmarshal_inverts fdl (s_le s) hdr_ts (hdr_ws s (len (msg_body s))) []
                  (padding 8 (length (msg_header s)) ++ msg_body s) fuel
                  (wt_hdr fdl s _ W Hb)) as U.
    cbn [length app] in U. change (len []) with 0 in U.
    change (enc_seq hdr_ts (hdr_ws s (len (msg_body s))) 0 (s_le s)) with (msg_header s) in U.
    apply U; [rewrite wdepth_hdr; lia|exact Hh]. }
  rewrite Hu. cbn [bind]. rewrite readback_hdr.
  assert (Hmt : negb ((1 <=? s_type s)%Z && (s_type s <=? 4)%Z) = false).
  { destruct (Z.leb_spec 1 (s_type s)), (Z.leb_spec (s_type s) 4); try lia; reflexivity. }
  rewrite Hmt.
  rewrite (set_fields_spec fdl (s_fields s) []). cbn [bind app].
  rewrite (get_attr_sig fdl _ Hfs).
  unfold expect_reply_of, auto_start_of. rewrite <- even_testbit0, <- even_testbit1.
  (* the body *)
  assert (Hskip : skipn (N.to_nat (N.min (len (msg_header s) + pad_len 8 (len (msg_header s))) (len (msg_enc s))))
                        (msg_enc s) = msg_body s).
  { change 8 with (N.of_nat 8). unfold len at 2. rewrite (pad_len_spec 8) by (unfold good_align; auto).
    unfold msg_enc. rewrite app_assoc. apply skipn_all_app.
    rewrite !len_app, N.min_l by lia. unfold len. rewrite app_length. lia. }
  rewrite Hskip.
  unfold recovered_body.
  pose proof (unmarshal_inverts fdl (s_le s) (s_body_ts s) (s_body s) [] [] fuel Hwb) as U.
  cbn [length app] in U. change (len []) with 0 in U. rewrite app_nil_r in U.
  change (enc_seq (s_body_ts s) (s_body s) 0 (s_le s)) with (msg_body s) in U.
  specialize (U ltac:(lia) Hb).
  destruct (s_body_ts s) as [|t ts] eqn:Ets.
  - destruct Hsig as [-> | ->]; reflexivity.
  - rewrite Hsig. cbn [option_map]. unfold truthy. cbn [unwrap].
    destruct (show_list (t :: ts)) eqn:E; [apply show_list_nil in E; discriminate|].
    cbn [negb]. rewrite U. reflexivity.
Qed.

(* ---------------------------------------------------------------------------
   6. a constructed message is a well-typed wire message; what it parses to     *)

Lemma sig_field_app a b :
  sig_field (a ++ b) = match sig_field b with Some s => Some s | None => sig_field a end.
Proof.
  induction a as [|[[code t] w] a IH]; cbn [app sig_field].
  - destruct (sig_field b); reflexivity.
  - rewrite IH. destruct (sig_field b); reflexivity.
Qed.

Lemma sig_field_fields_of m : sig_field (fields_of m) = option_map show_list (a_sig m).
Proof.
  unfold fields_of. rewrite !sig_field_app.
  destruct (a_sig m) as [ts|]; cbn [opt_field sig_field option_map]; [reflexivity|].
  destruct (a_sender m), (a_destination m), (a_reply_serial m), (a_error_name m),
    (a_member m), (a_interface m), (a_path m); reflexivity.
Qed.

Lemma Forall_app_intro {A} (P : A -> Prop) a b : Forall P a -> Forall P b -> Forall P (a ++ b).
Proof. intros Ha Hb. apply Forall_app. split; assumption. Qed.

Lemma string_field_ok fdl code s : (0 <= code < 256)%Z -> field_ty code = Some TString ->
  string_ok s = true -> field_ok fdl (code, TString, WStr s).
Proof.
  intros Hc Ht Hs. unfold field_ok. rewrite Ht. apply andb_true_iff in Hs as [_ Hu].
  repeat split; try lia; try exact Hu. cbn. lia.
Qed.

Lemma fields_of_ok fdl m : valid_amsg fdl m -> Forall (field_ok fdl) (fields_of m).
Proof.
  intros (_ & Vp & Vi & Vm & Ve & Vd & Vs & Vr & Vg & _). unfold fields_of.
  repeat apply Forall_app_intro.
  - destruct (a_path m) as [s|]; cbn [opt_field]; constructor; [|constructor]. cbn in Vp.
    rewrite <- validate_path_grammar in Vp. pose proof (path_string_ok s Vp) as So.
    apply andb_true_iff in So as [_ Hu]. cbn. repeat split; try lia; exact Hu.
  - destruct (a_interface m) as [s|]; cbn [opt_field]; constructor; [|constructor]. cbn in Vi.
    rewrite <- validate_iface_grammar in Vi. apply string_field_ok; [lia|reflexivity|apply iface_string_ok, Vi].
  - destruct (a_member m) as [s|]; cbn [opt_field]; constructor; [|constructor]. cbn in Vm.
    rewrite <- validate_member_grammar in Vm. apply string_field_ok; [lia|reflexivity|apply member_string_ok, Vm].
  - destruct (a_error_name m) as [s|]; cbn [opt_field]; constructor; [|constructor]. cbn in Ve. unfold g_error in Ve.
    rewrite <- validate_iface_grammar in Ve. apply string_field_ok; [lia|reflexivity|apply iface_string_ok, Ve].
  - destruct (a_reply_serial m) as [z|]; cbn [opt_field]; constructor; [|constructor].
    cbn. repeat split; try lia.
  - destruct (a_destination m) as [s|]; cbn [opt_field]; constructor; [|constructor]. cbn in Vd.
    rewrite <- validate_bus_grammar in Vd. apply string_field_ok; [lia|reflexivity|apply bus_string_ok, Vd].
  - destruct (a_sender m) as [s|]; cbn [opt_field]; constructor; [|constructor]. cbn in Vs.
    apply string_field_ok; [lia|reflexivity|exact Vs].
  - unfold body_ts in Vg. destruct (a_sig m) as [ts|]; cbn [opt_field]; constructor; [|constructor].
    cbn. repeat split; try lia. apply show_list_ascii.
Qed.

Lemma smsg_of_wt fdl m le next :
  valid_amsg fdl m -> (0 <= next < 4294967296)%Z ->
  len (msg_enc (smsg_of m le next)) < 4294967296 ->
  msg_wt fdl (smsg_of m le next).
Proof.
  intros V Hn Hlen. pose proof (valid_type fdl m V) as T. pose proof (fields_of_ok fdl m V) as Fo.
  destruct V as (_ & _ & _ & _ & _ & _ & _ & _ & _ & Vb).
  unfold msg_wt. cbn [s_type s_flags s_serial s_fields s_body_ts s_body smsg_of].
  split; [lia|]. split; [unfold flags_byte; destruct (a_no_reply m), (a_no_auto_start m); lia|].
  split; [exact Hn|]. split; [exact Fo|]. split; [exact Vb|]. split; [|exact Hlen].
  rewrite sig_field_fields_of. unfold body_ts.
  destruct (a_sig m) as [[|t ts]|]; cbn [option_map]; auto.
Qed.

Lemma recovered_fields_own fdl m le next :
  recovered_fields fdl (smsg_of m le next) = own_fields m.
Proof.
  unfold recovered_fields. cbn [s_fields smsg_of]. unfold own_fields, fields_of.
  destruct (a_path m), (a_interface m), (a_member m), (a_error_name m), (a_reply_serial m),
    (a_destination m), (a_sender m), (a_sig m); reflexivity.
Qed.

Lemma recovered_body_own fdl m le next :
  recovered_body fdl (smsg_of m le next) = own_body fdl m.
Proof.
  unfold recovered_body, own_body. cbn [s_body_ts s_body smsg_of]. unfold body_ts.
  destruct (a_sig m) as [[|t ts]|]; reflexivity.
Qed.

Lemma flags_own m le next :
  expect_reply_of (smsg_of m le next) = negb (a_no_reply m) /\
  auto_start_of (smsg_of m le next) = negb (a_no_auto_start m).
Proof.
  unfold expect_reply_of, auto_start_of. cbn [s_flags smsg_of]. unfold flags_byte.
  destruct (a_no_reply m), (a_no_auto_start m); split; reflexivity.
Qed.

(* constructing, then parsing the produced bytes *)
Theorem parse_own fdl m attrs body next fuel fuel' fds :
  valid_amsg fdl m -> args_denote attrs body m -> no_fds fds ->
  (0 <= next < 4294967296)%Z ->
  (msg_depth (smsg_of m true next) <= fuel)%nat -> (msg_depth (smsg_of m true next) <= fuel')%nat ->
  len (msg_enc (smsg_of m true next)) <= max_msg_len ->
  exists h p b pattrs,
    construct_st false fuel (a_type m) (negb (a_no_reply m)) (negb (a_no_auto_start m)) attrs body next fds
      = (Ok (h, p, b, fds), (next + 1)%Z) /\
    parse_message false fuel' (h ++ p ++ b) (Some fdl)
      = Ok (a_type m, next, negb (a_no_reply m), negb (a_no_auto_start m), pattrs, own_body fdl m) /\
    map (fun x => (Z.of_N (attr_code (fst x)), snd x)) pattrs = own_fields m.
Proof.
  intros V A F Hn Hd Hd' Hsz.
  eexists _, _, _, (attrs_of_fields fdl (fields_of m)).
  split; [exact (construct_refines fdl m attrs body next fuel fds V A F Hn Hd Hsz)|].
  assert (Hlt : len (msg_enc (smsg_of m true next)) < 4294967296) by (unfold max_msg_len in Hsz; lia).
  pose proof (smsg_of_wt fdl m true next V Hn Hlt) as W.
  pose proof (parse_refines fdl _ fuel' W Hd') as P.
  destruct (flags_own m true next) as [E1 E2].
  rewrite E1, E2, recovered_body_own in P. cbn [s_type s_serial s_fields smsg_of] in P.
  rewrite N2Z.id in P.
  split; [exact P|].
  rewrite attrs_of_fields_recovered. exact (recovered_fields_own fdl m true next).
Qed.

(* ---------------------------------------------------------------------------
   7. what holds of every constructor call, conforming arguments or not         *)

Lemma marshal_header_size fuel mt er au attrs bb serial fds h p b f :
  marshal_header fuel mt er au attrs bb serial fds = Ok (h, p, b, f) ->
  len h + len p + len b <= max_msg_len.
Proof.
  unfold marshal_header. destruct (m_marshal _ _ _ _ _ _) as [[[n hb] f0]|e]; [|discriminate].
  cbn [bind]. destruct (N.ltb_spec max_msg_len (len hb + len (zeros (pad_len 8 (len hb))) + len bb)) as [X|X];
    [discriminate|]. intros E. injection E as <- <- <- _. exact X.
Qed.

(* one step of the "for ct, var in zip(genCompleteTypes(sig), vals)" loop *)
Lemma seq_loop_cons_inv one sig ct rest v vs off le fds r :
  gct_next sig = Ok (Some (ct, rest)) ->
  seq_loop one sig (v :: vs) off le fds = Ok r ->
  exists tcode tl p n b fds1 r2,
    ct = tcode :: tl /\ pad_for tcode off = Ok p /\ one ct v (off + p) le fds = Ok (n, b, fds1) /\
    seq_loop one rest vs (off + p + n) le fds1 = Ok r2.
Proof.
  intros G H. cbn [seq_loop] in H. rewrite G in H.
  destruct ct as [|tcode tl]; [discriminate|].
  destruct (pad_for tcode off) as [p|e] eqn:Ep; [|discriminate]. cbn [bind] in H.
  destruct (one (tcode :: tl) v (off + p) le fds) as [[[n b] fds1]|e] eqn:Eo; [|discriminate].
  cbn [bind] in H.
  destruct (seq_loop one rest vs (off + p + n) le fds1) as [r2|e] eqn:Er; [|discriminate].
  exists tcode, tl, p, n, b, fds1, r2. auto.
Qed.

Lemma m_one_u32_range fuel v z off le fds r :
  as_int v = Ok z -> m_one fuel [117] v off le fds = Ok r -> (0 <= z < 4294967296)%Z.
Proof.
  intros Hv H. destruct fuel as [|f]; [discriminate|].
  cbn [m_one] in H. change (117 =? 121) with false in H. change (117 =? 98) with false in H.
  change (117 =? 110) with false in H. change (117 =? 113) with false in H. change (117 =? 105) with false in H.
  change (117 =? 117) with true in H. cbn iota in H.
  unfold m_int in H. rewrite Hv in H. cbn [bind] in H. unfold pack_int in H.
  destruct ((0 <=? z)%Z && (z <? pow256 4)%Z) eqn:E; [|discriminate].
  apply andb_true_iff in E as [E1 E2]. apply Z.leb_le in E1. apply Z.ltb_lt in E2.
  change (pow256 4) with 4294967296%Z in E2. lia.
Qed.

(* the header carries the serial as a UINT32: marshalling it succeeds only within range *)
Lemma marshal_header_serial fuel mt er au attrs bb serial fds r :
  marshal_header fuel mt er au attrs bb serial fds = Ok r -> (0 <= serial < 4294967296)%Z.
Proof.
  unfold marshal_header. destruct (m_marshal _ _ _ _ _ _) as [[[n hb] f0]|e] eqn:E; [|discriminate]. intros _.
  unfold m_marshal, marshal_with in E. cbn [seq_items bind] in E.
  destruct (seq_loop _ _ _ _ _ _) as [r0|e] eqn:L; [|discriminate]. clear E.
  apply (seq_loop_cons_inv _ _ [121] [121; 121; 121; 117; 117; 97; 40; 121; 118; 41]) in L; [|reflexivity].
  destruct L as (? & ? & ? & ? & ? & ? & r1 & _ & _ & _ & L).
  apply (seq_loop_cons_inv _ _ [121] [121; 121; 117; 117; 97; 40; 121; 118; 41]) in L; [|reflexivity].
  destruct L as (? & ? & ? & ? & ? & ? & r2 & _ & _ & _ & L).
  apply (seq_loop_cons_inv _ _ [121] [121; 117; 117; 97; 40; 121; 118; 41]) in L; [|reflexivity].
  destruct L as (? & ? & ? & ? & ? & ? & r3 & _ & _ & _ & L).
  apply (seq_loop_cons_inv _ _ [121] [117; 117; 97; 40; 121; 118; 41]) in L; [|reflexivity].
  destruct L as (? & ? & ? & ? & ? & ? & r4 & _ & _ & _ & L).
  apply (seq_loop_cons_inv _ _ [117] [117; 97; 40; 121; 118; 41]) in L; [|reflexivity].
  destruct L as (? & ? & ? & ? & ? & ? & r5 & _ & _ & _ & L).
  apply (seq_loop_cons_inv _ _ [117] [97; 40; 121; 118; 41]) in L; [|reflexivity].
  destruct L as (? & ? & ? & ? & ? & ? & r6 & _ & _ & Hone & _).
  eapply m_one_u32_range; [|exact Hone]. reflexivity.
Qed.

(* the counter discipline of one constructor call *)
Lemma construct_st_counter legacy fuel mt er au attrs body next fds :
  let '(o, next') := construct_st legacy fuel mt er au attrs body next fds in
  (next <= next' <= next + 1)%Z /\
  match o with
  | Ok (h, p, b, _) => next' = (next + 1)%Z /\ (0 <= next < 4294967296)%Z /\ len h + len p + len b <= max_msg_len
  | Err _ => True
  end.
Proof.
  unfold construct_st. destruct (validate_args legacy mt attrs); [|split; [lia|exact I]].
  unfold marshal_msg_st. destruct (marshal_body fuel attrs body fds) as [[bb f']|e]; [|split; [lia|exact I]].
  split; [lia|].
  destruct (marshal_header fuel mt er au attrs bb next f') as [[[[h p] b] f]|e] eqn:E; [|exact I].
  split; [reflexivity|]. split; [exact (marshal_header_serial _ _ _ _ _ _ _ _ _ E)|].
  exact (marshal_header_size _ _ _ _ _ _ _ _ _ _ _ _ E).
Qed.

(* --- serials over a history of constructor calls --------------------------------------- *)

Definition ok_serials (outs : list (Z * res (bytes * bytes * bytes * fdst))) : list Z :=
  flat_map (fun o => match snd o with Ok _ => [fst o] | Err _ => [] end) outs.

Lemma run_constructs_serials legacy qs : forall next,
  let '(outs, final) := run_constructs legacy next qs in
  (next <= final)%Z /\
  Forall (fun z => (next <= z < final)%Z /\ (0 <= z < 4294967296)%Z) (ok_serials outs) /\
  StronglySorted Z.lt (ok_serials outs).
Proof.
  induction qs as [|q qs IH]; intros next.
  - cbn. split; [lia|]. split; constructor.
  - cbn [run_constructs]. unfold construct_req.
    pose proof (construct_st_counter legacy (q_fuel q) (q_type q) (q_expect_reply q) (q_auto_start q)
                  (q_attrs q) (q_body q) next (q_fds q)) as C.
    destruct (construct_st _ _ _ _ _ _ _ _ _) as [o next'].
    specialize (IH next'). destruct (run_constructs legacy next' qs) as [outs final].
    destruct C as [C1 C2]. destruct IH as (I1 & I2 & I3).
    split; [lia|].
    unfold ok_serials in *. cbn [flat_map snd fst].
    destruct o as [[[[h p] b] f]|e].
    + destruct C2 as (-> & R & _). cbn [app]. split.
      * constructor; [lia|]. eapply Forall_impl; [|exact I2]. cbn. intros z Hz. lia.
      * constructor; [exact I3|]. eapply Forall_impl; [|exact I2]. cbn. intros z Hz. lia.
    + cbn [app]. split; [|exact I3]. eapply Forall_impl; [|exact I2]. cbn. intros z Hz. lia.
Qed.

Lemma sorted_nodup l : StronglySorted Z.lt l -> NoDup l.
Proof.
  induction 1 as [|x l Hs IH Hx]; constructor; [|exact IH].
  intros Hin. rewrite Forall_forall in Hx. specialize (Hx x Hin). lia.
Qed.

Theorem serials_fresh legacy qs :
  let outs := fst (run_constructs legacy 1 qs) in
  NoDup (ok_serials outs) /\ StronglySorted Z.lt (ok_serials outs) /\
  Forall (fun z => (1 <= z < 4294967296)%Z) (ok_serials outs).
Proof.
  pose proof (run_constructs_serials legacy qs 1) as H.
  destruct (run_constructs legacy 1 qs) as [outs final]. cbn [fst].
  destruct H as (_ & H2 & H3). split; [exact (sorted_nodup _ H3)|]. split; [exact H3|].
  eapply Forall_impl; [|exact H2]. cbn. intros z Hz. lia.
Qed.

(* ---------------------------------------------------------------------------
   8. invalid names are refused                                                 *)

Lemma opt_valid_bad f s : f s = false -> opt_valid f false (PStr s) = Err EMarshal.
Proof. intros H. cbn. rewrite H. reflexivity. Qed.

Lemma bind_err {A B} (x : res A) (k : A -> res B) : (exists e, x = Err e) -> exists e, bind x k = Err e.
Proof. intros [e ->]. exists e. reflexivity. Qed.

Lemma bind_err_k {A B} (x : res A) (k : A -> res B) : (forall a, exists e, k a = Err e) -> exists e, bind x k = Err e.
Proof. intros H. destruct x as [a|e]; [apply H|exists e; reflexivity]. Qed.

Lemma opt'_bad f attrs a s : get_attr a attrs = Some (PStr s) -> f s = false ->
  match geta attrs a with PNone => Ok tt | v => opt_valid f false v end = Err EMarshal.
Proof. intros H Hf. rewrite (geta_some _ _ _ H). apply opt_valid_bad, Hf. Qed.

Lemma req_bad f attrs a s : get_attr a attrs = Some (PStr s) -> f s = false ->
  opt_valid f false (geta attrs a) = Err EMarshal.
Proof. intros H Hf. rewrite (geta_some _ _ _ H). apply opt_valid_bad, Hf. Qed.

Lemma validate_args_bad mt attrs s :
  ((mt = 1 \/ mt = 4) /\ get_attr AInterface attrs = Some (PStr s) /\ g_interface s = false) \/
  ((mt = 1 \/ mt = 4) /\ get_attr AMember attrs = Some (PStr s) /\ g_member s = false) \/
  (mt = 3 /\ get_attr AErrorName attrs = Some (PStr s) /\ g_error s = false) \/
  ((mt = 1 \/ mt = 2 \/ mt = 3 \/ mt = 4) /\ get_attr ADestination attrs = Some (PStr s) /\ g_bus s = false) ->
  exists e, validate_args false mt attrs = Err e.
Proof.
  unfold validate_args.
  intros [([-> | ->] & H & G) | [([-> | ->] & H & G) | [(-> & H & G) | ([-> | [-> | [-> | ->]]] & H & G)]]].
  - rewrite <- validate_iface_grammar in G. apply bind_err_k; intros _. apply bind_err.
    eexists. exact (opt'_bad _ _ _ _ H G).
  - rewrite <- validate_iface_grammar in G. apply bind_err_k; intros _. apply bind_err.
    eexists. exact (req_bad _ _ _ _ H G).
  - rewrite <- validate_member_grammar in G. apply bind_err. eexists. exact (req_bad _ _ _ _ H G).
  - rewrite <- validate_member_grammar in G. apply bind_err. eexists. exact (req_bad _ _ _ _ H G).
  - unfold g_error in G. rewrite <- validate_iface_grammar in G. apply bind_err_k; intros _.
    eexists. exact (req_bad _ _ _ _ H G).
  - rewrite <- validate_bus_grammar in G. apply bind_err_k; intros _. apply bind_err_k; intros _. apply bind_err.
    eexists. exact (opt'_bad _ _ _ _ H G).
  - rewrite <- validate_bus_grammar in G. eexists. exact (opt'_bad _ _ _ _ H G).
  - rewrite <- validate_bus_grammar in G. apply bind_err. eexists. exact (opt'_bad _ _ _ _ H G).
  - rewrite <- validate_bus_grammar in G. apply bind_err_k; intros _. apply bind_err_k; intros _.
    eexists. exact (opt'_bad _ _ _ _ H G).
Qed.

(* the object path is checked when the header is marshalled *)
Lemma get_attr_app_fds a attrs v : a <> AUnixFds ->
  get_attr a (attrs ++ [(AUnixFds, v)]) = get_attr a attrs.
Proof.
  intros Ha. induction attrs as [|[a' v'] r IH]; cbn [app get_attr].
  - destruct a; try reflexivity. congruence.
  - rewrite IH. reflexivity.
Qed.

Lemma header_list_path mt attrs fds s :
  mt = 1 \/ mt = 4 -> get_attr APath attrs = Some (PStr s) ->
  exists tl, header_list mt attrs fds = PList [PInt 1; PWrap 111 (PStr s)] :: tl.
Proof.
  intros Hm H. unfold header_list.
  set (wf := sig_truthy (get_attr ASignature attrs) && match fds with Some (_ :: _) => true | _ => false end).
  destruct wf.
  - destruct Hm as [-> | ->]; cbn [hattrs app flat_map]; rewrite get_attr_app_fds by discriminate;
      rewrite H; eexists; reflexivity.
  - destruct Hm as [-> | ->]; cbn [hattrs flat_map]; rewrite H; eexists; reflexivity.
Qed.

Lemma arr_loop_cons_inv one tsig tcode v vs off dlen le fds r :
  arr_loop one tsig tcode (v :: vs) off dlen le fds = Ok r ->
  exists p r1, pad_for tcode off = Ok p /\ one tsig v (off + p) le fds = Ok r1.
Proof.
  cbn [arr_loop]. destruct (pad_for tcode off) as [p|e] eqn:Ep; [|discriminate]. cbn [bind].
  destruct (one tsig v (off + p) le fds) as [r1|e] eqn:Eo; [|discriminate]. intros _.
  exists p, r1. split; [reflexivity|exact Eo].
Qed.

Lemma marshal_with_inv one sig l off le fds r :
  marshal_with one sig (PList l) off le fds = Ok r -> exists r', seq_loop one sig l off le fds = Ok r'.
Proof.
  unfold marshal_with. cbn [seq_items bind]. destruct (seq_loop one sig l off le fds) as [r'|e]; [|discriminate].
  eauto.
Qed.

Lemma m_one_bad_path fuel s off le fds r :
  validate_path s = false -> m_one fuel [111] (PWrap 111 (PStr s)) off le fds = Ok r -> False.
Proof.
  intros Hv. destruct fuel as [|f]; [discriminate|].
  change (m_one (S f) [111] (PWrap 111 (PStr s)) off le fds) with (m_object_path (PWrap 111 (PStr s)) le fds).
  unfold m_object_path. cbn [str_of unwrap]. rewrite Hv. discriminate.
Qed.

Lemma m_one_bad_field fuel s off le fds r :
  validate_path s = false ->
  m_one fuel [40; 121; 118; 41] (PList [PInt 1; PWrap 111 (PStr s)]) off le fds = Ok r -> False.
Proof.
  intros Hv H. destruct fuel as [|f]; [discriminate|].
  rewrite m_one_struct in H. change (strip_ends [40; 121; 118; 41]) with [121; 118] in H.
  apply marshal_with_inv in H as [r' L].
  apply (seq_loop_cons_inv _ _ [121] [118]) in L; [|reflexivity].
  destruct L as (? & ? & p1 & n1 & ? & f1 & r1 & _ & _ & _ & L).
  apply (seq_loop_cons_inv _ _ [118] []) in L; [|reflexivity].
  destruct L as (? & ? & p2 & n2 & ? & f2 & r2 & _ & _ & Hone & _).
  destruct f as [|f']; [discriminate|].
  rewrite (m_one_variant' f' (PWrap 111 (PStr s)) _ _ _ 111 [] eq_refl) in Hone.
  destruct (m_signature (PStr [111]) le f1) as [[[ns bs] fs]|e]; [|discriminate]. cbn [bind] in Hone.
  destruct (pad_for 111 _) as [pp|e]; [|discriminate]. cbn [bind] in Hone.
  destruct (marshal_with (m_one f') [111] (PList [PWrap 111 (PStr s)]) _ le None)
    as [rr|e] eqn:M; [|discriminate].
  apply marshal_with_inv in M as [r'' L].
  apply (seq_loop_cons_inv _ _ [111] []) in L; [|reflexivity].
  destruct L as (? & ? & p3 & n3 & ? & f3 & r3 & _ & _ & Hp & _).
  exact (m_one_bad_path _ _ _ _ _ _ Hv Hp).
Qed.

Lemma marshal_header_bad_path fuel mt er au attrs bb serial fds s :
  mt = 1 \/ mt = 4 -> get_attr APath attrs = Some (PStr s) -> validate_path s = false ->
  exists e, marshal_header fuel mt er au attrs bb serial fds = Err e.
Proof.
  intros Hm H Hv. destruct (header_list_path mt attrs fds s Hm H) as [tl Hl].
  unfold marshal_header. rewrite Hl.
  destruct (m_marshal _ _ _ _ _ _) as [[[n hb] f0]|e] eqn:E; [exfalso|eexists; reflexivity].
  unfold m_marshal, marshal_with in E. cbn [seq_items bind] in E.
  destruct (seq_loop _ _ _ _ _ _) as [r0|e] eqn:L; [|discriminate]. clear E.
  apply (seq_loop_cons_inv _ _ [121] [121; 121; 121; 117; 117; 97; 40; 121; 118; 41]) in L; [|reflexivity].
  destruct L as (? & ? & ? & ? & ? & ? & r1 & _ & _ & _ & L).
  apply (seq_loop_cons_inv _ _ [121] [121; 121; 117; 117; 97; 40; 121; 118; 41]) in L; [|reflexivity].
  destruct L as (? & ? & ? & ? & ? & ? & r2 & _ & _ & _ & L).
  apply (seq_loop_cons_inv _ _ [121] [121; 117; 117; 97; 40; 121; 118; 41]) in L; [|reflexivity].
  destruct L as (? & ? & ? & ? & ? & ? & r3 & _ & _ & _ & L).
  apply (seq_loop_cons_inv _ _ [121] [117; 117; 97; 40; 121; 118; 41]) in L; [|reflexivity].
  destruct L as (? & ? & ? & ? & ? & ? & r4 & _ & _ & _ & L).
  apply (seq_loop_cons_inv _ _ [117] [117; 97; 40; 121; 118; 41]) in L; [|reflexivity].
  destruct L as (? & ? & ? & ? & ? & ? & r5 & _ & _ & _ & L).
  apply (seq_loop_cons_inv _ _ [117] [97; 40; 121; 118; 41]) in L; [|reflexivity].
  destruct L as (? & ? & ? & ? & ? & ? & r6 & _ & _ & _ & L).
  apply (seq_loop_cons_inv _ _ [97; 40; 121; 118; 41] []) in L; [|reflexivity].
  destruct L as (? & ? & p7 & n7 & ? & f7 & r7 & _ & _ & Hone & _).
  destruct fuel as [|f]; [discriminate|].
  rewrite m_one_array' in Hone.
  destruct (pad_for 40 _) as [ip|e]; [|discriminate]. cbn [bind array_items] in Hone.
  destruct (arr_loop _ _ _ _ _ _ _ _) as [ra|e] eqn:A; [|discriminate].
  apply arr_loop_cons_inv in A as (p & r1' & _ & Hf).
  exact (m_one_bad_field _ _ _ _ _ _ Hv Hf).
Qed.

Theorem construct_invalid_names fuel mt er au attrs body next fds :
  names_invalid mt attrs ->
  exists e next', construct_st false fuel mt er au attrs body next fds = (Err e, next').
Proof.
  intros [s [(Hm & H & G) | Hrest]].
  - rewrite <- validate_path_grammar in G. unfold construct_st.
    destruct (validate_args false mt attrs) as [u|e]; [|eauto].
    unfold marshal_msg_st. destruct (marshal_body fuel attrs body fds) as [[bb f']|e]; [|eauto].
    destruct (marshal_header_bad_path fuel mt er au attrs bb next f' s Hm H G) as [e ->]. eauto.
  - destruct (validate_args_bad mt attrs s Hrest) as [e E]. unfold construct_st. rewrite E. eauto.
Qed.

(* ---------------------------------------------------------------------------
   8b. the fixed part of the header of EVERY constructed message               *)

Lemma seq_loop_cons_eq one sig ct rest v vs off le fds r :
  gct_next sig = Ok (Some (ct, rest)) ->
  seq_loop one sig (v :: vs) off le fds = Ok r ->
  exists tcode tl p n b fds1 off2 b2 fds2,
    ct = tcode :: tl /\ pad_for tcode off = Ok p /\ one ct v (off + p) le fds = Ok (n, b, fds1) /\
    seq_loop one rest vs (off + p + n) le fds1 = Ok (off2, b2, fds2) /\
    r = (off2, zeros p ++ b ++ b2, fds2).
Proof.
  intros G H. cbn [seq_loop] in H. rewrite G in H.
  destruct ct as [|tcode tl]; [discriminate|].
  destruct (pad_for tcode off) as [p|e] eqn:Ep; [|discriminate]. cbn [bind] in H.
  destruct (one (tcode :: tl) v (off + p) le fds) as [[[n b] fds1]|e] eqn:Eo; [|discriminate].
  cbn [bind] in H.
  destruct (seq_loop one rest vs (off + p + n) le fds1) as [[[off2 b2] fds2]|e] eqn:Er; [|discriminate].
  cbn [bind] in H. injection H as <-.
  exists tcode, tl, p, n, b, fds1, off2, b2, fds2. auto.
Qed.

Lemma m_one_byte_inv fuel z off le fds n b f :
  m_one fuel [121] (PInt z) off le fds = Ok (n, b, f) ->
  n = 1 /\ b = [Z.to_N z] /\ (0 <= z < 256)%Z /\ f = fds.
Proof.
  destruct fuel as [|fu]; [discriminate|].
  change (m_one (S fu) [121] (PInt z) off le fds) with (m_int 1 false (PInt z) le fds).
  unfold m_int. cbn [as_int unwrap bind]. unfold pack_int.
  destruct ((0 <=? z)%Z && (z <? pow256 1)%Z) eqn:E; [|discriminate].
  apply andb_true_iff in E as [E1 E2]. apply Z.leb_le in E1. apply Z.ltb_lt in E2.
  change (pow256 1) with 256%Z in *. cbn [bind]. intros H. injection H as <- <- <-.
  rewrite Z.mod_small by lia. rewrite enc_uint_spec, uint1 by lia. auto.
Qed.

Lemma m_one_u32_inv fuel z off le fds n b f :
  m_one fuel [117] (PInt z) off le fds = Ok (n, b, f) ->
  n = 4 /\ b = uint 4 le (Z.to_N z) /\ (0 <= z < 4294967296)%Z /\ f = fds.
Proof.
  destruct fuel as [|fu]; [discriminate|].
  change (m_one (S fu) [117] (PInt z) off le fds) with (m_int 4 false (PInt z) le fds).
  unfold m_int. cbn [as_int unwrap bind]. unfold pack_int.
  destruct ((0 <=? z)%Z && (z <? pow256 4)%Z) eqn:E; [|discriminate].
  apply andb_true_iff in E as [E1 E2]. apply Z.leb_le in E1. apply Z.ltb_lt in E2.
  change (pow256 4) with 4294967296%Z in *. cbn [bind]. intros H. injection H as <- <- <-.
  rewrite Z.mod_small by lia. rewrite enc_uint_spec. auto.
Qed.

Lemma pad_for_byte off p : pad_for 121 off = Ok p -> p = 0.
Proof.
  unfold pad_for. change (align_of 121) with (Some 1). unfold pad_len. rewrite N.mod_1_r. cbn.
  intros H. injection H as <-. reflexivity.
Qed.

Lemma marshal_header_fixed fuel mt er au attrs bb serial fds h p b f :
  marshal_header fuel mt er au attrs bb serial fds = Ok (h, p, b, f) ->
  b = bb /\
  (exists rest,
     h = [108; mt; Z.to_N (flags_of er au); 1] ++ uint 4 true (len bb) ++ uint 4 true (Z.to_N serial) ++ rest) /\
  mt < 256 /\ (0 <= serial < 4294967296)%Z /\ len bb < 4294967296 /\
  p = padding 8 (length h).
Proof.
  unfold marshal_header. destruct (m_marshal _ _ _ _ _ _) as [[[n hb] f0]|e] eqn:E; [|discriminate].
  cbn [bind]. destruct (max_msg_len <? _); [discriminate|]. intros H. injection H as <- <- <- _.
  split; [reflexivity|].
  unfold m_marshal, marshal_with in E. cbn [seq_items bind] in E.
  destruct (seq_loop _ _ _ _ _ _) as [[[o2 bs] f2]|e] eqn:L; [|discriminate].
  injection E as _ <- _.
  apply (seq_loop_cons_eq _ _ [121] [121; 121; 121; 117; 117; 97; 40; 121; 118; 41]) in L; [|reflexivity].
  destruct L as (tc & tl & p1 & n1 & b1 & g1 & ? & r1 & ? & Ect & P1 & O1 & L & E1). injection Ect as <- <-.
  apply pad_for_byte in P1. subst p1. apply m_one_byte_inv in O1 as (-> & -> & _ & ->).
  injection E1 as _ -> _.
  apply (seq_loop_cons_eq _ _ [121] [121; 121; 117; 117; 97; 40; 121; 118; 41]) in L; [|reflexivity].
  destruct L as (tc & tl & p2 & n2 & b2 & g2 & ? & r2 & ? & Ect & P2 & O2 & L & E2). injection Ect as <- <-.
  apply pad_for_byte in P2. subst p2. apply m_one_byte_inv in O2 as (-> & -> & R2 & ->).
  injection E2 as _ -> _.
  apply (seq_loop_cons_eq _ _ [121] [121; 117; 117; 97; 40; 121; 118; 41]) in L; [|reflexivity].
  destruct L as (tc & tl & p3 & n3 & b3 & g3 & ? & r3 & ? & Ect & P3 & O3 & L & E3). injection Ect as <- <-.
  apply pad_for_byte in P3. subst p3. apply m_one_byte_inv in O3 as (-> & -> & _ & ->).
  injection E3 as _ -> _.
  apply (seq_loop_cons_eq _ _ [121] [117; 117; 97; 40; 121; 118; 41]) in L; [|reflexivity].
  destruct L as (tc & tl & p4 & n4 & b4 & g4 & ? & r4 & ? & Ect & P4 & O4 & L & E4). injection Ect as <- <-.
  apply pad_for_byte in P4. subst p4. apply m_one_byte_inv in O4 as (-> & -> & _ & ->).
  injection E4 as _ -> _.
  apply (seq_loop_cons_eq _ _ [117] [117; 97; 40; 121; 118; 41]) in L; [|reflexivity].
  destruct L as (tc & tl & p5 & n5 & b5 & g5 & ? & r5 & ? & Ect & P5 & O5 & L & E5). injection Ect as <- <-.
  change (0 + 0 + 1 + 0 + 1 + 0 + 1 + 0 + 1) with 4 in *.
  change (pad_for 117 4) with (@Ok N 0) in P5. injection P5 as <-.
  apply m_one_u32_inv in O5 as (-> & -> & R5 & ->). injection E5 as _ -> _.
  apply (seq_loop_cons_eq _ _ [117] [97; 40; 121; 118; 41]) in L; [|reflexivity].
  destruct L as (tc & tl & p6 & n6 & b6 & g6 & ? & r6 & ? & Ect & P6 & O6 & L & E6). injection Ect as <- <-.
  change (4 + 0 + 4) with 8 in *.
  change (pad_for 117 8) with (@Ok N 0) in P6. injection P6 as <-.
  apply m_one_u32_inv in O6 as (-> & -> & R6 & ->). injection E6 as _ -> _.
  split.
  - exists r6. cbn [zeros repeat_n N.to_nat app]. rewrite !N2Z.id. reflexivity.
  - split; [lia|]. split; [exact R6|]. split; [lia|].
    change 8 with (N.of_nat 8). unfold len at 1. rewrite (pad_len_spec 8) by (unfold good_align; auto).
    apply zeros_padding.
Qed.

(* every message a constructor returns - whatever the arguments - starts with
   'l', the type, the flags, version 1, the length of its body and the serial
   that was current, and its header is padded with zeros to a multiple of 8 *)
Theorem construct_fixed_part legacy fuel mt er au attrs body next fds h p b f next' :
  construct_st legacy fuel mt er au attrs body next fds = (Ok (h, p, b, f), next') ->
  (exists rest,
     h = [108; mt; Z.to_N (flags_of er au); 1] ++ uint 4 true (len b) ++ uint 4 true (Z.to_N next) ++ rest) /\
  (1 <= mt <= 4) /\ (0 <= next < 4294967296)%Z /\ len b < 4294967296 /\
  p = padding 8 (length h) /\ ((length h + length p) mod 8 = 0)%nat.
Proof.
  unfold construct_st. destruct (validate_args legacy mt attrs) as [u|e] eqn:V; [|discriminate].
  unfold marshal_msg_st. destruct (marshal_body fuel attrs body fds) as [[bb f']|e]; [|discriminate].
  intros H. injection H as H _.
  destruct (marshal_header_fixed _ _ _ _ _ _ _ _ _ _ _ _ H) as (-> & Hh & _ & Hs & Hb & Hp).
  split; [exact Hh|]. split.
  - unfold validate_args in V. destruct mt as [|[[[]|[]|]|[[]|[]|]|]]; try discriminate; lia.
  - split; [exact Hs|]. split; [exact Hb|]. split; [exact Hp|]. subst p.
    apply (padding_then_aligned 8). unfold good_align. auto.
Qed.

(* ---------------------------------------------------------------------------
   9. the statements of Props/C03.v (example data, glue)                        *)
Definition hattr_rows (mt : N) : list (list N * N) := map (fun a => (attr_name a, attr_code a)) (hattrs mt).

Definition gen_rows (t : option (list (list N * N * bool))) : option (list (list N * N)) :=
  option_map (map (fun r => (fst (fst r), snd (fst r)))) t.

Definition ex_call : amsg :=
  {| a_type := 1; a_no_reply := true; a_no_auto_start := true;
     a_path := Some [47; 97]; a_interface := Some [97; 46; 98]; a_member := Some [77];
     a_error_name := None; a_reply_serial := None; a_destination := Some [58; 49; 46; 53]; a_sender := None;
     a_sig := Some [TString; TArray TInt32];
     a_body := [WStr [104; 105]; WArray [WInt 1; WInt (-2)]] |}.

Definition ex_attrs : list (attr * pyval) :=
  [(APath, PStr [47; 97]); (AMember, PStr [77]); (AInterface, PStr [97; 46; 98]);
   (ADestination, PStr [58; 49; 46; 53]); (ASignature, PStr [115; 97; 105])].

Definition ex_body : pyval := PList [PStr [104; 105]; PTuple [PInt 1; PInt (-2)]].

Definition ex_foreign : smsg :=
  {| s_le := false; s_type := 3; s_flags := 1; s_serial := 4294967295;
     s_fields := [(8%Z, TSig, WStr [40; 121; 118; 41]); (42%Z, TArray TByte, WArray [WInt 1]);
                  (5%Z, TUInt32, WInt 9); (4%Z, TString, WStr [97; 46; 69])];
     s_body_ts := [TStruct [TByte; TVariant]];
     s_body := [WStruct [WInt 200; WVariant TString (WStr [120])]] |}.

Definition ex_req (member : str) : creq :=
  {| q_fuel := 8; q_type := 1; q_expect_reply := true; q_auto_start := true;
     q_attrs := [(APath, PStr [47; 97]); (AMember, PStr member)]; q_body := PNone; q_fds := None |}.

Lemma c03_wellformed :
  forall fdl m attrs body next fuel fds,
    valid_amsg fdl m -> args_denote attrs body m -> no_fds fds ->
    (1 <= next < 4294967296)%Z ->
    (msg_depth (smsg_of m true next) <= fuel)%nat ->
    len (msg_enc (smsg_of m true next)) <= max_msg_len ->
    let s := smsg_of m true next in
    construct_st false fuel (a_type m) (negb (a_no_reply m)) (negb (a_no_auto_start m)) attrs body next fds
      = (Ok (msg_header s, padding 8 (length (msg_header s)), msg_body s, fds), (next + 1)%Z) /\
    msg_header s ++ padding 8 (length (msg_header s)) ++ msg_body s = msg_enc s /\
    wellformed_layout (msg_enc s) true (a_type m) (Z.to_N (flags_byte m)) next.
Proof.
  intros fdl m attrs body next fuel fds V A F Hn Hd Hsz. cbv zeta.
  assert (Hn' : (0 <= next < 4294967296)%Z) by lia.
  split; [exact (construct_refines fdl m attrs body next fuel fds V A F Hn' Hd Hsz)|].
  split; [reflexivity|].
  assert (Hlt : len (msg_enc (smsg_of m true next)) < 4294967296) by (unfold max_msg_len in Hsz; lia).
  destruct (smsg_of_wt fdl m true next V Hn' Hlt) as (Ht & Hf & Hs & _).
  assert (Hb : len (msg_body (smsg_of m true next)) < two32).
  { unfold msg_enc in Hlt. rewrite !len_app in Hlt. unfold two32. lia. }
  assert (HR : hdr_ranges (smsg_of m true next)) by (unfold hdr_ranges; lia).
  pose proof (msg_enc_layout _ HR Hb) as L.
  cbn [s_le s_type s_flags s_serial smsg_of] in L. rewrite N2Z.id in L. exact L.
Qed.

Lemma c03_parse_foreign :
  forall fdl s fuel,
    msg_wt fdl s -> (msg_depth s <= fuel)%nat ->
    exists pattrs,
      parse_message false fuel (msg_enc s) (Some fdl)
        = Ok (Z.to_N (s_type s), s_serial s, expect_reply_of s, auto_start_of s, pattrs, recovered_body fdl s) /\
      map (fun x => (Z.of_N (attr_code (fst x)), snd x)) pattrs = recovered_fields fdl s.
Proof.
  intros fdl s fuel W Hd. exists (attrs_of_fields fdl (s_fields s)).
  split; [exact (parse_refines fdl s fuel W Hd)|]. apply attrs_of_fields_recovered.
Qed.

Lemma c03_unconstructible :
  (forall legacy fuel mt er au attrs body next fds h p b f next',
     construct_st legacy fuel mt er au attrs body next fds = (Ok (h, p, b, f), next') ->
     len (h ++ p ++ b) <= 134217728) /\
  (forall fuel mt er au attrs body next fds,
     names_invalid mt attrs ->
     exists e next', construct_st false fuel mt er au attrs body next fds = (Err e, next')).
Proof.
  split.
  - intros legacy fuel mt er au attrs body next fds h p b f next' H.
    pose proof (construct_st_counter legacy fuel mt er au attrs body next fds) as C.
    rewrite H in C. destruct C as (_ & _ & _ & C). rewrite !len_app. unfold max_msg_len in C. lia.
  - exact construct_invalid_names.
Qed.

Lemma c03_frame_length :
  (forall s rest,
     (0 <= s_type s < 256)%Z -> (0 <= s_flags s < 256)%Z -> (0 <= s_serial s < 4294967296)%Z ->
     len (msg_enc s) < 4294967296 ->
     hd 0 (msg_enc s) = (if s_le s then 108 else 66) /\
     frame_len (s_le s) (msg_enc s ++ rest) = len (msg_enc s)) /\
  (forall fdl m attrs body next fuel fds rest,
     valid_amsg fdl m -> args_denote attrs body m -> no_fds fds ->
     (0 <= next < 4294967296)%Z -> (msg_depth (smsg_of m true next) <= fuel)%nat ->
     len (msg_enc (smsg_of m true next)) <= max_msg_len ->
     exists h p b,
       fst (construct_st false fuel (a_type m) (negb (a_no_reply m)) (negb (a_no_auto_start m)) attrs body next fds)
         = Ok (h, p, b, fds) /\
       frame_len true ((h ++ p ++ b) ++ rest) = len (h ++ p ++ b)).
Proof.
  split.
  - intros s rest Ht Hf Hs Hlen.
    assert (HR : hdr_ranges s) by (unfold hdr_ranges; lia).
    split; [|exact (frame_len_enc s rest HR Hlen)].
    assert (Hb : len (msg_body s) < two32).
    { unfold msg_enc in Hlen. rewrite !len_app in Hlen. unfold two32. lia. }
    unfold msg_enc. rewrite (msg_header_eq s Ht Hf Hs Hb). reflexivity.
  - intros fdl m attrs body next fuel fds rest V A F Hn Hd Hsz.
    eexists _, _, _. rewrite (construct_refines fdl m attrs body next fuel fds V A F Hn Hd Hsz).
    split; [reflexivity|].
    assert (Hlt : len (msg_enc (smsg_of m true next)) < 4294967296) by (unfold max_msg_len in Hsz; lia).
    destruct (smsg_of_wt fdl m true next V Hn Hlt) as (Ht & Hf & Hs & _).
    exact (frame_len_enc (smsg_of m true next) rest ltac:(unfold hdr_ranges; lia) Hlt).
Qed.

Lemma c03_tables_from_source :
  Generated.header_format = Some Message.header_format /\
  Generated.max_msg_len = Some Message.max_msg_len /\
  Generated.protocol_version = Some 1 /\ Generated.default_endian = Some 108 /\
  (mtype_MethodCallMessage, mtype_MethodReturnMessage, mtype_ErrorMessage, mtype_SignalMessage)
    = (Some 1, Some 2, Some 3, Some 4) /\
  gen_rows hattrs_MethodCallMessage = Some (hattr_rows 1) /\
  gen_rows hattrs_MethodReturnMessage = Some (hattr_rows 2) /\
  gen_rows hattrs_ErrorMessage = Some (hattr_rows 3) /\
  gen_rows hattrs_SignalMessage = Some (hattr_rows 4) /\
  Generated.hcode = Some (map (fun a => (attr_code a, attr_name a))
                              [APath; AInterface; AMember; AErrorName; AReplySerial; ADestination; ASender;
                               ASignature; AUnixFds]) /\
  option_map (map fst) Generated.mtype_map = Some [1; 2; 3; 4].
Proof.
  repeat split; vm_compute; reflexivity.
Qed.

Lemma c03_parse_own_legacy_refuted :
  exists h p b f next' pattrs pbody,
    valid_amsg [] ex_call /\ args_denote ex_attrs ex_body ex_call /\
    construct_st false 8 1 false false ex_attrs ex_body 7 None = (Ok (h, p, b, f), next') /\
    parse_message_legacy 8 (h ++ p ++ b) (Some []) = Ok (1, 7%Z, true, true, pattrs, pbody) /\
    negb (a_no_reply ex_call) = false.
Proof.
  eexists _, _, _, _, _, _, _. split; [|split; [|split; [|split]]].
  - unfold valid_amsg. cbn. repeat split; try discriminate; try lia.
  - split; [intros a; destruct a; cbn; auto|]. cbn. eexists. split; [reflexivity|].
    cbn. repeat split; try lia. eexists. split; [reflexivity|]. cbn. repeat split; lia.
  - vm_compute. reflexivity.
  - vm_compute. reflexivity.
  - reflexivity.
Qed.

Lemma c03_unconstructible_legacy_refuted :
  exists attrs h p b f next',
    names_invalid 1 attrs /\
    construct_st_legacy 8 1 true true attrs PNone 1 None = (Ok (h, p, b, f), next').
Proof.
  exists [(APath, PStr [47; 97]); (AMember, PStr [77]); (AInterface, PStr [])].
  eexists _, _, _, _, _. split.
  - exists []. right. left. split; [auto|]. split; reflexivity.
  - vm_compute. reflexivity.
Qed.

Lemma c03_nonvacuous_own :
  let s := smsg_of ex_call true 7 in
  valid_amsg [] ex_call /\ args_denote ex_attrs ex_body ex_call /\ no_fds None /\
  (msg_depth s <= 8)%nat /\ len (msg_enc s) <= max_msg_len /\
  construct_st false 8 1 false false ex_attrs ex_body 7 None
    = (Ok (msg_header s, padding 8 (length (msg_header s)), msg_body s, None), 8%Z) /\
  exists pattrs,
    parse_message false 8 (msg_enc s) (Some []) = Ok (1, 7%Z, false, false, pattrs, own_body [] ex_call) /\
    map (fun x => (Z.of_N (attr_code (fst x)), snd x)) pattrs = own_fields ex_call /\
    own_body [] ex_call = Some [PStr [104; 105]; PList [PInt 1; PInt (-2)]].
Proof.
  cbv zeta. split; [|split; [|split; [|split; [|split; [|split]]]]].
  - unfold valid_amsg. cbn. repeat split; try discriminate; try lia.
  - split; [intros a; destruct a; cbn; auto|]. cbn. eexists. split; [reflexivity|].
    cbn. repeat split; try lia. eexists. split; [reflexivity|]. cbn. repeat split; lia.
  - left. reflexivity.
  - vm_compute. lia.
  - vm_compute. discriminate.
  - vm_compute. reflexivity.
  - eexists. split; [vm_compute; reflexivity|]. split; reflexivity.
Qed.

Lemma c03_nonvacuous_foreign :
  msg_wt [] ex_foreign /\ (msg_depth ex_foreign <= 6)%nat /\
  exists pattrs,
    parse_message false 6 (msg_enc ex_foreign) (Some [])
      = Ok (3, 4294967295%Z, false, true, pattrs, Some [PList [PInt 200; PStr [120]]]) /\
    map (fun x => (Z.of_N (attr_code (fst x)), snd x)) pattrs
      = [(8%Z, PStr [40; 121; 118; 41]); (5%Z, PInt 9); (4%Z, PStr [97; 46; 69])] /\
    frame_len false (msg_enc ex_foreign ++ [1; 2; 3]) = len (msg_enc ex_foreign).
Proof.
  split; [|split].
  - unfold msg_wt. cbn [s_type s_flags s_serial s_fields s_body_ts s_body ex_foreign].
    split; [lia|]. split; [lia|]. split; [lia|]. split.
    { repeat constructor; cbn; try lia; try reflexivity; try discriminate. }
    split; [cbn; repeat split; try discriminate; try lia|]. split; [reflexivity|].
    vm_compute. reflexivity.
  - vm_compute. lia.
  - eexists. split; [vm_compute; reflexivity|]. split; vm_compute; reflexivity.
Qed.

Lemma c03_nonvacuous_serials :
  ok_serials (fst (run_constructs false 1 [ex_req [77]; ex_req [49]; ex_req [78]])) = [1; 2]%Z /\
  snd (run_constructs false 1 [ex_req [77]; ex_req [49]; ex_req [78]]) = 3%Z /\
  names_invalid 1 (q_attrs (ex_req [49])).
Proof.
  split; [vm_compute; reflexivity|]. split; [vm_compute; reflexivity|].
  exists [49]. right. right. left. split; [auto|]. split; reflexivity.
Qed.

Lemma c03_serials_exhausted :
  forall legacy fuel mt er au attrs body next fds,
    (4294967296 <= next)%Z ->
    exists e next', construct_st legacy fuel mt er au attrs body next fds = (Err e, next').
Proof.
  intros legacy fuel mt er au attrs body next fds Hn.
  pose proof (construct_st_counter legacy fuel mt er au attrs body next fds) as C.
  destruct (construct_st legacy fuel mt er au attrs body next fds) as [[[[[h p] b] f]|e] next'].
  - destruct C as (_ & _ & C & _). lia.
  - eauto.
Qed.

(* the shape the framing layer (C04) consumes: at least 16 bytes, the computed
   frame length is the length, and byte 0 is 'l' exactly for little-endian *)
Lemma c03_frame_shape :
  forall s,
    (0 <= s_type s < 256)%Z -> (0 <= s_flags s < 256)%Z -> (0 <= s_serial s < 4294967296)%Z ->
    len (msg_enc s) < 4294967296 ->
    16 <= len (msg_enc s) /\
    frame_len (s_le s) (msg_enc s) = len (msg_enc s) /\
    (s_le s = true <-> hd 0 (msg_enc s) = 108).
Proof.
  intros s Ht Hf Hs Hlen.
  assert (HR : hdr_ranges s) by (unfold hdr_ranges; lia).
  assert (Hb : len (msg_body s) < two32).
  { unfold msg_enc in Hlen. rewrite !len_app in Hlen. unfold two32. lia. }
  split; [|split].
  - unfold msg_enc. rewrite !len_app. pose proof (msg_header_length s HR Hb) as HL. unfold len. lia.
  - pose proof (frame_len_enc s [] HR Hlen) as F. rewrite app_nil_r in F. exact F.
  - unfold msg_enc. rewrite (msg_header_eq s Ht Hf Hs Hb). cbn [app hd].
    destruct (s_le s); split; intros H; try reflexivity; discriminate.
Qed.
