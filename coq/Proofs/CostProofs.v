(* C05: erasure of the work counters, termination with linear fuel, work and
   output bounds for Model/MarshalCost.v.  No hypothesis on signature or data. *)
From Tx Require Import Lib.Base Model.PyVal Model.Marshal Model.Message Model.FdFraming Model.MarshalCost Spec.WorkBounds Proofs.SigProofs.
Local Open Scope N_scope.

(* ===========================================================================
   1. erasing the counters gives Marshal.u_one / m_unmarshal                   *)

Section Erase.
  Variables (data : bytes) (le : bool) (fds : fdst).

  Lemma erase_seq onec one :
    (forall ct off, fst (onec ct off) = one ct data off le fds) ->
    forall n sig off, fst (uc_seq onec n sig off) = useq_loop one n sig data off le fds.
  Proof.
    intros H n. induction n as [|n IH]; intros sig off; cbn [uc_seq useq_loop]; [reflexivity|].
    destruct (gct_next sig) as [[[ct rest]|]|e]; try reflexivity.
    destruct ct as [|tcode ct']; [reflexivity|].
    destruct (pad_for tcode off) as [p|e]; cbn [bind]; [|reflexivity].
    specialize (H (tcode :: ct') (off + p)).
    destruct (onec (tcode :: ct') (off + p)) as [r c1]. cbn [fst] in H. rewrite <- H.
    destruct r as [[nb v]|e]; cbn [bind fst]; [|reflexivity].
    specialize (IH rest (off + p + nb)).
    destruct (uc_seq onec n rest (off + p + nb)) as [r2 c2]. cbn [fst] in IH. rewrite <- IH.
    destruct r2 as [[off2 vs]|e]; reflexivity.
  Qed.

  Lemma erase_arr onec one :
    (forall ct off, fst (onec ct off) = one ct data off le fds) ->
    forall n tsig tcode off end_off,
      fst (uc_arr false onec n tsig tcode off end_off) = uarr_loop one n tsig tcode data off end_off le fds.
  Proof.
    intros H n. induction n as [|n IH]; intros tsig tcode off end_off; cbn [uc_arr uarr_loop];
      destruct (off <? end_off); try reflexivity.
    destruct (pad_for tcode off) as [p|e]; cbn [bind]; [|reflexivity].
    specialize (H tsig (off + p)).
    destruct (onec tsig (off + p)) as [r c1]. cbn [fst] in H. rewrite <- H.
    destruct r as [[nb v]|e]; cbn [bind fst negb andb]; [|reflexivity].
    destruct (nb =? 0); [reflexivity|].
    specialize (IH tsig tcode (off + p + nb) end_off).
    destruct (uc_arr false onec n tsig tcode (off + p + nb) end_off) as [r2 c2]. cbn [fst] in IH. rewrite <- IH.
    destruct r2 as [[off2 vs]|e]; reflexivity.
  Qed.

  Lemma erase_unmarshal_with onec one :
    (forall ct off, fst (onec ct off) = one ct data off le fds) ->
    forall sig off,
      unmarshal_with one sig data off le fds =
      match fst (uc_seq onec (S (length sig)) sig off) with
      | Ok (off2, vs) => Ok (off2 - off, vs)
      | Err e => Err e
      end.
  Proof.
    intros H sig off. unfold unmarshal_with. rewrite (erase_seq onec one H).
    destruct (useq_loop one (S (length sig)) sig data off le fds) as [[off2 vs]|e]; reflexivity.
  Qed.

  Lemma u_one_array_l f c r off :
    u_one (S f) (97 :: c :: r) data off le fds =
    do lb <- take_at 4 data off;
    do ip <- pad_for c (off + 4);
    do r0 <- uarr_loop (u_one f) (S (length data)) (c :: r) c data (off + 4 + ip)
               (off + 4 + ip + dec_uint le lb) le fds;
    let '(off2, vs) := r0 in
    if negb (off2 =? off + 4 + ip + dec_uint le lb) then Err EMarshal
    else if c =? 123 then do d <- build_dict vs []; Ok (off2 - off, PDict d)
         else Ok (off2 - off, PList vs).
  Proof. reflexivity. Qed.

  Lemma u_one_struct_l f rest off :
    u_one (S f) (40 :: rest) data off le fds =
    do r <- unmarshal_with (u_one f) (strip_ends (40 :: rest)) data off le fds;
    let '(n, vs) := r in Ok (n, PList vs).
  Proof. reflexivity. Qed.

  Lemma u_one_dict_l f rest off :
    u_one (S f) (123 :: rest) data off le fds =
    do r <- unmarshal_with (u_one f) (strip_ends (123 :: rest)) data off le fds;
    let '(n, vs) := r in Ok (n, PList vs).
  Proof. reflexivity. Qed.

  Lemma u_one_variant_l f tsig off :
    u_one (S f) (118 :: tsig) data off le fds =
    do r <- u_signature data off le;
    let '(nsig, vsig) := r in
    match vsig with
    | [] => Err EIndex
    | vcode :: _ =>
        do p <- pad_for vcode (off + nsig);
        do r2 <- unmarshal_with (u_one f) vsig data (off + nsig + p) le fds;
        let '(nvar, vs) := r2 in
        match vs with
        | [] => Err EIndex
        | v0 :: _ => Ok (nsig + p + nvar, v0)
        end
    end.
  Proof. reflexivity. Qed.

  Theorem erase_one : forall f ct off,
      fst (uc_one false data le fds f ct off) = u_one f ct data off le fds.
  Proof.
    induction f as [|f IH]; intros ct off; [reflexivity|].
    destruct ct as [|tcode tsig]; [reflexivity|].
    cbn [uc_one]. unfold classify.
    repeat match goal with
           | |- context [N.eqb tcode ?k] => destruct (N.eqb_spec tcode k) as [->|]
           end; cbn [orb]; try reflexivity.
    - (* a *)
      destruct tsig as [|c r].
      { cbn. destruct (take_at 4 data off); reflexivity. }
      rewrite u_one_array_l.
      destruct (take_at 4 data off) as [lb|e]; cbn [bind fst]; [|reflexivity].
      destruct (pad_for c (off + 4)) as [ip|e]; cbn [bind fst]; [|reflexivity].
      pose proof (erase_arr (uc_one false data le fds f) (u_one f) IH (S (length data)) (c :: r) c
                            (off + 4 + ip) (off + 4 + ip + dec_uint le lb)) as E.
      destruct (uc_arr false (uc_one false data le fds f) (S (length data)) (c :: r) c
                       (off + 4 + ip) (off + 4 + ip + dec_uint le lb)) as [r0 c0'].
      cbn [fst] in E. rewrite <- E.
      destruct r0 as [[off2 vs]|e]; cbn [bind fst]; [|reflexivity].
      destruct (negb (off2 =? off + 4 + ip + dec_uint le lb)); [reflexivity|].
      destruct (c =? 123); [|reflexivity].
      destruct (build_dict vs []); reflexivity.
    - (* ( *)
      rewrite u_one_struct_l, (erase_unmarshal_with _ _ IH).
      destruct (uc_seq (uc_one false data le fds f) (S (length (strip_ends (40 :: tsig)))) (strip_ends (40 :: tsig)) off) as [r0 c0'].
      destruct r0 as [[off2 vs]|e]; reflexivity.
    - (* { *)
      rewrite u_one_dict_l, (erase_unmarshal_with _ _ IH).
      destruct (uc_seq (uc_one false data le fds f) (S (length (strip_ends (123 :: tsig)))) (strip_ends (123 :: tsig)) off) as [r0 c0'].
      destruct r0 as [[off2 vs]|e]; reflexivity.
    - (* v *)
      rewrite u_one_variant_l.
      destruct (u_signature data off le) as [[nsig vsig]|e]; cbn [bind fst]; [|reflexivity].
      destruct vsig as [|vcode vr]; [reflexivity|].
      destruct (pad_for vcode (off + nsig)) as [p|e]; cbn [bind fst]; [|reflexivity].
      rewrite (erase_unmarshal_with _ _ IH).
      destruct (uc_seq (uc_one false data le fds f) (S (length (vcode :: vr))) (vcode :: vr) (off + nsig + p)) as [r0 c0'].
      destruct r0 as [[off2 vs]|e]; cbn [bind fst]; [|reflexivity].
      destruct vs; reflexivity.
    - (* unknown code *)
      cbn [u_one fst].
      repeat match goal with H : tcode <> _ |- _ => rewrite (proj2 (N.eqb_neq _ _) H); clear H end.
      reflexivity.
  Qed.

  Theorem erase_unmarshal fuel sig off :
    fst (mc_unmarshal false data le fds fuel sig off) = m_unmarshal fuel sig data off le fds.
  Proof.
    unfold mc_unmarshal, m_unmarshal. rewrite (erase_unmarshal_with _ _ (erase_one fuel)).
    destruct (uc_seq (uc_one false data le fds fuel) (S (length sig)) sig off) as [r c].
    destruct r as [[off2 vs]|e]; reflexivity.
  Qed.
End Erase.

(* ===========================================================================
   2. elementary facts about reads                                             *)

Lemma len_nat (d : bytes) : len d = N.of_nat (length d).
Proof. reflexivity. Qed.

Lemma take_at_ok n data off b : take_at n data off = Ok b -> off + N.of_nat n <= len data.
Proof.
  unfold take_at. destruct (N.leb_spec (off + N.of_nat n) (len data)); [lia|discriminate].
Qed.

Lemma slice_length data a n :
  (length (slice data a n) <= N.to_nat (len data - a))%nat /\ (length (slice data a n) <= N.to_nat n)%nat.
Proof.
  unfold slice. cbv zeta. rewrite firstn_length, skipn_length. unfold len. lia.
Qed.

Lemma u_signature_ok data off le nsig s :
  u_signature data off le = Ok (nsig, s) ->
  off + 1 <= len data /\ (length s <= N.to_nat (len data - (off + 1)))%nat /\ N.of_nat (length s) + 2 <= nsig.
Proof.
  unfold u_signature. destruct (take_at 1 data off) as [b|e] eqn:E; cbn [bind]; [|discriminate].
  apply take_at_ok in E. cbv zeta.
  destruct (is_ascii _); [|discriminate]. intros H.
  assert (Hn : 1 + dec_uint le b + 1 = nsig) by congruence.
  assert (Hs : slice data (off + 1) (dec_uint le b) = s) by congruence. subst nsig s.
  pose proof (slice_length data (off + 1) (dec_uint le b)) as [H1 H2].
  change (N.of_nat 1) with 1 in E. lia.
Qed.

Lemma u_string_ok data off le nb v :
  u_string data off le = Ok (nb, v) ->
  off + 4 <= len data /\ exists s, v = PStr s /\ (length s <= N.to_nat (len data - (off + 4)))%nat /\ N.of_nat (length s) + 5 <= nb.
Proof.
  unfold u_string. destruct (take_at 4 data off) as [b|e] eqn:E; cbn [bind]; [|discriminate].
  apply take_at_ok in E. cbv zeta.
  destruct (utf8_valid _); [|discriminate]. intros H.
  assert (Hn : 4 + dec_uint le b + 1 = nb) by congruence.
  assert (Hs : PStr (slice data (off + 4) (dec_uint le b)) = v) by congruence. subst nb v.
  pose proof (slice_length data (off + 4) (dec_uint le b)) as [H1 H2].
  change (N.of_nat 4) with 4 in E.
  split; [lia|]. eexists; split; [reflexivity|]. lia.
Qed.

Lemma classify_fix_pos c n : classify c = KFix n -> (1 <= n)%nat.
Proof.
  unfold classify.
  repeat match goal with |- context [N.eqb c ?k] => destruct (N.eqb c k) end; cbn [orb];
    intros H; try discriminate; injection H as <-; lia.
Qed.

Lemma classify_struct c : classify c = KStruct -> c = 40 \/ c = 123.
Proof.
  unfold classify.
  repeat match goal with |- context [N.eqb c ?k] => destruct (N.eqb_spec c k) end; cbn [orb];
    intros H; try discriminate; auto.
Qed.

Lemma pad_struct_aligned c off p :
  classify c = KStruct -> pad_for c off = Ok p -> (off + p) mod 8 = 0.
Proof.
  intros Hc. apply classify_struct in Hc. unfold pad_for.
  assert (align_of c = Some 8) as -> by (destruct Hc; subst; reflexivity).
  intros H; injection H as <-. unfold pad_len.
  destruct (N.eqb_spec (off mod 8) 0) as [E|E].
  - rewrite N.add_0_r. exact E.
  - pose proof (N.mod_upper_bound off 8 ltac:(lia)).
    rewrite (N.div_mod off 8) at 1 by lia.
    replace (8 * (off / 8) + off mod 8 + (8 - off mod 8)) with ((off / 8 + 1) * 8) by lia.
    apply N.mod_mul. lia.
Qed.

Lemma pad_aligned_zero c off p :
  classify c = KStruct -> off mod 8 = 0 -> pad_for c off = Ok p -> p = 0.
Proof.
  intros Hc Ha. apply classify_struct in Hc. unfold pad_for.
  assert (align_of c = Some 8) as -> by (destruct Hc; subst; reflexivity).
  intros H; injection H as <-. unfold pad_len. rewrite Ha. reflexivity.
Qed.

(* ===========================================================================
   3. units are paid for by bytes of data; nothing is consumed past the end    *)

Section Analysis.
  Variables (data : bytes) (le : bool) (fds : fdst).

  (* bytes of data left at an offset *)
  Definition pot (off : N) : nat := N.to_nat (len data - off).
  Definition aft (off : N) (r : ures) : nat :=
    match r with Ok (nb, _) => pot (off + nb) | Err _ => 0%nat end.
  Definition aftl (r : res (N * list pyval)) : nat :=
    match r with Ok (off2, _) => pot off2 | Err _ => 0%nat end.

  Definition good1 (tcode : N) (off : N) (rc : cres (N * pyval)) : Prop :=
    (units (snd rc) + 2 * aft off (fst rc) <= 2 * pot off)%nat /\
    ((aft off (fst rc) < pot off)%nat -> (units (snd rc) + 2 * aft off (fst rc) + 1 <= 2 * pot off)%nat) /\
    (forall nb v, fst rc = Ok (nb, v) -> len data <= off ->
                  classify tcode = KStruct /\ (off mod 8 = 0 -> nb = 0)).

  Definition goodl (off : N) (rc : cres (N * list pyval)) : Prop :=
    (units (snd rc) + 2 * aftl (fst rc) <= 2 * pot off)%nat /\
    ((aftl (fst rc) < pot off)%nat -> (units (snd rc) + 2 * aftl (fst rc) + 1 <= 2 * pot off)%nat) /\
    (forall off2 vs, fst rc = Ok (off2, vs) -> off <= off2 /\ (len data <= off -> off mod 8 = 0 -> off2 = off)).

  Section LoopFacts.
    Variable one : str -> N -> cres (N * pyval).
    Hypothesis Hone : forall tcode tl off, good1 tcode off (one (tcode :: tl) off).

    Lemma good_seq : forall n sig off, goodl off (uc_seq one n sig off).
    Proof.
      induction n as [|n IH]; intros sig off; cbn [uc_seq].
      { unfold goodl; cbn; (split; [|split]); try lia; discriminate. }
      destruct (gct_next sig) as [[[ct rest]|]|e].
      2:{ unfold goodl; cbn. (split; [|split]); try lia; intros ? ? H; injection H as <- <-; lia. }
      2:{ unfold goodl; cbn; (split; [|split]); try lia; discriminate. }
      destruct ct as [|tcode tl].
      { unfold goodl; cbn; (split; [|split]); try lia; discriminate. }
      destruct (pad_for tcode off) as [p|e] eqn:Ep.
      2:{ unfold goodl; cbn; (split; [|split]); try lia; discriminate. }
      pose proof (Hone tcode tl (off + p)) as H1.
      destruct (one (tcode :: tl) (off + p)) as [r c1].
      destruct r as [[nb v]|e].
      2:{ unfold goodl, good1, pot in *; cbn [fst snd aft aftl] in *. destruct H1 as (A & B & _).
          (split; [|split]); try lia; discriminate. }
      pose proof (IH rest (off + p + nb)) as H2.
      destruct (uc_seq one n rest (off + p + nb)) as [r2 c2].
      unfold goodl, good1 in *; cbn [fst snd aft aftl] in *.
      destruct H1 as (A1 & B1 & C1). destruct H2 as (A2 & B2 & C2).
      destruct r2 as [[off2 vs]|e]; cbn [fst snd aft aftl units cadd] in *; unfold pot in *.
      - (split; [|split]); try lia.
        intros o2 vs' H; injection H as <- <-. destruct (C2 off2 vs eq_refl) as [D1 D2]. split; [lia|].
        intros HL Ha.
          assert (HL' : len data <= off + p) by lia.
          destruct (C1 nb v eq_refl HL') as [K1 K2].
          pose proof (pad_aligned_zero tcode off p K1 Ha Ep) as ->.
          rewrite N.add_0_r in *. rewrite (K2 Ha) in *. rewrite N.add_0_r in *. apply D2; assumption.
      - (split; [|split]); try lia; discriminate.
    Qed.

    Lemma good_arr : forall n tcode tl off end_off rc,
        uc_arr false one n (tcode :: tl) tcode off end_off = rc ->
        (units (snd rc) + 2 * aftl (fst rc) <= 2 * pot off + 1)%nat.
    Proof.
      induction n as [|n IH]; intros tcode tl off end_off rc <-; cbn [uc_arr];
        destruct (off <? end_off); cbn [fst snd aftl units c0]; try lia.
      destruct (pad_for tcode off) as [p|e] eqn:Ep; cbn [fst snd aftl units c0]; [|lia].
      pose proof (Hone tcode tl (off + p)) as H1.
      destruct (one (tcode :: tl) (off + p)) as [r c1].
      destruct H1 as (A1 & B1 & C1). cbn [fst snd] in *.
      destruct r as [[nb v]|e]; cbn [aft] in *.
      2:{ cbn [fst snd aftl units cadd]. unfold pot in *. lia. }
      cbn [negb andb]. destruct (N.eqb_spec nb 0) as [->|Hnb].
      { cbn [fst snd aftl units cadd]. unfold pot in *. lia. }
      specialize (IH tcode tl (off + p + nb) end_off _ eq_refl).
      destruct (uc_arr false one n (tcode :: tl) tcode (off + p + nb) end_off) as [r2 c2].
      assert (Hlt : off + p < len data).
      { destruct (N.ltb_spec (off + p) (len data)) as [|Hge]; [assumption|exfalso].
        destruct (C1 nb v eq_refl Hge) as [K1 K2].
        apply Hnb, K2. eapply pad_struct_aligned; eassumption. }
      assert (Hs : (pot (off + p + nb) < pot (off + p))%nat) by (unfold pot; lia).
      specialize (B1 Hs).
      destruct r2 as [[off2 vs]|e]; cbn [fst snd aftl units cadd] in *; unfold pot in *; lia.
    Qed.
  End LoopFacts.

  Lemma good1_err tcode off e c :
    (units c <= 2 * pot off)%nat -> ((0 < pot off)%nat -> (units c + 1 <= 2 * pot off)%nat) ->
    good1 tcode off (Err e, c).
  Proof. intros A B. unfold good1; cbn [fst snd aft]. (split; [|split]); try lia. discriminate. Qed.

  Lemma good_one : forall f tcode tl off, good1 tcode off (uc_one false data le fds f (tcode :: tl) off).
  Proof.
    induction f as [|f IH]; intros tcode tl off.
    { apply good1_err; cbn; lia. }
    cbn [uc_one]. destruct (classify tcode) as [n| | | | | | |] eqn:Hk.
    - (* fixed width *)
      pose proof (classify_fix_pos _ _ Hk) as Hn.
      unfold u_fix. destruct (take_at n data off) as [b|e] eqn:E; cbn [bind].
      2:{ apply good1_err; cbn; lia. }
      apply take_at_ok in E. unfold good1; cbn [fst snd aft units tick]; unfold pot.
      (split; [|split]); try lia; try (intros nb' v' H; injection H as <- <-; intros HL; exfalso; lia).
    - (* string *)
      destruct (u_string data off le) as [[nb v]|e] eqn:E.
      2:{ apply good1_err; cbn; lia. }
      apply u_string_ok in E. destruct E as (E1 & s & -> & E2 & E3).
      unfold good1; cbn [fst snd aft units leaf_cost str_bytes]; unfold pot.
      (split; [|split]); try lia; try (intros nb' v' H; injection H as <- <-; intros HL; exfalso; lia).
    - (* signature *)
      unfold u_sig_leaf. destruct (u_signature data off le) as [[nb s]|e] eqn:E; cbn [bind].
      2:{ apply good1_err; cbn; lia. }
      apply u_signature_ok in E. destruct E as (E1 & E2 & E3).
      unfold good1; cbn [fst snd aft units leaf_cost str_bytes]; unfold pot.
      (split; [|split]); try lia; try (intros nb' v' H; injection H as <- <-; intros HL; exfalso; lia).
    - (* descriptor *)
      unfold u_fd. destruct (take_at 4 data off) as [b|e] eqn:E; cbn [bind].
      2:{ apply good1_err; cbn; lia. }
      apply take_at_ok in E. change (N.of_nat 4) with 4 in E. destruct fds as [l|].
      2:{ apply good1_err; cbn; lia. }
      unfold good1; cbn [fst snd aft units tick]; unfold pot.
      (split; [|split]); try lia; try (intros nb' v' H; injection H as <- <-; intros HL; exfalso; lia).
    - (* array *)
      destruct (take_at 4 data off) as [lb|e] eqn:E.
      2:{ apply good1_err; cbn; lia. }
      apply take_at_ok in E. change (N.of_nat 4) with 4 in E.
      destruct tl as [|ecode etl].
      { apply good1_err; cbn; unfold pot; lia. }
      destruct (pad_for ecode (off + 4)) as [ip|e] eqn:Ep.
      2:{ apply good1_err; cbn; unfold pot; lia. }
      pose proof (good_arr _ IH (S (length data)) ecode etl (off + 4 + ip) (off + 4 + ip + dec_uint le lb) _ eq_refl) as HA.
      destruct (uc_arr false (uc_one false data le fds f) (S (length data)) (ecode :: etl) ecode
                       (off + 4 + ip) (off + 4 + ip + dec_uint le lb)) as [r c].
      cbn [fst snd] in HA.
      destruct r as [[off2 vs]|e]; cbn [aftl] in HA.
      2:{ apply good1_err; cbn [units cadd tick]; unfold pot in *; lia. }
      destruct (N.eqb_spec off2 (off + 4 + ip + dec_uint le lb)) as [Heq|Hne]; cbn [negb].
      2:{ apply good1_err; cbn [units cadd tick]; unfold pot in *; lia. }
      assert (Hgood : forall v, good1 tcode off (Ok (off2 - off, v), cadd tick c)).
      { intros v. unfold good1; cbn [fst snd aft units cadd tick]; unfold pot in *.
        replace (off + (off2 - off)) with off2 by lia.
        (split; [|split]); try lia; try (intros nb' v' H; injection H as <- <-; intros HL; exfalso; lia). }
      destruct (ecode =? 123); [|apply Hgood].
      destruct (build_dict vs []); [apply Hgood|].
      apply good1_err; cbn [units cadd tick]; unfold pot in *; lia.
    - (* struct / dict entry *)
      pose proof (good_seq _ IH (S (length (strip_ends (tcode :: tl)))) (strip_ends (tcode :: tl)) off) as HS.
      destruct (uc_seq (uc_one false data le fds f) (S (length (strip_ends (tcode :: tl)))) (strip_ends (tcode :: tl)) off) as [r c].
      destruct HS as (A & B & C). cbn [fst snd] in *.
      destruct r as [[off2 vs]|e]; cbn [aftl] in *.
      2:{ apply good1_err; cbn [units cadd]; lia. }
      destruct (C off2 vs eq_refl) as [C1 C2].
      unfold good1; cbn [fst snd aft units cadd].
      replace (off + (off2 - off)) with off2 by lia.
      (split; [|split]); try lia. intros nb' v' H; injection H as <- <-. intros HL. split; [exact Hk|].
      intros Ha. rewrite (C2 HL Ha). lia.
    - (* variant *)
      destruct (u_signature data off le) as [[nsig vsig]|e] eqn:E.
      2:{ apply good1_err; cbn; lia. }
      apply u_signature_ok in E. destruct E as (E1 & E2 & E3).
      destruct vsig as [|vcode vr].
      { apply good1_err; cbn; unfold pot; lia. }
      destruct (pad_for vcode (off + nsig)) as [p|e] eqn:Ep.
      2:{ apply good1_err; cbn; unfold pot; lia. }
      pose proof (good_seq _ IH (S (length (vcode :: vr))) (vcode :: vr) (off + nsig + p)) as HS.
      destruct (uc_seq (uc_one false data le fds f) (S (length (vcode :: vr))) (vcode :: vr) (off + nsig + p)) as [r c].
      destruct HS as (A & B & C). cbn [fst snd] in *. cbn [length] in *.
      destruct r as [[off2 vs]|e]; cbn [aftl] in *.
      2:{ apply good1_err; cbn [units cadd]; unfold pot in *; lia. }
      destruct (C off2 vs eq_refl) as [C1 C2].
      destruct vs as [|v0 vs'].
      { apply good1_err; cbn [units cadd]; unfold pot in *; lia. }
      unfold good1; cbn [fst snd aft units cadd].
      replace (off + (nsig + p + (off2 - (off + nsig + p)))) with off2 by lia.
      unfold pot in *.
      (split; [|split]); try lia; try (intros nb' v' H; injection H as <- <-; intros HL; exfalso; lia).
    - (* unknown *)
      apply good1_err; cbn; lia.
  Qed.

  (* ------------------------------------------------------------------------
     4. fuel |ct| + (bytes left) + 1 is enough                                 *)

  Lemma strip_ends_length ct : (length (strip_ends ct) <= length ct - 1)%nat.
  Proof.
    unfold strip_ends. destruct ct as [|c r]; [cbn; lia|]. cbn [tl length].
    destruct r as [|x r'] using rev_ind; [cbn; lia|].
    rewrite removelast_last, app_length. cbn. lia.
  Qed.

  Section LoopFuel.
    Variable one : str -> N -> cres (N * pyval).
    Variable f : nat.
    Hypothesis Hone : forall tcode tl off, good1 tcode off (one (tcode :: tl) off).
    Hypothesis Hfuel : forall ct off, (length ct + pot off + 1 <= f)%nat -> fst (one ct off) <> Err EFuel.

    Lemma fuel_seq : forall n sig off,
        (length sig < n)%nat -> (length sig + pot off + 1 <= f)%nat ->
        fst (uc_seq one n sig off) <> Err EFuel.
    Proof.
      induction n as [|n IH]; intros sig off Hn Hf; [lia|]. cbn [uc_seq].
      destruct (gct_next sig) as [[[ct rest]|]|e] eqn:Eg; cbn [fst]; try discriminate.
      2:{ intros H; injection H as ->. eapply gct_next_no_fuel; [exact Eg|reflexivity]. }
      destruct (gct_next_concat _ _ _ Eg) as [Hcat Hne].
      assert (Hlen : (length sig = length ct + length rest)%nat) by (rewrite Hcat, app_length; reflexivity).
      destruct ct as [|tcode tl]; [congruence|]. cbn [length] in Hlen.
      destruct (pad_for tcode off) as [p|e] eqn:Ep; cbn [fst].
      2:{ unfold pad_for in Ep. destruct (align_of tcode); congruence. }
      pose proof (Hone tcode tl (off + p)) as G.
      assert (F1 : fst (one (tcode :: tl) (off + p)) <> Err EFuel).
      { apply Hfuel. cbn [length]. unfold pot in *. lia. }
      destruct (one (tcode :: tl) (off + p)) as [r c1]. cbn [fst snd] in *.
      destruct r as [[nb v]|e]; [|cbn [fst]; intros H; injection H as ->; apply F1; reflexivity].
      assert (F2 : fst (uc_seq one n rest (off + p + nb)) <> Err EFuel).
      { apply IH; unfold pot in *; lia. }
      destruct (uc_seq one n rest (off + p + nb)) as [r2 c2]. cbn [fst] in *.
      destruct r2 as [[off2 vs]|e]; cbn [fst]; [discriminate|exact F2].
    Qed.

    Lemma fuel_arr : forall n tcode tl off end_off,
        (pot off + 1 <= n)%nat -> (length (tcode :: tl) + pot off + 1 <= f)%nat ->
        fst (uc_arr false one n (tcode :: tl) tcode off end_off) <> Err EFuel.
    Proof.
      induction n as [|n IH]; intros tcode tl off end_off Hn Hf; [lia|]. cbn [uc_arr].
      destruct (off <? end_off); cbn [fst]; [|discriminate].
      destruct (pad_for tcode off) as [p|e] eqn:Ep; cbn [fst].
      2:{ unfold pad_for in Ep. destruct (align_of tcode); congruence. }
      pose proof (Hone tcode tl (off + p)) as G.
      assert (F1 : fst (one (tcode :: tl) (off + p)) <> Err EFuel).
      { apply Hfuel. unfold pot in *. lia. }
      destruct (one (tcode :: tl) (off + p)) as [r c1]. cbn [fst snd] in *.
      destruct r as [[nb v]|e]; [|cbn [fst]; intros H; injection H as ->; apply F1; reflexivity].
      cbn [negb andb]. destruct (N.eqb_spec nb 0) as [->|Hnb]; cbn [fst]; [discriminate|].
      destruct G as (_ & _ & C1). cbn [fst] in C1.
      assert (Hlt : off + p < len data).
      { destruct (N.ltb_spec (off + p) (len data)) as [|Hge]; [assumption|exfalso].
        destruct (C1 nb v eq_refl Hge) as [K1 K2].
        apply Hnb, K2. eapply pad_struct_aligned; eassumption. }
      assert (F2 : fst (uc_arr false one n (tcode :: tl) tcode (off + p + nb) end_off) <> Err EFuel).
      { apply IH; unfold pot in *; cbn [length] in *; lia. }
      destruct (uc_arr false one n (tcode :: tl) tcode (off + p + nb) end_off) as [r2 c2]. cbn [fst] in *.
      destruct r2 as [[off2 vs]|e]; cbn [fst]; [discriminate|exact F2].
    Qed.
  End LoopFuel.

  Lemma take_at_no_fuel n off e : take_at n data off = Err e -> e <> EFuel.
  Proof. unfold take_at. destruct (_ <=? _); congruence. Qed.

  Lemma u_signature_no_fuel off e : u_signature data off le = Err e -> e <> EFuel.
  Proof.
    unfold u_signature. destruct (take_at 1 data off) eqn:E; cbn [bind].
    - cbv zeta. destruct (is_ascii _); congruence.
    - intros H; injection H as <-. eapply take_at_no_fuel; eassumption.
  Qed.

  Lemma pad_for_no_fuel c off e : pad_for c off = Err e -> e <> EFuel.
  Proof. unfold pad_for. destruct (align_of c); congruence. Qed.

  Lemma build_dict_no_fuel : forall items acc e, build_dict items acc = Err e -> e <> EFuel.
  Proof.
    assert (Hset : forall k v l e, dict_set k v l = Err e -> e <> EFuel).
    { intros k v l; induction l as [|[k' v'] l IH]; intros e; cbn [dict_set].
      - destruct (py_eqb_key k k); congruence.
      - destruct (py_eqb_key k k') as [[|]|]; try congruence.
        destruct (dict_set k v l) eqn:E; cbn [bind]; [congruence|].
        intros H; injection H as <-. eapply IH; reflexivity. }
    induction items as [|it items IH]; intros acc e; cbn [build_dict]; [congruence|].
    destruct it; try congruence. destruct l as [|k [|v r]]; try congruence.
    destruct (dict_set k v acc) eqn:E; cbn [bind]; [apply IH|].
    intros H; injection H as <-. eapply Hset; eassumption.
  Qed.

  Theorem fuel_one : forall f ct off,
      (length ct + pot off + 1 <= f)%nat -> fst (uc_one false data le fds f ct off) <> Err EFuel.
  Proof.
    induction f as [|f IH]; intros ct off Hf; [lia|].
    destruct ct as [|tcode tl]; [cbn; discriminate|].
    cbn [uc_one length] in *. destruct (classify tcode) as [n| | | | | | |] eqn:Hk; cbn [fst].
    - unfold u_fix. destruct (take_at n data off) eqn:E; cbn [bind]; [discriminate|].
      intros H; injection H as ->. eapply take_at_no_fuel; [exact E|reflexivity].
    - unfold u_string. destruct (take_at 4 data off) eqn:E; cbn [bind].
      + cbv zeta. destruct (utf8_valid _); discriminate.
      + intros H; injection H as ->. eapply take_at_no_fuel; [exact E|reflexivity].
    - unfold u_sig_leaf. destruct (u_signature data off le) as [[? ?]|] eqn:E; cbn [bind]; [discriminate|].
      intros H; injection H as ->. eapply u_signature_no_fuel; [exact E|reflexivity].
    - unfold u_fd. destruct (take_at 4 data off) eqn:E; cbn [bind].
      + destruct fds; discriminate.
      + intros H; injection H as ->. eapply take_at_no_fuel; [exact E|reflexivity].
    - (* array *)
      destruct (take_at 4 data off) as [lb|e] eqn:E; cbn [fst].
      2:{ intros H; injection H as ->. eapply take_at_no_fuel; [exact E|reflexivity]. }
      apply take_at_ok in E. change (N.of_nat 4) with 4 in E.
      destruct tl as [|ecode etl]; cbn [fst]; [discriminate|].
      destruct (pad_for ecode (off + 4)) as [ip|e] eqn:Ep; cbn [fst].
      2:{ intros H; injection H as ->. eapply pad_for_no_fuel; [exact Ep|reflexivity]. }
      assert (F : fst (uc_arr false (uc_one false data le fds f) (S (length data)) (ecode :: etl) ecode
                              (off + 4 + ip) (off + 4 + ip + dec_uint le lb)) <> Err EFuel).
      { apply fuel_arr with (f := f); [apply good_one|exact IH| |].
        - unfold pot, len. lia.
        - unfold pot in *. cbn [length] in *. lia. }
      destruct (uc_arr false (uc_one false data le fds f) (S (length data)) (ecode :: etl) ecode
                       (off + 4 + ip) (off + 4 + ip + dec_uint le lb)) as [r c]. cbn [fst] in *.
      destruct r as [[off2 vs]|e]; cbn [fst]; [|intros H; injection H as ->; apply F; reflexivity].
      destruct (negb _); cbn [fst]; [discriminate|].
      destruct (ecode =? 123); cbn [fst]; [|discriminate].
      destruct (build_dict vs []) eqn:Eb; cbn [fst]; [discriminate|].
      intros H; injection H as ->. eapply build_dict_no_fuel; [exact Eb|reflexivity].
    - (* struct *)
      pose proof (strip_ends_length (tcode :: tl)) as Hl. cbn [length] in Hl.
      assert (F : fst (uc_seq (uc_one false data le fds f) (S (length (strip_ends (tcode :: tl)))) (strip_ends (tcode :: tl)) off) <> Err EFuel).
      { apply fuel_seq with (f := f); [apply good_one|exact IH|lia|lia]. }
      destruct (uc_seq (uc_one false data le fds f) (S (length (strip_ends (tcode :: tl)))) (strip_ends (tcode :: tl)) off) as [r c].
      cbn [fst] in *. destruct r as [[off2 vs]|e]; cbn [fst]; [discriminate|intros H; injection H as ->; apply F; reflexivity].
    - (* variant *)
      destruct (u_signature data off le) as [[nsig vsig]|e] eqn:E; cbn [fst].
      2:{ intros H; injection H as ->. eapply u_signature_no_fuel; [exact E|reflexivity]. }
      apply u_signature_ok in E. destruct E as (E1 & E2 & E3).
      destruct vsig as [|vcode vr]; cbn [fst]; [discriminate|].
      destruct (pad_for vcode (off + nsig)) as [p|e] eqn:Ep; cbn [fst].
      2:{ intros H; injection H as ->. eapply pad_for_no_fuel; [exact Ep|reflexivity]. }
      assert (F : fst (uc_seq (uc_one false data le fds f) (S (length (vcode :: vr))) (vcode :: vr) (off + nsig + p)) <> Err EFuel).
      { apply fuel_seq with (f := f); [apply good_one|exact IH|lia|]. unfold pot in *. lia. }
      destruct (uc_seq (uc_one false data le fds f) (S (length (vcode :: vr))) (vcode :: vr) (off + nsig + p)) as [r c].
      cbn [fst] in *. destruct r as [[off2 vs]|e]; cbn [fst]; [|intros H; injection H as ->; apply F; reflexivity].
      destruct vs; cbn [fst]; discriminate.
    - discriminate.
  Qed.

  Theorem fuel_unmarshal sig off :
    fst (mc_unmarshal false data le fds (lin_fuel sig data) sig off) <> Err EFuel.
  Proof.
    unfold mc_unmarshal.
    assert (F : fst (uc_seq (uc_one false data le fds (lin_fuel sig data)) (S (length sig)) sig off) <> Err EFuel).
    { apply fuel_seq with (f := (length sig + length data + 1)%nat); [apply good_one| |lia|].
      - intros ct o H. apply fuel_one. unfold lin_fuel. lia.
      - unfold pot, len. lia. }
    destruct (uc_seq (uc_one false data le fds (lin_fuel sig data)) (S (length sig)) sig off) as [r c].
    cbn [fst] in *. destruct r as [[off2 vs]|e]; cbn [fst]; [discriminate|exact F].
  Qed.
End Analysis.

(* ===========================================================================
   5. termination of Marshal.m_unmarshal with linear fuel; the D01 witness      *)

Theorem unmarshal_terminates sig data off le fds :
  m_unmarshal (lin_fuel sig data) sig data off le fds <> Err EFuel.
Proof. rewrite <- erase_unmarshal. apply fuel_unmarshal. Qed.

Definition d01_sig : str := [97; 40; 41].                             (* a() *)
Definition d01_data : bytes := [8; 0; 0; 0; 0; 0; 0; 0; 0; 0; 0; 0; 0; 0; 0; 0].

Lemma d01_legacy_loops : forall fuel,
    fst (mc_unmarshal true d01_data true None fuel d01_sig 0) = Err EFuel.
Proof. intros [|[|f]]; reflexivity. Qed.

Lemma d01_repaired_rejects :
  m_unmarshal (lin_fuel d01_sig d01_data) d01_sig d01_data 0 true None = Err EMarshal.
Proof. reflexivity. Qed.

(* ===========================================================================
   6. the decoded value is no larger than the number of calls                  *)

Definition dsize (d : list (pyval * pyval)) : nat :=
  fold_right (fun kv n => (vsize (fst kv) + vsize (snd kv) + n)%nat) 0%nat d.

Lemma dict_set_size k v : forall l l', dict_set k v l = Ok l' -> (dsize l' <= dsize l + vsize k + vsize v)%nat.
Proof.
  induction l as [|[k' v'] l IH]; intros l'; cbn [dict_set].
  - destruct (py_eqb_key k k); [|discriminate]. intros H; injection H as <-. cbn. lia.
  - destruct (py_eqb_key k k') as [[|]|]; try discriminate.
    + intros H; injection H as <-. cbn. lia.
    + destruct (dict_set k v l) as [r|] eqn:E; cbn [bind]; [|discriminate].
      intros H; injection H as <-. specialize (IH r eq_refl). unfold dsize in *. cbn [fold_right fst snd] in *. lia.
Qed.

Lemma build_dict_size : forall items acc d,
    build_dict items acc = Ok d -> (dsize d <= dsize acc + vsize_list items)%nat.
Proof.
  induction items as [|it items IH]; intros acc d; cbn [build_dict].
  - intros H; injection H as <-. cbn. lia.
  - destruct it; try discriminate. destruct l as [|k [|v r]]; try discriminate.
    destruct (dict_set k v acc) as [acc'|] eqn:E; cbn [bind]; [|discriminate].
    intros H. apply IH in H. apply dict_set_size in E.
    unfold vsize_list in *. cbn [fold_right vsize] in *. lia.
Qed.

Lemma fix_val_size le c b : vsize (fix_val le c b) = 1%nat.
Proof. unfold fix_val. destruct (c =? 98); [reflexivity|]. destruct (c =? 100); reflexivity. Qed.

Lemma nth_atomic (l : list pyval) : Forall (fun v => vsize v = 1%nat) l -> forall i, vsize (nth i l PNone) = 1%nat.
Proof.
  induction 1 as [|x l Hx _ IH]; intros [|i]; cbn; auto.
Qed.

Section Size.
  Variables (data : bytes) (le : bool) (fds : fdst).
  Hypothesis Hfd : forall l, fds = Some l -> Forall (fun v => vsize v = 1%nat) l.

  Section LoopSize.
    Variable one : str -> N -> cres (N * pyval).
    Hypothesis Hone : forall ct off nb v c, one ct off = (Ok (nb, v), c) -> (vsize v <= calls c)%nat.

    Lemma size_seq : forall n sig off off2 vs c,
        uc_seq one n sig off = (Ok (off2, vs), c) -> (vsize_list vs <= calls c)%nat.
    Proof.
      induction n as [|n IH]; intros sig off off2 vs c; cbn [uc_seq]; [discriminate|].
      destruct (gct_next sig) as [[[ct rest]|]|e]; try discriminate.
      2:{ intros H; injection H as <- <- <-. cbn. lia. }
      destruct ct as [|tcode tl]; [discriminate|].
      destruct (pad_for tcode off) as [p|e]; [|discriminate].
      destruct (one (tcode :: tl) (off + p)) as [r c1] eqn:E1.
      destruct r as [[nb v]|e]; [|discriminate].
      destruct (uc_seq one n rest (off + p + nb)) as [r2 c2] eqn:E2.
      destruct r2 as [[o2 vs2]|e]; [|discriminate].
      intros H; injection H as <- <- <-.
      apply Hone in E1. apply IH in E2. unfold vsize_list in *. cbn [fold_right calls cadd]. lia.
    Qed.

    Lemma size_arr : forall n tsig tcode off end_off off2 vs c,
        uc_arr false one n tsig tcode off end_off = (Ok (off2, vs), c) -> (vsize_list vs <= calls c)%nat.
    Proof.
      induction n as [|n IH]; intros tsig tcode off end_off off2 vs c; cbn [uc_arr];
        destruct (off <? end_off); try discriminate;
        try (intros H; injection H as <- <- <-; cbn; lia).
      destruct (pad_for tcode off) as [p|e]; [|discriminate].
      destruct (one tsig (off + p)) as [r c1] eqn:E1.
      destruct r as [[nb v]|e]; [|discriminate].
      cbn [negb andb]. destruct (nb =? 0); [discriminate|].
      destruct (uc_arr false one n tsig tcode (off + p + nb) end_off) as [r2 c2] eqn:E2.
      destruct r2 as [[o2 vs2]|e]; [|discriminate].
      intros H; injection H as <- <- <-.
      apply Hone in E1. apply IH in E2. unfold vsize_list in *. cbn [fold_right calls cadd]. lia.
    Qed.
  End LoopSize.

  Theorem size_one : forall f ct off nb v c,
      uc_one false data le fds f ct off = (Ok (nb, v), c) -> (vsize v <= calls c)%nat.
  Proof.
    induction f as [|f IH]; intros ct off nb v c; [discriminate|].
    destruct ct as [|tcode tl]; [discriminate|].
    cbn [uc_one]. destruct (classify tcode) as [n| | | | | | |] eqn:Hk.
    - unfold u_fix. destruct (take_at n data off); cbn [bind]; [|discriminate].
      intros H; injection H as <- <- <-. rewrite fix_val_size. cbn. lia.
    - destruct (u_string data off le) as [[nb' v']|e] eqn:E; [|discriminate].
      apply u_string_ok in E. destruct E as (_ & s & -> & _).
      intros H; injection H as <- <- <-. cbn. lia.
    - unfold u_sig_leaf. destruct (u_signature data off le) as [[nb' s]|e]; cbn [bind]; [|discriminate].
      intros H; injection H as <- <- <-. cbn. lia.
    - unfold u_fd. destruct (take_at 4 data off); cbn [bind]; [|discriminate].
      destruct fds as [l|] eqn:Ef; [|discriminate].
      intros H; injection H as <- <- <-. specialize (Hfd l eq_refl).
      destruct (_ <? _); [rewrite (nth_atomic l Hfd)|]; cbn; lia.
    - destruct (take_at 4 data off) as [lb|e]; [|discriminate].
      destruct tl as [|ecode etl]; [discriminate|].
      destruct (pad_for ecode (off + 4)) as [ip|e]; [|discriminate].
      destruct (uc_arr false (uc_one false data le fds f) (S (length data)) (ecode :: etl) ecode
                       (off + 4 + ip) (off + 4 + ip + dec_uint le lb)) as [r c'] eqn:E.
      destruct r as [[off2 vs]|e]; [|discriminate].
      apply (size_arr _ IH) in E.
      destruct (negb _); [discriminate|].
      destruct (ecode =? 123).
      + destruct (build_dict vs []) as [d|] eqn:Eb; [|discriminate].
        intros H; injection H as <- <- <-. apply build_dict_size in Eb.
        change (vsize (PDict d)) with (S (dsize d)). cbn [calls cadd tick dsize fold_right] in *. lia.
      + intros H; injection H as <- <- <-.
        change (vsize (PList vs)) with (S (vsize_list vs)). cbn [calls cadd tick]. lia.
    - destruct (uc_seq (uc_one false data le fds f) (S (length (strip_ends (tcode :: tl)))) (strip_ends (tcode :: tl)) off) as [r c'] eqn:E.
      destruct r as [[off2 vs]|e]; [|discriminate].
      apply (size_seq _ IH) in E.
      intros H; injection H as <- <- <-.
      change (vsize (PList vs)) with (S (vsize_list vs)). cbn [calls cadd]. lia.
    - destruct (u_signature data off le) as [[nsig vsig]|e]; [|discriminate].
      destruct vsig as [|vcode vr]; [discriminate|].
      destruct (pad_for vcode (off + nsig)) as [p|e]; [|discriminate].
      destruct (uc_seq (uc_one false data le fds f) (S (length (vcode :: vr))) (vcode :: vr) (off + nsig + p)) as [r c'] eqn:E.
      destruct r as [[off2 vs]|e]; [|discriminate].
      apply (size_seq _ IH) in E.
      destruct vs as [|v0 vs']; [discriminate|].
      intros H; injection H as <- <- <-.
      unfold vsize_list in E. cbn [fold_right calls cadd] in *. lia.
    - discriminate.
  Qed.

  Theorem size_unmarshal fuel sig off n vs c :
    mc_unmarshal false data le fds fuel sig off = (Ok (n, vs), c) -> (vsize_list vs <= calls c)%nat.
  Proof.
    unfold mc_unmarshal.
    destruct (uc_seq (uc_one false data le fds fuel) (S (length sig)) sig off) as [r c'] eqn:E.
    destruct r as [[off2 vs']|e]; [|discriminate].
    apply (size_seq _ (size_one fuel)) in E.
    intros H; injection H as <- <- <-. cbn [calls cadd]. lia.
  Qed.
End Size.

(* ===========================================================================
   7. calls and scanned characters, in units                                    *)


Lemma Forall_skipn' {A} (P : A -> Prop) : forall n l, Forall P l -> Forall P (skipn n l).
Proof. induction n; intros l H; [exact H|]. destruct H; cbn; auto. Qed.

Lemma Forall_firstn' {A} (P : A -> Prop) : forall n l, Forall P l -> Forall P (firstn n l).
Proof. induction n; intros l H; [constructor|]. destruct H; cbn; auto. Qed.

Lemma sig_len_255 data off le nsig s :
  wf_bytes data -> u_signature data off le = Ok (nsig, s) -> (length s <= 255)%nat.
Proof.
  intros Hwf. unfold u_signature, take_at.
  destruct (_ <=? _); cbn [bind]; [|discriminate]. cbv zeta.
  destruct (is_ascii _); [|discriminate]. intros H.
  assert (Hs : slice data (off + 1) (dec_uint le (firstn 1 (skipn (N.to_nat off) data))) = s) by congruence.
  subst s.
  pose proof (slice_length data (off + 1) (dec_uint le (firstn 1 (skipn (N.to_nat off) data)))) as [_ H2].
  assert (Hb : Forall (fun x => x < 256) (firstn 1 (skipn (N.to_nat off) data))).
  { apply Forall_firstn', Forall_skipn', Hwf. }
  assert (Hl : (length (firstn 1 (skipn (N.to_nat off) data)) <= 1)%nat) by (rewrite firstn_length; lia).
  assert (Hd : dec_uint le (firstn 1 (skipn (N.to_nat off) data)) <= 255).
  { destruct (firstn 1 (skipn (N.to_nat off) data)) as [|x [|y r]]; cbn [length] in Hl; try lia.
    - destruct le; cbn; lia.
    - inversion Hb; subst. destruct le; cbn; lia. }
  lia.
Qed.

Section Work.
  Variables (data : bytes) (le : bool) (fds : fdst) (S' : nat).
  Hypothesis HS : (255 <= S')%nat.
  Hypothesis Hwf : wf_bytes data.

  Definition okc (n : nat) (c : cost) : Prop :=
    (calls c <= n + S' * units c)%nat /\ (scan c <= S' * calls c)%nat.

  Section LoopWork.
    Variable one : str -> N -> cres (N * pyval).
    Hypothesis Hone : forall ct off, (length ct <= S')%nat -> okc (length ct) (snd (one ct off)).

    Lemma work_seq : forall n sig off, (length sig <= S')%nat -> okc (length sig) (snd (uc_seq one n sig off)).
    Proof.
      induction n as [|n IH]; intros sig off Hl; cbn [uc_seq].
      { unfold okc; cbn; lia. }
      destruct (gct_next sig) as [[[ct rest]|]|e] eqn:Eg; try (unfold okc; cbn; lia).
      destruct (gct_next_concat _ _ _ Eg) as [Hcat _].
      assert (Hlen : (length sig = length ct + length rest)%nat) by (rewrite Hcat, app_length; reflexivity).
      destruct ct as [|tcode tl]; [unfold okc; cbn; lia|].
      destruct (pad_for tcode off) as [p|e]; [|unfold okc; cbn; lia].
      pose proof (Hone (tcode :: tl) (off + p) ltac:(lia)) as H1.
      destruct (one (tcode :: tl) (off + p)) as [r c1]. cbn [snd] in H1.
      destruct r as [[nb v]|e]; [|unfold okc in *; cbn [snd]; lia].
      pose proof (IH rest (off + p + nb) ltac:(lia)) as H2.
      destruct (uc_seq one n rest (off + p + nb)) as [r2 c2]. cbn [snd] in H2.
      unfold okc in *. destruct r2 as [[o2 vs]|e]; cbn [snd calls scan units cadd]; nia.
    Qed.

    Lemma work_arr : forall n tsig tcode off end_off,
        (length tsig + 1 <= S')%nat -> okc 0 (snd (uc_arr false one n tsig tcode off end_off)).
    Proof.
      induction n as [|n IH]; intros tsig tcode off end_off Hl; cbn [uc_arr];
        destruct (off <? end_off); try (unfold okc; cbn; lia).
      destruct (pad_for tcode off) as [p|e]; [|unfold okc; cbn; lia].
      pose proof (Hone tsig (off + p) ltac:(lia)) as H1.
      destruct (one tsig (off + p)) as [r c1]. cbn [snd] in H1.
      destruct r as [[nb v]|e]; [|unfold okc in *; cbn [snd calls scan units cadd]; nia].
      cbn [negb andb]. destruct (nb =? 0); [unfold okc in *; cbn [snd calls scan units cadd]; nia|].
      pose proof (IH tsig tcode (off + p + nb) end_off Hl) as H2.
      destruct (uc_arr false one n tsig tcode (off + p + nb) end_off) as [r2 c2]. cbn [snd] in H2.
      unfold okc in *. destruct r2 as [[o2 vs]|e]; cbn [snd calls scan units cadd]; nia.
    Qed.
  End LoopWork.

  Theorem work_one : forall f ct off,
      (length ct <= S')%nat -> okc (length ct) (snd (uc_one false data le fds f ct off)).
  Proof.
    induction f as [|f IH]; intros ct off Hl.
    { unfold okc; cbn; lia. }
    destruct ct as [|tcode tl]; [unfold okc; cbn; lia|].
    cbn [uc_one length] in *. destruct (classify tcode) as [n| | | | | | |] eqn:Hk; cbn [snd];
      try (unfold okc; cbn; nia).
    - (* array *)
      destruct (take_at 4 data off) as [lb|e]; [|unfold okc; cbn; nia].
      destruct tl as [|ecode etl]; [unfold okc; cbn; nia|].
      destruct (pad_for ecode (off + 4)) as [ip|e]; [|unfold okc; cbn; nia].
      pose proof (work_arr _ IH (S (length data)) (ecode :: etl) ecode (off + 4 + ip) (off + 4 + ip + dec_uint le lb) ltac:(lia)) as HA.
      destruct (uc_arr false (uc_one false data le fds f) (S (length data)) (ecode :: etl) ecode
                       (off + 4 + ip) (off + 4 + ip + dec_uint le lb)) as [r c]. cbn [snd] in HA.
      assert (G : okc (S (length (ecode :: etl))) (cadd tick c)).
      { unfold okc in *; cbn [calls scan units cadd tick]. nia. }
      destruct r as [[off2 vs]|e]; [|exact G].
      destruct (negb _); [exact G|]. destruct (ecode =? 123); [|exact G].
      destruct (build_dict vs []); exact G.
    - (* struct *)
      pose proof (strip_ends_length (tcode :: tl)) as Hs. cbn [length] in Hs.
      pose proof (work_seq _ IH (S (length (strip_ends (tcode :: tl)))) (strip_ends (tcode :: tl)) off ltac:(lia)) as HQ.
      destruct (uc_seq (uc_one false data le fds f) (S (length (strip_ends (tcode :: tl)))) (strip_ends (tcode :: tl)) off) as [r c].
      cbn [snd] in HQ.
      assert (G : okc (S (length tl)) (cadd (mkc 1 (length (tcode :: tl)) 0) c)).
      { unfold okc in *; cbn [calls scan units cadd length]. nia. }
      destruct r as [[off2 vs]|e]; exact G.
    - (* variant *)
      destruct (u_signature data off le) as [[nsig vsig]|e] eqn:E; [|unfold okc; cbn; nia].
      pose proof (sig_len_255 _ _ _ _ _ Hwf E) as H255.
      destruct vsig as [|vcode vr]; [unfold okc; cbn; nia|].
      destruct (pad_for vcode (off + nsig)) as [p|e]; [|unfold okc; cbn; nia].
      pose proof (work_seq _ IH (S (length (vcode :: vr))) (vcode :: vr) (off + nsig + p) ltac:(lia)) as HQ.
      destruct (uc_seq (uc_one false data le fds f) (S (length (vcode :: vr))) (vcode :: vr) (off + nsig + p)) as [r c].
      cbn [snd] in HQ.
      assert (G : okc (S (length tl)) (cadd (mkc 1 (length (vcode :: vr)) 1) c)).
      { unfold okc in *; cbn [calls scan units cadd] in *. nia. }
      destruct r as [[off2 vs]|e]; [|exact G]. destruct vs; exact G.
  Qed.
End Work.

(* ===========================================================================
   8. closed-form bounds for marshal.unmarshal                                   *)


Theorem unmarshal_units data le fds fuel sig off :
  (units (snd (mc_unmarshal false data le fds fuel sig off)) <= units_bound data)%nat.
Proof.
  unfold mc_unmarshal, units_bound.
  pose proof (good_seq data _ (good_one data le fds fuel) (S (length sig)) sig off) as (A & _ & _).
  destruct (uc_seq (uc_one false data le fds fuel) (S (length sig)) sig off) as [r c]. cbn [fst snd] in *.
  assert (pot data off <= length data)%nat by (unfold pot, len; lia).
  destruct r as [[off2 vs]|e]; cbn [snd units cadd]; lia.
Qed.

Theorem unmarshal_work data le fds fuel sig off :
  wf_bytes data ->
  let c := snd (mc_unmarshal false data le fds fuel sig off) in
  (calls c <= calls_bound sig data)%nat /\
  (scan c <= scan_bound sig (calls c))%nat.
Proof.
  intros Hwf. pose proof (unmarshal_units data le fds fuel sig off) as HU. unfold units_bound in HU. revert HU.
  unfold mc_unmarshal, calls_bound, scan_bound.
  assert (H255 : (255 <= sig_scale sig)%nat) by (unfold sig_scale; lia).
  assert (Hl : (length sig <= sig_scale sig)%nat) by (unfold sig_scale; lia).
  pose proof (work_seq (sig_scale sig) H255 (uc_one false data le fds fuel) (work_one data le fds (sig_scale sig) H255 Hwf fuel)
                       (S (length sig)) sig off Hl) as [A B].
  destruct (uc_seq (uc_one false data le fds fuel) (S (length sig)) sig off) as [r c]. cbn [snd] in *.
  generalize dependent (sig_scale sig). intros K A B H255 Hl.
  destruct r as [[off2 vs]|e]; cbn [snd calls scan units cadd]; intros HU; nia.
Qed.

Definition fds_atomic (fds : fdst) : Prop :=
  forall l, fds = Some l -> Forall (fun v => vsize v = 1%nat) l.

Theorem unmarshal_output data le fds fuel sig off n vs :
  wf_bytes data -> fds_atomic fds ->
  m_unmarshal fuel sig data off le fds = Ok (n, vs) ->
  (vsize_list vs <= calls_bound sig data)%nat.
Proof.
  intros Hwf Hfd H. rewrite <- erase_unmarshal in H.
  pose proof (unmarshal_work data le fds fuel sig off Hwf) as [A _].
  destruct (mc_unmarshal false data le fds fuel sig off) as [r c] eqn:E. cbn [fst snd] in *. subst r.
  apply (size_unmarshal data le fds Hfd) in E. lia.
Qed.

Lemma wf_d01 : wf_bytes d01_data.
Proof. unfold wf_bytes, d01_data. repeat constructor. Qed.

(* a message body "a(ys)" with two elements: decoded, counted *)
Definition ex_sig : str := [97; 40; 121; 115; 41].
Definition ex_data : bytes :=
  [27;0;0;0; 0;0;0;0;  1;0;0;0; 1;0;0;0; 97;0;0;0; 0;0;0;0;  2;0;0;0; 2;0;0;0; 98;98;0].

Lemma ex_decodes :
  mc_unmarshal false ex_data true None (lin_fuel ex_sig ex_data) ex_sig 0 =
  (Ok (35, [PList [PList [PInt 1; PStr [97]]; PList [PInt 2; PStr [98; 98]]]]), mkc 10 13 5).
Proof. reflexivity. Qed.

(* ===========================================================================
   9. parseMessage                                                              *)

(* the descriptor list handed to the body decoder (repair D60): a prefix of the one received *)
Lemma bound_of_no_fuel v e : bound_of v = Err e -> e <> EFuel.
Proof. destruct v; cbn [bound_of]; try congruence. destruct v; congruence. Qed.

Lemma body_fds_no_fuel attrs fds e : body_fds false attrs fds = Err e -> e <> EFuel.
Proof.
  unfold body_fds. destruct fds as [l|]; [|discriminate].
  destruct (get_attr AUnixFds attrs) as [v|]; [|discriminate].
  destruct (bound_of v) as [b|e'] eqn:E; cbn [bind]; [discriminate|].
  intros H; injection H as <-. eapply bound_of_no_fuel; exact E.
Qed.

Lemma body_fds_atomic attrs fds bf : fds_atomic fds -> body_fds false attrs fds = Ok bf -> fds_atomic bf.
Proof.
  unfold body_fds, fds_atomic. intros Hfd. destruct fds as [l|].
  2:{ intros H; injection H as <-. discriminate. }
  specialize (Hfd l eq_refl).
  destruct (get_attr AUnixFds attrs) as [v|].
  2:{ intros H; injection H as <-. intros l' H'; injection H' as <-. constructor. }
  destruct (bound_of v) as [b|e']; cbn [bind]; [|discriminate].
  intros H; injection H as <-. intros l' H'; injection H' as <-.
  destruct b as [z|]; cbn [slice_to]; [apply Forall_firstn'|]; exact Hfd.
Qed.

Theorem parse_erase raw fds : fst (parse_c raw fds) = parse_message_v2 raw fds.
Proof.
  unfold parse_c, parse_message_v2, parse_gen. destruct raw as [|b0 raw']; [reflexivity|].
  set (raw := b0 :: raw'). set (le := b0 =? 108).
  rewrite <- (erase_unmarshal raw le fds).
  destruct (mc_unmarshal false raw le fds (lin_fuel header_format raw) header_format 0) as [r c1].
  cbn [fst]. destruct r as [[nheader hval]|e]; cbn [bind fst]; [|reflexivity].
  destruct (hdr_view hval) as [[[[mt flags] serial] fields]|]; [|reflexivity].
  destruct (negb _); [reflexivity|].
  destruct (set_fields fields []) as [attrs|e]; cbn [bind fst]; [|reflexivity].
  destruct (body_sig attrs) as [[sig|]|e]; cbn [bind fst]; try reflexivity.
  destruct (body_fds false attrs fds) as [bf|e]; cbn [bind fst]; [|reflexivity].
  rewrite <- (erase_unmarshal (body_of nheader raw) le bf).
  destruct (mc_unmarshal false (body_of nheader raw) le bf (lin_fuel sig (body_of nheader raw)) sig 0) as [rb c3].
  cbn [fst]. destruct rb as [[nb body]|e]; reflexivity.
Qed.

Lemma set_fields_no_fuel : forall l acc e, set_fields l acc = Err e -> e <> EFuel.
Proof.
  induction l as [|x l IH]; intros acc e; cbn [set_fields]; [discriminate|].
  destruct x; try congruence. destruct l0 as [|c [|v [|w r]]]; try congruence.
  destruct (int_of c); [|apply IH]. destruct (attr_of_code z); apply IH.
Qed.

Lemma body_sig_no_fuel attrs e : body_sig attrs = Err e -> e <> EFuel.
Proof.
  unfold body_sig. destruct (get_attr ASignature attrs) as [sv|]; [|discriminate].
  destruct (truthy sv); [|discriminate]. destruct sv; try congruence.
  destruct (_ || _); congruence.
Qed.

Theorem parse_terminates raw fds : parse_message_v2 raw fds <> Err EFuel.
Proof.
  unfold parse_message_v2, parse_gen. destruct raw as [|b0 raw']; [discriminate|].
  set (raw := b0 :: raw'). set (le := b0 =? 108).
  pose proof (unmarshal_terminates header_format raw 0 le fds) as H1.
  destruct (m_unmarshal (lin_fuel header_format raw) header_format raw 0 le fds) as [[nheader hval]|e]; cbn [bind].
  2:{ intros H; injection H as ->. apply H1; reflexivity. }
  destruct (hdr_view hval) as [[[[mt flags] serial] fields]|]; [|discriminate].
  destruct (negb _); [discriminate|].
  destruct (set_fields fields []) as [attrs|e] eqn:Es; cbn [bind].
  2:{ intros H; injection H as ->. eapply set_fields_no_fuel; [exact Es|reflexivity]. }
  destruct (body_sig attrs) as [[sig|]|e] eqn:Eb; cbn [bind]; try discriminate.
  2:{ intros H; injection H as ->. eapply body_sig_no_fuel; [exact Eb|reflexivity]. }
  destruct (body_fds false attrs fds) as [bf|e] eqn:Ef; cbn [bind].
  2:{ intros H; injection H as ->. eapply body_fds_no_fuel; [exact Ef|reflexivity]. }
  pose proof (unmarshal_terminates sig (body_of nheader raw) 0 le bf) as H2.
  destruct (m_unmarshal (lin_fuel sig (body_of nheader raw)) sig (body_of nheader raw) 0 le bf) as [[nb body]|e]; cbn [bind].
  - discriminate.
  - intros H; injection H as ->. apply H2; reflexivity.
Qed.

Lemma body_sig_short attrs sig : body_sig attrs = Ok (Some sig) -> (length sig <= 1020)%nat.
Proof.
  unfold body_sig. destruct (get_attr ASignature attrs) as [sv|]; [|discriminate].
  destruct (truthy sv); [|discriminate]. destruct sv; try discriminate.
  destruct (Nat.ltb_spec 255 (ulen s)) as [Ha|Ha]; cbn [orb]; [discriminate|].
  destruct (Nat.ltb_spec 1020 (length s)) as [Hb|Hb]; [discriminate|].
  intros Hq; injection Hq as <-. exact Hb.
Qed.

Lemma length_le_vsize_list (l : list pyval) : (length l <= vsize_list l)%nat.
Proof.
  induction l as [|x l IH]; [cbn; lia|]. unfold vsize_list in *. cbn [fold_right length].
  assert (1 <= vsize x)%nat by (destruct x; cbn; lia). lia.
Qed.

Lemma hdr_view_size hval mt flags serial fields :
  hdr_view hval = Some (mt, flags, serial, fields) -> (S (vsize_list fields) <= vsize_list hval)%nat.
Proof.
  unfold hdr_view.
  destruct hval as [|h0 [|h1 [|h2 [|h3 [|h4 [|h5 [|h6 [|h7 r]]]]]]]]; try discriminate;
    destruct h1; try discriminate; destruct h2; try discriminate; destruct h5; try discriminate;
    destruct h6; try discriminate.
  intros H; injection H as <- <- <- <-.
  unfold vsize_list. cbn [fold_right].
  change (vsize (PList l)) with (S (fold_right (fun x n => (vsize x + n)%nat) 0%nat l)). lia.
Qed.

Lemma set_fields_size : forall l acc attrs,
    set_fields l acc = Ok attrs -> (attrs_size attrs <= attrs_size acc + vsize_list l)%nat.
Proof.
  assert (Happ : forall a b, attrs_size (a ++ b) = (attrs_size a + attrs_size b)%nat).
  { intros a b. unfold attrs_size. induction a as [|x a IH]; cbn [fold_right app]; lia. }
  induction l as [|x l IH]; intros acc attrs; cbn [set_fields].
  - intros H; injection H as <-. cbn. lia.
  - destruct x; try discriminate. destruct l0 as [|c [|v [|w r]]]; try discriminate.
    assert (Hx : (vsize v + vsize_list l <= vsize_list (PList [c; v] :: l))%nat).
    { unfold vsize_list. cbn [fold_right vsize]. lia. }
    destruct (int_of c).
    + destruct (attr_of_code z).
      * intros H. apply IH in H. rewrite Happ in H. cbn [attrs_size fold_right snd] in H. lia.
      * intros H. apply IH in H. lia.
    + intros H. apply IH in H. lia.
Qed.

Lemma body_of_length n raw : (length (body_of n raw) <= length raw)%nat.
Proof. unfold body_of. rewrite skipn_length. lia. Qed.

Lemma wf_skipn n d : wf_bytes d -> wf_bytes (skipn n d).
Proof. apply Forall_skipn'. Qed.


Lemma scale_le K a : (K <= 1020 -> K * a <= 1020 * a)%nat.
Proof. intros H. apply Nat.mul_le_mono_r. exact H. Qed.

Theorem parse_work raw fds :
  wf_bytes raw -> fds_atomic fds ->
  let rc := parse_c raw fds in
  (calls (snd rc) <= parse_calls_bound raw)%nat /\
  (scan (snd rc) <= parse_scan_bound raw)%nat /\
  (forall m, fst rc = Ok m -> (parsed_size m <= parse_calls_bound raw)%nat).
Proof.
  intros Hwf Hfd. unfold parse_c, parse_calls_bound, parse_scan_bound.
  destruct raw as [|b0 raw'].
  { cbn [fst snd calls scan c0 length]. repeat split; try lia. discriminate. }
  set (raw := b0 :: raw') in *. set (le := b0 =? 108).
  pose proof (unmarshal_work raw le fds (lin_fuel header_format raw) header_format 0 Hwf) as [A1 B1].
  unfold calls_bound, scan_bound in A1, B1. change (sig_scale header_format) with 255%nat in A1, B1. change (length header_format) with 11%nat in A1, B1.
  destruct (mc_unmarshal false raw le fds (lin_fuel header_format raw) header_format 0) as [r c1] eqn:E1.
  cbn [snd] in A1, B1.
  pose proof (fun n => body_of_length n raw) as Hbl.
  generalize dependent (length raw). intros R A1 Hbl.
  destruct r as [[nheader hval]|e].
  2:{ cbn [fst snd]. repeat split; try lia. discriminate. }
  pose proof (size_unmarshal raw le fds Hfd _ _ _ _ _ _ E1) as Hsz.
  destruct (hdr_view hval) as [[[[mt flags] serial] fields]|] eqn:Ev.
  2:{ cbn [fst snd]. repeat split; try lia. discriminate. }
  apply hdr_view_size in Ev. pose proof (length_le_vsize_list fields) as Hlf.
  destruct (negb _).
  { cbn [fst snd]. repeat split; try lia. discriminate. }
  destruct (set_fields fields []) as [attrs|e] eqn:Es.
  2:{ cbn [fst snd calls scan cadd]. repeat split; try lia. discriminate. }
  apply set_fields_size in Es. change (attrs_size []) with 0%nat in Es.
  destruct (body_sig attrs) as [[sig|]|e] eqn:Eb.
  3:{ cbn [fst snd calls scan cadd]. repeat split; try lia. discriminate. }
  2:{ cbn [fst snd calls scan cadd]. repeat split; try lia.
      intros m H; injection H as <-. unfold msg_of, parsed_size. lia. }
  apply body_sig_short in Eb. specialize (Hbl nheader).
  destruct (body_fds false attrs fds) as [bf|e] eqn:Ef.
  2:{ cbn [fst snd calls scan cadd]. repeat split; try lia. discriminate. }
  pose proof (body_fds_atomic _ _ _ Hfd Ef) as Hfd'.
  pose proof (unmarshal_work (body_of nheader raw) le bf (lin_fuel sig (body_of nheader raw)) sig 0
                             (wf_skipn _ _ Hwf)) as [A3 B3].
  assert (Hsc : (sig_scale sig <= 1020)%nat) by (unfold sig_scale; lia).
  destruct (mc_unmarshal false (body_of nheader raw) le bf (lin_fuel sig (body_of nheader raw)) sig 0) as [rb c3] eqn:E3.
  cbn [snd] in A3, B3. unfold calls_bound, scan_bound in A3, B3.
  pose proof (scale_le _ (2 * length (body_of nheader raw)) Hsc) as S1.
  pose proof (scale_le _ (calls c3) Hsc) as S2.
  generalize dependent (sig_scale sig). intros K A3 B3 HK S1 S2.
  destruct rb as [[nb body]|e]; cbn [fst snd calls scan cadd].
  - repeat split; try lia.
    intros m H; injection H as <-.
    pose proof (size_unmarshal _ le bf Hfd' _ _ _ _ _ _ E3) as Hsz3.
    unfold msg_of, parsed_size. lia.
  - repeat split; try lia. discriminate.
Qed.
(* D35 witness: method return, REPLY_SERIAL 7, SIGNATURE carried as a STRING of 256 'y', 256 body bytes *)
Definition d30_raw : bytes :=
  [108; 2; 0; 1;  0; 1; 0; 0;  1; 0; 0; 0;  17; 1; 0; 0;
   5; 1; 117; 0;  7; 0; 0; 0;
   8; 1; 115; 0;  0; 1; 0; 0] ++ repeat_n 121 256 ++ [0] ++ repeat_n 0 7 ++ repeat_n 0 256.

Lemma d30_legacy_accepts :
  is_ok (parse_message false (msg_fuel d30_raw) d30_raw (Some [])) = true /\
  parse_message_v2 d30_raw (Some []) = Err EMarshal.
Proof. split; vm_compute; reflexivity. Qed.

Definition ex_msg : bytes :=
  [108; 2; 0; 1;  4; 0; 0; 0;  1; 0; 0; 0;  15; 0; 0; 0;
   5; 1; 117; 0;  7; 0; 0; 0;
   8; 1; 103; 0;  1; 117; 0;  0;
   9; 0; 0; 0].

Lemma ex_msg_parses :
  parse_c ex_msg (Some []) =
  (Ok (2, 1%Z, true, true, [(AReplySerial, PInt 7); (ASignature, PStr [117])], Some [PInt 9]), mkc 19 22 5).
Proof. vm_compute. reflexivity. Qed.

Lemma wf_ex_msg : wf_bytes ex_msg.
Proof. unfold wf_bytes, ex_msg. repeat constructor. Qed.

Lemma fds_atomic_nil : fds_atomic (Some []).
Proof. intros l H; injection H as <-. constructor. Qed.

(* hostile UNIX_FDS header field (code 9) carried as a STRING: the slice oobFDs[:'x'] raises;
   carried as a negative INT32 it follows Python slice semantics (here [7;8][:-1] = [7]) *)
Definition fds_str_msg : bytes :=
  [108; 2; 0; 1;  1; 0; 0; 0;  1; 0; 0; 0;  26; 0; 0; 0;
   5; 1; 117; 0;  7; 0; 0; 0;
   8; 1; 103; 0;  1; 121; 0;  0;
   9; 1; 115; 0;  1; 0; 0; 0;  120; 0;  0; 0; 0; 0; 0; 0;
   5].

Definition fds_neg_msg : bytes :=
  [108; 2; 0; 1;  8; 0; 0; 0;  1; 0; 0; 0;  24; 0; 0; 0;
   5; 1; 117; 0;  7; 0; 0; 0;
   8; 1; 103; 0;  2; 104; 104; 0;
   9; 1; 105; 0;  255; 255; 255; 255;
   0; 0; 0; 0;  1; 0; 0; 0].

Lemma hostile_unix_fds :
  parse_message_v2 fds_str_msg (Some [PInt 7]) = Err EType /\
  parse_message_v2 fds_neg_msg (Some [PInt 7; PInt 8]) =
  Ok (2, 1%Z, true, true,
      [(AReplySerial, PInt 7); (ASignature, PStr [104; 104]); (AUnixFds, PInt (-1))],
      Some [PInt 7; PNone]).
Proof. split; vm_compute; reflexivity. Qed.
