(* Lemmas about the signature splitter (Model/SigSplit.v) against the type
   grammar (Spec/SigTy.v). *)
From Tx Require Import Lib.Base.
From Tx Require Import Model.SigSplit.
From Tx Require Import Spec.SigTy.
Local Open Scope N_scope.

(* --- induction principle for the nested type [ty] ------------------------ *)
Section TyInd.
  Variable P : ty -> Prop.
  Hypothesis Hb : forall b, P (TBasic b).
  Hypothesis Hv : P TVariant.
  Hypothesis Ha : forall t, P t -> P (TArr t).
  Hypothesis Hs : forall ts, Forall P ts -> P (TStruct ts).
  Hypothesis He : forall k v, P k -> P v -> P (TEntry k v).

  Fixpoint ty_ind' (t : ty) : P t :=
    match t with
    | TBasic b => Hb b
    | TVariant => Hv
    | TArr t => Ha t (ty_ind' t)
    | TStruct ts =>
        Hs ts ((fix go (l : list ty) : Forall P l :=
                  match l with
                  | [] => Forall_nil P
                  | x :: r => Forall_cons x (ty_ind' x) (go r)
                  end) ts)
    | TEntry k v => He k v (ty_ind' k) (ty_ind' v)
    end.
End TyInd.

(* --- the parts gct_next returns are a split of its input ------------------ *)

Lemma container_split b e c r ct rest :
  container b e c r = Ok (Some (ct, rest)) -> c :: r = ct ++ rest /\ ct <> [].
Proof.
  unfold container. destruct (find_end b e 1 r) as [x|]; [|discriminate].
  intros H. injection H as <- <-. split; [|discriminate].
  change (c :: r = c :: (firstn (S x) r ++ skipn (S x) r)).
  rewrite firstn_skipn. reflexivity.
Qed.

Lemma gct_next_split s : forall ct rest,
  gct_next s = Ok (Some (ct, rest)) -> s = ct ++ rest /\ ct <> [].
Proof.
  induction s as [|c r IH]; intros ct rest H; cbn [gct_next] in H; [discriminate|].
  destruct (c =? c_lparen); [eapply container_split; eassumption|].
  destruct (c =? c_lbrace); [eapply container_split; eassumption|].
  destruct (c =? c_a).
  - destruct (gct_next r) as [[[ct' rest']|]|]; try discriminate.
    injection H as <- <-. destruct (IH ct' rest' eq_refl) as [E _].
    split; [cbn [app]; congruence | discriminate].
  - injection H as <- <-. split; [reflexivity | discriminate].
Qed.

Lemma gct_next_shorter s ct rest :
  gct_next s = Ok (Some (ct, rest)) -> (length rest < length s)%nat.
Proof.
  intros H. destruct (gct_next_split _ _ _ H) as [-> Hne].
  rewrite app_length. destruct ct; [congruence | cbn [length]; lia].
Qed.

Lemma gct_all_concat f : forall s l, gct_all f s = Ok l -> concat l = s.
Proof.
  induction f as [|f IH]; intros s l H; cbn [gct_all] in H; [discriminate|].
  destruct (gct_next s) as [[[ct rest]|]|] eqn:E; try discriminate.
  - destruct (gct_all f rest) as [l'|] eqn:E'; cbn [bind] in H; [|discriminate].
    injection H as <-. cbn [concat]. rewrite (IH _ _ E').
    symmetry. apply (gct_next_split _ _ _ E).
  - injection H as <-. destruct s; [reflexivity|].
    cbn [gct_next] in E. unfold container in E.
    repeat match type of E with
           | (if ?b then _ else _) = _ => destruct b
           | match ?x with _ => _ end = _ => destruct x
           end; discriminate.
Qed.

Lemma gct_all_nonempty f : forall s l, gct_all f s = Ok l -> Forall (fun ct => ct <> []) l.
Proof.
  induction f as [|f IH]; intros s l H; cbn [gct_all] in H; [discriminate|].
  destruct (gct_next s) as [[[ct rest]|]|] eqn:E; try discriminate.
  - destruct (gct_all f rest) as [l'|] eqn:E'; cbn [bind] in H; [|discriminate].
    injection H as <-. constructor; [apply (gct_next_split _ _ _ E) | eapply IH; eassumption].
  - injection H as <-. constructor.
Qed.

Lemma gct_all_fuel f : forall s, (length s < f)%nat -> gct_all f s <> Err EFuel.
Proof.
  induction f as [|f IH]; intros s Hl; [lia|]. cbn [gct_all].
  destruct (gct_next s) as [[[ct rest]|]|] eqn:E.
  - pose proof (gct_next_shorter _ _ _ E) as Hs.
    assert (Hr : (length rest < f)%nat) by lia.
    specialize (IH rest Hr). destruct (gct_all f rest); cbn [bind]; congruence.
  - discriminate.
  - clear IH Hl. revert e E. induction s as [|c r IHs]; intros e E; cbn [gct_next] in E; [discriminate|].
    unfold container in E.
    destruct (c =? c_lparen); [destruct (find_end c_lparen c_rparen 1 r); congruence|].
    destruct (c =? c_lbrace); [destruct (find_end c_lbrace c_rbrace 1 r); congruence|].
    destruct (c =? c_a); [|discriminate].
    destruct (gct_next r) as [[[ct rest]|]|] eqn:E'; try congruence.
    injection E as <-. eapply IHs; reflexivity.
Qed.

(* the fuel supplied by gen_complete_types always suffices *)
Lemma gen_complete_types_fuel s : gen_complete_types s <> Err EFuel.
Proof. apply gct_all_fuel. lia. Qed.

Lemma gen_complete_types_concat s l : gen_complete_types s = Ok l -> concat l = s.
Proof. apply gct_all_concat. Qed.

(* --- find_end skips over any rendered type ------------------------------- *)

Definition shift (n : nat) (o : option nat) : option nat := option_map (Nat.add n) o.

Lemma shift_S o : option_map S o = shift 1 o.
Proof. destruct o; reflexivity. Qed.

Lemma shift_shift a b o : shift a (shift b o) = shift (a + b) o.
Proof. destruct o; cbn; [f_equal; lia | reflexivity]. Qed.

Lemma shift_0 o : shift 0 o = o.
Proof. destruct o; reflexivity. Qed.

Definition bracket_pair (b e : N) : Prop := (b = 40 /\ e = 41) \/ (b = 123 /\ e = 125).

Definition skips (t : ty) : Prop :=
  forall b e, bracket_pair b e -> forall d rest, (1 <= d)%Z ->
    find_end b e d (show t ++ rest) = shift (length (show t)) (find_end b e d rest).

Lemma skips_list ts : Forall skips ts ->
  forall b e, bracket_pair b e -> forall d rest, (1 <= d)%Z ->
    find_end b e d (show_list ts ++ rest) = shift (length (show_list ts)) (find_end b e d rest).
Proof.
  unfold show_list. induction 1 as [|t ts Ht _ IH]; intros b e Hp d rest Hd; cbn [map concat].
  - cbn [app length]. symmetry; apply shift_0.
  - rewrite <- app_assoc, (Ht b e Hp d _ Hd), (IH b e Hp d rest Hd), shift_shift, app_length.
    reflexivity.
Qed.

Lemma find_end_other b e d c r :
  (c =? b) = false -> (c =? e) = false ->
  find_end b e d (c :: r) = shift 1 (find_end b e d r).
Proof. intros H1 H2. cbn [find_end]. rewrite H1, H2. apply shift_S. Qed.

Lemma find_end_open b e d r :
  find_end b e d (b :: r) = shift 1 (find_end b e (d + 1) r).
Proof. cbn [find_end]. rewrite N.eqb_refl. apply shift_S. Qed.

Lemma find_end_close b e d r :
  (e =? b) = false -> (2 <= d)%Z ->
  find_end b e d (e :: r) = shift 1 (find_end b e (d - 1) r).
Proof.
  intros H Hd. cbn [find_end]. rewrite H, N.eqb_refl.
  destruct (Z.eqb_spec (d - 1) 0); [lia | apply shift_S].
Qed.

Lemma find_end_close1 b e r :
  (e =? b) = false -> find_end b e 1 (e :: r) = Some O.
Proof. intros H. cbn [find_end]. rewrite H, N.eqb_refl. reflexivity. Qed.

Lemma show_skips t : skips t.
Proof.
  induction t as [bc| |t IH|ts IH|k v IHk IHv] using ty_ind'; intros b e Hp d rest Hd.
  - cbn [show app length].
    apply find_end_other; destruct Hp as [[-> ->]|[-> ->]]; destruct bc; reflexivity.
  - cbn [show app length].
    apply find_end_other; destruct Hp as [[-> ->]|[-> ->]]; reflexivity.
  - cbn [show app length].
    rewrite find_end_other by (destruct Hp as [[-> ->]|[-> ->]]; reflexivity).
    rewrite (IH b e Hp d rest Hd), shift_shift. f_equal; lia.
  - cbn [show]. fold (show_list ts).
    replace ((40 :: show_list ts ++ [41]) ++ rest) with (40 :: show_list ts ++ 41 :: rest)
      by (cbn [app]; rewrite <- app_assoc; reflexivity).
    replace (length (40 :: show_list ts ++ [41])) with (1 + (length (show_list ts) + 1))%nat
      by (cbn [length]; rewrite app_length; reflexivity).
    destruct Hp as [[-> ->]|[-> ->]].
    + rewrite find_end_open.
      rewrite (skips_list ts IH 40 41 (or_introl (conj eq_refl eq_refl)) (d + 1)%Z) by lia.
      rewrite find_end_close by (reflexivity || lia).
      rewrite !shift_shift. replace (d + 1 - 1)%Z with d by lia. f_equal; lia.
    + rewrite find_end_other by reflexivity.
      rewrite (skips_list ts IH 123 125 (or_intror (conj eq_refl eq_refl)) d) by lia.
      rewrite find_end_other by reflexivity.
      rewrite !shift_shift. f_equal; lia.
  - cbn [show].
    replace ((123 :: show k ++ show v ++ [125]) ++ rest) with (123 :: show k ++ show v ++ 125 :: rest)
      by (cbn [app]; rewrite <- !app_assoc; reflexivity).
    replace (length (123 :: show k ++ show v ++ [125]))
      with (1 + (length (show k) + (length (show v) + 1)))%nat
      by (cbn [length]; rewrite !app_length; reflexivity).
    destruct Hp as [[-> ->]|[-> ->]].
    + rewrite find_end_other by reflexivity.
      rewrite (IHk 40 41 (or_introl (conj eq_refl eq_refl)) d) by lia.
      rewrite (IHv 40 41 (or_introl (conj eq_refl eq_refl)) d) by lia.
      rewrite find_end_other by reflexivity.
      rewrite !shift_shift. f_equal; lia.
    + rewrite find_end_open.
      rewrite (IHk 123 125 (or_intror (conj eq_refl eq_refl)) (d + 1)%Z) by lia.
      rewrite (IHv 123 125 (or_intror (conj eq_refl eq_refl)) (d + 1)%Z) by lia.
      rewrite find_end_close by (reflexivity || lia).
      rewrite !shift_shift. replace (d + 1 - 1)%Z with d by lia. f_equal; lia.
Qed.

(* --- gct_next returns exactly the first rendered type ---------------------- *)

Lemma firstn_app_exact {A} (a b : list A) : firstn (length a) (a ++ b) = a.
Proof. induction a; cbn; congruence. Qed.

Lemma skipn_app_exact {A} (a b : list A) : skipn (length a) (a ++ b) = b.
Proof. induction a; cbn; congruence. Qed.

Lemma container_closed b e c body rest :
  (e =? b) = false ->
  find_end b e 1 (body ++ e :: rest) = Some (length body) ->
  container b e c (body ++ e :: rest) = Ok (Some (c :: body ++ [e], rest)).
Proof.
  intros _ H. unfold container. rewrite H.
  replace (body ++ e :: rest) with ((body ++ [e]) ++ rest) by (rewrite <- app_assoc; reflexivity).
  replace (S (length body)) with (length (body ++ [e])) by (rewrite app_length; cbn; lia).
  rewrite firstn_app_exact, skipn_app_exact. reflexivity.
Qed.

Lemma gct_next_show t : forall rest, gct_next (show t ++ rest) = Ok (Some (show t, rest)).
Proof.
  induction t as [bc| |t IH|ts _|k v _ _] using ty_ind'; intros rest.
  - destruct bc; reflexivity.
  - reflexivity.
  - cbn [show app gct_next]. change (97 =? c_lparen) with false. change (97 =? c_lbrace) with false.
    change (97 =? c_a) with true. cbn iota. rewrite IH. reflexivity.
  - cbn [show]. fold (show_list ts).
    replace ((40 :: show_list ts ++ [41]) ++ rest) with (40 :: show_list ts ++ 41 :: rest)
      by (cbn [app]; rewrite <- app_assoc; reflexivity).
    cbn [gct_next]. change (40 =? c_lparen) with true. cbn iota.
    apply container_closed; [reflexivity|].
    assert (Hall : Forall skips ts) by (apply Forall_forall; intros; apply show_skips).
    rewrite (skips_list ts Hall 40 41 (or_introl (conj eq_refl eq_refl)) 1%Z) by lia.
    rewrite find_end_close1 by reflexivity. cbn. f_equal. lia.
  - cbn [show].
    replace ((123 :: show k ++ show v ++ [125]) ++ rest)
      with (123 :: (show k ++ show v) ++ 125 :: rest)
      by (cbn [app]; rewrite <- !app_assoc; reflexivity).
    replace (show k ++ show v ++ [125]) with ((show k ++ show v) ++ [125])
      by (rewrite <- app_assoc; reflexivity).
    cbn [gct_next]. change (123 =? c_lparen) with false. change (123 =? c_lbrace) with true.
    cbn iota.
    apply container_closed; [reflexivity|].
    rewrite <- app_assoc.
    rewrite (show_skips k 123 125 (or_intror (conj eq_refl eq_refl)) 1%Z) by lia.
    rewrite (show_skips v 123 125 (or_intror (conj eq_refl eq_refl)) 1%Z) by lia.
    rewrite find_end_close1 by reflexivity. cbn. rewrite app_length. f_equal. lia.
Qed.

Lemma show_nonempty t : (1 <= length (show t))%nat.
Proof. destruct t; cbn [show length]; lia. Qed.

Lemma show_list_length ts : (length ts <= length (show_list ts))%nat.
Proof.
  unfold show_list. induction ts as [|t ts IH]; cbn [map concat length]; [lia|].
  rewrite app_length. pose proof (show_nonempty t). lia.
Qed.

Lemma gct_all_show_list f : forall ts, (length ts < f)%nat ->
  gct_all f (show_list ts) = Ok (map show ts).
Proof.
  induction f as [|f IH]; intros ts Hl; [lia|].
  destruct ts as [|t ts]; [reflexivity|].
  cbn [gct_all]. unfold show_list. cbn [map concat]. rewrite gct_next_show.
  fold (show_list ts). rewrite IH by (cbn [length] in Hl; lia). reflexivity.
Qed.

(* Every sequence of type trees - in particular every valid signature - is
   split into exactly its members. *)
Lemma gen_complete_types_show ts : gen_complete_types (show_list ts) = Ok (map show ts).
Proof.
  apply gct_all_show_list. pose proof (show_list_length ts). lia.
Qed.

Lemma gen_complete_types_valid s :
  valid_sig s -> exists l, gen_complete_types s = Ok l /\ concat l = s.
Proof.
  intros [ts [_ ->]]. exists (map show ts). split; [apply gen_complete_types_show | reflexivity].
Qed.
