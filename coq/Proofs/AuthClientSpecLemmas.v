(* Lemmas about the specification's own functions (Spec/AuthClientSpec.v): what
   the decidable session predicates mean.  No model here. *)
From Tx Require Import Lib.Base Lib.Sexp Spec.AuthClientSpec.
Local Open Scope N_scope.

(* --- prefixes -------------------------------------------------------------- *)
Lemma is_prefix_app a r : is_prefix a (a ++ r) = true.
Proof.
  induction a as [|x a IH]; cbn [is_prefix app]; [reflexivity|].
  rewrite str_eqb_refl, IH. reflexivity.
Qed.

Lemma is_prefix_spec a b : is_prefix a b = true -> exists r, b = a ++ r.
Proof.
  revert b; induction a as [|x a IH]; intros b H.
  - exists b; reflexivity.
  - destruct b as [|y b]; cbn [is_prefix] in H; [discriminate|].
    apply andb_true_iff in H as [E H]. apply str_eqb_spec in E. subst y.
    destruct (IH _ H) as [r ->]. exists r; reflexivity.
Qed.

Lemma next_after_app a r : next_after a (a ++ r) = hd_error r.
Proof.
  induction a as [|x a IH]; cbn [next_after app].
  - destruct r; reflexivity.
  - exact IH.
Qed.

(* --- flat / trace / live --------------------------------------------------- *)
Lemma flat_app xs ys : flat (xs ++ ys) = flat xs ++ flat ys.
Proof. unfold flat. apply flat_map_app. Qed.

Lemma flat_one l r : flat [(l, r)] = Rx l :: r.
Proof. unfold flat. cbn. rewrite app_nil_r. reflexivity. Qed.

Lemma live_app a b : live (a ++ b) = live a && live b.
Proof. unfold live. rewrite existsb_app, negb_orb. reflexivity. Qed.

Lemma offers_app a b : offers (a ++ b) = offers a ++ offers b.
Proof. unfold offers. apply flat_map_app. Qed.

Lemma sent_lines_app a b : sent_lines (a ++ b) = sent_lines a ++ sent_lines b.
Proof. unfold sent_lines. apply flat_map_app. Qed.

(* --- BEGIN only after OK ---------------------------------------------------- *)
Definition prog_after (p : progress) (t : list ev) : progress := fold_left advance t p.

Lemma prog_after_app p a b : prog_after p (a ++ b) = prog_after (prog_after p a) b.
Proof. unfold prog_after. apply fold_left_app. Qed.

(* a received line that is not REJECTED; everything that is not a received line *)
Definition keeps (e : ev) : Prop :=
  match e with Rx l => str_eqb (word l) w_REJECTED = false | _ => True end.

(* REJECTED takes the progress back to nothing ... *)
Lemma advance_rejected p l : str_eqb (word l) w_REJECTED = true -> advance p (Rx l) = NoOk.
Proof. intros W. cbn [advance]. rewrite W. reflexivity. Qed.

(* ... and nothing else does: between REJECTED lines the progress never goes back
   (was: [advance_not_back p e : p <> NoOk -> advance p e <> NoOk], for every e,
   when [advance] was monotone) *)
Lemma advance_not_back p e : keeps e -> p <> NoOk -> advance p e <> NoOk.
Proof.
  intros K H. destruct e; cbn [advance]; try exact H.
  cbn [keeps] in K. rewrite K.
  destruct p; [congruence| |discriminate].
  destruct (fd_answer_line l); discriminate.
Qed.

Lemma prog_after_not_back t : forall p, Forall keeps t -> p <> NoOk -> prog_after p t <> NoOk.
Proof.
  induction t as [|e t IH]; intros p K H; [exact H|].
  inversion K as [|e' t' Ke Kt]; subst.
  cbn [prog_after fold_left]. apply IH; [exact Kt|]. apply advance_not_back; assumption.
Qed.

Lemma ok_line_not_rejected l : ok_line l = true -> str_eqb (word l) w_REJECTED = false.
Proof.
  unfold ok_line. intros H. apply andb_true_iff in H as [W _]. apply str_eqb_spec in W.
  rewrite W. reflexivity.
Qed.

Lemma begin_safe_from_app unix t1 : forall p b t2,
  begin_safe_from unix p b (t1 ++ t2) =
  begin_safe_from unix p b t1 &&
  begin_safe_from unix (prog_after p t1) (b || existsb (is_tx w_BEGIN) t1) t2.
Proof.
  induction t1 as [|e t1 IH]; intros p b t2.
  - cbn. rewrite orb_false_r. reflexivity.
  - cbn [app begin_safe_from prog_after fold_left existsb].
    destruct e as [l|l|r| |]; cbn [is_tx advance].
    + rewrite IH. cbn [orb]. reflexivity.
    + destruct (str_eqb l w_BEGIN) eqn:E.
      * rewrite IH. cbn [advance]. rewrite orb_true_r, orb_true_l, andb_assoc. reflexivity.
      * rewrite IH. cbn [orb advance]. reflexivity.
    + rewrite IH. reflexivity.
    + rewrite IH. reflexivity.
    + rewrite IH. rewrite andb_assoc. reflexivity.
Qed.

(* how far the server's side has got, read back from the trace: the OK, no
   REJECTED after it, and (for Answered) the answer after it *)
Lemma progress_witness t :
  prog_after NoOk t <> NoOk ->
  exists p1 l p2, t = p1 ++ Rx l :: p2 /\ ok_line l = true /\
    (forall r, In (Rx r) p2 -> str_eqb (word r) w_REJECTED = false) /\
    (prog_after NoOk t = Answered -> exists l', In (Rx l') p2 /\ fd_answer_line l' = true).
Proof.
  induction t as [|e t IH] using rev_ind; [cbn; congruence|].
  rewrite prog_after_app. cbn [prog_after fold_left].
  change (fold_left advance t NoOk) with (prog_after NoOk t).
  assert (KE : advance (prog_after NoOk t) e <> NoOk -> keeps e).
  { destruct e as [l|l|r| |]; cbn [keeps]; auto. intros H.
    destruct (str_eqb (word l) w_REJECTED) eqn:W; [|reflexivity].
    rewrite (advance_rejected _ l W) in H. congruence. }
  destruct (prog_after NoOk t) eqn:P.
  - (* the OK arrives now *)
    intros H. destruct e as [l|l|r| |]; cbn [advance] in H |- *; try congruence.
    destruct (str_eqb (word l) w_REJECTED); [congruence|].
    destruct (ok_line l) eqn:O; [|congruence].
    exists t, l, []. split; [reflexivity|]. split; [exact O|].
    split; [intros r []|]. discriminate.
  - intros H. specialize (KE H). destruct IH as (p1 & l & p2 & -> & O & NR & _); [discriminate|].
    exists p1, l, (p2 ++ [e]). rewrite <- app_assoc. split; [reflexivity|]. split; [exact O|].
    split.
    { intros r I. apply in_app_or in I as [I|[E|[]]]; [apply NR, I | subst e; exact KE]. }
    destruct e as [l'|l'|r| |]; cbn [advance]; try discriminate.
    cbn [keeps] in KE. rewrite KE.
    destruct (fd_answer_line l') eqn:F; [|discriminate].
    intros _. exists l'. split; [apply in_or_app; right; left; reflexivity | exact F].
  - intros H. specialize (KE H). destruct IH as (p1 & l & p2 & -> & O & NR & A); [discriminate|].
    exists p1, l, (p2 ++ [e]). rewrite <- app_assoc. split; [reflexivity|]. split; [exact O|].
    split.
    { intros r I. apply in_app_or in I as [I|[E|[]]]; [apply NR, I | subst e; exact KE]. }
    intros _. destruct (A eq_refl) as (l' & I & F).
    exists l'. split; [apply in_or_app; left; exact I | exact F].
Qed.

Lemma tx_begin_is l : is_tx w_BEGIN (Tx l) = str_eqb l w_BEGIN.
Proof. reflexivity. Qed.

(* the reading of [begin_safe]: whenever BEGIN is in the trace, an OK with a valid
   GUID was received before it and STANDS (no REJECTED line was received between
   that OK and the BEGIN), and on a UNIX transport an answer to the descriptor
   negotiation was received between the two *)
Lemma begin_safe_meaning unix t pre post :
  begin_safe unix t = true -> t = pre ++ Tx w_BEGIN :: post ->
  exists p1 l p2, pre = p1 ++ Rx l :: p2 /\ ok_line l = true /\
    (forall r, In (Rx r) p2 -> str_eqb (word r) w_REJECTED = false) /\
    (unix = true -> exists l', In (Rx l') p2 /\ fd_answer_line l' = true).
Proof.
  intros S ->. unfold begin_safe in S. rewrite begin_safe_from_app in S.
  apply andb_true_iff in S as [_ S]. cbn [begin_safe_from] in S.
  rewrite str_eqb_refl in S. apply andb_true_iff in S as [M _].
  assert (N : prog_after NoOk pre <> NoOk) by (intros E; rewrite E in M; discriminate).
  destruct (progress_witness pre N) as (p1 & l & p2 & E & O & NR & A).
  exists p1, l, p2. split; [exact E|]. split; [exact O|]. split; [exact NR|].
  intros U. subst unix. apply A. destruct (prog_after NoOk pre); [discriminate|discriminate|reflexivity].
Qed.

Lemma existsb_is_tx_In w t : existsb (is_tx w) t = true -> In (Tx w) t.
Proof.
  intros H. apply existsb_exists in H as (e & I & E).
  destruct e; cbn [is_tx] in E; try discriminate. apply str_eqb_spec in E. subst. exact I.
Qed.

(* binary mode only after a BEGIN was sent *)
Lemma begin_safe_binary unix t pre post :
  begin_safe unix t = true -> t = pre ++ Binary :: post -> In (Tx w_BEGIN) pre.
Proof.
  intros S ->. unfold begin_safe in S. rewrite begin_safe_from_app in S.
  apply andb_true_iff in S as [_ S]. cbn [begin_safe_from orb] in S.
  apply andb_true_iff in S as [B _]. apply existsb_is_tx_In. exact B.
Qed.

(* --- per-exchange judgement ------------------------------------------------- *)
Lemma ev_eqb_spec x y : ev_eqb x y = true <-> x = y.
Proof.
  destruct x, y; cbn [ev_eqb]; try (split; [discriminate | congruence]);
    try (rewrite str_eqb_spec; split; congruence); split; reflexivity.
Qed.

Lemma exchanges_verdict_app pref xs1 : forall before xs2,
  exchanges_verdict pref before (xs1 ++ xs2) = 0 ->
  exchanges_verdict pref before xs1 = 0 /\ exchanges_verdict pref (before ++ flat xs1) xs2 = 0.
Proof.
  induction xs1 as [|x xs1 IH]; intros before xs2 H.
  - cbn. rewrite app_nil_r. split; [reflexivity | exact H].
  - cbn [app exchanges_verdict] in H |- *.
    destruct (exchange_verdict pref before x) eqn:V; [|discriminate].
    destruct (IH _ _ H) as [H1 H2]. split; [exact H1|].
    change (x :: xs1) with ([x] ++ xs1). rewrite flat_app, app_assoc.
    destruct x as [l r]. rewrite flat_one. exact H2.
Qed.

Lemma exchanges_verdict_at pref before xs1 x xs2 :
  exchanges_verdict pref before (xs1 ++ x :: xs2) = 0 ->
  exchange_verdict pref (before ++ flat xs1) x = 0.
Proof.
  intros H. apply exchanges_verdict_app in H as [_ H].
  cbn [exchanges_verdict] in H.
  destruct (exchange_verdict pref (before ++ flat xs1) x); [reflexivity | discriminate].
Qed.

(* the clauses of a favourable judgement, spelled out *)
Lemma exchange_verdict_meaning pref before l resp :
  exchange_verdict pref before (l, resp) = 0 ->
  (live before = false -> resp = []) /\
  (live before = true ->
     resp <> [] /\
     (length (sent_lines resp) <= 1)%nat /\
     (outside_protocol before l = true -> In Closed resp) /\
     (outside_protocol before l = false -> word l = w_REJECTED -> moved_on pref before resp = true) /\
     (outside_protocol before l = false -> word l = w_ERROR ->
        moved_on pref before resp = true \/ resp = [Tx w_BEGIN; Binary])).
Proof.
  unfold exchange_verdict. destruct (live before); cbn [negb].
  - intros H. split; [discriminate|]. intros _.
    destruct resp as [|e resp]; [discriminate|].
    destruct (1 <? N.of_nat (length (sent_lines (e :: resp)))) eqn:L; [discriminate|].
    apply N.ltb_ge in L.
    split; [discriminate|]. split; [lia|].
    destruct (outside_protocol before l).
    + destruct (existsb (ev_eqb Closed) (e :: resp)) eqn:C; [|discriminate].
      split; [|split; discriminate]. intros _.
      apply existsb_exists in C as (x & I & E). destruct x; cbn in E; try discriminate. exact I.
    + split; [discriminate|].
      destruct (str_eqb (word l) w_REJECTED) eqn:R.
      * destruct (moved_on pref before (e :: resp)) eqn:M; cbn [negb andb] in H; [|discriminate].
        split; [reflexivity|]. intros _ W. left; reflexivity.
      * cbn [andb] in H. split.
        { intros _ W. rewrite W, str_eqb_refl in R. discriminate. }
        intros _ W. rewrite W, str_eqb_refl in H. cbn [andb] in H.
        destruct (moved_on pref before (e :: resp)); [left; reflexivity|].
        cbn [orb] in H. destruct (began (e :: resp)) eqn:B; [|discriminate].
        right. unfold began, evs_eqb in B.
        apply (list_eqb_spec ev_eqb ev_eqb_spec) in B. exact B.
  - intros H. split; [|discriminate]. intros _. destruct resp; [reflexivity | discriminate].
Qed.
