(* C17, typed clause: a value conforming to a basic declared type leaves as a
   variant of exactly that type and reads back as itself.  Rests on the
   marshalling development (C01 / C19). *)
From Tx Require Import Lib.Base Gen.Generated Model.PyVal Model.Marshal Spec.WireSpec Spec.Readback
  Spec.Conforms Spec.WireTyped Proofs.SigProofs Proofs.InferProofs Proofs.MarshalProofs Proofs.UnmarshalProofs
  Model.PropsModel.
Local Open Scope N_scope.

Lemma basic_depth t v w : basic t = true -> conf t v w -> wdepth w = 1%nat.
Proof.
  destruct t; cbn [basic]; try discriminate; intros _; destruct w; cbn [conf]; try contradiction; reflexivity.
Qed.

Lemma basic_len t : basic t = true -> length (show t) = 1%nat.
Proof. destruct t; cbn [basic]; try discriminate; reflexivity. Qed.

Lemma present_typed t v v' w :
  basic t = true ->
  wrap_decl (show t) v = Ok v' ->
  sig_from_py v' = Ok (show t) ->
  conf t v' w -> wt [] t w ->
  len (enc_seq [TVariant] [WVariant t w] 0 true) < two32 ->
  present (show t) v = Ok (show t, readback [] t w).
Proof.
  intros Hb Hw Hs Hc Ht Hsz. unfold present. rewrite Hw. cbn [Base.bind].
  unfold wire_variant. rewrite Hs. cbn [Base.bind].
  assert (length (show t) <= 255)%nat as Hl by (rewrite (basic_len t Hb); lia).
  assert (S (wdepth w) <= vfuel v')%nat as Hd by (rewrite (basic_depth t v' w Hb Hc); unfold vfuel; lia).
  pose proof (marshal_refines [TVariant] (PList [v']) [v'] [WVariant t w] 0%nat true None (vfuel v') eq_refl) as HM.
  cbn [show_list flat_map show app len length N.of_nat] in HM.
  rewrite HM; [| cbn; auto | unfold wdepth_list; cbn [fold_right wdepth]; lia | exact Hsz ].
  pose proof (unmarshal_inverts [] true [TVariant] [WVariant t w] [] [] (vfuel v')) as HU.
  cbn [show_list flat_map show app len length N.of_nat] in HU. rewrite app_nil_r in HU.
  rewrite HU; [reflexivity | cbn; auto | unfold wdepth_list; cbn [fold_right wdepth]; lia | exact Hsz ].
Qed.

(* for the ten types of variantClassMap the coerced value always carries the declared signature *)
Lemma wrap_sig c v v' :
  (is_int_code c || is_str_code c)%bool = true -> wrap_decl [c] v = Ok v' -> sig_from_py v' = Ok [c].
Proof.
  unfold wrap_decl. intros Hc H.
  destruct (is_int_code c).
  - destruct v as [z|b| | | | | | | |c' x|]; try discriminate; try (injection H as <-; reflexivity).
    + destruct (all_letters s); discriminate.
    + destruct x; try discriminate; try (injection H as <-; reflexivity).
      destruct (all_letters s); discriminate.
  - cbn [orb] in Hc. rewrite Hc in H.
    destruct v as [z|b| | | | | | | |c' x|]; try discriminate; try (injection H as <-; reflexivity).
    destruct x; try discriminate; injection H as <-; reflexivity.
Qed.
