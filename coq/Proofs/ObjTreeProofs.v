(* Proofs for C16: the exported-object table of Model/ObjTree.v refines the
   path tree of Spec/PathTree.v under the textual form of object paths. *)
From Tx Require Import Lib.Base.
From Tx Require Import Model.Validators.
From Tx Require Import Model.ObjTree.
From Tx Require Import Spec.PathTree.
From Tx Require Import Model.OpsC16.
From Tx Require Import Proofs.SplitLemmas.
From Coq Require Import Permutation.
Local Open Scope N_scope.

(* ------------------------------------------------------------------------ *)
(* A. split / join                                                           *)

Definition sep_free (c : N) (e : str) : bool := forallb (fun x => negb (x =? c)) e.

Lemma join_with_cons2 c a b l : join_with c (a :: b :: l) = a ++ c :: join_with c (b :: l).
Proof. reflexivity. Qed.

Lemma join_with_cons_char c x a l : join_with c ((x :: a) :: l) = x :: join_with c (a :: l).
Proof. destruct l; reflexivity. Qed.

Lemma join_split c s : join_with c (split_on c s) = s.
Proof.
  induction s as [|x s IH]; [reflexivity|].
  rewrite split_on_cons. destruct (x =? c) eqn:E.
  - apply N.eqb_eq in E; subst x.
    rewrite (split_on_hd_tl c s), join_with_cons2, <- split_on_hd_tl, IH. reflexivity.
  - rewrite join_with_cons_char, <- split_on_hd_tl, IH. reflexivity.
Qed.

Lemma split_on_app_sep c a b : split_on c (a ++ c :: b) = split_on c a ++ split_on c b.
Proof.
  induction a as [|x a IH].
  - cbn [app]. rewrite split_on_cons, N.eqb_refl. reflexivity.
  - rewrite <- app_comm_cons, !split_on_cons, IH. destruct (x =? c); [reflexivity|].
    rewrite (split_on_hd_tl c a). reflexivity.
Qed.

Lemma split_on_sep_free c a : sep_free c a = true -> split_on c a = [a].
Proof.
  induction a as [|x a IH]; [reflexivity|].
  cbn [sep_free forallb]. intros H. apply andb_true_iff in H as [H1 H2].
  rewrite split_on_cons. apply negb_true_iff in H1. rewrite H1, (IH H2). reflexivity.
Qed.

Lemma split_join c l :
  l <> [] -> forallb (sep_free c) l = true -> split_on c (join_with c l) = l.
Proof.
  induction l as [|a l IH]; [congruence|]. intros _ H.
  cbn [forallb] in H. apply andb_true_iff in H as [Ha Hl].
  destruct l as [|b l]; [apply split_on_sep_free; exact Ha|].
  rewrite join_with_cons2, split_on_app_sep, (split_on_sep_free c a Ha), IH; [reflexivity|discriminate|exact Hl].
Qed.

(* elements produced by split_on do not contain the separator (instance of
   SplitLemmas.forallb_split) *)
Lemma split_on_sep_free_all c s : forallb (sep_free c) (split_on c s) = true.
Proof.
  transitivity (forallb (forallb (fun x => negb (x =? c))) (split_on c s)); [reflexivity|].
  rewrite <- (forallb_split c (fun x => negb (x =? c)) s).
  apply forallb_forall. intros x _. destruct (x =? c); reflexivity.
Qed.

Lemma join_with_app c l1 l2 :
  l1 <> [] -> l2 <> [] -> join_with c (l1 ++ l2) = join_with c l1 ++ c :: join_with c l2.
Proof.
  induction l1 as [|a l1 IH]; [congruence|]. intros _ H2.
  destruct l1 as [|b l1].
  - destruct l2; [congruence|reflexivity].
  - change ((a :: b :: l1) ++ l2) with (a :: b :: (l1 ++ l2)).
    rewrite !join_with_cons2.
    change (b :: l1 ++ l2) with ((b :: l1) ++ l2). rewrite IH; [|discriminate|exact H2].
    rewrite <- app_assoc. reflexivity.
Qed.

Lemma forallb_app_r {A} (f : A -> bool) l1 l2 : forallb f (l1 ++ l2) = true -> forallb f l2 = true.
Proof. rewrite forallb_app. intros H; apply andb_true_iff in H; tauto. Qed.

(* ------------------------------------------------------------------------ *)
(* B. text of a path <-> elements                                            *)

Definition slash : N := 47.

Lemma c_slash_47 : c_slash = 47. Proof. reflexivity. Qed.

Lemma render_comps s : first_is c_slash s = true -> render (comps s) = s.
Proof.
  destruct s as [|x rest]; [discriminate|]. cbn [first_is]. intros E.
  unfold comps. change c_slash with 47 in E. rewrite E. apply N.eqb_eq in E; subst x.
  unfold render. destruct rest as [|y r]; [reflexivity|].
  rewrite join_split. reflexivity.
Qed.

Lemma comps_inj a b :
  first_is c_slash a = true -> first_is c_slash b = true -> comps a = comps b -> a = b.
Proof. intros Ha Hb E. rewrite <- (render_comps a Ha), <- (render_comps b Hb), E. reflexivity. Qed.

(* what validate_path gives us *)
Lemma valid_first p : validate_path p = true -> first_is c_slash p = true.
Proof. unfold validate_path. intros H. repeat (apply andb_true_iff in H as [H ?]). exact H. Qed.

Lemma valid_shape p :
  validate_path p = true ->
  exists rest, p = 47 :: rest /\ (rest = [] \/ (rest <> [] /\ ends_with_char 47 p = false)).
Proof.
  intros H. pose proof (valid_first p H) as F.
  unfold validate_path in H. apply andb_true_iff in H as [H _]. apply andb_true_iff in H as [H _].
  apply andb_true_iff in H as [_ HE]. unfold c_slash in *.
  destruct p as [|x rest]; [discriminate|]. cbn [first_is] in F. apply N.eqb_eq in F. subst x.
  exists rest. split; [reflexivity|].
  destruct rest as [|y r]; [left; reflexivity|right]. split; [discriminate|].
  apply negb_true_iff in HE. cbn [length] in HE.
  destruct (ends_with_char 47 (47 :: y :: r)); [|reflexivity].
  rewrite andb_true_r in HE. destruct (length r); discriminate.
Qed.

Lemma path_prefix_root : path_prefix [47] = [47].
Proof. reflexivity. Qed.

Lemma path_prefix_nonroot rest :
  rest <> [] -> ends_with_char 47 (47 :: rest) = false ->
  path_prefix (47 :: rest) = 47 :: rest ++ [47].
Proof. intros _ H. unfold path_prefix. change c_slash with 47. rewrite H. reflexivity. Qed.

Lemma comps_root : comps [47] = [].
Proof. reflexivity. Qed.

Lemma comps_nonroot rest : rest <> [] -> comps (47 :: rest) = split_on 47 rest.
Proof. destruct rest; [congruence|reflexivity]. Qed.

(* a string that continues the '/'-terminated prefix of p has the elements
   of p followed by the elements of the continuation *)
Lemma comps_beneath p t :
  validate_path p = true -> (p = [47] -> t <> []) ->
  comps (path_prefix p ++ t) = comps p ++ split_on 47 t.
Proof.
  intros V Ht. destruct (valid_shape p V) as [rest [-> [->|[Hr He]]]].
  - rewrite path_prefix_root, comps_root. cbn [app]. apply comps_nonroot. auto.
  - rewrite (path_prefix_nonroot rest Hr He), (comps_nonroot rest Hr).
    cbn [app]. rewrite <- app_assoc. cbn [app].
    rewrite comps_nonroot; [|destruct rest; [congruence|discriminate]].
    apply split_on_app_sep.
Qed.

(* conversely: a path whose elements extend those of p continues its prefix *)
Lemma beneath_text p q c r :
  validate_path p = true -> first_is c_slash q = true ->
  comps q = comps p ++ c :: r ->
  q = path_prefix p ++ join_with 47 (c :: r).
Proof.
  intros V Fq E. rewrite <- (render_comps q Fq), E. unfold render.
  destruct (valid_shape p V) as [rest [-> [->|[Hr He]]]].
  - rewrite path_prefix_root, comps_root. reflexivity.
  - rewrite (path_prefix_nonroot rest Hr He), (comps_nonroot rest Hr).
    rewrite join_with_app; [|apply split_on_nonempty|discriminate].
    rewrite join_split. cbn [app]. rewrite <- app_assoc. reflexivity.
Qed.

Lemma comps_sep_free s : first_is c_slash s = true -> forallb (sep_free 47) (comps s) = true.
Proof.
  destruct s as [|x rest]; [discriminate|]. cbn [first_is]. change c_slash with 47. intros E.
  unfold comps. rewrite E. destruct rest; [reflexivity|apply split_on_sep_free_all].
Qed.

Lemma starts_with_app p t : starts_with p (p ++ t) = true.
Proof. apply starts_with_spec. exists t; reflexivity. Qed.

Lemma skipn_app_exact {A} (a b : list A) : skipn (length a) (a ++ b) = b.
Proof. induction a; [reflexivity|assumption]. Qed.

Lemma path_prefix_neq_valid p q :
  validate_path p = true -> validate_path q = true -> q = path_prefix p -> p = [47].
Proof.
  intros Vp Vq E. destruct (valid_shape p Vp) as [rest [-> [->|[Hr He]]]]; [reflexivity|].
  exfalso. rewrite (path_prefix_nonroot rest Hr He) in E.
  destruct (valid_shape q Vq) as [rq [Eq [->|[Hq Heq]]]].
  - rewrite Eq in E. injection E as E. destruct rest; discriminate.
  - rewrite E in Heq.
    assert (X : forall (l : str), ends_with_char 47 (l ++ [47]) = true).
    { unfold ends_with_char. induction l as [|a l IH]; [reflexivity|].
      cbn [app]. destruct (l ++ [47]) eqn:El; [destruct l; discriminate|]. exact IH. }
    change (47 :: rest ++ [47]) with ((47 :: rest) ++ [47]) in Heq. rewrite X in Heq. discriminate.
Qed.

(* ------------------------------------------------------------------------ *)
(* C. Python dicts as association lists                                       *)

Lemma str_eqb_false a b : str_eqb a b = false <-> a <> b.
Proof.
  split.
  - intros E H. apply str_eqb_spec in H. congruence.
  - intros H. destruct (str_eqb a b) eqn:E; [apply str_eqb_spec in E; congruence|reflexivity].
Qed.

Lemma str_eqb_sym a b : str_eqb a b = str_eqb b a.
Proof.
  destruct (str_eqb a b) eqn:E; symmetry.
  - apply str_eqb_spec in E. subst. apply str_eqb_refl.
  - apply str_eqb_false in E. apply str_eqb_false. congruence.
Qed.

Ltac seqb :=
  repeat match goal with
         | |- context [str_eqb ?a ?b] =>
             let E := fresh "E" in
             destruct (str_eqb a b) eqn:E;
             [apply str_eqb_spec in E; try subst | apply str_eqb_false in E]
         end.

Section AList.
  Variable V : Type.
  Implicit Types (l : list (str * V)) (k : str) (v : V).

  Definition keys l := map fst l.

  Lemma alist_get_set k' k v l :
    alist_get str_eqb k' (alist_set str_eqb k v l) =
    if str_eqb k' k then Some v else alist_get str_eqb k' l.
  Proof.
    induction l as [|[k0 v0] l IH]; cbn [alist_set alist_get].
    - reflexivity.
    - destruct (str_eqb k k0) eqn:E0.
      + apply str_eqb_spec in E0. subst k0. cbn [alist_get]. destruct (str_eqb k' k); reflexivity.
      + cbn [alist_get]. rewrite IH. apply str_eqb_false in E0.
        destruct (str_eqb k' k0) eqn:E1; [|reflexivity].
        apply str_eqb_spec in E1. subst k0.
        destruct (str_eqb k' k) eqn:E2; [apply str_eqb_spec in E2; congruence|reflexivity].
  Qed.

  Lemma alist_get_none k l : alist_get str_eqb k l = None <-> ~ In k (keys l).
  Proof.
    induction l as [|[k0 v0] l IH]; cbn [alist_get keys map fst In].
    - tauto.
    - destruct (str_eqb k k0) eqn:E.
      + apply str_eqb_spec in E. subst. split; [discriminate|tauto].
      + apply str_eqb_false in E. rewrite IH. unfold keys. split; [intros H [H1|H1]; [congruence|tauto]|tauto].
  Qed.

  Lemma alist_get_in k v l : alist_get str_eqb k l = Some v -> In (k, v) l.
  Proof.
    induction l as [|[k0 v0] l IH]; cbn [alist_get In]; [discriminate|].
    destruct (str_eqb k k0) eqn:E.
    - apply str_eqb_spec in E. subst. intros H; injection H as ->. left; reflexivity.
    - intros H; right; apply IH; exact H.
  Qed.

  Lemma in_alist_get k v l : NoDup (keys l) -> In (k, v) l -> alist_get str_eqb k l = Some v.
  Proof.
    induction l as [|[k0 v0] l IH]; cbn [alist_get In keys map fst]; [tauto|].
    intros ND [H|H].
    - injection H as -> ->. rewrite str_eqb_refl. reflexivity.
    - inversion ND as [|? ? Hn ND']; subst.
      destruct (str_eqb k k0) eqn:E.
      + apply str_eqb_spec in E. subst. exfalso. apply Hn. apply (in_map fst) in H. exact H.
      + apply IH; assumption.
  Qed.

  Lemma alist_get_del k' k l :
    NoDup (keys l) ->
    alist_get str_eqb k' (alist_del str_eqb k l) =
    if str_eqb k' k then None else alist_get str_eqb k' l.
  Proof.
    induction l as [|[k0 v0] l IH]; cbn [alist_del alist_get keys map fst]; intros ND.
    - destruct (str_eqb k' k); reflexivity.
    - inversion ND as [|? ? Hn ND']; subst.
      destruct (str_eqb k k0) eqn:E0.
      + apply str_eqb_spec in E0. subst k0.
        destruct (str_eqb k' k) eqn:E1; [|reflexivity].
        apply str_eqb_spec in E1. subst k'. apply alist_get_none. exact Hn.
      + cbn [alist_get]. rewrite (IH ND'). apply str_eqb_false in E0.
        destruct (str_eqb k' k0) eqn:E1; [|reflexivity].
        apply str_eqb_spec in E1. subst k0.
        destruct (str_eqb k' k) eqn:E2; [apply str_eqb_spec in E2; congruence|reflexivity].
  Qed.

  Lemma in_alist_set k0 v0 k v l :
    In (k0, v0) (alist_set str_eqb k v l) -> (k0 = k /\ v0 = v) \/ In (k0, v0) l.
  Proof.
    induction l as [|[k1 v1] l IH]; cbn [alist_set In].
    - intros [H|[]]. injection H as -> ->. left; split; reflexivity.
    - destruct (str_eqb k k1) eqn:E.
      + apply str_eqb_spec in E. subst k1. cbn [In]. intros [H|H]; [injection H as -> ->; left; split; reflexivity|tauto].
      + cbn [In]. intros [H|H]; [tauto|]. destruct (IH H); tauto.
  Qed.

  Lemma keys_alist_set k0 k v l : In k0 (keys (alist_set str_eqb k v l)) <-> k0 = k \/ In k0 (keys l).
  Proof.
    induction l as [|[k1 v1] l IH]; cbn [alist_set keys map fst In].
    - split; [intros [H|[]]; left; congruence|intros [H|[]]; left; congruence].
    - destruct (str_eqb k k1) eqn:E.
      + apply str_eqb_spec in E. subst k1. cbn [keys map fst In]. split; [tauto|intros [H|H]; [left; congruence|tauto]].
      + cbn [keys map fst In]. unfold keys in IH. rewrite IH. tauto.
  Qed.

  Lemma nodup_alist_set k v l : NoDup (keys l) -> NoDup (keys (alist_set str_eqb k v l)).
  Proof.
    induction l as [|[k1 v1] l IH]; cbn [alist_set keys map fst]; intros ND.
    - constructor; [intros []|constructor].
    - inversion ND as [|? ? Hn ND']; subst. destruct (str_eqb k k1) eqn:E.
      + cbn [keys map fst]. constructor; assumption.
      + cbn [keys map fst]. apply str_eqb_false in E. constructor; [|apply IH; exact ND'].
        intros H. apply keys_alist_set in H as [H|H]; [congruence|apply Hn; exact H].
  Qed.

  Lemma in_alist_del k0 v0 k l : In (k0, v0) (alist_del str_eqb k l) -> In (k0, v0) l.
  Proof.
    induction l as [|[k1 v1] l IH]; cbn [alist_del In]; [tauto|].
    destruct (str_eqb k k1); cbn [In]; [tauto|]. intros [H|H]; [tauto|right; apply IH; exact H].
  Qed.

  Lemma keys_alist_del k0 k l : In k0 (keys (alist_del str_eqb k l)) -> In k0 (keys l).
  Proof.
    induction l as [|[k1 v1] l IH]; cbn [alist_del keys map fst In]; [tauto|].
    destruct (str_eqb k k1); cbn [keys map fst In]; [tauto|]. intros [H|H]; [tauto|right; apply IH; exact H].
  Qed.

  Lemma nodup_alist_del k l : NoDup (keys l) -> NoDup (keys (alist_del str_eqb k l)).
  Proof.
    induction l as [|[k1 v1] l IH]; cbn [alist_del keys map fst]; intros ND; [constructor|].
    inversion ND as [|? ? Hn ND']; subst. destruct (str_eqb k k1); [exact ND'|].
    cbn [keys map fst]. constructor; [|apply IH; exact ND'].
    intros H. apply Hn. eapply keys_alist_del; exact H.
  Qed.

  Lemma in_keys_get k l : In k (keys l) -> exists v, alist_get str_eqb k l = Some v.
  Proof.
    intros H. destruct (alist_get str_eqb k l) eqn:E; [eexists; reflexivity|].
    apply alist_get_none in E. contradiction.
  Qed.
End AList.

(* the dictionary built from the interface list *)
Section IfaceDict.
  Variable P : Type.

  Lemma iface_dict_fold (l : list (str * P)) acc :
    let d := fold_left (fun d np => alist_set str_eqb (fst np) (snd np) d) l acc in
    (NoDup (keys P acc) -> NoDup (keys P d)) /\
    (forall n, In n (keys P d) <-> In n (keys P acc) \/ In n (map fst l)) /\
    (forall n p, In (n, p) d -> In (n, p) acc \/ In (n, p) l).
  Proof.
    revert acc. induction l as [|[n0 p0] l IH]; intros acc; cbn [fold_left map fst snd In].
    - repeat split; try tauto.
    - destruct (IH (alist_set str_eqb n0 p0 acc)) as [I1 [I2 I3]]. cbn zeta in *. repeat split.
      + intros ND. apply I1. apply nodup_alist_set. exact ND.
      + intros H. apply I2 in H as [H|H]; [|tauto]. apply keys_alist_set in H. intuition congruence.
      + intros H. apply I2. rewrite keys_alist_set. intuition congruence.
      + intros n p H. apply I3 in H as [H|H]; [|tauto].
        apply in_alist_set in H as [[-> ->]|H]; tauto.
  Qed.

  Lemma iface_dict_ok (o : obj P) : ifaces_ok (iface_dict o) (o_ifaces o).
  Proof.
    unfold ifaces_ok, iface_dict.
    destruct (iface_dict_fold (o_ifaces o) []) as [I1 [I2 I3]]. cbn zeta in *. repeat split.
    - apply I1. constructor.
    - intros H. apply I2 in H as [[]|H]. exact H.
    - intros H. apply I2. right; exact H.
    - intros n p H. apply I3 in H as [[]|H]. exact H.
  Qed.
End IfaceDict.

(* sorted(keys) is a permutation of the keys *)
Lemma insert_sorted_perm x l : Permutation (insert_sorted x l) (x :: l).
Proof.
  induction l as [|y l IH]; cbn [insert_sorted]; [reflexivity|].
  destruct (str_leb x y); [reflexivity|].
  rewrite IH. apply perm_swap.
Qed.

Lemma sort_paths_perm l : Permutation (sort_paths l) l.
Proof.
  induction l as [|x l IH]; cbn [sort_paths fold_right]; [reflexivity|].
  rewrite insert_sorted_perm. constructor. exact IH.
Qed.

Lemma in_sort_paths x l : In x (sort_paths l) <-> In x l.
Proof.
  split; apply Permutation_in; [apply sort_paths_perm | symmetry; apply sort_paths_perm].
Qed.

Lemma nodup_sort_paths l : NoDup l -> NoDup (sort_paths l).
Proof. apply Permutation_NoDup. symmetry. apply sort_paths_perm. Qed.

Lemma nodup_snoc {A} (l : list A) c : NoDup l -> ~ In c l -> NoDup (l ++ [c]).
Proof.
  induction l as [|a l IH]; cbn [app]; intros ND Hn.
  - constructor; [intros []|constructor].
  - inversion ND as [|? ? Ha ND']; subst. constructor.
    + rewrite in_app_iff. cbn [In]. intros [H|[H|[]]]; [tauto|]. apply Hn. left; symmetry; exact H.
    + apply IH; [exact ND'|]. intros H. apply Hn. right; exact H.
Qed.

(* the "append if not yet present" loop of the introspection code *)
Section Matches.
  Variables (cond : str -> bool) (g : str -> str).

  Definition match_step (matches : list str) (path : str) : list str :=
    if cond path then
      let c := g path in
      if existsb (str_eqb c) matches then matches else matches ++ [c]
    else matches.

  Lemma existsb_str_eqb c l : existsb (str_eqb c) l = true <-> In c l.
  Proof.
    rewrite existsb_exists. split.
    - intros [x [H E]]. apply str_eqb_spec in E. subst. exact H.
    - intros H. exists c. split; [exact H|apply str_eqb_refl].
  Qed.

  Lemma match_fold l acc :
    (NoDup acc -> NoDup (fold_left match_step l acc)) /\
    (forall c, In c (fold_left match_step l acc) <->
               In c acc \/ exists path, In path l /\ cond path = true /\ g path = c).
  Proof.
    revert acc. induction l as [|x l IH]; intros acc; cbn [fold_left].
    - split; [tauto|]. intros c. split; [tauto|]. intros [H|[p [[] _]]]. exact H.
    - destruct (IH (match_step acc x)) as [I1 I2]. split.
      + intros ND. apply I1. unfold match_step. destruct (cond x); [|exact ND].
        cbn zeta. destruct (existsb (str_eqb (g x)) acc) eqn:E; [exact ND|].
        apply nodup_snoc; [exact ND|].
        intros Ha. apply existsb_str_eqb in Ha. congruence.
      + intros c. rewrite I2. unfold match_step. cbn [In]. destruct (cond x) eqn:C.
        * cbn zeta. destruct (existsb (str_eqb (g x)) acc) eqn:E.
          -- apply existsb_str_eqb in E. split.
             ++ intros [H|[p [Hp Hc]]]; [tauto|right; exists p; tauto].
             ++ intros [H|[p [[->|Hp] [Hc Hg]]]]; [tauto|left; congruence|right; exists p; tauto].
          -- rewrite in_app_iff. cbn [In]. split.
             ++ intros [[H|[H|[]]]|[p [Hp Hc]]]; [tauto|right; exists x; tauto|right; exists p; tauto].
             ++ intros [H|[p [[->|Hp] [Hc Hg]]]]; [tauto|left; right; left; exact Hg|right; exists p; tauto].
        * split.
          -- intros [H|[p [Hp Hc]]]; [tauto|right; exists p; tauto].
          -- intros [H|[p [[->|Hp] [Hc Hg]]]]; [tauto|congruence|right; exists p; tauto].
  Qed.
End Matches.

Lemma path_eqb_spec a b : path_eqb a b = true <-> a = b.
Proof. apply list_eqb_spec. apply str_eqb_spec. Qed.

Lemma path_eqb_refl a : path_eqb a a = true.
Proof. apply path_eqb_spec. reflexivity. Qed.

Lemma nodup_flat_map_keys {A V} (f : A -> list (A * V)) l :
  NoDup l -> (forall x, f x = [] \/ exists v, f x = [(x, v)]) ->
  NoDup (map fst (flat_map f l)) /\ (forall k, In k (map fst (flat_map f l)) -> In k l).
Proof.
  intros ND Hf. induction l as [|a l IH]; cbn [flat_map map].
  - split; [constructor|tauto].
  - inversion ND as [|? ? Ha ND']; subst. destruct (IH ND') as [I1 I2].
    destruct (Hf a) as [->|[v ->]]; cbn [app map fst].
    + split; [exact I1|]. intros k H. right. apply I2. exact H.
    + split.
      * constructor; [|exact I1]. intros H. apply Ha. apply I2. exact H.
      * intros k [<-|H]; [left; reflexivity|right; apply I2; exact H].
Qed.

(* ------------------------------------------------------------------------ *)
(* D. the table refines the path tree                                         *)

Section Refinement.
  Variable P : Type.
  Notation obj := (obj P).
  Notation exports := (exports P).
  Notation event := (event P).
  Notation tree := (tree obj).

  Notation abs_event := (abs_event P).
  Notation valid_event := (valid_event P).
  Notation valid_history := (valid_history P).

  Record Inv (s : exports) (t : tree) : Prop := {
    inv_nodup : NoDup (keys obj s);
    inv_keys : forall k o, In (k, o) s -> o_path o = k /\ validate_path k = true;
    inv_get : forall k, first_is c_slash k = true -> alist_get str_eqb k s = t (comps k);
    inv_dom : forall K o, t K = Some o -> exists k, validate_path k = true /\ comps k = K
  }.

  Lemma inv_init : Inv [] empty.
  Proof.
    split.
    - constructor.
    - intros k o [].
    - reflexivity.
    - discriminate.
  Qed.

  Lemma eqb_comps k p :
    first_is c_slash k = true -> first_is c_slash p = true ->
    path_eqb (comps k) (comps p) = str_eqb k p.
  Proof.
    intros Fk Fp. destruct (str_eqb k p) eqn:E.
    - apply str_eqb_spec in E. subst. apply path_eqb_refl.
    - apply str_eqb_false in E. destruct (path_eqb (comps k) (comps p)) eqn:E2; [|reflexivity].
      apply path_eqb_spec in E2. exfalso. apply E. apply comps_inj; assumption.
  Qed.

  Lemma unexport_get p s k :
    NoDup (keys obj s) ->
    alist_get str_eqb k (fst (unexport_object p s)) =
    if str_eqb k p then None else alist_get str_eqb k s.
  Proof.
    intros ND. unfold unexport_object. destruct (alist_get str_eqb p s) eqn:G; cbn [fst].
    - apply alist_get_del. exact ND.
    - destruct (str_eqb k p) eqn:E; [|reflexivity]. apply str_eqb_spec in E. subst. exact G.
  Qed.

  Lemma inv_step s t e :
    Inv s t -> valid_event e -> Inv (fst (step s e)) (s_step t (abs_event e)).
  Proof.
    intros [I1 I2 I3 I4] V. destruct e as [o|p]; cbn [step abs_event s_step valid_event] in *.
    - (* export *)
      pose proof (valid_first _ V) as Fo.
      unfold export_object. cbn [fst]. split.
      + apply nodup_alist_set. exact I1.
      + intros k o' H. apply in_alist_set in H as [[-> ->]|H]; [split; [reflexivity|exact V]|apply I2; exact H].
      + intros k Fk. rewrite alist_get_set, (eqb_comps k (o_path o) Fk Fo).
        destruct (str_eqb k (o_path o)); [reflexivity|apply I3; exact Fk].
      + intros K o'. destruct (path_eqb K (comps (o_path o))) eqn:E.
        * apply path_eqb_spec in E. intros _. exists (o_path o). split; [exact V|symmetry; exact E].
        * apply I4.
    - (* unexport *)
      pose proof (valid_first _ V) as Fp. split.
      + unfold unexport_object. destruct (alist_get str_eqb p s); cbn [fst]; [apply nodup_alist_del|]; exact I1.
      + intros k o' H. apply I2. unfold unexport_object in H.
        destruct (alist_get str_eqb p s); cbn [fst] in H; [eapply in_alist_del; exact H|exact H].
      + intros k Fk. rewrite (unexport_get p s k I1), (eqb_comps k p Fk Fp).
        destruct (str_eqb k p); [reflexivity|apply I3; exact Fk].
      + intros K o'. destruct (path_eqb K (comps p)); [discriminate|apply I4].
  Qed.

  Lemma inv_run_from h : forall s t,
    Inv s t -> valid_history h -> Inv (run_from s h) (fold_left s_step (map abs_event h) t).
  Proof.
    induction h as [|e h IH]; intros s t I V; cbn [run_from fold_left map]; [exact I|].
    inversion V as [|? ? Ve Vh]; subst.
    apply (IH (fst (step s e)) (s_step t (abs_event e))); [apply inv_step; assumption|exact Vh].
  Qed.

  Lemma inv_run h : valid_history h -> Inv (run h) (s_run (map abs_event h)).
  Proof. intros V. apply inv_run_from; [exact inv_init|exact V]. Qed.

  (* ---- observations under the invariant -------------------------------- *)
  Section Obs.
    Variables (s : exports) (t : tree).
    Hypothesis I : Inv s t.
    Variable q : str.
    Hypothesis Vq : validate_path q = true.

    Let Fq : first_is c_slash q = true := valid_first q Vq.

    Lemma get_q : alist_get str_eqb q s = t (comps q).
    Proof. apply (inv_get s t I). exact Fq. Qed.

    Lemma key_facts k o :
      alist_get str_eqb k s = Some o ->
      o_path o = k /\ validate_path k = true /\ In k (keys obj s) /\ t (comps k) = Some o.
    Proof.
      intros G. pose proof (alist_get_in _ _ _ _ G) as Hin.
      destruct (inv_keys s t I k o Hin) as [E V]. repeat split; try assumption.
      - apply (in_map fst) in Hin. exact Hin.
      - rewrite <- G. symmetry. apply (inv_get s t I). apply valid_first. exact V.
    Qed.

    Lemma dom_key K o :
      t K = Some o ->
      exists k, validate_path k = true /\ comps k = K /\ alist_get str_eqb k s = Some o /\ render K = k.
    Proof.
      intros H. destruct (inv_dom s t I K o H) as [k [V E]]. exists k.
      pose proof (valid_first k V) as F. repeat split; try assumption.
      - rewrite (inv_get s t I k F), E. exact H.
      - rewrite <- E. apply render_comps. exact F.
    Qed.

    (* ordinary calls and GetManagedObjects: UnknownObject iff not bound *)
    Lemma plain_reply :
      handle CPlain q s = match t (comps q) with Some o => RDispatch o | None => RUnknownObject end.
    Proof.
      unfold handle, handle_with. rewrite get_q. destruct (t (comps q)); reflexivity.
    Qed.

    Lemma managed_in k i :
      In (k, i) (get_managed q s) <->
      exists K o, k = render K /\ managed_by t (comps q) K o /\ i = iface_dict o.
    Proof.
      unfold get_managed, managed_with. rewrite in_flat_map. split.
      - intros [x [Hx Hin]]. apply (proj1 (in_sort_paths _ _)) in Hx.
        destruct (starts_with (path_prefix q) x) eqn:SW; cbn [negb orb] in Hin; [|destruct Hin].
        destruct (str_eqb x q) eqn:E; [destruct Hin|]. apply str_eqb_false in E.
        destruct (in_keys_get _ _ _ Hx) as [o G]. rewrite G in Hin.
        destruct Hin as [Hin|[]]. injection Hin as <- <-.
        destruct (key_facts x o G) as [Ep [Vx [_ Tx]]].
        apply starts_with_spec in SW as [t0 Et].
        assert (C : comps x = comps q ++ split_on 47 t0).
        { rewrite Et. apply comps_beneath; [exact Vq|].
          intros -> ->. apply E. rewrite Et. reflexivity. }
        exists (comps x), o. split; [symmetry; apply render_comps, valid_first, Vx|].
        split; [|reflexivity]. split; [|exact Tx].
        exists (hd [] (split_on 47 t0)), (tl (split_on 47 t0)).
        rewrite <- split_on_hd_tl. exact C.
      - intros [K [o [-> [[[c [r EK]] TK] ->]]]].
        destruct (dom_key K o TK) as [k [Vk [Ck [G Rk]]]]. rewrite Rk.
        destruct (key_facts k o G) as [_ [_ [Hk _]]].
        exists k. split; [apply in_sort_paths; exact Hk|].
        assert (Et : k = path_prefix q ++ join_with 47 (c :: r)).
        { apply beneath_text; [exact Vq|apply valid_first; exact Vk|congruence]. }
        assert (SW : starts_with (path_prefix q) k = true) by (rewrite Et; apply starts_with_app).
        rewrite SW. cbn [negb orb].
        destruct (str_eqb k q) eqn:E.
        + apply str_eqb_spec in E. exfalso.
          rewrite E, EK in Ck. apply (f_equal (@length _)) in Ck. rewrite app_length in Ck. cbn [length] in Ck. lia.
        + rewrite G. left; reflexivity.
    Qed.

    Lemma managed_keys :
      NoDup (map fst (get_managed q s)) /\
      forallb validate_path (map fst (get_managed q s)) = true.
    Proof.
      unfold get_managed, managed_with.
      match goal with |- context [flat_map ?f _] => set (F := f) end.
      assert (HF : forall x, F x = [] \/ exists v, F x = [(x, v)]).
      { intros x. unfold F. destruct (negb _ || _); [left; reflexivity|].
        destruct (alist_get str_eqb x s); [right; eexists; reflexivity|left; reflexivity]. }
      destruct (nodup_flat_map_keys F (sort_paths (keys obj s))
                  (nodup_sort_paths _ (inv_nodup s t I)) HF) as [N1 N2].
      split; [exact N1|]. apply forallb_forall. intros k Hk. apply N2 in Hk.
      apply (proj1 (in_sort_paths _ _)) in Hk. destruct (in_keys_get _ _ _ Hk) as [o G].
      destruct (key_facts k o G) as [_ [V _]]. exact V.
    Qed.

    Lemma managed_reply o :
      t (comps q) = Some o -> handle CManaged q s = RManaged (get_managed q s).
    Proof.
      intros T. unfold handle, handle_with. rewrite get_q, T.
      rewrite <- get_q in T. destruct (key_facts q o T) as [-> _].
      destruct managed_keys as [_ ->]. reflexivity.
    Qed.

    Lemma managed_unknown :
      t (comps q) = None -> handle CManaged q s = RUnknownObject.
    Proof. intros T. unfold handle, handle_with. rewrite get_q, T. reflexivity. Qed.

    (* introspection *)
    Definition icond (path : str) : bool :=
      starts_with (path_prefix q) path && negb (true && str_eqb path (path_prefix q)).
    Definition ichild (path : str) : str :=
      hd [] (split_on c_slash (skipn (length (path_prefix q)) path)).

    Lemma intro_children_fold :
      intro_children_with true q s = fold_left (match_step icond ichild) (keys obj s) [].
    Proof. reflexivity. Qed.

    Lemma children_in c :
      In c (intro_children_with true q s) <-> child_of t (comps q) c.
    Proof.
      rewrite intro_children_fold.
      destruct (match_fold icond ichild (keys obj s) []) as [_ M]. rewrite M. clear M.
      cbn [In]. split.
      - intros [[]|[x [Hx [C G]]]].
        unfold icond in C. apply andb_true_iff in C as [SW NE].
        cbn [andb] in NE. apply negb_true_iff, str_eqb_false in NE.
        destruct (in_keys_get _ _ _ Hx) as [o Go].
        destruct (key_facts x o Go) as [_ [Vx [_ Tx]]].
        apply starts_with_spec in SW as [t0 Et].
        assert (C : comps x = comps q ++ split_on 47 t0).
        { rewrite Et. apply comps_beneath; [exact Vq|].
          intros -> ->. apply NE. rewrite Et. reflexivity. }
        unfold ichild in G. rewrite Et, skipn_app_exact in G. change c_slash with 47 in G.
        exists (tl (split_on 47 t0)). unfold bound.
        rewrite <- G, <- split_on_hd_tl, <- C, Tx. discriminate.
      - intros [r B]. unfold bound in B. right.
        destruct (t (comps q ++ c :: r)) as [o|] eqn:TK; [clear B|congruence].
        destruct (dom_key _ o TK) as [k [Vk [Ck [G _]]]].
        destruct (key_facts k o G) as [_ [_ [Hk _]]].
        exists k. split; [exact Hk|].
        assert (Et : k = path_prefix q ++ join_with 47 (c :: r)).
        { apply beneath_text; [exact Vq|apply valid_first; exact Vk|exact Ck]. }
        split.
        + unfold icond. rewrite Et at 1. rewrite starts_with_app. cbn [andb].
          apply negb_true_iff, str_eqb_false. intros E.
          pose proof (path_prefix_neq_valid q k Vq Vk E) as Eq.
          rewrite Eq, path_prefix_root in E. rewrite E, comps_root in Ck.
          destruct (comps q); discriminate.
        + unfold ichild. rewrite Et, skipn_app_exact. change c_slash with 47.
          rewrite split_join; [reflexivity|discriminate|].
          pose proof (comps_sep_free k (valid_first k Vk)) as SF. rewrite Ck in SF.
          apply forallb_app_r in SF. exact SF.
    Qed.

    Lemma children_nodup : NoDup (intro_children_with true q s).
    Proof.
      rewrite intro_children_fold.
      destruct (match_fold icond ichild (keys obj s) []) as [N _]. apply N. constructor.
    Qed.

    Lemma introspect_reply :
      (handle CIntrospect q s = RUnknownObject /\ ~ introspectable t (comps q)) \/
      (exists b m, handle CIntrospect q s = RIntrospect b m /\
                   introspectable t (comps q) /\
                   NoDup m /\ (forall c, In c m <-> child_of t (comps q) c) /\
                   (b = true <-> bound t (comps q))).
    Proof.
      unfold handle, handle_with. cbn [negb]. unfold introspect_with.
      pose proof children_in as CI. pose proof children_nodup as CN.
      destruct (intro_children_with true q s) as [|c0 m] eqn:EM.
      - rewrite get_q. destruct (t (comps q)) as [o|] eqn:T.
        + right. exists true, []. split; [reflexivity|]. split; [left; unfold bound; congruence|].
          split; [constructor|]. split; [exact CI|]. unfold bound. rewrite T. split; [discriminate|reflexivity].
        + left. split; [reflexivity|]. intros [B|[c Hc]]; [unfold bound in B; congruence|].
          apply CI in Hc. destruct Hc.
      - right. exists (match alist_get str_eqb q s with Some _ => true | None => false end), (c0 :: m).
        split; [destruct (alist_get str_eqb q s); reflexivity|].
        split; [right; exists c0; apply CI; left; reflexivity|].
        split; [exact CN|]. split; [exact CI|].
        rewrite get_q. unfold bound. destruct (t (comps q)); split; congruence.
    Qed.

    (* signals *)
    Lemma signal_step e :
      valid_event e ->
      snd (step s e) =
      match s_announce t (abs_event e) with
      | Some (Added K o) => Ok (SigAdded (render K) (render K) (iface_dict o))
      | Some (Removed K o) => Ok (SigRemoved (render K) (render K) (map fst (o_ifaces o)))
      | None => Err EKey
      end.
    Proof.
      intros V. destruct e as [o|p]; cbn [step abs_event s_announce valid_event] in *.
      - unfold export_object. cbn [snd]. rewrite V, (render_comps _ (valid_first _ V)). reflexivity.
      - unfold unexport_object. rewrite <- (inv_get s t I p (valid_first p V)).
        destruct (alist_get str_eqb p s) as [o|] eqn:G; cbn [snd]; [|reflexivity].
        destruct (key_facts p o G) as [-> _]. rewrite V, (render_comps _ (valid_first _ V)). reflexivity.
    Qed.
  End Obs.
End Refinement.

(* ------------------------------------------------------------------------ *)
(* E. the executable form of the specification (the harness oracle) agrees
      with its declarative form                                               *)

Lemma strip_prefix_spec p q r : strip_prefix p q = Some r <-> q = p ++ r.
Proof.
  revert q; induction p as [|a p IH]; intros q; cbn [strip_prefix app].
  - split; [intros H; injection H as ->; reflexivity|intros ->; reflexivity].
  - destruct q as [|b q]; [split; discriminate|].
    destruct (str_eqb a b) eqn:E.
    + apply str_eqb_spec in E. subst b. rewrite IH. split; [intros ->; reflexivity|intros H; injection H as ->; reflexivity].
    + apply str_eqb_false in E. split; [discriminate|intros H; injection H as -> _; congruence].
Qed.

Lemma first_below_spec p q c : first_below p q = Some c <-> exists r, q = p ++ c :: r.
Proof.
  unfold first_below. destruct (strip_prefix p q) as [[|c' r']|] eqn:E.
  - apply strip_prefix_spec in E. split; [discriminate|]. intros [r H]. rewrite H in E.
    apply app_inv_head in E. discriminate.
  - apply strip_prefix_spec in E. split.
    + intros H; injection H as ->. exists r'. exact E.
    + intros [r H]. rewrite H in E. apply app_inv_head in E. injection E as -> _. reflexivity.
  - split; [discriminate|]. intros [r H].
    assert (X : strip_prefix p q = Some (c :: r)) by (apply strip_prefix_spec; exact H). congruence.
Qed.

Lemma first_below_beneath p q : (exists c, first_below p q = Some c) <-> strictly_beneath p q.
Proof.
  unfold strictly_beneath. split.
  - intros [c H]. apply first_below_spec in H as [r H]. exists c, r. exact H.
  - intros [c [r H]]. exists c. apply first_below_spec. exists r. exact H.
Qed.

Section Dedupe.
  Variables (A : Type) (eqb : A -> A -> bool).
  Hypothesis eqb_ok : forall a b, eqb a b = true <-> a = b.

  Lemma existsb_eqb x l : existsb (eqb x) l = true <-> In x l.
  Proof.
    rewrite existsb_exists. split.
    - intros [y [H E]]. apply eqb_ok in E. subst. exact H.
    - intros H. exists x. split; [exact H|apply eqb_ok; reflexivity].
  Qed.

  Lemma dedupe_in x l : In x (dedupe eqb l) <-> In x l.
  Proof.
    induction l as [|a l IH]; cbn [dedupe In]; [tauto|].
    destruct (existsb (eqb a) l) eqn:E.
    - apply existsb_eqb in E. rewrite IH. split; [tauto|intros [<-|H]; assumption].
    - cbn [In]. rewrite IH. tauto.
  Qed.

  Lemma dedupe_nodup l : NoDup (dedupe eqb l).
  Proof.
    induction l as [|a l IH]; cbn [dedupe]; [constructor|].
    destruct (existsb (eqb a) l) eqn:E; [exact IH|].
    constructor; [|exact IH]. rewrite dedupe_in. intros H. apply existsb_eqb in H. congruence.
  Qed.
End Dedupe.

Section Oracle.
  Variable O : Type.
  Variables (t : tree O) (dom : list path).
  Hypothesis covers : forall K, bound t K -> In K dom.

  Lemma is_bound_spec K : is_bound t K = true <-> bound t K.
  Proof. unfold is_bound, bound. destruct (t K); split; congruence. Qed.

  Lemma x_children_spec p c : In c (x_children t dom p) <-> child_of t p c.
  Proof.
    unfold x_children. rewrite (dedupe_in _ _ str_eqb_spec), in_flat_map. split.
    - intros [K [HK Hin]]. destruct (is_bound t K) eqn:B; [|destruct Hin].
      apply is_bound_spec in B. destruct (first_below p K) as [c'|] eqn:F; [|destruct Hin].
      destruct Hin as [->|[]]. apply first_below_spec in F as [r ->]. exists r. exact B.
    - intros [r B]. exists (p ++ c :: r). split; [apply covers; exact B|].
      apply is_bound_spec in B. rewrite B.
      assert (F : first_below p (p ++ c :: r) = Some c) by (apply first_below_spec; exists r; reflexivity).
      rewrite F. left; reflexivity.
  Qed.

  Lemma x_children_nodup p : NoDup (x_children t dom p).
  Proof. apply (dedupe_nodup _ _ str_eqb_spec). Qed.

  Lemma x_introspectable_spec p : x_introspectable t dom p = true <-> introspectable t p.
  Proof.
    unfold x_introspectable, introspectable. rewrite orb_true_iff, is_bound_spec.
    pose proof (x_children_spec p) as XC.
    destruct (x_children t dom p) as [|c0 m].
    - split; [intros [H|H]; [left; exact H|discriminate]|].
      intros [H|[c H]]; [left; exact H|]. apply XC in H. destruct H.
    - split; [intros _; right; exists c0; apply XC; left; reflexivity|]. intros _. right; reflexivity.
  Qed.

  Lemma x_managed_spec p K o : In (K, o) (x_managed t dom p) <-> managed_by t p K o.
  Proof.
    unfold x_managed, managed_by. rewrite in_flat_map. split.
    - intros [K' [HK Hin]]. destruct (first_below p K') as [c|] eqn:F; [|destruct Hin].
      destruct (t K') as [o'|] eqn:T; [|destruct Hin]. destruct Hin as [Hin|[]].
      injection Hin as -> ->. split; [|exact T]. apply first_below_beneath. exists c; exact F.
    - intros [SB T]. exists K. split.
      + apply (dedupe_in _ _ path_eqb_spec). apply covers. unfold bound. congruence.
      + apply first_below_beneath in SB as [c F]. rewrite F, T. left; reflexivity.
  Qed.

  Lemma x_managed_nodup p : NoDup (map fst (x_managed t dom p)).
  Proof.
    unfold x_managed.
    apply (nodup_flat_map_keys
             (fun q => match first_below p q, t q with Some _, Some o => [(q, o)] | _, _ => [] end)).
    - apply (dedupe_nodup _ _ path_eqb_spec).
    - intros x. destruct (first_below p x); [|left; reflexivity].
      destruct (t x); [right; eexists; reflexivity|left; reflexivity].
  Qed.
End Oracle.

Lemma s_run_covers {O} (h : list (sevent O)) : forall t K,
  bound (fold_left s_step h t) K -> bound t K \/ In K (map sevent_path h).
Proof.
  induction h as [|e h IH]; intros t K B; cbn [fold_left map In] in *; [left; exact B|].
  apply IH in B as [B|B]; [|right; right; exact B].
  destruct e as [p o|p]; cbn [s_step sevent_path] in *; unfold bound in *.
  - destruct (path_eqb K p) eqn:E; [apply path_eqb_spec in E; right; left; congruence|left; exact B].
  - destruct (path_eqb K p) eqn:E; [congruence|left; exact B].
Qed.

Lemma s_run_dom {O} (h : list (sevent O)) dom :
  (forall e, In e h -> In (sevent_path e) dom) -> forall K, bound (s_run h) K -> In K dom.
Proof.
  intros Hd K B. apply s_run_covers in B as [B|B]; [unfold bound, empty in B; congruence|].
  apply in_map_iff in B as [e [<- He]]. apply Hd. exact He.
Qed.

(* ------------------------------------------------------------------------ *)
(* F. closed statements over all histories                                    *)

Section Closed.
  Variable P : Type.
  Implicit Types (h : list (event P)) (q : str).

  Notation tree_of := (tree_of P).

  Theorem table_exact h :
    valid_history P h ->
    (forall q, validate_path q = true -> alist_get str_eqb q (run h) = tree_of h (comps q)) /\
    (forall k o, In (k, o) (run h) -> validate_path k = true /\ o_path o = k /\ tree_of h (comps k) = Some o) /\
    (forall K o, tree_of h K = Some o -> In (render K, o) (run h)).
  Proof.
    intros V. pose proof (inv_run P h V) as I. fold (tree_of h) in I. repeat split.
    - intros q Vq. apply (get_q P _ _ I q Vq).
    - apply (inv_keys P _ _ I k o H).
    - apply (inv_keys P _ _ I k o H).
    - destruct (inv_keys P _ _ I k o H) as [_ Vk].
      rewrite <- (inv_get P _ _ I k (valid_first k Vk)).
      apply in_alist_get; [apply (inv_nodup P _ _ I)|exact H].
    - intros K o T. destruct (dom_key P _ _ I K o T) as [k [_ [_ [G ->]]]].
      apply alist_get_in. exact G.
  Qed.

  Theorem unknown_object_iff h q :
    valid_history P h -> validate_path q = true ->
    (forall c, handle c q (run h) = RUnknownObject <->
               match c with
               | CIntrospect => ~ introspectable (tree_of h) (comps q)
               | _ => ~ bound (tree_of h) (comps q)
               end) /\
    (forall o, tree_of h (comps q) = Some o -> handle CPlain q (run h) = RDispatch o).
  Proof.
    intros V Vq. pose proof (inv_run P h V) as I. fold (tree_of h) in I. split.
    - intros c. destruct c.
      + rewrite (plain_reply P _ _ I q Vq). unfold bound.
        destruct (tree_of h (comps q)); split; try congruence. intros H; exfalso; apply H; discriminate.
      + destruct (introspect_reply P _ _ I q Vq) as [[E N]|[b [m [E [Y _]]]]]; rewrite E.
        * tauto.
        * split; [discriminate|tauto].
      + unfold bound. destruct (tree_of h (comps q)) as [o|] eqn:T.
        * rewrite (managed_reply P _ _ I q Vq o T). split; [discriminate|]. intros H; exfalso; apply H; discriminate.
        * rewrite (managed_unknown P _ _ I q Vq T). tauto.
    - intros o T. rewrite (plain_reply P _ _ I q Vq), T. reflexivity.
  Qed.

  Theorem children_exact h q :
    valid_history P h -> validate_path q = true ->
    (handle CIntrospect q (run h) = RUnknownObject /\ ~ introspectable (tree_of h) (comps q)) \/
    (exists b m, handle CIntrospect q (run h) = RIntrospect b m /\
                 introspectable (tree_of h) (comps q) /\
                 NoDup m /\ (forall c, In c m <-> child_of (tree_of h) (comps q) c) /\
                 (b = true <-> bound (tree_of h) (comps q))).
  Proof.
    intros V Vq. apply (introspect_reply P _ _ (inv_run P h V) q Vq).
  Qed.

  Theorem managed_exact h q o :
    valid_history P h -> validate_path q = true -> tree_of h (comps q) = Some o ->
    exists d, handle CManaged q (run h) = RManaged d /\
              NoDup (map fst d) /\
              forall k i, In (k, i) d <->
                          exists K o', k = render K /\ managed_by (tree_of h) (comps q) K o' /\
                                       i = iface_dict o'.
  Proof.
    intros V Vq T. pose proof (inv_run P h V) as I. fold (tree_of h) in I.
    exists (get_managed q (run h)). split; [apply (managed_reply P _ _ I q Vq o T)|].
    split; [apply (managed_keys P _ _ I)|]. intros k i. apply (managed_in P _ _ I q Vq).
  Qed.

  Theorem signals_exact h e :
    valid_history P h -> valid_event P e ->
    snd (step (run h) e) =
    match s_announce (tree_of h) (abs_event P e) with
    | Some (Added K o) => Ok (SigAdded (render K) (render K) (iface_dict o))
    | Some (Removed K o) => Ok (SigRemoved (render K) (render K) (map fst (o_ifaces o)))
    | None => Err EKey
    end.
  Proof. intros V Ve. apply (signal_step P _ _ (inv_run P h V) e Ve). Qed.

  Theorem oracle_executable h dom p :
    (forall e, In e h -> In (sevent_path (abs_event P e)) dom) ->
    let t := tree_of h in
    (forall c, In c (x_children t dom p) <-> child_of t p c) /\
    NoDup (x_children t dom p) /\
    (x_introspectable t dom p = true <-> introspectable t p) /\
    (forall K o, In (K, o) (x_managed t dom p) <-> managed_by t p K o) /\
    NoDup (map fst (x_managed t dom p)).
  Proof.
    intros Hd t.
    assert (C : forall K, bound t K -> In K dom).
    { apply s_run_dom. intros e He. apply in_map_iff in He as [e0 [<- He0]]. apply Hd. exact He0. }
    split; [intros c; apply (x_children_spec _ t dom C p c)|].
    split; [apply x_children_nodup|].
    split; [apply (x_introspectable_spec _ t dom C p)|].
    split; [intros K o; apply (x_managed_spec _ t dom C p K o)|].
    apply x_managed_nodup.
  Qed.
End Closed.

(* ------------------------------------------------------------------------ *)
(* G. witnesses                                                               *)

Definition w_root : str := [47].
Definition w_a : str := [47; 97].
Definition w_ab : str := [47; 97; 47; 98].
Definition w_abc : str := [47; 97; 47; 98; 99].            (* /a/bc *)
Definition w_ab_c : str := [47; 97; 47; 98; 47; 99].       (* /a/b/c *)
Definition w_zz : str := [47; 122; 122].
Definition w_if : str := [105; 46; 102].                   (* interface "i.f" *)
Definition w_obj (n : N) (p : str) : obj nat := mkObj n p [(w_if, 7%nat)].

(* D14: at the pinned commit /a/bc is reported beneath /a/b *)
Lemma managed_legacy_refuted_w :
  let h := [EExport (w_obj 0 w_ab); EExport (w_obj 1 w_abc)] in
  valid_history nat h /\ validate_path w_ab = true /\ validate_path w_abc = true /\
  handle_legacy CManaged w_ab (run h) = RManaged [(w_abc, [(w_if, 7%nat)])] /\
  ~ strictly_beneath (comps w_ab) (comps w_abc) /\
  handle CManaged w_ab (run h) = RManaged [].
Proof.
  cbn zeta. split; [repeat constructor|]. repeat (split; [reflexivity|]).
  split; [|reflexivity]. intros [c [r H]]. vm_compute in H. discriminate.
Qed.

(* D29: at the pinned commit an exported root lists a child with the empty name *)
Lemma children_legacy_refuted_w :
  let h := [EExport (w_obj 0 w_root)] in
  valid_history nat h /\ validate_path w_root = true /\
  handle_legacy CIntrospect w_root (run h) = RIntrospect true [[]] /\
  ~ child_of (tree_of nat h) (comps w_root) [] /\
  handle CIntrospect w_root (run h) = RIntrospect true [].
Proof.
  cbn zeta. split; [repeat constructor|]. repeat (split; [reflexivity|]).
  split; [|reflexivity]. intros [r B]. apply B. reflexivity.
Qed.

Lemma nonvacuous_w :
  let h := [EExport (w_obj 0 w_root); EExport (w_obj 1 w_ab); EExport (w_obj 2 w_abc);
            EExport (w_obj 3 w_ab_c); EExport (w_obj 4 w_ab); EUnexport w_abc; EUnexport w_zz] in
  valid_history nat h /\
  tree_of nat h (comps w_ab) = Some (w_obj 4 w_ab) /\
  handle CPlain w_ab (run h) = RDispatch (w_obj 4 w_ab) /\
  handle CPlain w_abc (run h) = RUnknownObject /\
  handle CIntrospect w_a (run h) = RIntrospect false [[98]] /\
  handle CIntrospect w_root (run h) = RIntrospect true [[97]] /\
  handle CIntrospect w_zz (run h) = RUnknownObject /\
  handle CManaged w_ab (run h) = RManaged [(w_ab_c, [(w_if, 7%nat)])] /\
  handle CManaged w_a (run h) = RUnknownObject /\
  snd (step (run h) (EUnexport w_ab)) = Ok (SigRemoved w_ab w_ab [w_if]) /\
  snd (step (run h) (EUnexport w_abc)) = Err EKey /\
  snd (step (run h) (EExport (w_obj 5 w_a))) = Ok (SigAdded w_a w_a [(w_if, 7%nat)]).
Proof.
  cbn zeta. split; [repeat constructor|]. repeat (split; [reflexivity|]). reflexivity.
Qed.
