(* Proofs about the client handshake model (Model/AuthClient.v) against the
   specification (Spec/AuthClientSpec.v): every session of the model, for every
   sequence of server lines, every user name, keyring, randomness and hash
   function, is judged favourably by [session_verdict]. *)
From Tx Require Import Lib.Base Lib.Sexp Model.AuthClient Spec.AuthClientSpec
  Model.AuthClientLoop Proofs.AuthClientSpecLemmas.
Local Open Scope N_scope.

(* ------------------------------------------------------------------------- *)
(* the model's parsing agrees with the specification's reading of a line     *)

Lemma split_first_space_word l :
  match split_first_space l with
  | Some (a, b) => word l = a /\ args l = Some b
  | None => word l = l /\ args l = None
  end.
Proof.
  induction l as [|c r IH]; cbn [split_first_space word args]; [split; reflexivity|].
  destruct (c =? 32); [split; reflexivity|].
  destruct (split_first_space r) as [[a b]|]; destruct IH as [-> ->]; split; reflexivity.
Qed.

Lemma lstrip_eq l : lstrip l = drop_blanks l.
Proof. induction l as [|c r IH]; cbn [lstrip drop_blanks]; [reflexivity|]. unfold is_ws, blank. rewrite IH. reflexivity. Qed.

Lemma rstrip_eq l : rstrip l = drop_blanks_end l.
Proof. induction l as [|c r IH]; cbn [rstrip drop_blanks_end]; [reflexivity|]. unfold is_ws, blank. rewrite IH. reflexivity. Qed.

Lemma strip_eq l : strip l = trim l.
Proof. unfold strip, trim. rewrite lstrip_eq, rstrip_eq. reflexivity. Qed.

Lemma hexval_hex_digit a x : hexval a = Some x -> hex_digit a = true.
Proof.
  unfold hexval, hex_digit.
  destruct ((48 <=? a) && (a <=? 57)); [reflexivity|].
  destruct ((97 <=? a) && (a <=? 102)); [reflexivity|].
  destruct ((65 <=? a) && (a <=? 70)); [reflexivity | discriminate].
Qed.

Lemma list_pair_ind {A} (P : list A -> Prop) :
  P [] -> (forall a, P [a]) -> (forall a b r, P r -> P (a :: b :: r)) -> forall l, P l.
Proof.
  intros H0 H1 H2. fix IH 1. intros [|a [|b r]]; [exact H0 | apply H1 | apply H2, IH].
Qed.

Lemma unhexlify_valid g : forall x, unhexlify g = Some x ->
  forallb hex_digit g = true /\ Nat.even (length g) = true.
Proof.
  induction g as [|a|a b r IH] using list_pair_ind; intros x H.
  - split; reflexivity.
  - discriminate.
  - cbn [unhexlify] in H.
    destruct (hexval a) eqn:Ha; [|discriminate].
    destruct (hexval b) eqn:Hb; [|discriminate].
    destruct (unhexlify r) eqn:Hr; [|discriminate].
    destruct (IH _ eq_refl) as [F E].
    cbn [forallb length Nat.even]. rewrite (hexval_hex_digit _ _ Ha), (hexval_hex_digit _ _ Hb), F, E.
    split; reflexivity.
Qed.

(* what the model accepts as OK is an OK line of the specification *)
Lemma accepted_ok_line l g :
  str_eqb (word l) w_OK = true -> strip (args_or_empty l) <> [] ->
  unhexlify (strip (args_or_empty l)) = Some g -> ok_line l = true.
Proof.
  intros W N U. unfold ok_line. rewrite W. cbn [andb]. rewrite <- strip_eq.
  destruct (unhexlify_valid _ _ U) as [F E]. unfold valid_guid.
  destruct (strip (args_or_empty l)); [congruence|]. rewrite F, E. reflexivity.
Qed.

(* ------------------------------------------------------------------------- *)
(* the lines the client sends                                                 *)

Definition auth_line (user m : bytes) : bytes :=
  if str_eqb m s_COOKIE then s_AUTH_ ++ m ++ [32] ++ hexlify user
  else if str_eqb m s_ANONYMOUS then s_AUTH_ ++ m ++ [32] ++ hexlify s_txdbus
  else s_AUTH_ ++ m.

Lemma preference_cases m : In m preference -> m = s_EXTERNAL \/ m = s_COOKIE \/ m = s_ANONYMOUS.
Proof. cbn. intros [H|[H|[H|H]]]; subst; auto. contradiction. Qed.

Lemma auth_line_offer user m : In m preference -> offer_of (auth_line user m) = Some m.
Proof. intros H. destruct (preference_cases m H) as [-> | [-> | ->]]; reflexivity. Qed.

Lemma auth_line_not_begin user m : In m preference -> str_eqb (auth_line user m) w_BEGIN = false.
Proof. intros H. destruct (preference_cases m H) as [-> | [-> | ->]]; reflexivity. Qed.

Lemma auth_line_not_negotiate user m : In m preference -> str_eqb (auth_line user m) w_NEGOTIATE_UNIX_FD = false.
Proof. intros H. destruct (preference_cases m H) as [-> | [-> | ->]]; reflexivity. Qed.

(* lines that are neither an offer, nor BEGIN, nor NEGOTIATE_UNIX_FD *)
Definition neutral (x : bytes) : Prop :=
  offer_of x = None /\ str_eqb x w_BEGIN = false /\ str_eqb x w_NEGOTIATE_UNIX_FD = false.

Lemma neutral_DATA : neutral s_DATA. Proof. repeat split. Qed.
Lemma neutral_ERROR : neutral s_ERROR. Proof. repeat split. Qed.
Lemma neutral_CANCEL : neutral s_CANCEL. Proof. repeat split. Qed.
Lemma neutral_DATA_arg y : neutral (s_DATA ++ [32] ++ y). Proof. repeat split. Qed.

(* ------------------------------------------------------------------------- *)
(* handleAuthMessage as a dispatch on the specification's [word]              *)

Section Model.
  Variable user : bytes.
  Variable lookup : bytes -> bytes -> lookup_result.
  Variable nonce : nat -> bytes.
  Variable sha1hex : bytes -> bytes.
  Variable unix : bool.

  Notation handle' := (handle user lookup nonce sha1hex).
  Notation step' := (step user lookup nonce sha1hex).

  Lemma handle_eq c line :
    handle' c line =
    let w := word line in let a := args_or_empty line in
    if str_eqb w w_REJECTED then auth_REJECTED user c a
    else if str_eqb w w_OK then auth_OK c a
    else if str_eqb w w_AGREE_UNIX_FD then auth_AGREE_UNIX_FD c a
    else if str_eqb w w_DATA then auth_DATA lookup nonce sha1hex c a
    else if str_eqb w w_ERROR then auth_ERROR user c a
    else (c, [], true).
  Proof.
    unfold handle, handle_with, args_or_empty.
    pose proof (split_first_space_word line) as H.
    destruct (split_first_space line) as [[a b]|]; destruct H as [-> ->]; reflexivity.
  Qed.

  Lemma try_next_eq c :
    try_next user c =
    match c_order c with
    | [] => (c, [], true)
    | m :: rest => (mk_cst (c_unix c) rest m (c_guid c) (c_authd c) false (c_nonce c), [auth_line user m], false)
    end.
  Proof. reflexivity. Qed.

  (* the answers to DATA are neutral lines and leave everything but the nonce counter alone *)
  Lemma auth_DATA_shape c a :
    exists c' x, auth_DATA lookup nonce sha1hex c a = (c', [x], false) /\ neutral x /\
      c_unix c' = c_unix c /\ c_order c' = c_order c /\ c_authd c' = c_authd c /\ c_fdwait c' = c_fdwait c.
  Proof.
    unfold auth_DATA.
    destruct (str_eqb (c_mech c) s_EXTERNAL).
    { exists c, s_DATA. repeat split. }
    destruct (str_eqb (c_mech c) s_COOKIE).
    2:{ exists c, s_CANCEL. repeat split. }
    unfold cookie_answer.
    destruct (unhexlify (strip a)) as [d|]; [|exists c, s_ERROR; repeat split].
    destruct (split_ws d) as [|t1 [|t2 [|t3 [|t4 ts]]]]; try solve [exists c, s_ERROR; repeat split].
    destruct (lookup t1 t2).
    - exists c, s_ERROR; repeat split.
    - exists (bump_nonce c), s_ERROR; repeat split.
    - eexists (bump_nonce c), _. split; [reflexivity|]. split; [apply neutral_DATA_arg|]. repeat split.
  Qed.

  (* ----------------------------------------------------------------------- *)
  (* the invariant linking the model's state to what has been observed        *)

  Record Inv (p : pst) (t : list ev) : Prop := mk_Inv {
    i_live : live t = negb (p_closed p) && negb (p_done p);
    i_unix : c_unix (p_c p) = unix;
    i_authd : live t = true -> c_authd (p_c p) = false;
    i_offers : offers t ++ c_order (p_c p) = preference;
    i_safe : begin_safe unix t = true;
    (* while the handshake is open: "NEGOTIATE_UNIX_FD sent, not answered" (the model's
       flag) only if an OK was received that no REJECTED has withdrawn since *)
    i_fd_prog : live t = true -> c_fdwait (p_c p) = true -> prog_after NoOk t <> NoOk;
    i_fd_sent : c_fdwait (p_c p) = true -> existsb (is_tx w_NEGOTIATE_UNIX_FD) t = true
  }.

  Lemma order_in_pref p t m rest : Inv p t -> c_order (p_c p) = m :: rest -> In m preference.
  Proof.
    intros I E. rewrite <- (i_offers _ _ I), E. apply in_or_app. right. left. reflexivity.
  Qed.

  Lemma begin_safe_snoc t l evs :
    begin_safe unix t = true ->
    begin_safe_from unix (advance (prog_after NoOk t) (Rx l)) (existsb (is_tx w_BEGIN) t) evs = true ->
    begin_safe unix (t ++ Rx l :: evs) = true.
  Proof.
    intros S H. unfold begin_safe. rewrite begin_safe_from_app. fold (begin_safe unix t). rewrite S.
    cbn [andb orb begin_safe_from]. exact H.
  Qed.

  Lemma prog_no_rx evs : forall q,
    (forall e, In e evs -> match e with Rx _ => False | _ => True end) ->
    fold_left advance evs q = q.
  Proof.
    induction evs as [|e evs IH]; intros q H; [reflexivity|].
    cbn [fold_left]. assert (E : advance q e = q).
    { specialize (H e (or_introl eq_refl)). destruct e; try reflexivity. destruct H. }
    rewrite E. apply IH. intros e' I. apply H. right; exact I.
  Qed.

  Lemma prog_snoc t l evs :
    (forall e, In e evs -> match e with Rx _ => False | _ => True end) ->
    prog_after NoOk (t ++ Rx l :: evs) = advance (prog_after NoOk t) (Rx l).
  Proof.
    intros H. rewrite prog_after_app. unfold prog_after at 1. cbn [fold_left].
    apply prog_no_rx. exact H.
  Qed.

  Lemma advance_from_prog q l :
    str_eqb (word l) w_REJECTED = false -> q <> NoOk -> advance q (Rx l) <> NoOk.
  Proof. intros W. apply advance_not_back. exact W. Qed.

  (* --- the ways a step can go, each preserving the invariant --------------- *)

  (* the connection is closed (DBusAuthenticationFailed, or the line is too long) *)
  Lemma inv_close p t l :
    Inv p t -> live t = true -> Inv (mk_pst (p_c p) true false) (t ++ [Rx l; Closed]).
  Proof.
    intros I L. destruct I as [Il Iu Ia Io Is Ip In_].
    constructor; cbn [p_c p_closed p_done].
    - rewrite live_app, L. reflexivity.
    - exact Iu.
    - rewrite live_app, L. cbn. discriminate.
    - rewrite offers_app. cbn. rewrite app_nil_r. exact Io.
    - apply begin_safe_snoc; [exact Is | reflexivity].
    - rewrite live_app, L. cbn. discriminate.
    - intros F. rewrite existsb_app, (In_ F). reflexivity.
  Qed.

  (* a neutral line is sent, the state changes at most in the nonce counter *)
  Lemma inv_neutral p t l c' x :
    Inv p t -> live t = true -> str_eqb (word l) w_REJECTED = false -> neutral x ->
    c_unix c' = c_unix (p_c p) -> c_order c' = c_order (p_c p) ->
    c_authd c' = c_authd (p_c p) -> c_fdwait c' = c_fdwait (p_c p) ->
    Inv (mk_pst c' false false) (t ++ [Rx l; Tx x]).
  Proof.
    intros I L WR (N1 & N2 & N3) E1 E2 E3 E4. destruct I as [Il Iu Ia Io Is Ip In_].
    constructor; cbn [p_c p_closed p_done].
    - rewrite live_app, L. reflexivity.
    - rewrite E1. exact Iu.
    - intros _. rewrite E3. apply Ia, L.
    - rewrite offers_app, E2. cbn. rewrite N1. cbn. rewrite app_nil_r. exact Io.
    - apply begin_safe_snoc; [exact Is|]. cbn [begin_safe_from]. rewrite N2. reflexivity.
    - rewrite E4. intros _ F. rewrite prog_snoc; [apply advance_from_prog; [exact WR | exact (Ip L F)]|].
      intros e [<-|F']; [exact I | contradiction].
    - rewrite E4. intros F. rewrite existsb_app, (In_ F). reflexivity.
  Qed.

  (* the next mechanism is offered *)
  Lemma inv_next p t l m rest :
    Inv p t -> live t = true -> c_order (p_c p) = m :: rest ->
    Inv (mk_pst (mk_cst (c_unix (p_c p)) rest m (c_guid (p_c p)) false false (c_nonce (p_c p))) false false)
        (t ++ [Rx l; Tx (auth_line user m)]).
  Proof.
    intros I L E. pose proof (order_in_pref _ _ _ _ I E) as M.
    destruct I as [Il Iu Ia Io Is Ip In_].
    constructor; cbn [p_c p_closed p_done c_unix c_order c_authd c_fdwait].
    - rewrite live_app, L. reflexivity.
    - exact Iu.
    - intros _. reflexivity.
    - rewrite offers_app. cbn. rewrite (auth_line_offer user m M). cbn.
      rewrite <- app_assoc. cbn. rewrite <- E. exact Io.
    - apply begin_safe_snoc; [exact Is|]. cbn [begin_safe_from]. rewrite (auth_line_not_begin user m M). reflexivity.
    - intros _. discriminate.
    - discriminate.
  Qed.

  (* a valid OK on a UNIX transport: the descriptor negotiation starts *)
  Lemma inv_negotiate p t l g :
    Inv p t -> live t = true -> ok_line l = true ->
    Inv (mk_pst (set_fdwait (set_guid (p_c p) g) true) false false) (t ++ [Rx l; Tx s_NEGOTIATE_UNIX_FD]).
  Proof.
    intros I L O. destruct I as [Il Iu Ia Io Is Ip In_].
    constructor; cbn [p_c p_closed p_done set_fdwait set_guid c_unix c_order c_authd c_fdwait].
    - rewrite live_app, L. reflexivity.
    - exact Iu.
    - intros _. apply Ia, L.
    - rewrite offers_app. cbn. rewrite app_nil_r. exact Io.
    - apply begin_safe_snoc; [exact Is | reflexivity].
    - intros _ _. rewrite prog_snoc; [|intros e [<-|F']; [exact I | contradiction]].
      cbn [advance]. rewrite (ok_line_not_rejected l O).
      destruct (prog_after NoOk t); [rewrite O; discriminate | destruct (fd_answer_line l); discriminate | discriminate].
    - intros _. rewrite existsb_app. cbn. apply orb_true_r.
  Qed.

  (* BEGIN is sent and the protocol switches to binary, when the condition for BEGIN holds *)
  Lemma inv_begin p t l c' :
    Inv p t -> live t = true -> c_unix c' = unix -> c_order c' = c_order (p_c p) ->
    c_fdwait c' = c_fdwait (p_c p) ->
    may_begin unix (advance (prog_after NoOk t) (Rx l)) = true ->
    Inv (mk_pst c' false true) (t ++ [Rx l; Tx s_BEGIN; Binary]).
  Proof.
    intros I L E1 E2 E3 M. destruct I as [Il Iu Ia Io Is Ip In_].
    constructor; cbn [p_c p_closed p_done].
    - rewrite live_app, L. reflexivity.
    - exact E1.
    - rewrite live_app, L. cbn. discriminate.
    - rewrite offers_app, E2. cbn. rewrite app_nil_r. exact Io.
    - apply begin_safe_snoc; [exact Is|]. cbn [begin_safe_from].
      change (str_eqb s_BEGIN w_BEGIN) with true. cbn iota. rewrite M. reflexivity.
    - rewrite live_app, L. cbn. discriminate.
    - rewrite E3. intros F. rewrite existsb_app, (In_ F). reflexivity.
  Qed.

  (* nothing happens once the connection is closed or authenticated *)
  Lemma inv_dead p t l : Inv p t -> live t = false -> Inv p (t ++ [Rx l]).
  Proof.
    intros I L. destruct I as [Il Iu Ia Io Is Ip In_].
    constructor.
    - rewrite live_app, L, <- Il, L. reflexivity.
    - exact Iu.
    - rewrite live_app, L. discriminate.
    - rewrite offers_app. cbn. rewrite app_nil_r. exact Io.
    - apply begin_safe_snoc; [exact Is | reflexivity].
    - rewrite live_app, L. discriminate.
    - intros F. rewrite existsb_app, (In_ F). reflexivity.
  Qed.

  (* --- the judgement of single exchanges ----------------------------------- *)
  Definition short (l : bytes) : Prop := (line_limit <? N.of_nat (length l)) = false.

  Lemma out_long t l : (line_limit <? N.of_nat (length l)) = true -> outside_protocol t l = true.
  Proof. intros H. unfold outside_protocol. rewrite H. reflexivity. Qed.

  Lemma out_REJECTED t l : short l -> str_eqb (word l) w_REJECTED = true -> outside_protocol t l = false.
  Proof. intros S W. apply str_eqb_spec in W. unfold outside_protocol. rewrite S, W. reflexivity. Qed.

  Lemma out_DATA t l : short l -> str_eqb (word l) w_DATA = true -> outside_protocol t l = false.
  Proof. intros S W. apply str_eqb_spec in W. unfold outside_protocol. rewrite S, W. reflexivity. Qed.

  Lemma out_ERROR t l : short l -> str_eqb (word l) w_ERROR = true -> outside_protocol t l = false.
  Proof. intros S W. apply str_eqb_spec in W. unfold outside_protocol. rewrite S, W. reflexivity. Qed.

  Lemma out_OK t l : short l -> str_eqb (word l) w_OK = true -> outside_protocol t l = negb (ok_line l).
  Proof.
    intros S W. unfold outside_protocol. rewrite S. apply str_eqb_spec in W.
    rewrite W. cbn [orb existsb server_words]. change (str_eqb w_OK w_REJECTED) with false.
    change (str_eqb w_OK w_OK) with true. change (str_eqb w_OK w_AGREE_UNIX_FD) with false.
    cbn [orb negb andb]. rewrite orb_false_r. reflexivity.
  Qed.

  Lemma out_AGREE t l : short l -> str_eqb (word l) w_AGREE_UNIX_FD = true ->
    outside_protocol t l = negb (existsb (is_tx w_NEGOTIATE_UNIX_FD) t).
  Proof.
    intros S W. unfold outside_protocol. rewrite S. apply str_eqb_spec in W. rewrite W. reflexivity.
  Qed.

  Lemma out_unknown t l :
    str_eqb (word l) w_REJECTED = false -> str_eqb (word l) w_OK = false ->
    str_eqb (word l) w_AGREE_UNIX_FD = false -> str_eqb (word l) w_DATA = false ->
    str_eqb (word l) w_ERROR = false -> outside_protocol t l = true.
  Proof.
    intros W1 W2 W3 W4 W5. unfold outside_protocol, server_words. cbn [existsb].
    rewrite W1, W2, W3, W4, W5. cbn. rewrite !orb_false_r. apply orb_true_r.
  Qed.

  Lemma v_close_outside t l :
    live t = true -> outside_protocol t l = true -> exchange_verdict preference t (l, [Closed]) = 0.
  Proof. intros L O. unfold exchange_verdict. rewrite L, O. reflexivity. Qed.

  Lemma v_close_other t l :
    live t = true -> str_eqb (word l) w_REJECTED = false -> str_eqb (word l) w_ERROR = false ->
    exchange_verdict preference t (l, [Closed]) = 0.
  Proof.
    intros L W1 W2. unfold exchange_verdict. rewrite L, W1, W2. cbn.
    destruct (outside_protocol t l); reflexivity.
  Qed.

  Lemma v_close_exhausted t l :
    live t = true -> next_after (offers t) preference = None ->
    exchange_verdict preference t (l, [Closed]) = 0.
  Proof.
    intros L X. unfold exchange_verdict, moved_on. rewrite L, X.
    destruct (outside_protocol t l); destruct (str_eqb (word l) w_REJECTED);
      destruct (str_eqb (word l) w_ERROR); reflexivity.
  Qed.

  Lemma v_next t l m x :
    live t = true -> outside_protocol t l = false -> next_after (offers t) preference = Some m ->
    offer_of x = Some m -> exchange_verdict preference t (l, [Tx x]) = 0.
  Proof.
    intros L O X F. unfold exchange_verdict, moved_on. rewrite L, O, X, F, str_eqb_refl.
    destruct (str_eqb (word l) w_REJECTED); destruct (str_eqb (word l) w_ERROR); reflexivity.
  Qed.

  Lemma v_plain t l resp :
    live t = true -> outside_protocol t l = false ->
    str_eqb (word l) w_REJECTED = false -> str_eqb (word l) w_ERROR = false ->
    resp <> [] -> (1 <? N.of_nat (length (sent_lines resp))) = false ->
    exchange_verdict preference t (l, resp) = 0.
  Proof.
    intros L O W1 W2 N S. unfold exchange_verdict. rewrite L, O, W1, W2, S. cbn.
    destruct resp; [congruence | reflexivity].
  Qed.

  Lemma v_begin_error t l :
    live t = true -> outside_protocol t l = false -> str_eqb (word l) w_REJECTED = false ->
    exchange_verdict preference t (l, [Tx w_BEGIN; Binary]) = 0.
  Proof.
    intros L O W1. unfold exchange_verdict. rewrite L, O, W1. cbn.
    change (began [Tx w_BEGIN; Binary]) with true. rewrite orb_true_r.
    destruct (str_eqb (word l) w_ERROR); reflexivity.
  Qed.

  Lemma valid_unhexlify g :
    forallb hex_digit g = true -> Nat.even (length g) = true -> unhexlify g <> None.
  Proof.
    induction g as [|a|a b r IH] using list_pair_ind; intros F E.
    - discriminate.
    - discriminate.
    - cbn [forallb] in F. apply andb_true_iff in F as [Fa F]. apply andb_true_iff in F as [Fb F].
      cbn [length Nat.even] in E. specialize (IH F E).
      cbn [unhexlify].
      assert (Ha : hexval a <> None).
      { revert Fa. unfold hex_digit, hexval.
        destruct ((48 <=? a) && (a <=? 57)); [discriminate|].
        destruct ((97 <=? a) && (a <=? 102)); [discriminate|].
        destruct ((65 <=? a) && (a <=? 70)); discriminate. }
      assert (Hb : hexval b <> None).
      { revert Fb. unfold hex_digit, hexval.
        destruct ((48 <=? b) && (b <=? 57)); [discriminate|].
        destruct ((97 <=? b) && (b <=? 102)); [discriminate|].
        destruct ((65 <=? b) && (b <=? 70)); discriminate. }
      destruct (hexval a); [|congruence]. destruct (hexval b); [|congruence].
      destruct (unhexlify r); [discriminate | congruence].
  Qed.

  Lemma rejected_ok_line l :
    str_eqb (word l) w_OK = true ->
    (strip (args_or_empty l) = [] \/ unhexlify (strip (args_or_empty l)) = None) -> ok_line l = false.
  Proof.
    intros W H. unfold ok_line. rewrite W, <- strip_eq. cbn [andb]. unfold valid_guid.
    destruct H as [-> | H]; [reflexivity|].
    destruct (strip (args_or_empty l)) as [|x g] eqn:E; [reflexivity|].
    destruct (forallb hex_digit (x :: g)) eqn:F; [|reflexivity].
    destruct (Nat.even (length (x :: g))) eqn:V; [|reflexivity].
    exfalso. exact (valid_unhexlify _ F V H).
  Qed.

  (* --- one step: the invariant is kept and the exchange is judged favourably -- *)
  Lemma step_inv p t l p' o :
    Inv p t -> step' p l = (p', o) ->
    Inv p' (t ++ Rx l :: map ev_of o) /\ exchange_verdict preference t (l, map ev_of o) = 0.
  Proof.
    intros I ST. pose proof (i_live _ _ I) as IL.
    destruct (live t) eqn:L.
    2:{ (* closed or authenticated before *)
      assert (E : step' p l = (p, [])).
      { unfold step, step_with. symmetry in IL. apply andb_false_iff in IL as [C|D].
        - apply negb_false_iff in C. rewrite C. destruct (p_done p); reflexivity.
        - apply negb_false_iff in D. rewrite D. reflexivity. }
      rewrite E in ST. injection ST as <- <-. split; [apply inv_dead; assumption|].
      unfold exchange_verdict. rewrite L. reflexivity. }
    symmetry in IL. apply andb_true_iff in IL as [C D].
    apply negb_true_iff in C. apply negb_true_iff in D.
    pose proof (i_authd _ _ I L) as NA.
    pose proof (i_unix _ _ I) as IU.
    unfold step, step_with in ST. rewrite C, D in ST.
    change max_auth_length with line_limit in ST.
    destruct (line_limit <? N.of_nat (length l)) eqn:LEN.
    { injection ST as <- <-. split; [apply inv_close; assumption|].
      apply v_close_outside; [exact L | apply out_long, LEN]. }
    fold (handle user lookup nonce sha1hex) in ST. rewrite handle_eq in ST. cbv zeta in ST.
    assert (CLOSE : forall reason : exchange_verdict preference t (l, [Closed]) = 0,
               Inv (mk_pst (p_c p) true false) (t ++ Rx l :: map ev_of [Close]) /\
               exchange_verdict preference t (l, map ev_of [Close]) = 0).
    { intros R. split; [apply inv_close; assumption | exact R]. }
    assert (NEXT : forall (W : str_eqb (word l) w_REJECTED = true \/ str_eqb (word l) w_ERROR = true) p' o,
               (let '(c, sent, raised) := try_next user (p_c p) in
                if raised then (mk_pst c true false, map Send sent ++ [Close])
                else if c_authd c then (mk_pst c false true, map Send sent ++ [Authd (c_guid c)])
                else (mk_pst c false false, map Send sent)) = (p', o) ->
               Inv p' (t ++ Rx l :: map ev_of o) /\ exchange_verdict preference t (l, map ev_of o) = 0).
    { clear p' o ST. intros W p' o. rewrite try_next_eq.
      assert (OUT : outside_protocol t l = false)
        by (destruct W as [W|W]; [apply out_REJECTED | apply out_ERROR]; assumption).
      destruct (c_order (p_c p)) as [|m rest] eqn:EO.
      - cbn. intros ST'. injection ST' as <- <-. apply CLOSE. apply v_close_exhausted; [exact L|].
        rewrite <- (i_offers _ _ I), EO, next_after_app. reflexivity.
      - cbn [c_authd]. rewrite NA. cbn. intros ST'. injection ST' as <- <-. split.
        + apply inv_next; assumption.
        + apply v_next with (m := m); [exact L | exact OUT | |].
          * rewrite <- (i_offers _ _ I), EO, next_after_app. reflexivity.
          * apply auth_line_offer. eapply order_in_pref; eassumption. }
    destruct (str_eqb (word l) w_REJECTED) eqn:WR.
    { unfold auth_REJECTED in ST. apply NEXT; [left; reflexivity | exact ST]. }
    destruct (str_eqb (word l) w_OK) eqn:WO.
    { unfold auth_OK in ST.
      destruct (strip (args_or_empty l)) as [|x g] eqn:SG.
      { injection ST as <- <-. apply CLOSE. apply v_close_outside; [exact L|].
        rewrite (out_OK t l LEN WO), (rejected_ok_line l WO); [reflexivity | left; exact SG]. }
      destruct (unhexlify (x :: g)) as [guid|] eqn:UG.
      2:{ injection ST as <- <-. apply CLOSE. apply v_close_outside; [exact L|].
          rewrite (out_OK t l LEN WO), (rejected_ok_line l WO); [reflexivity | right; rewrite SG; exact UG]. }
      assert (OK : ok_line l = true).
      { apply (accepted_ok_line l guid WO); rewrite SG; [discriminate | exact UG]. }
      assert (OUT : outside_protocol t l = false) by (rewrite (out_OK t l LEN WO), OK; reflexivity).
      assert (WE : str_eqb (word l) w_ERROR = false).
      { apply str_eqb_spec in WO. rewrite WO. reflexivity. }
      destruct (c_unix (p_c p)) eqn:CU.
      - cbn [set_fdwait set_guid c_authd] in ST. rewrite NA in ST. cbn in ST. injection ST as <- <-.
        split; [apply inv_negotiate; assumption|].
        apply v_plain; try assumption; [discriminate | reflexivity].
      - cbn [set_authd c_authd] in ST. cbn in ST. injection ST as <- <-. split.
        + apply inv_begin with (p := p);
            [exact I | exact L | cbn [set_authd set_guid c_unix]; rewrite CU; exact IU | reflexivity | reflexivity |].
          rewrite <- IU. cbn [advance]. rewrite WR.
          destruct (prog_after NoOk t); [rewrite OK; reflexivity | destruct (fd_answer_line l); reflexivity | reflexivity].
        + apply v_plain; try assumption; [discriminate | reflexivity]. }
    destruct (str_eqb (word l) w_AGREE_UNIX_FD) eqn:WA.
    { assert (WE : str_eqb (word l) w_ERROR = false).
      { apply str_eqb_spec in WA. rewrite WA. reflexivity. }
      unfold auth_AGREE_UNIX_FD in ST. destruct (c_fdwait (p_c p)) eqn:FW.
      - cbn [set_authd c_authd] in ST. cbn in ST. injection ST as <- <-. split.
        + apply inv_begin with (p := p); [exact I | exact L | exact IU | reflexivity | reflexivity |].
          pose proof (i_fd_prog _ _ I L FW) as PR. cbn [advance]. rewrite WR.
          assert (FA : fd_answer_line l = true) by (unfold fd_answer_line; rewrite WA; reflexivity).
          destruct (prog_after NoOk t); [congruence | rewrite FA; reflexivity | reflexivity].
        + apply v_plain; try assumption; [|discriminate | reflexivity].
          rewrite (out_AGREE t l LEN WA), (i_fd_sent _ _ I FW). reflexivity.
      - injection ST as <- <-. apply CLOSE. apply v_close_other; assumption. }
    destruct (str_eqb (word l) w_DATA) eqn:WD.
    { assert (WE : str_eqb (word l) w_ERROR = false).
      { apply str_eqb_spec in WD. rewrite WD. reflexivity. }
      destruct (auth_DATA_shape (p_c p) (args_or_empty l)) as (c' & x & E & NX & E1 & E2 & E3 & E4).
      rewrite E in ST. rewrite E3, NA in ST. cbn in ST. injection ST as <- <-. split.
      - apply inv_neutral with (p := p); assumption.
      - apply v_plain; try assumption; [apply out_DATA; assumption | discriminate | reflexivity]. }
    destruct (str_eqb (word l) w_ERROR) eqn:WE.
    { unfold auth_ERROR in ST. destruct (c_fdwait (p_c p)) eqn:FW.
      - cbn [set_authd c_authd] in ST. cbn in ST. injection ST as <- <-. split.
        + apply inv_begin with (p := p); [exact I | exact L | exact IU | reflexivity | reflexivity |].
          pose proof (i_fd_prog _ _ I L FW) as PR. cbn [advance]. rewrite WR.
          assert (FA : fd_answer_line l = true) by (unfold fd_answer_line; rewrite WE; apply orb_true_r).
          destruct (prog_after NoOk t); [congruence | rewrite FA; reflexivity | reflexivity].
        + apply v_begin_error; [exact L | apply out_ERROR; assumption | exact WR].
      - apply NEXT; [right; reflexivity | exact ST]. }
    injection ST as <- <-. apply CLOSE. apply v_close_outside; [exact L|].
    apply out_unknown; assumption.
  Qed.

  (* --- whole sessions -------------------------------------------------------- *)
  Lemma run_inv lines : forall p t, Inv p t ->
    let xs := combine lines (map (map ev_of) (run_with handle' p lines)) in
    exchanges_verdict preference t xs = 0 /\ exists p', Inv p' (t ++ flat xs).
  Proof.
    induction lines as [|l lines IH]; intros p t I.
    - cbn. split; [reflexivity|]. exists p. rewrite app_nil_r. exact I.
    - cbn [run_with]. destruct (step_with handle' p l) as [p1 o] eqn:ST.
      destruct (step_inv p t l p1 o I ST) as [I1 V].
      cbn [map combine exchanges_verdict]. rewrite V. cbn [fst snd].
      destruct (IH p1 _ I1) as [V' [p' I']]. split; [exact V'|].
      exists p'. change ((l, map ev_of o) :: ?x) with ([(l, map ev_of o)] ++ x).
      rewrite flat_app, flat_one, app_assoc. exact I'.
  Qed.

  Lemma connect_inv :
    let (p, o) := connect user unix in
    Inv p (map ev_of o) /\ opening_ok preference (map ev_of o) = true.
  Proof.
    cbn. split; [|reflexivity].
    constructor; cbn; try reflexivity; try discriminate.
  Qed.

  Theorem session_favourable lines :
    let (init, xs) := observe (session user lookup nonce sha1hex unix lines) lines in
    session_verdict preference unix init xs = 0.
  Proof.
    unfold observe, session, session_with.
    pose proof connect_inv as CI. destruct (connect user unix) as [p o].
    destruct CI as [I O]. cbn [fst snd].
    destruct (run_inv lines p _ I) as [V [p' I']].
    unfold session_verdict, trace. rewrite O. cbn [negb].
    rewrite (i_safe _ _ I'). cbn [negb].
    assert (P : offers_in_order preference (map ev_of o ++ flat (combine lines (map (map ev_of) (run_with handle' p lines)))) = true).
    { unfold offers_in_order. pose proof (i_offers _ _ I') as E.
      set (a := offers _) in *. rewrite <- E. apply is_prefix_app. }
    rewrite P. cbn [negb]. exact V.
  Qed.
End Model.

(* ------------------------------------------------------------------------- *)
(* the readable consequences                                                  *)

Lemma verdict_parts pref unix init xs :
  session_verdict pref unix init xs = 0 ->
  opening_ok pref init = true /\ begin_safe unix (trace init xs) = true /\
  offers_in_order pref (trace init xs) = true /\ exchanges_verdict pref init xs = 0.
Proof.
  unfold session_verdict.
  destruct (opening_ok pref init); [|discriminate].
  destruct (begin_safe unix (trace init xs)); [|discriminate].
  destruct (offers_in_order pref (trace init xs)); [|discriminate].
  cbn [negb]. auto.
Qed.

Section Corollaries.
  Variable user : bytes.
  Variable lookup : bytes -> bytes -> lookup_result.
  Variable nonce : nat -> bytes.
  Variable sha1hex : bytes -> bytes.
  Variable unix : bool.
  Variable lines : list bytes.

  Notation obs := (session_observed user lookup nonce sha1hex unix lines).
  Notation tr := (session_trace user lookup nonce sha1hex unix lines).

  Lemma obs_favourable : session_verdict preference unix (fst obs) (snd obs) = 0.
  Proof.
    pose proof (session_favourable user lookup nonce sha1hex unix lines) as H.
    unfold session_observed. destruct (observe _ lines) as [i xs]. exact H.
  Qed.

  Lemma tr_eq : tr = trace (fst obs) (snd obs).
  Proof. unfold session_trace. destruct obs; reflexivity. Qed.

  Lemma begin_only_after_ok pre post :
    tr = pre ++ Tx w_BEGIN :: post ->
    exists p1 l p2, pre = p1 ++ Rx l :: p2 /\ ok_line l = true /\
      (forall r, In (Rx r) p2 -> str_eqb (word r) w_REJECTED = false) /\
      (unix = true -> exists l', In (Rx l') p2 /\ fd_answer_line l' = true).
  Proof.
    rewrite tr_eq. destruct (verdict_parts _ _ _ _ obs_favourable) as (_ & S & _ & _).
    apply begin_safe_meaning. exact S.
  Qed.

  Lemma binary_only_after_begin pre post :
    tr = pre ++ Binary :: post -> In (Tx w_BEGIN) pre.
  Proof.
    rewrite tr_eq. destruct (verdict_parts _ _ _ _ obs_favourable) as (_ & S & _ & _).
    apply (begin_safe_binary unix). exact S.
  Qed.

  Lemma nodup_app_l {A} (a r : list A) : NoDup (a ++ r) -> NoDup a.
  Proof.
    induction a as [|x a IH]; intros H; [constructor|].
    cbn [app] in H. inversion H as [|y l N1 N2]; subst. constructor.
    - intros I. apply N1. apply in_or_app. left; exact I.
    - apply IH. exact N2.
  Qed.

  Lemma preference_nodup : NoDup preference.
  Proof.
    unfold preference. repeat constructor; cbn; intuition discriminate.
  Qed.

  Lemma offers_prefix_once :
    (exists rest, preference = offers tr ++ rest) /\ NoDup (offers tr).
  Proof.
    rewrite tr_eq. destruct (verdict_parts _ _ _ _ obs_favourable) as (_ & _ & P & _).
    apply is_prefix_spec in P. destruct P as [r E]. split; [exists r; exact E|].
    pose proof preference_nodup as N. rewrite E in N. apply nodup_app_l in N. exact N.
  Qed.

  Lemma opening :
    exists l, fst obs = [TxRaw [0]; Tx l] /\ offer_of l = hd_error preference.
  Proof.
    destruct (verdict_parts _ _ _ _ obs_favourable) as (O & _ & _ & _).
    unfold opening_ok in O. cbn [preference] in O.
    destruct (fst obs) as [|e1 r1]; [discriminate|].
    destruct e1 as [x|x|b| |]; try discriminate.
    destruct b as [|z b]; try discriminate.
    destruct z; try discriminate.
    destruct b; try discriminate.
    destruct r1 as [|e2 r2]; [discriminate|].
    destruct e2 as [x|l|x| |]; try discriminate.
    destruct r2; try discriminate.
    exists l. split; [reflexivity|]. cbn [hd_error].
    destruct (offer_of l) as [m|]; [|discriminate]. apply str_eqb_spec in O. rewrite <- O. reflexivity.
  Qed.

  Lemma each_exchange xs1 l resp xs2 :
    snd obs = xs1 ++ (l, resp) :: xs2 ->
    let before := fst obs ++ flat xs1 in
    (live before = false -> resp = []) /\
    (live before = true ->
       resp <> [] /\
       (length (sent_lines resp) <= 1)%nat /\
       (outside_protocol before l = true -> In Closed resp) /\
       (outside_protocol before l = false -> word l = w_REJECTED -> moved_on preference before resp = true) /\
       (outside_protocol before l = false -> word l = w_ERROR ->
          moved_on preference before resp = true \/ resp = [Tx w_BEGIN; Binary])).
  Proof.
    intros E. destruct (verdict_parts _ _ _ _ obs_favourable) as (_ & _ & _ & V).
    rewrite E in V. apply exchanges_verdict_at in V. apply exchange_verdict_meaning. exact V.
  Qed.

  Lemma sent_bound_exchanges pref : forall xs before,
    exchanges_verdict pref before xs = 0 -> (length (sent_lines (flat xs)) <= length xs)%nat.
  Proof.
    induction xs as [|[l resp] xs IH]; intros before V; [cbn; lia|].
    cbn [exchanges_verdict] in V.
    destruct (exchange_verdict pref before (l, resp)) eqn:X; [|discriminate].
    specialize (IH _ V).
    change ((l, resp) :: xs) with ([(l, resp)] ++ xs). rewrite flat_app, flat_one, sent_lines_app.
    rewrite app_length. cbn [sent_lines flat_map app]. fold (sent_lines resp).
    destruct (exchange_verdict_meaning _ _ _ _ X) as [D Lv].
    destruct (live before).
    - destruct (Lv eq_refl) as (_ & B & _). cbn [length]. lia.
    - rewrite (D eq_refl). cbn. lia.
  Qed.

  Lemma sent_bound : (length (sent_lines tr) <= length lines + 1)%nat.
  Proof.
    rewrite tr_eq. destruct opening as (l & E & _).
    destruct (verdict_parts _ _ _ _ obs_favourable) as (_ & _ & _ & V).
    apply sent_bound_exchanges in V. unfold trace. rewrite sent_lines_app, app_length, E.
    cbn [sent_lines flat_map app length].
    assert (length (snd obs) <= length lines)%nat.
    { unfold session_observed, observe. unfold snd at 1.
      match goal with |- (length (combine ?a ?b) <= _)%nat => pose proof (combine_length a b) as CL end.
      unfold exchange in *. lia. }
    lia.
  Qed.
End Corollaries.
