(* Fixed-width integer coding and slicing lemmas for Model/Marshal.v, and the
   agreement of the model's byte-level encoders with Spec/WireSpec.v. *)
From Tx Require Import Lib.Base Model.PyVal Model.Marshal Spec.WireSpec Proofs.SigProofs.
From Coq Require Import ZifyBool ZifyNat ZifyN.
Local Open Scope N_scope.

Lemma le_bytes_length n v : length (le_bytes n v) = n.
Proof. revert v; induction n as [|n IH]; intros v; cbn [le_bytes length]; [reflexivity|]. rewrite IH. reflexivity. Qed.

Lemma le_bytes_little n v : le_bytes n v = little n v.
Proof. revert v; induction n as [|n IH]; intros v; cbn [le_bytes little]; [reflexivity|]. rewrite IH. reflexivity. Qed.

Lemma enc_uint_spec n le v : enc_uint n le v = uint n le v.
Proof. unfold enc_uint, uint. rewrite le_bytes_little. reflexivity. Qed.

Lemma enc_uint_length n le v : length (enc_uint n le v) = n.
Proof. unfold enc_uint. destruct le; [|rewrite rev_length]; apply le_bytes_length. Qed.

Lemma uint_length n le v : length (uint n le v) = n.
Proof. rewrite <- enc_uint_spec. apply enc_uint_length. Qed.

Lemma le_value_le_bytes n v : le_value (le_bytes n v) = v mod 256 ^ N.of_nat n.
Proof.
  revert v; induction n as [|n IH]; intros v.
  - cbn. rewrite N.mod_1_r. reflexivity.
  - cbn [le_bytes le_value]. rewrite IH.
    replace (N.of_nat (S n)) with (N.succ (N.of_nat n)) by lia.
    rewrite N.pow_succ_r'.
    rewrite (N.mod_mul_r v 256 (256 ^ N.of_nat n)) by (try discriminate; apply N.pow_nonzero; discriminate).
    reflexivity.
Qed.

Lemma dec_enc_uint n le v : v < 256 ^ N.of_nat n -> dec_uint le (enc_uint n le v) = v.
Proof.
  intros H. unfold dec_uint, enc_uint. destruct le; [|rewrite rev_involutive];
    rewrite le_value_le_bytes; apply N.mod_small; exact H.
Qed.

Lemma le_bytes_lt256 n v : Forall (fun x => x < 256) (le_bytes n v).
Proof.
  revert v; induction n as [|n IH]; intros v; cbn [le_bytes]; constructor; [|apply IH].
  apply N.mod_lt. discriminate.
Qed.

(* --- pack / unpack --------------------------------------------------------------- *)

Lemma pow256_eq n : pow256 n = (2 ^ (8 * Z.of_nat n))%Z.
Proof. unfold pow256. rewrite Z.pow_mul_r by lia. reflexivity. Qed.

Lemma pack_int_spec n (signed : bool) le z :
  (if signed then (- (pow256 n / 2) <= z < pow256 n / 2)%Z else (0 <= z < pow256 n)%Z) ->
  pack_int n signed le z = Ok (uint n le (twos n z)).
Proof.
  intros H. unfold pack_int, twos. rewrite enc_uint_spec, pow256_eq in *.
  destruct signed;
    (destruct (Z.leb_spec (if true then _ else _) z) || idtac); cbn [andb].
  - destruct (Z.leb_spec (- (2 ^ (8 * Z.of_nat n) / 2)) z); [|lia].
    destruct (Z.ltb_spec z (2 ^ (8 * Z.of_nat n) / 2)); [reflexivity|lia].
  - destruct (Z.leb_spec 0 z); [|lia].
    destruct (Z.ltb_spec z (2 ^ (8 * Z.of_nat n))); [reflexivity|lia].
Qed.

Definition in_width (n : nat) : Prop := n = 1%nat \/ n = 2%nat \/ n = 4%nat \/ n = 8%nat.

Lemma twos_lt n z : in_width n -> twos n z < 256 ^ N.of_nat n.
Proof.
  intros Hn. unfold twos.
  assert (E : (2 ^ (8 * Z.of_nat n))%Z = Z.of_N (256 ^ N.of_nat n)).
  { destruct Hn as [-> | [-> | [-> | ->]]]; reflexivity. }
  rewrite E.
  assert (0 < Z.of_N (256 ^ N.of_nat n))%Z.
  { destruct Hn as [-> | [-> | [-> | ->]]]; reflexivity. }
  pose proof (Z.mod_pos_bound z _ H). lia.
Qed.

Lemma unpack_pack n (signed : bool) le z :
  in_width n ->
  (if signed then (- (pow256 n / 2) <= z < pow256 n / 2)%Z else (0 <= z < pow256 n)%Z) ->
  unpack_int signed le (uint n le (twos n z)) = z.
Proof.
  intros Hn H. unfold unpack_int. rewrite uint_length, <- enc_uint_spec.
  rewrite dec_enc_uint by (apply twos_lt; exact Hn).
  unfold twos. rewrite Z2N.id by (apply Z.mod_pos_bound; destruct Hn as [-> | [-> | [-> | ->]]]; reflexivity).
  rewrite pow256_eq in *.
  destruct Hn as [-> | [-> | [-> | ->]]]; destruct signed; cbn [andb];
    change (8 * Z.of_nat 1)%Z with 8%Z in *; change (8 * Z.of_nat 2)%Z with 16%Z in *;
    change (8 * Z.of_nat 4)%Z with 32%Z in *; change (8 * Z.of_nat 8)%Z with 64%Z in *;
    change (2 ^ 8)%Z with 256%Z in *; change (2 ^ 16)%Z with 65536%Z in *;
    change (2 ^ 32)%Z with 4294967296%Z in *; change (2 ^ 64)%Z with 18446744073709551616%Z in *;
    try match goal with |- context [Z.leb ?a ?b] => destruct (Z.leb_spec a b) end;
    Z.to_euclidean_division_equations; lia.
Qed.

(* --- slicing ------------------------------------------------------------------------ *)

Lemma len_app a b : len (a ++ b) = len a + len b.
Proof. unfold len. rewrite app_length. lia. Qed.

Lemma take_at_window n pre b post :
  length b = n -> take_at n (pre ++ b ++ post) (len pre) = Ok b.
Proof.
  intros Hb. unfold take_at. rewrite !len_app.
  destruct (N.leb_spec (len pre + N.of_nat n) (len pre + (len b + len post))) as [_|H];
    [|unfold len in *; lia].
  unfold len. rewrite Nat2N.id, skipn_app_exact, <- Hb, firstn_app_exact. reflexivity.
Qed.
