(* Lemmas for C15, mutable interface objects (Model/IfaceCache.v): the cached
   XML is coherent with the members after every history of calls, and the
   document generated after a history round-trips the definition in force. *)
From Coq Require Import Permutation.
From Tx Require Import Lib.Base.
From Tx Require Import Model.SigSplit.
From Tx Require Import Model.Introspect.
From Tx Require Import Model.IfaceCache.
From Tx Require Import Spec.SigTy.
From Tx Require Import Spec.IntrospectSpec.
From Tx Require Import Proofs.SigSplitProofs.
From Tx Require Import Proofs.IntrospectProofs.
Local Open Scope N_scope.

(* ========================================================================= *)
(* 1. the invariant of the cache                                                *)
(* ========================================================================= *)

(* self._xml is None, or it is what _getXml would generate now *)
Definition coherent (st : cobj) : Prop :=
  match c_xml st with
  | None => True
  | Some x => gen_iface (c_iface st) = Ok x
  end.

Lemma coherent_empty i : coherent (mkC i None).
Proof. exact I. Qed.

Lemma c_add_coherent add st m : coherent st -> coherent (fst (c_add add st m)).
Proof.
  intros H. unfold c_add. destruct (add (c_iface st) m) as [r|e]; cbn [fst]; [exact I | exact H].
Qed.

Lemma get_xml_coherent st : coherent st -> coherent (fst (get_xml st)).
Proof.
  unfold coherent, get_xml. destruct (c_xml st) as [x|] eqn:E; cbn [fst].
  - rewrite E. auto.
  - intros _. destruct (gen_iface (c_iface st)) as [x|e] eqn:G; cbn [fst c_xml c_iface].
    + exact G.
    + rewrite E. exact I.
Qed.

Lemma cstep_coherent st o : coherent st -> coherent (fst (cstep st o)).
Proof.
  intros H. destruct o as [m|m|m|k n|]; cbn [cstep fst].
  - apply c_add_coherent, H.
  - apply c_add_coherent, H.
  - apply c_add_coherent, H.
  - unfold c_del. destruct (alist_get str_eqb n (dict_of k (c_iface st))); cbn [fst]; [exact I | exact H].
  - apply get_xml_coherent, H.
Qed.

Lemma crun_coherent ops : forall st, coherent st -> coherent (fst (crun st ops)).
Proof.
  induction ops as [|o ops IH]; intros st H; cbn [crun fst]; [exact H|].
  apply IH, cstep_coherent, H.
Qed.

(* with a coherent cache _getXml answers what it would generate now *)
Lemma get_xml_answer st : coherent st -> snd (get_xml st) = gen_iface (c_iface st).
Proof.
  unfold coherent, get_xml. destruct (c_xml st) as [x|]; cbn [snd].
  - intros H. symmetry. exact H.
  - intros _. destruct (gen_iface (c_iface st)); reflexivity.
Qed.

Lemma crun_app a : forall st b,
  crun st (a ++ b)
  = (fst (crun (fst (crun st a)) b), snd (crun st a) ++ snd (crun (fst (crun st a)) b)).
Proof.
  induction a as [|o a IH]; intros st b; cbn [app crun fst snd].
  - destruct (crun st b); reflexivity.
  - rewrite IH. reflexivity.
Qed.

Lemma crun_length ops : forall st, length (snd (crun st ops)) = length ops.
Proof.
  induction ops as [|o ops IH]; intros st; cbn [crun snd length]; [reflexivity|].
  rewrite IH. reflexivity.
Qed.

(* every answer of _getXml, anywhere in any history on an object that starts
   with an empty cache, is the XML of the members as they are at that moment *)
Theorem cache_coherent (i0 : iface) (pre post : list cop) :
  let st := fst (crun (mkC i0 None) pre) in
  coherent st /\
  nth_error (snd (crun (mkC i0 None) (pre ++ OGetXml :: post))) (length pre)
  = Some (obs_of (gen_iface (c_iface st))).
Proof.
  cbv zeta.
  assert (H : coherent (fst (crun (mkC i0 None) pre))) by apply crun_coherent, coherent_empty.
  split; [exact H|].
  rewrite crun_app. cbn [snd].
  rewrite nth_error_app2 by (rewrite crun_length; lia).
  rewrite crun_length, Nat.sub_diag. cbn [crun cstep snd fst nth_error].
  rewrite (get_xml_answer _ H). reflexivity.
Qed.

(* ========================================================================= *)
(* 2. a variant that forgets to reset the cache is told apart                   *)
(* ========================================================================= *)

(* addX resetting the cache only when the member NAME is new ("the member set
   changed"): a plausible-looking rewrite of interface.py, and not what the
   code does *)
Definition c_add_stale_variant (k : kind) (add : iface -> member -> res (iface * member))
           (st : cobj) (m : member) : cobj * cobs :=
  match add (c_iface st) m with
  | Ok r =>
      (mkC (fst r)
           (match alist_get str_eqb (member_name (snd r)) (dict_of k (c_iface st)) with
            | Some _ => c_xml st
            | None => None
            end), RNone)
  | Err e => (st, RErr e)
  end.

Definition cstep_stale_variant (st : cobj) (o : cop) : cobj * cobs :=
  match o with
  | OAddMethod m => c_add_stale_variant KMeth add_method st m
  | OAddSignal m => c_add_stale_variant KSig add_signal st m
  | OAddProperty m => c_add_stale_variant KProp add_property st m
  | _ => cstep st o
  end.

Fixpoint crun_stale_variant (st : cobj) (ops : list cop) : cobj * list cobs :=
  match ops with
  | [] => (st, [])
  | o :: r =>
      let s1 := cstep_stale_variant st o in
      let s2 := crun_stale_variant (fst s1) r in
      (fst s2, snd s1 :: snd s2)
  end.

Definition ex_iname : str := [97; 46; 98].            (* "a.b" *)
Definition ex_M : str := [77].                        (* "M" *)
Definition ex_S : str := [83].                        (* "S" *)
Definition ex_P : str := [80].                        (* "P" *)

(* Method('M', 's', 'i'); _getXml(); Method('M', 'ii', '') under the same name *)
Definition ex_redeclare : list cop :=
  [ cop_add (DMeth ex_M [115] [105]); OGetXml; cop_add (DMeth ex_M [105; 105] []) ].

Lemma stale_variant_differs :
  exists i0 pre post,
    let st := fst (crun_stale_variant (mkC i0 None) pre) in
    nth_error (snd (crun_stale_variant (mkC i0 None) (pre ++ OGetXml :: post))) (length pre)
    <> Some (obs_of (gen_iface (c_iface st))).
Proof.
  exists (mkIface ex_iname [] [] []), ex_redeclare, []. vm_compute. intros H. discriminate H.
Qed.

(* on the same history the model answers the new definition: 8 element events
   both times (s -> i, then ii -> nothing), but not the same ones *)
Lemma redeclare_regenerates :
  map (fun o => match o with RXml x => Some (length x) | _ => None end)
      (snd (crun (c_new ex_iname) (ex_redeclare ++ [OGetXml])))
  = [None; Some 8%nat; None; Some 8%nat] /\
  nth_error (snd (crun (c_new ex_iname) (ex_redeclare ++ [OGetXml]))) 1
  <> nth_error (snd (crun (c_new ex_iname) (ex_redeclare ++ [OGetXml]))) 3.
Proof. split; [vm_compute; reflexivity | vm_compute; intros H; discriminate H]. Qed.

(* ========================================================================= *)
(* 3. association lists: deletion                                               *)
(* ========================================================================= *)

Section Del.
  Context {V : Type}.
  Implicit Types (l : list (str * V)) (k n : str).

  Lemma alist_del_incl k l x : In x (alist_del str_eqb k l) -> In x l.
  Proof.
    induction l as [|[k' v'] l IH]; cbn [alist_del In]; [tauto|].
    destruct (str_eqb k k'); cbn [In]; tauto.
  Qed.

  Lemma alist_del_forall (P : str * V -> Prop) k l : Forall P l -> Forall P (alist_del str_eqb k l).
  Proof.
    intros H. apply Forall_forall. intros x Hx. apply alist_del_incl in Hx.
    revert x Hx. apply Forall_forall. exact H.
  Qed.

  Lemma alist_del_keys_incl k l x : In x (map fst (alist_del str_eqb k l)) -> In x (map fst l).
  Proof.
    intros H. apply in_map_iff in H as [kv [E Hkv]]. apply alist_del_incl in Hkv.
    subst x. apply in_map, Hkv.
  Qed.

  Lemma alist_del_nodup k l : NoDup (map fst l) -> NoDup (map fst (alist_del str_eqb k l)).
  Proof.
    induction l as [|[k' v'] l IH]; cbn [alist_del map fst]; [auto|].
    intros H. apply NoDup_cons_iff in H as [Hk Hl].
    destruct (str_eqb k k'); [exact Hl|]. cbn [map fst]. constructor; [|apply IH, Hl].
    intros Hin. apply Hk. eapply alist_del_keys_incl, Hin.
  Qed.

  Lemma alist_get_del n k l :
    NoDup (map fst l) ->
    alist_get str_eqb n (alist_del str_eqb k l) = if str_eqb n k then None else alist_get str_eqb n l.
  Proof.
    induction l as [|[k' v'] l IH]; cbn [alist_del alist_get map fst].
    - intros _. destruct (str_eqb n k); reflexivity.
    - intros H. apply NoDup_cons_iff in H as [Hk Hl].
      destruct (str_eqb k k') eqn:E.
      + apply str_eqb_eq in E. subst k'. destruct (str_eqb n k) eqn:E2; [|reflexivity].
        apply str_eqb_eq in E2. subst n. apply alist_get_none_notin. exact Hk.
      + cbn [alist_get]. destruct (str_eqb n k') eqn:E3.
        * apply str_eqb_eq in E3. subst n. rewrite str_eqb_sym, E. reflexivity.
        * apply IH, Hl.
  Qed.
End Del.

Lemma dict_del_ok (ok : member -> Prop) d k : dict_ok ok d -> dict_ok ok (alist_del str_eqb k d).
Proof.
  intros [Hn [Hk Ho]]. split; [apply alist_del_nodup, Hn|].
  split; apply alist_del_forall; assumption.
Qed.

Lemma del_consistent k i n :
  consistent i -> consistent (set_dict k i (alist_del str_eqb n (dict_of k i))).
Proof.
  intros [Hm [Hs Hp]]. destruct i as [nm ms ss ps].
  destruct k; cbn [set_dict dict_of i_name i_methods i_signals i_props] in *;
    (split; [|split]); cbn [i_methods i_signals i_props]; try assumption; apply dict_del_ok; assumption.
Qed.

(* ========================================================================= *)
(* 4. the specification's [last_*] under snoc and filter                        *)
(* ========================================================================= *)

Definition keeps_last {A D} (f : option A -> D -> option A) : Prop :=
  forall acc d, f acc d = match f None d with Some v => Some v | None => acc end.

Lemma fold_snoc {A D} (f : option A -> D -> option A) ds d :
  keeps_last f ->
  fold_left f (ds ++ [d]) None = match f None d with Some v => Some v | None => fold_left f ds None end.
Proof. intros Hf. rewrite fold_left_app. cbn [fold_left]. apply Hf. Qed.

(* dropping declarations that do not matter *)
Lemma fold_filter_keep {A D} (f : option A -> D -> option A) (p : D -> bool) :
  keeps_last f -> (forall d, p d = false -> f None d = None) ->
  forall ds, fold_left f (filter p ds) None = fold_left f ds None.
Proof.
  intros Hf Hp. induction ds as [|d ds IH]; cbn [filter]; [reflexivity|].
  destruct (p d) eqn:E; cbn [fold_left].
  - rewrite (fold_last f Hf (filter p ds)), (fold_last f Hf ds), IH. reflexivity.
  - rewrite (fold_last f Hf ds (f None d)), IH, (Hp d E).
    destruct (fold_left f ds None); reflexivity.
Qed.

(* dropping all declarations that matter *)
Lemma fold_filter_drop {A D} (f : option A -> D -> option A) (p : D -> bool) :
  keeps_last f -> (forall d, p d = true -> f None d = None) ->
  forall ds, fold_left f (filter p ds) None = None.
Proof.
  intros Hf Hp. induction ds as [|d ds IH]; cbn [filter]; [reflexivity|].
  destruct (p d) eqn:E; cbn [fold_left]; [|exact IH].
  rewrite (fold_last f Hf (filter p ds)), IH. apply Hp, E.
Qed.

Definition f_method (n : str) (acc : option (list ty * list ty)) (d : tdecl) :=
  match d with TMethod m i o => if str_eqb m n then Some (i, o) else acc | _ => acc end.
Definition f_signal (n : str) (acc : option (list ty)) (d : tdecl) :=
  match d with TSignal m a => if str_eqb m n then Some a else acc | _ => acc end.
Definition f_property (n : str) (acc : option (ty * access)) (d : tdecl) :=
  match d with TProperty m t a _ => if str_eqb m n then Some (t, a) else acc | _ => acc end.

Lemma keeps_method n : keeps_last (f_method n).
Proof. intros acc [m i o|m a|m t a x]; cbn [f_method]; try reflexivity. destruct (str_eqb m n); reflexivity. Qed.
Lemma keeps_signal n : keeps_last (f_signal n).
Proof. intros acc [m i o|m a|m t a x]; cbn [f_signal]; try reflexivity. destruct (str_eqb m n); reflexivity. Qed.
Lemma keeps_property n : keeps_last (f_property n).
Proof. intros acc [m i o|m a|m t a x]; cbn [f_property]; try reflexivity. destruct (str_eqb m n); reflexivity. Qed.

Lemma last_method_fold n ds : last_method n ds = fold_left (f_method n) ds None.
Proof. reflexivity. Qed.
Lemma last_signal_fold n ds : last_signal n ds = fold_left (f_signal n) ds None.
Proof. reflexivity. Qed.
Lemma last_property_fold n ds : last_property n ds = fold_left (f_property n) ds None.
Proof. reflexivity. Qed.

Lemma last_method_snoc n ds d :
  last_method n (ds ++ [d]) = match last_method n [d] with Some v => Some v | None => last_method n ds end.
Proof. rewrite !last_method_fold. apply fold_snoc, keeps_method. Qed.
Lemma last_signal_snoc n ds d :
  last_signal n (ds ++ [d]) = match last_signal n [d] with Some v => Some v | None => last_signal n ds end.
Proof. rewrite !last_signal_fold. apply fold_snoc, keeps_signal. Qed.
Lemma last_property_snoc n ds d :
  last_property n (ds ++ [d]) = match last_property n [d] with Some v => Some v | None => last_property n ds end.
Proof. rewrite !last_property_fold. apply fold_snoc, keeps_property. Qed.

Definition undeclare (k : mkind) (nm : str) (ds : list tdecl) : list tdecl :=
  filter (fun d => negb (declares k nm d)) ds.

Lemma negb_false b : negb b = false -> b = true.
Proof. destruct b; [reflexivity | discriminate]. Qed.
Lemma negb_true b : negb b = true -> b = false.
Proof. destruct b; [discriminate | reflexivity]. Qed.

Lemma last_method_undeclare k nm n ds :
  last_method n (undeclare k nm ds)
  = if (match k with IsMethod => true | _ => false end) && str_eqb nm n then None else last_method n ds.
Proof.
  rewrite !last_method_fold. unfold undeclare.
  destruct k; cbn [andb]; try (apply fold_filter_keep; [apply keeps_method|];
    intros [m i o|m a|m t a x] H; apply negb_false in H; cbn [declares] in H; try discriminate H; reflexivity).
  destruct (str_eqb nm n) eqn:E.
  - apply str_eqb_eq in E. subst n. apply fold_filter_drop; [apply keeps_method|].
    intros [m i o|m a|m t a x] H; apply negb_true in H; cbn [declares] in H; cbn [f_method]; try reflexivity.
    rewrite H. reflexivity.
  - apply fold_filter_keep; [apply keeps_method|].
    intros [m i o|m a|m t a x] H; apply negb_false in H; cbn [declares] in H; cbn [f_method]; try reflexivity.
    apply str_eqb_eq in H. subst m. rewrite E. reflexivity.
Qed.

Lemma last_signal_undeclare k nm n ds :
  last_signal n (undeclare k nm ds)
  = if (match k with IsSignal => true | _ => false end) && str_eqb nm n then None else last_signal n ds.
Proof.
  rewrite !last_signal_fold. unfold undeclare.
  destruct k; cbn [andb]; try (apply fold_filter_keep; [apply keeps_signal|];
    intros [m i o|m a|m t a x] H; apply negb_false in H; cbn [declares] in H; try discriminate H; reflexivity).
  destruct (str_eqb nm n) eqn:E.
  - apply str_eqb_eq in E. subst n. apply fold_filter_drop; [apply keeps_signal|].
    intros [m i o|m a|m t a x] H; apply negb_true in H; cbn [declares] in H; cbn [f_signal]; try reflexivity.
    rewrite H. reflexivity.
  - apply fold_filter_keep; [apply keeps_signal|].
    intros [m i o|m a|m t a x] H; apply negb_false in H; cbn [declares] in H; cbn [f_signal]; try reflexivity.
    apply str_eqb_eq in H. subst m. rewrite E. reflexivity.
Qed.

Lemma last_property_undeclare k nm n ds :
  last_property n (undeclare k nm ds)
  = if (match k with IsProperty => true | _ => false end) && str_eqb nm n then None else last_property n ds.
Proof.
  rewrite !last_property_fold. unfold undeclare.
  destruct k; cbn [andb]; try (apply fold_filter_keep; [apply keeps_property|];
    intros [m i o|m a|m t a x] H; apply negb_false in H; cbn [declares] in H; try discriminate H; reflexivity).
  destruct (str_eqb nm n) eqn:E.
  - apply str_eqb_eq in E. subst n. apply fold_filter_drop; [apply keeps_property|].
    intros [m i o|m a|m t a x] H; apply negb_true in H; cbn [declares] in H; cbn [f_property]; try reflexivity.
    rewrite H. reflexivity.
  - apply fold_filter_keep; [apply keeps_property|].
    intros [m i o|m a|m t a x] H; apply negb_false in H; cbn [declares] in H; cbn [f_property]; try reflexivity.
    apply str_eqb_eq in H. subst m. rewrite E. reflexivity.
Qed.

(* ========================================================================= *)
(* 5. typed histories: the object shows the definition in force                 *)
(* ========================================================================= *)

Definition kind_of (k : mkind) : kind :=
  match k with IsMethod => KMeth | IsSignal => KSig | IsProperty => KProp end.

(* the call a step of a typed history makes *)
Definition cop_of (o : hop) : cop :=
  match o with
  | HAdd d => cop_add (decl_of d)
  | HDel k n => ODel (kind_of k) n
  | HGetXml => OGetXml
  end.

Lemma cstep_cop_add st d :
  cstep st (cop_add d)
  = match add_decl (c_iface st) d with
    | Ok i' => (mkC i' None, RNone)
    | Err e => (st, RErr e)
    end.
Proof.
  destruct d as [n a r|n a|n sg rd wr e]; cbn [cop_add cstep add_decl]; unfold c_add.
  - destruct (add_method (c_iface st) (MMeth (new_method n a r))); reflexivity.
  - destruct (add_signal (c_iface st) (MSig (new_signal n a))); reflexivity.
  - destruct (add_property (c_iface st) (MProp (new_property n sg rd wr e))); reflexivity.
Qed.

Definition hinv (name : str) (ds : list tdecl) (st : cobj) : Prop :=
  consistent (c_iface st) /\ declared name ds (observe (c_iface st)) /\ coherent st.

Lemma hinv_new name : hinv name [] (c_new name).
Proof.
  split; [repeat split; constructor|]. split; [|exact I].
  split; [reflexivity|]. split; [|split]; intros n; reflexivity.
Qed.

Lemma observe_del_method i nm n :
  NoDup (map fst (i_methods i)) ->
  o_method (observe (set_dict KMeth i (alist_del str_eqb nm (i_methods i)))) n
  = if str_eqb nm n then None else o_method (observe i) n.
Proof.
  intros H. destruct i as [x ms ss ps]. cbn [observe o_method set_dict i_methods] in *.
  rewrite alist_get_del by exact H. rewrite (str_eqb_sym n nm). destruct (str_eqb nm n); reflexivity.
Qed.

Lemma observe_del_signal i nm n :
  NoDup (map fst (i_signals i)) ->
  o_signal (observe (set_dict KSig i (alist_del str_eqb nm (i_signals i)))) n
  = if str_eqb nm n then None else o_signal (observe i) n.
Proof.
  intros H. destruct i as [x ms ss ps]. cbn [observe o_signal set_dict i_signals] in *.
  rewrite alist_get_del by exact H. rewrite (str_eqb_sym n nm). destruct (str_eqb nm n); reflexivity.
Qed.

Lemma observe_del_prop i nm n :
  NoDup (map fst (i_props i)) ->
  o_prop (observe (set_dict KProp i (alist_del str_eqb nm (i_props i)))) n
  = if str_eqb nm n then None else o_prop (observe i) n.
Proof.
  intros H. destruct i as [x ms ss ps]. cbn [observe o_prop set_dict i_props] in *.
  rewrite alist_get_del by exact H. rewrite (str_eqb_sym n nm). destruct (str_eqb nm n); reflexivity.
Qed.

(* a successful deletion *)
Lemma declared_del name ds i k nm :
  consistent i -> declared name ds (observe i) ->
  declared name (undeclare k nm ds)
           (observe (set_dict (kind_of k) i (alist_del str_eqb nm (dict_of (kind_of k) i)))).
Proof.
  intros [[Mn _] [[Sn _] [Pn _]]] [Dn [Dm [Ds Dp]]].
  split; [destruct k, i; exact Dn|].
  split; [|split]; intros n.
  - rewrite last_method_undeclare. destruct k; cbn [kind_of dict_of andb].
    + rewrite observe_del_method by exact Mn. destruct (str_eqb nm n); [reflexivity | apply Dm].
    + destruct i; apply Dm.
    + destruct i; apply Dm.
  - rewrite last_signal_undeclare. destruct k; cbn [kind_of dict_of andb].
    + destruct i; apply Ds.
    + rewrite observe_del_signal by exact Sn. destruct (str_eqb nm n); [reflexivity | apply Ds].
    + destruct i; apply Ds.
  - rewrite last_property_undeclare. destruct k; cbn [kind_of dict_of andb].
    + destruct i; apply Dp.
    + destruct i; apply Dp.
    + rewrite observe_del_prop by exact Pn. destruct (str_eqb nm n); [reflexivity | apply Dp].
Qed.

Lemma option_map_none {A B} (f : A -> B) o : None = option_map f o -> o = None.
Proof. destruct o; [discriminate | reflexivity]. Qed.

(* a deletion that fails (no such member): nothing was declared under that name *)
Lemma declared_del_absent name ds i k nm :
  alist_get str_eqb nm (dict_of (kind_of k) i) = None ->
  declared name ds (observe i) -> declared name (undeclare k nm ds) (observe i).
Proof.
  intros Habs [Dn [Dm [Ds Dp]]]. split; [exact Dn|].
  split; [|split]; intros n.
  - rewrite last_method_undeclare. destruct k; cbn [andb]; try apply Dm.
    destruct (str_eqb nm n) eqn:E; [|apply Dm]. apply str_eqb_eq in E. subst n.
    cbn [kind_of dict_of] in Habs. cbn [observe o_method]. rewrite Habs. reflexivity.
  - rewrite last_signal_undeclare. destruct k; cbn [andb]; try apply Ds.
    destruct (str_eqb nm n) eqn:E; [|apply Ds]. apply str_eqb_eq in E. subst n.
    cbn [kind_of dict_of] in Habs. cbn [observe o_signal]. rewrite Habs. reflexivity.
  - rewrite last_property_undeclare. destruct k; cbn [andb]; try apply Dp.
    destruct (str_eqb nm n) eqn:E; [|apply Dp]. apply str_eqb_eq in E. subst n.
    cbn [kind_of dict_of] in Habs. cbn [observe o_prop]. rewrite Habs. reflexivity.
Qed.

Lemma declared_add name ds i0 d :
  declared name ds (observe i0) ->
  exists i1, add_decl i0 (decl_of d) = Ok i1 /\ declared name (ds ++ [d]) (observe i1).
Proof.
  intros [Dn [Dm [Ds Dp]]].
  destruct (add_decl_typed i0 d) as [i1 [E1 [N1 [M1 [S1 P1]]]]].
  exists i1. split; [exact E1|]. split; [cbn [observe o_name] in *; congruence|].
  split; [|split]; intros n.
  - rewrite M1, Dm, last_method_snoc. destruct (last_method n [d]); reflexivity.
  - rewrite S1, Ds, last_signal_snoc. destruct (last_signal n [d]); reflexivity.
  - rewrite P1, Dp, last_property_snoc. destruct (last_property n [d]); reflexivity.
Qed.

Lemma hinv_step name ds st o :
  hinv name ds st -> hinv name (in_force_step ds o) (fst (cstep st (cop_of o))).
Proof.
  intros [Hc [Hd Hx]]. destruct o as [d|k nm|]; cbn [cop_of in_force_step].
  - rewrite cstep_cop_add. destruct (declared_add name ds (c_iface st) d Hd) as [i1 [E1 D1]].
    rewrite E1. cbn [fst]. split; [|split; [exact D1 | exact I]].
    apply (add_decl_consistent _ _ _ Hc E1).
  - cbn [cstep]. unfold c_del.
    destruct (alist_get str_eqb nm (dict_of (kind_of k) (c_iface st))) eqn:E; cbn [fst].
    + split; [apply del_consistent, Hc|]. split; [|exact I].
      apply (declared_del name ds (c_iface st) k nm Hc Hd).
    + split; [exact Hc|]. split; [|exact Hx].
      apply (declared_del_absent name ds (c_iface st) k nm E Hd).
  - cbn [cstep fst]. unfold get_xml. unfold coherent in Hx.
    destruct (c_xml st) as [x|] eqn:Ex; cbn [fst]; [split; [exact Hc|]; split; [exact Hd|]; unfold coherent; rewrite Ex; exact Hx|].
    destruct (gen_iface (c_iface st)) as [x|e] eqn:G; cbn [fst].
    + split; [exact Hc|]. split; [exact Hd|]. exact G.
    + split; [exact Hc|]. split; [exact Hd|]. unfold coherent. rewrite Ex. exact I.
Qed.

Lemma hinv_run name h : forall ds st,
  hinv name ds st -> hinv name (fold_left in_force_step h ds) (fst (crun st (map cop_of h))).
Proof.
  induction h as [|o h IH]; intros ds st H; cbn [map crun fst fold_left]; [exact H|].
  apply IH, hinv_step, H.
Qed.

(* ========================================================================= *)
(* 6. the document generated after a history                                    *)
(* ========================================================================= *)

Lemma no_self_child path :
  starts_with (if ends_with_char c_slash path then path else path ++ [c_slash]) path
  && negb (str_eqb path (if ends_with_char c_slash path then path else path ++ [c_slash])) = false.
Proof.
  destruct (ends_with_char c_slash path).
  - rewrite str_eqb_refl. apply andb_false_r.
  - destruct (starts_with (path ++ [c_slash]) path) eqn:E; [|reflexivity].
    apply starts_with_spec in E as [t E]. exfalso.
    apply (f_equal (@length N)) in E. rewrite !app_length in E. cbn [length] in E. lia.
Qed.

(* generateIntrospectionXML for an object exporting one interface, no children *)
Lemma gen_doc_single path i :
  gen_doc path [(path, [i])]
  = do x <- gen_iface i; Ok (Some (EvStart t_node [(a_name, path)] :: (x ++ intro_events) ++ [EvEnd t_node])).
Proof.
  unfold gen_doc. cbn [alist_get]. rewrite str_eqb_refl. cbn [map_res].
  destruct (gen_iface i) as [x|e]; cbn [bind]; [|reflexivity].
  cbn [concat map fst]. rewrite app_nil_r.
  unfold child_names. cbn [fold_left]. rewrite no_self_child. cbn [flat_map app]. reflexivity.
Qed.

Lemma export_doc_gen_doc path st : coherent st ->
  gen_doc path [(path, [c_iface st])] = do evs <- snd (export_doc path st); Ok (Some evs).
Proof.
  intros H. rewrite gen_doc_single. unfold export_doc. cbn [snd]. rewrite (get_xml_answer _ H).
  destruct (gen_iface (c_iface st)); reflexivity.
Qed.

(* the first interface of the result of a parse *)
Definition first_parsed (r : res (list nat * list iface * list (str * nat))) : option iface :=
  match r with
  | Ok (id :: _, heap, _) => nth_error heap id
  | _ => None
  end.

Theorem roundtrip_after_history (name : str) (h : list hop) :
  let st := fst (crun (c_new name) (map cop_of h)) in
  declared name (in_force h) (observe (c_iface st)) /\
  forall replace heap known path,
    replace = true \/ alist_get str_eqb name known = None ->
    exists evs r,
      snd (export_doc path st) = Ok evs /\
      first_parsed (parse replace heap known evs) = Some r /\
      declared name (in_force h) (observe r).
Proof.
  cbv zeta. destruct (hinv_run name h [] (c_new name) (hinv_new name)) as [Hc [Hd Hx]].
  fold (in_force h) in Hd. split; [exact Hd|].
  intros replace heap known path Hf.
  set (st := fst (crun (c_new name) (map cop_of h))) in *.
  assert (Hobj : alist_get str_eqb path [(path, [c_iface st])] = Some [c_iface st]).
  { cbn [alist_get]. rewrite str_eqb_refl. reflexivity. }
  destruct (parse_doc replace heap known path _ _ Hobj (Forall_cons _ Hc (Forall_nil _))) as [evs [Eg Ep]].
  rewrite (export_doc_gen_doc path st Hx) in Eg.
  destruct (snd (export_doc path st)) as [evs'|e]; cbn [bind] in Eg; [|discriminate Eg].
  injection Eg as ->.
  exists evs, (normalise (c_iface st)). split; [reflexivity|].
  assert (Hname : i_name (c_iface st) = name) by (destruct Hd as [Dn _]; exact Dn).
  assert (Er : reuse replace known (i_name (c_iface st)) = None).
  { rewrite Hname. unfold reuse. destruct Hf as [->|Hk]; [reflexivity|]. destruct replace; [reflexivity | exact Hk]. }
  cbn [app fold_left expect_block] in Ep. rewrite Er in Ep.
  destruct (expect_extends replace std_ifaces (heap ++ [normalise (c_iface st)])
              (alist_set str_eqb (i_name (c_iface st)) (length heap) known) [length heap])
    as [h2 [k' [o2 [E L]]]].
  rewrite E in Ep. cbn [result_of app] in Ep. rewrite Ep. cbn [first_parsed].
  split.
  - rewrite <- app_assoc. cbn [app]. apply nth_error_mid.
  - eapply declared_same; [apply normalise_same; exact Hc | exact Hd].
Qed.

(* --- non-vacuity ------------------------------------------------------------- *)

Definition ex_s : ty := TBasic BString.
Definition ex_i : ty := TBasic BInt32.

(* declare M, S, P; ask for the XML; declare all three again under the same
   names with other definitions; ask; delete S; ask; delete S again (fails);
   declare S once more *)
Definition ex_history : list hop :=
  [ HAdd (TMethod ex_M [ex_s] [ex_i]); HAdd (TSignal ex_S [ex_s]); HAdd (TProperty ex_P ex_i ARead NTrue);
    HGetXml;
    HAdd (TMethod ex_M [ex_s; TArr (TEntry ex_s TVariant)] [TStruct [ex_i; ex_i]]);
    HAdd (TSignal ex_S [ex_s; TVariant]); HAdd (TProperty ex_P (TBasic BUInt32) AReadWrite NFalse);
    HGetXml;
    HDel IsSignal ex_S; HGetXml; HDel IsSignal ex_S;
    HAdd (TSignal ex_S []) ].

Definition ex_history_run :=
  let r := crun (c_new ex_iname) (map cop_of ex_history) in
  (map (fun o => match o with RXml x => Some (length x) | RNone => None | RErr _ => Some 0%nat end) (snd r),
   match snd (export_doc [47] (fst r)) with
   | Ok evs =>
       match first_parsed (parse true [] [] evs) with
       | Some p => Some (length evs, o_method (observe p) ex_M, o_signal (observe p) ex_S, o_prop (observe p) ex_P)
       | None => None
       end
   | Err _ => None
   end).

Lemma example_history :
  ex_history_run
  = ([None; None; None; Some 16%nat; None; None; None; Some 20%nat; None; Some 14%nat; Some 0%nat; None],
     Some (34%nat,
           Some (show_list [ex_s; TArr (TEntry ex_s TVariant)], show_list [TStruct [ex_i; ex_i]], 2%Z, 1%Z),
           Some ([], 0%Z),
           Some ([117], s_readwrite))) /\
  map (fun d => match d with TMethod n _ _ => n | TSignal n _ => n | TProperty n _ _ _ => n end)
      (in_force ex_history) = [ex_M; ex_P; ex_M; ex_P; ex_S].
Proof. split; vm_compute; reflexivity. Qed.
