(* Every value inside the claim of C19 (Spec/Homogeneous.v: ref_ty) has a typed
   denotation under its inferred signature, and the read-back of that
   denotation equals the value under Python equality. *)
From Tx Require Import Lib.Base Model.PyVal Model.Validators Model.Marshal
  Spec.WireSpec Spec.Readback Spec.Conforms Spec.WireTyped Spec.Homogeneous
  Proofs.SigProofs Proofs.InferProofs Proofs.MarshalProofs Proofs.UnmarshalProofs.
From Coq Require Import ZifyBool ZifyNat ZifyN.
Local Open Scope N_scope.

(* --- type equality ------------------------------------------------------------------- *)

Lemma ty_eqb_eq : forall a b, ty_eqb a b = true -> a = b.
Proof.
  induction a as [t Hb| |t IH|ts IH|k v IHk IHv] using ty_ind'; intros b H.
  - destruct t; try discriminate Hb; destruct b; try discriminate H; reflexivity.
  - destruct b; try discriminate H; reflexivity.
  - destruct b; try discriminate H. cbn [ty_eqb] in H. f_equal. apply IH. exact H.
  - destruct b as [| | | | | | | | | | | | | |ys| |]; try discriminate H. cbn [ty_eqb] in H. f_equal.
    revert ys H. induction IH as [|x xs Hx Hxs IHxs]; intros [|y ys] H; try discriminate H; [reflexivity|].
    apply andb_true_iff in H as [H1 H2]. f_equal; [apply Hx; exact H1|apply IHxs; exact H2].
  - destruct b; try discriminate H. cbn [ty_eqb] in H. apply andb_true_iff in H as [H1 H2].
    f_equal; [apply IHk|apply IHv]; assumption.
Qed.

Lemma has_ty_eq o t : has_ty o t = true -> o = Some t.
Proof. destruct o as [t'|]; [|discriminate]. cbn. intros H. f_equal. apply ty_eqb_eq. exact H. Qed.

Lemma variant_ok_inv o : variant_ok o = true -> exists t, o = Some t /\ (length (show t) <= 255)%nat.
Proof.
  destruct o as [t|]; [|discriminate]. cbn. unfold sig_fits. intros H. exists t. split; [reflexivity|].
  apply Nat.leb_le. exact H.
Qed.

(* --- scalar equality ------------------------------------------------------------------- *)

Lemma keyid_eqb_eq a b : keyid_eqb a b = true <-> a = b.
Proof.
  destruct a, b; cbn; split; intros H; try discriminate; try reflexivity.
  - apply Z.eqb_eq in H. congruence.
  - inversion H. apply Z.eqb_refl.
  - apply str_eqb_spec in H. congruence.
  - inversion H. apply str_eqb_refl.
  - apply N.eqb_eq in H. congruence.
  - inversion H. apply N.eqb_refl.
Qed.

Lemma scalar_eqb_id a b : scalar_eqb a b = true <-> exists i, key_id a = Some i /\ key_id b = Some i.
Proof.
  unfold scalar_eqb. destruct (key_id a) as [x|], (key_id b) as [y|]; split; intros H; try discriminate.
  - apply keyid_eqb_eq in H. subst. eauto.
  - destruct H as (i & H1 & H2). apply keyid_eqb_eq. congruence.
  - destruct H as (i & H1 & H2). discriminate.
  - destruct H as (i & H1 & H2). discriminate.
  - destruct H as (i & H1 & H2). discriminate.
Qed.

Lemma scalar_eqb_transfer ra a rb b :
  scalar_eqb ra a = true -> scalar_eqb rb b = true -> scalar_eqb a b = false -> scalar_eqb ra rb = false.
Proof.
  intros H1 H2 H3. destruct (scalar_eqb ra rb) eqn:E; [|reflexivity].
  apply scalar_eqb_id in H1 as (i & A1 & A2). apply scalar_eqb_id in H2 as (j & B1 & B2).
  apply scalar_eqb_id in E as (k & C1 & C2).
  assert (scalar_eqb a b = true) by (apply scalar_eqb_id; exists i; split; congruence). congruence.
Qed.

Definition is_key (r : pyval) : bool :=
  match r with PInt _ | PBool _ | PFloat _ | PStr _ => true | _ => false end.

Lemma scalar_neq_key a b : is_key a = true -> is_key b = true -> scalar_eqb a b = false ->
  py_eqb_key a b = Some false.
Proof.
  destruct a, b; try discriminate; intros _ _ H; try reflexivity; unfold scalar_eqb in H; cbn in H; cbn [py_eqb_key].
  - rewrite H. reflexivity.
  - rewrite H. reflexivity.
  - rewrite Z.eqb_sym. rewrite H. reflexivity.
  - destruct b0, b; cbn in *; try discriminate; reflexivity.
  - unfold neg_zero in H.
    destruct (9218868437227405312 <? bits mod 9223372036854775808); [reflexivity|].
    destruct (9218868437227405312 <? bits0 mod 9223372036854775808); [reflexivity|]. cbn [orb].
    f_equal.
    destruct (bits =? 9223372036854775808) eqn:E1; destruct (bits0 =? 9223372036854775808) eqn:E2;
      destruct (bits =? 0) eqn:E3; destruct (bits0 =? 0) eqn:E4; cbn [orb andb]; lia.
  - rewrite H. reflexivity.
Qed.

(* --- denotations ------------------------------------------------------------------------- *)

(* w is the wire value v denotes as a variant of type t, and reads back equal *)
Definition den (v : pyval) (t : ty) (w : wval) : Prop :=
  sig_from_py v = Ok (show t) /\ conf t v w /\ wt [] t w /\
  py_eqb (readback [] t w) (norm v) = true /\ (wdepth w <= 2 * pv_size v)%nat.

(* w is the wire value y denotes as an element of type t *)
Definition rel (t : ty) (y : pyval) (w : wval) : Prop :=
  conf t y w /\ wt [] t w /\ py_eqb (readback [] t w) (norm y) = true /\
  (wdepth w <= 2 * pv_size y + 1)%nat.

Definition P (v : pyval) : Prop := forall t, ref_ty v = Some t -> exists w, den v t w.

Lemma rel_direct y t w : den y t w -> rel t y w.
Proof. intros (_ & Hc & Hw & He & Hd). repeat split; try assumption. lia. Qed.

Lemma rel_variant y t w : den y t w -> (length (show t) <= 255)%nat -> rel TVariant y (WVariant t w).
Proof.
  intros (Hs & Hc & Hw & He & Hd) Hl. repeat split; try assumption.
  cbn [wdepth]. lia.
Qed.

Definition list_eqb_py :=
  fix go (la lb : list pyval) {struct la} : bool :=
    match la, lb with
    | [], [] => true
    | x :: la', y :: lb' => py_eqb x y && go la' lb'
    | _, _ => false
    end.

Lemma py_eqb_list la lb : py_eqb (PList la) (PList lb) = list_eqb_py la lb.
Proof. reflexivity. Qed.

Definition sum_size (l : list pyval) : nat := fold_right (fun x n => (pv_size x + n)%nat) 0%nat l.

Lemma pv_size_pos v : (1 <= pv_size v)%nat.
Proof. destruct v; cbn; lia. Qed.

Lemma in_sum_size y l : In y l -> (pv_size y <= sum_size l)%nat.
Proof.
  induction l as [|x r IH]; [contradiction|]. intros [->|H]; cbn [sum_size fold_right]; [lia|].
  specialize (IH H). unfold sum_size in IH. lia.
Qed.

Lemma wdepth_list_bound ws d : (forall w, In w ws -> (wdepth w <= d)%nat) -> (wdepth_list ws <= d)%nat.
Proof.
  induction ws as [|w ws IH]; intros H; [cbn; lia|].
  unfold wdepth_list in *. cbn [fold_right].
  pose proof (H w (or_introl eq_refl)). specialize (IH (fun x Hx => H x (or_intror Hx))). lia.
Qed.

Lemma forall_exists_forall2 {A B} (Q : A -> B -> Prop) l :
  Forall (fun a => exists b, Q a b) l -> exists bs, Forall2 Q l bs.
Proof.
  induction 1 as [|a l [b Hb] _ [bs IH]]; [exists []; constructor|].
  exists (b :: bs). constructor; assumption.
Qed.

Lemma wt_array et l :
  wt [] (TArray et) (WArray l) =
  (wt_all [] et l /\ match et with
                     | TDictEntry _ _ => keys_distinct (map (entry_key [] et) l)
                     | _ => True
                     end).
Proof. reflexivity. Qed.

Lemma array_rel et items ws : Forall2 (rel et) items ws ->
  conf_all et items ws /\ wt_all [] et ws /\
  list_eqb_py (map (readback [] et) ws) (map norm items) = true /\
  (forall w, In w ws -> exists y, In y items /\ (wdepth w <= 2 * pv_size y + 1)%nat).
Proof.
  induction 1 as [|y w items ws (Hc & Hw & He & Hd) _ (IH1 & IH2 & IH3 & IH4)].
  - repeat split. intros w [].
  - cbn [conf_all wt_all map list_eqb_py]. rewrite He, IH3. repeat split; try assumption.
    intros w' [<-|Hin]; [exists y; split; [left; reflexivity|exact Hd]|].
    destruct (IH4 w' Hin) as (y' & Hy' & Hd'). exists y'. split; [right; exact Hy'|exact Hd'].
Qed.

Lemma array_depth items ws :
  (forall w, In w ws -> exists y, In y items /\ (wdepth w <= 2 * pv_size y + 1)%nat) ->
  (wdepth (WArray ws) <= 2 * S (sum_size items))%nat.
Proof.
  intros H. cbn [wdepth]. fold (wdepth_list ws).
  assert (wdepth_list ws <= 2 * sum_size items + 1)%nat; [|lia].
  apply wdepth_list_bound. intros w Hin. destruct (H w Hin) as (y & Hy & Hd).
  pose proof (in_sum_size y items Hy). lia.
Qed.

(* an array of plain elements: everything den asks for except signature and depth *)
Lemma array_den et items ws v :
  (forall k x, et <> TDictEntry k x) ->
  array_items v = Ok items -> norm v = PList (map norm items) ->
  Forall2 (rel et) items ws ->
  conf (TArray et) v (WArray ws) /\ wt [] (TArray et) (WArray ws) /\
  py_eqb (readback [] (TArray et) (WArray ws)) (norm v) = true.
Proof.
  intros Hne Hitems Hnorm HF. destruct (array_rel et items ws HF) as (H1 & H2 & H3 & H4).
  split; [rewrite conf_array; exists items; split; assumption|].
  split; [rewrite wt_array; split; [exact H2|destruct et; try exact I; exfalso; eapply Hne; reflexivity]|].
  rewrite (readback_array_plain [] et ws Hne), Hnorm, py_eqb_list; exact H3.
Qed.

Lemma list_depth et items ws : Forall2 (rel et) items ws ->
  (wdepth (WArray ws) <= 2 * S (sum_size items))%nat.
Proof. intros HF. apply array_depth. apply (array_rel et items ws HF). Qed.

Ltac crush_if :=
  repeat match goal with
         | |- context [if ?b then _ else _] => destruct b
         | |- context [match ?o with Some _ => _ | None => _ end] => destruct o
         end.

Lemma ref_ty_list_cons x r : ref_ty (PList (x :: r)) =
  if forallb (fun y => subclass (class_of y) (class_of x)) r then
    match ref_ty x with
    | Some t => if forallb (fun y => has_ty (ref_ty y) t || as_base x y) r then Some (TArray t) else None
    | None => None
    end
  else if variant_ok (ref_ty x) && forallb (fun y => variant_ok (ref_ty y)) r
       then Some (TArray TVariant) else None.
Proof. reflexivity. Qed.

Definition tuple_tys :=
  fix go (l : list pyval) : option (list ty) :=
    match l with
    | [] => Some []
    | x :: r => match ref_ty x, go r with
                | Some t, Some ts => Some (t :: ts)
                | _, _ => None
                end
    end.

Lemma ref_ty_tuple x r : ref_ty (PTuple (x :: r)) = option_map TStruct (tuple_tys (x :: r)).
Proof. reflexivity. Qed.

Lemma ref_ty_dict k0 x0 r : ref_ty (PDict ((k0, x0) :: r)) =
  match ref_ty k0 with
  | None => None
  | Some kt =>
      if basic kt
         && forallb (fun kv => has_ty (ref_ty (fst kv)) kt) r
         && negb (existsb (fun kv => nan_key (fst kv)) ((k0, x0) :: r))
         && distinct_b (map (fun kv => norm (fst kv)) ((k0, x0) :: r))
      then
        if forallb (fun kv => subclass (class_of (snd kv)) (class_of x0)) r then
          match ref_ty x0 with
          | Some vt => if forallb (fun kv => has_ty (ref_ty (snd kv)) vt || as_base x0 (snd kv)) r
                       then Some (TArray (TDictEntry kt vt)) else None
          | None => None
          end
        else
          if variant_ok (ref_ty x0) && forallb (fun kv => variant_ok (ref_ty (snd kv))) r
          then Some (TArray (TDictEntry kt TVariant)) else None
      else None
  end.
Proof. reflexivity. Qed.

Lemma wrap_ty_basic c x t : wrap_ty c x = Some t -> basic t = true.
Proof.
  unfold wrap_ty, int_code_ty. destruct x; try discriminate; crush_if; intros H; inversion H; reflexivity.
Qed.

Lemma ref_ty_not_entry v t : ref_ty v = Some t -> forall k x, t <> TDictEntry k x.
Proof.
  intros H k x ->. destruct v as [z|b|bits|s|s|l|l|l|l|c y|].
  - cbn [ref_ty] in H. destruct (int_range TInt32 z); discriminate.
  - discriminate.
  - cbn [ref_ty] in H. destruct (bits <? 2 ^ 64); discriminate.
  - cbn [ref_ty] in H. destruct (str_ok s); discriminate.
  - cbn [ref_ty] in H. destruct (forallb _ s); discriminate.
  - destruct l as [|y r]; [discriminate|]. rewrite ref_ty_list_cons in H. revert H. crush_if; discriminate.
  - destruct l as [|y r]; [discriminate|]. rewrite ref_ty_tuple in H. destruct (tuple_tys (y :: r)); discriminate.
  - destruct l as [|[k0 x0] r]; [discriminate|]. rewrite ref_ty_dict in H. revert H. crush_if; discriminate.
  - discriminate.
  - cbn [ref_ty] in H. apply wrap_ty_basic in H. discriminate.
  - discriminate.
Qed.

(* --- scalars ------------------------------------------------------------------------------ *)

Lemma scalar_refl a i : key_id a = Some i -> scalar_eqb a a = true.
Proof. intros H. apply scalar_eqb_id. exists i. split; exact H. Qed.

Lemma den_int z : P (PInt z).
Proof.
  intros t H. cbn [ref_ty] in H. destruct (int_range TInt32 z) eqn:E; [|discriminate]. inversion H; subst.
  exists (WInt z). unfold den. cbn [sig_from_py show conf wt readback norm py_eqb wdepth pv_size].
  repeat split; try assumption; try reflexivity; [|lia].
  eapply scalar_refl. reflexivity.
Qed.

Lemma den_bool b : P (PBool b).
Proof.
  intros t H. inversion H; subst.
  exists (WBool b). unfold den. cbn [sig_from_py show conf wt readback norm py_eqb wdepth pv_size unwrap].
  repeat split; try reflexivity; [left; reflexivity| |lia].
  eapply scalar_refl. reflexivity.
Qed.

Lemma den_float bits : P (PFloat bits).
Proof.
  intros t H. cbn [ref_ty] in H. destruct (bits <? 2 ^ 64) eqn:E; [|discriminate]. inversion H; subst.
  apply N.ltb_lt in E.
  exists (WDouble bits). unfold den. cbn [sig_from_py show conf wt readback norm py_eqb wdepth pv_size unwrap].
  repeat split; try assumption; try reflexivity; [|lia].
  eapply scalar_refl. reflexivity.
Qed.

Lemma str_ok_inv s : str_ok s = true -> existsb (N.eqb 0) s = false /\ utf8_valid s = true.
Proof.
  unfold str_ok. intros H. apply andb_true_iff in H as [H1 H2]. split; [|exact H2].
  destruct (existsb (N.eqb 0) s); [discriminate|reflexivity].
Qed.

Lemma den_str s : P (PStr s).
Proof.
  intros t H. cbn [ref_ty] in H. destruct (str_ok s) eqn:E; [|discriminate]. inversion H; subst.
  apply str_ok_inv in E as [E1 E2].
  exists (WStr s). unfold den. cbn [sig_from_py show conf wt readback norm py_eqb wdepth pv_size str_of unwrap].
  repeat split; try assumption; try reflexivity; [|lia].
  eapply scalar_refl. reflexivity.
Qed.

Lemma int_code_ty_inv c t : int_code_ty c = Some t -> [c] = show t /\ is_int_ty t = true.
Proof.
  unfold int_code_ty.
  repeat match goal with
         | |- context [if ?c =? ?n then _ else _] =>
             let E := fresh "E" in destruct (c =? n) eqn:E;
             [apply N.eqb_eq in E; subst; intros H; inversion H; split; reflexivity|clear E]
         end.
  discriminate.
Qed.

Lemma den_wrap c x : P (PWrap c x).
Proof.
  intros t H. cbn [ref_ty] in H. unfold wrap_ty in H. destruct x as [z| | |s| | | | | | |]; try discriminate.
  - destruct (c =? 98) eqn:E98.
    + apply N.eqb_eq in E98; subst.
      destruct ((z =? 0) || (z =? 1))%Z eqn:Ez; [|discriminate]. inversion H; subst.
      assert (Hz : (z = 0 \/ z = 1)%Z) by lia.
      exists (WBool (z =? 1)%Z). unfold den.
      cbn [sig_from_py show conf wt readback norm py_eqb wdepth pv_size unwrap].
      repeat split; try reflexivity; [right; destruct Hz; subst; reflexivity| |lia].
      destruct Hz; subst; reflexivity.
    + destruct (int_code_ty c) as [t'|] eqn:Ec; [|discriminate].
      destruct (int_range t' z) eqn:Er; [|discriminate]. inversion H; subst.
      apply int_code_ty_inv in Ec as [Es Ei].
      exists (WInt z). unfold den. cbn [sig_from_py norm wdepth pv_size]. rewrite Es.
      split; [reflexivity|].
      assert (scalar_eqb (PInt z) (PInt z) = true) by (eapply scalar_refl; reflexivity).
      destruct t; try discriminate Ei; cbn [conf wt readback py_eqb as_int unwrap];
        repeat split; try assumption; try reflexivity; lia.
  - destruct (c =? 103) eqn:E103; [|destruct (c =? 111) eqn:E111; [|discriminate]].
    + apply N.eqb_eq in E103; subst.
      destruct (is_ascii s && (length s <=? 255)%nat) eqn:E; [|discriminate]. inversion H; subst.
      apply andb_true_iff in E as [Ea El]. apply Nat.leb_le in El.
      exists (WStr s). unfold den.
      cbn [sig_from_py show conf wt readback norm py_eqb wdepth pv_size str_of unwrap].
      repeat split; try assumption; try reflexivity; [|lia].
      eapply scalar_refl. reflexivity.
    + apply N.eqb_eq in E111; subst.
      destruct (str_ok s && validate_path s) eqn:E; [|discriminate]. inversion H; subst.
      apply andb_true_iff in E as [Ea Ep]. apply str_ok_inv in Ea as [E1 E2].
      exists (WStr s). unfold den.
      cbn [sig_from_py show conf wt readback norm py_eqb wdepth pv_size str_of unwrap].
      repeat split; try assumption; try reflexivity; [|lia].
      eapply scalar_refl. reflexivity.
Qed.

(* an instance of a subclass travelling as the first element's plain type *)
Lemma rel_base x y t0 : as_base x y = true -> ref_ty x = Some t0 -> exists w, rel t0 y w.
Proof.
  unfold as_base. destruct x as [z0| | |s0| | | | | | |]; try discriminate.
  - cbn [ref_ty]. destruct (int_range TInt32 z0); [|discriminate]. intros Hb H; inversion H; subst.
    destruct (int_val y) as [zy|] eqn:Ey; [|discriminate]. exists (WInt zy).
    assert (as_int y = Ok zy /\ scalar_eqb (PInt zy) (norm y) = true) as [A B].
    { destruct y as [z|b| | | | | | | |c y'|]; try discriminate Ey; cbn in Ey.
      - inversion Ey; subst. split; [reflexivity|]. eapply scalar_refl. reflexivity.
      - inversion Ey; subst. split; [reflexivity|]. unfold scalar_eqb. cbn. apply Z.eqb_refl.
      - destruct y'; try discriminate Ey. inversion Ey; subst. split; [reflexivity|].
        cbn [norm]. eapply scalar_refl. reflexivity. }
    unfold rel. cbn [conf wt readback py_eqb wdepth].
    repeat split; try assumption. pose proof (pv_size_pos y). lia.
  - cbn [ref_ty]. destruct (str_ok s0); [|discriminate]. intros Hb H; inversion H; subst.
    destruct (str_val y) as [sy|] eqn:Ey; [|discriminate]. exists (WStr sy).
    apply str_ok_inv in Hb as [E1 E2].
    assert (str_of y = Some sy /\ scalar_eqb (PStr sy) (norm y) = true) as [A B].
    { destruct y as [| | |s| | | | | |c y'|]; try discriminate Ey; cbn in Ey.
      - inversion Ey; subst. split; [reflexivity|]. eapply scalar_refl. reflexivity.
      - destruct y'; try discriminate Ey. inversion Ey; subst. split; [reflexivity|].
        cbn [norm]. eapply scalar_refl. reflexivity. }
    unfold rel. cbn [conf wt readback py_eqb wdepth].
    repeat split; try assumption. pose proof (pv_size_pos y). lia.
Qed.

Lemma den_bytes b : P (PBytes b).
Proof.
  intros t H. cbn [ref_ty] in H. destruct (forallb (fun x => x <? 256) b) eqn:E; [|discriminate].
  inversion H; subst. clear H.
  set (items := map (fun x => PInt (Z.of_N x)) b).
  set (ws := map (fun x => WInt (Z.of_N x)) b).
  exists (WArray ws).
  assert (HF : Forall2 (rel TByte) items ws).
  { subst items ws. induction b as [|x b IH]; [constructor|].
    cbn [forallb] in E. apply andb_true_iff in E as [Ex Eb]. cbn [map]. constructor; [|apply IH; exact Eb].
    unfold rel. cbn [conf wt readback py_eqb norm wdepth pv_size as_int unwrap int_range].
    assert (scalar_eqb (PInt (Z.of_N x)) (PInt (Z.of_N x)) = true) by (eapply scalar_refl; reflexivity).
    repeat split; try assumption; lia. }
  assert (Hn : map norm items = items).
  { subst items. clear. induction b as [|x b IH]; [reflexivity|]. cbn [map norm]. f_equal. exact IH. }
  split; [reflexivity|].
  destruct (array_den TByte items ws (PBytes b)) as (A & B & C); try assumption; try reflexivity.
  { intros; discriminate. }
  { cbn [norm]. rewrite Hn. reflexivity. }
  split; [exact A|split; [exact B|split; [exact C|]]].
  change (wdepth (WArray ws)) with (S (wdepth_list ws)). cbn [pv_size].
  assert (wdepth_list ws <= 1)%nat; [|lia]. apply wdepth_list_bound.
  intros w Hin. subst ws. apply in_map_iff in Hin as (x & <- & _). cbn. lia.
Qed.

(* --- lists ---------------------------------------------------------------------------------- *)

Lemma sig_list_cons x r : sig_from_py (PList (x :: r)) =
  if forallb (fun y => subclass (class_of y) (class_of x)) r
  then match sig_from_py x with Ok s => Ok (c_a :: s) | Err e => Err e end else Ok sig_av.
Proof. reflexivity. Qed.

Lemma rel_of_variant_ok y : P y -> variant_ok (ref_ty y) = true -> exists w, rel TVariant y w.
Proof.
  intros Py Hv. apply variant_ok_inv in Hv as (ty & Ety & Hl). destruct (Py ty Ety) as [w D].
  exists (WVariant ty w). apply rel_variant; assumption.
Qed.

Lemma den_list l : Forall P l -> P (PList l).
Proof.
  intros IH t H. destruct l as [|x r].
  - inversion H; subst. exists (WArray []). unfold den. split; [reflexivity|].
    split; [rewrite conf_array; exists []; split; [reflexivity|exact I]|].
    split; [rewrite wt_array; split; exact I|]. split; [reflexivity|]. cbn; lia.
  - rewrite ref_ty_list_cons in H. inversion IH as [|? ? Px Pr]; subst.
    destruct (forallb (fun y => subclass (class_of y) (class_of x)) r) eqn:Esame.
    + destruct (ref_ty x) as [t0|] eqn:Ex; [|discriminate].
      destruct (forallb (fun y => has_ty (ref_ty y) t0 || as_base x y) r) eqn:Eall; [|discriminate].
      inversion H; subst. clear H.
      destruct (Px t0 Ex) as [wx Dx].
      assert (HF : Forall (fun y => exists w, rel t0 y w) (x :: r)).
      { constructor; [exists wx; apply rel_direct; exact Dx|].
        rewrite forallb_forall in Eall. apply Forall_forall. intros y Hy.
        specialize (Eall y Hy). apply orb_true_iff in Eall as [E|E].
        - apply has_ty_eq in E. rewrite Forall_forall in Pr. destruct (Pr y Hy t0 E) as [w D].
          exists w. apply rel_direct; exact D.
        - eapply rel_base; eassumption. }
      apply forall_exists_forall2 in HF as [ws HF].
      exists (WArray ws).
      split; [rewrite sig_list_cons, Esame; destruct Dx as [-> _]; reflexivity|].
      destruct (array_den t0 (x :: r) ws (PList (x :: r))) as (A & B & C);
        [exact (ref_ty_not_entry x t0 Ex)|reflexivity|reflexivity|exact HF|].
      split; [exact A|split; [exact B|split; [exact C|]]].
      pose proof (list_depth _ _ _ HF). change (pv_size (PList (x :: r))) with (S (sum_size (x :: r))). lia.
    + destruct (variant_ok (ref_ty x) && forallb (fun y => variant_ok (ref_ty y)) r) eqn:Eall; [|discriminate].
      inversion H; subst. clear H. apply andb_true_iff in Eall as [Evx Evr].
      assert (HF : Forall (fun y => exists w, rel TVariant y w) (x :: r)).
      { constructor; [apply rel_of_variant_ok; assumption|].
        rewrite forallb_forall in Evr. rewrite Forall_forall in *. intros y Hy.
        apply rel_of_variant_ok; auto. }
      apply forall_exists_forall2 in HF as [ws HF].
      exists (WArray ws).
      split; [rewrite sig_list_cons, Esame; reflexivity|].
      destruct (array_den TVariant (x :: r) ws (PList (x :: r))) as (A & B & C);
        [intros; discriminate|reflexivity|reflexivity|exact HF|].
      split; [exact A|split; [exact B|split; [exact C|]]].
      pose proof (list_depth _ _ _ HF). change (pv_size (PList (x :: r))) with (S (sum_size (x :: r))). lia.
Qed.

(* --- tuples ---------------------------------------------------------------------------------- *)

Lemma seq_depth items ws :
  (forall w, In w ws -> exists y, In y items /\ (wdepth w <= 2 * pv_size y + 1)%nat) ->
  (wdepth_list ws <= 2 * sum_size items + 1)%nat.
Proof.
  intros H. apply wdepth_list_bound. intros w Hin. destruct (H w Hin) as (y & Hy & Hd).
  pose proof (in_sum_size y items Hy). lia.
Qed.

Lemma tuple_fields l : Forall P l -> forall ts, tuple_tys l = Some ts ->
  exists ws, tuple_sig l = Ok (show_list ts) /\ conf_fields ts l ws /\ wt_fields [] ts ws /\
    list_eqb_py (readback_seq [] ts ws) (map norm l) = true /\
    (forall w, In w ws -> exists y, In y l /\ (wdepth w <= 2 * pv_size y + 1)%nat) /\
    length ts = length l.
Proof.
  induction 1 as [|x r Px _ IH]; intros ts H.
  - inversion H; subst. exists []. repeat split. intros w [].
  - cbn [tuple_tys] in H. fold tuple_tys in H.
    destruct (ref_ty x) as [t|] eqn:Ex; [|discriminate].
    destruct (tuple_tys r) as [ts'|] eqn:Er; [|discriminate]. inversion H; subst. clear H.
    destruct (Px t Ex) as [w D]. destruct (IH ts' eq_refl) as (ws & A & B & C & E & F & G).
    apply rel_direct in D as (Dc & Dw & De & Dd).
    exists (w :: ws).
    split; [cbn [tuple_sig]; fold tuple_sig; destruct (Px t Ex) as [? [-> _]]; rewrite A; reflexivity|].
    split; [cbn [conf_fields]; split; assumption|].
    split; [cbn [wt_fields]; split; assumption|].
    split; [cbn [readback_seq map list_eqb_py]; rewrite De, E; reflexivity|].
    split; [|cbn [length]; congruence].
    intros w' [<-|Hin]; [exists x; split; [left; reflexivity|exact Dd]|].
    destruct (F w' Hin) as (y' & Hy' & Hd'). exists y'. split; [right; exact Hy'|exact Hd'].
Qed.

Lemma den_tuple l : Forall P l -> P (PTuple l).
Proof.
  intros IH t H. destruct l as [|x r]; [discriminate|]. rewrite ref_ty_tuple in H.
  destruct (tuple_tys (x :: r)) as [ts|] eqn:E; [|discriminate]. inversion H; subst. clear H.
  destruct (tuple_fields _ IH ts E) as (ws & A & B & C & D & F & G).
  exists (WStruct ws).
  split; [rewrite sig_tuple, A, show_struct; reflexivity|].
  split; [rewrite conf_struct; exists (x :: r); split; [reflexivity|exact B]|].
  split; [rewrite wt_struct_unfold; split; [destruct ts; [discriminate G|discriminate]|exact C]|].
  split; [rewrite readback_struct; cbn [norm]; rewrite py_eqb_list; exact D|].
  pose proof (seq_depth _ _ F).
  change (wdepth (WStruct ws)) with (S (wdepth_list ws)).
  change (pv_size (PTuple (x :: r))) with (S (sum_size (x :: r))). lia.
Qed.

(* --- dicts ----------------------------------------------------------------------------------- *)

Lemma scalar_eqb_sym a b : scalar_eqb a b = scalar_eqb b a.
Proof.
  destruct (scalar_eqb a b) eqn:E1, (scalar_eqb b a) eqn:E2; try reflexivity.
  - apply scalar_eqb_id in E1 as (i & A & B).
    assert (scalar_eqb b a = true) by (apply scalar_eqb_id; exists i; split; assumption). congruence.
  - apply scalar_eqb_id in E2 as (i & A & B).
    assert (scalar_eqb a b = true) by (apply scalar_eqb_id; exists i; split; assumption). congruence.
Qed.

Lemma readback_is_key kt w : key_ty kt = true -> wt [] kt w -> is_key (readback [] kt w) = true.
Proof. intros Hk Hw. destruct kt; try discriminate Hk; destruct w; try contradiction; reflexivity. Qed.

Lemma py_eqb_scalar a b : is_key a = true -> py_eqb a b = scalar_eqb a b.
Proof. destruct a; try discriminate; reflexivity. Qed.

Lemma conf_not_fd v w : conf TFd v w -> False.
Proof. destruct w; cbn; auto. Qed.

Lemma lookup_distinct lb : distinct_b (map fst lb) = true ->
  forall k y rk, In (k, y) lb -> scalar_eqb rk k = true -> lookup rk lb = Some y.
Proof.
  induction lb as [|[k' y'] lb IH]; intros Hd k y rk Hin Hrk; [contradiction|].
  cbn [map fst distinct_b] in Hd. apply andb_true_iff in Hd as [Hd1 Hd2]. cbn [lookup].
  destruct Hin as [E|Hin].
  - inversion E; subst. rewrite Hrk. reflexivity.
  - destruct (scalar_eqb rk k') eqn:E; [|apply (IH Hd2 k y rk Hin Hrk)].
    exfalso. rewrite forallb_forall in Hd1.
    assert (Hk : In k (map fst lb)) by (apply in_map_iff; exists (k, y); split; [reflexivity|exact Hin]).
    specialize (Hd1 k Hk). apply negb_true_iff in Hd1.
    apply scalar_eqb_id in E as (i & A & B). apply scalar_eqb_id in Hrk as (j & C & D).
    assert (scalar_eqb k' k = true) by (apply scalar_eqb_id; exists i; split; congruence). congruence.
Qed.

Lemma keys_distinct_transfer ks rks :
  Forall2 (fun k rk => is_key rk = true /\ scalar_eqb rk (norm k) = true) ks rks ->
  distinct_b (map norm ks) = true -> keys_distinct rks.
Proof.
  induction 1 as [|k rk ks rks [Hk He] HF IH]; intros Hd; [exact I|].
  cbn [map distinct_b] in Hd. apply andb_true_iff in Hd as [Hd1 Hd2].
  cbn [keys_distinct]. split; [|apply IH; exact Hd2].
  rewrite forallb_forall in Hd1. clear IH Hd2.
  induction HF as [|k' rk' ks rks [Hk' He'] _ IH']; [constructor|].
  constructor.
  - apply scalar_neq_key; [exact Hk'|exact Hk|].
    apply (scalar_eqb_transfer rk' (norm k') rk (norm k) He' He).
    rewrite scalar_eqb_sym. apply negb_true_iff. apply Hd1. left. reflexivity.
  - apply IH'. intros x Hx. apply Hd1. right. exact Hx.
Qed.

Definition erel (kt vt : ty) (kv : pyval * pyval) (e : wval) : Prop :=
  exists wk wx, e = WStruct [wk; wx] /\ rel kt (fst kv) wk /\ rel vt (snd kv) wx.

Lemma Forall2_in_r {A B} (Q : A -> B -> Prop) l bs : Forall2 Q l bs ->
  forall b, In b bs -> exists a, In a l /\ Q a b.
Proof.
  induction 1 as [|a b l bs Hq _ IH]; intros b' Hin; [contradiction|].
  destruct Hin as [<-|Hin]; [exists a; split; [left; reflexivity|exact Hq]|].
  destruct (IH b' Hin) as (a' & Ha & Hq'). exists a'. split; [right; exact Ha|exact Hq'].
Qed.

Lemma Forall2_len {A B} (Q : A -> B -> Prop) l bs : Forall2 Q l bs -> length l = length bs.
Proof. induction 1; cbn; congruence. Qed.

Definition pair_size (l : list (pyval * pyval)) : nat :=
  fold_right (fun kv n => (pv_size (fst kv) + pv_size (snd kv) + n)%nat) 0%nat l.

Lemma in_pair_size kv l : In kv l -> (pv_size (fst kv) + pv_size (snd kv) <= pair_size l)%nat.
Proof.
  induction l as [|x r IH]; [contradiction|]. intros [->|H]; cbn [pair_size fold_right]; [lia|].
  specialize (IH H). unfold pair_size in IH. lia.
Qed.

Lemma dict_rel kt vt l ws : key_ty kt = true -> Forall2 (erel kt vt) l ws ->
  conf_all (TDictEntry kt vt) (map (fun kv => PTuple [fst kv; snd kv]) l) ws /\
  wt_all [] (TDictEntry kt vt) ws.
Proof.
  intros Hkey. induction 1 as [|kv e l ws (wk & wx & -> & Rk & Rx) _ [IH1 IH2]]; [split; exact I|].
  destruct Rk as (Kc & Kw & _). destruct Rx as (Xc & Xw & _).
  cbn [map conf_all wt_all]. split; split; try assumption.
  - cbn [conf]. exists (fst kv), (snd kv). repeat split; assumption.
  - cbn [wt]. repeat split; assumption.
Qed.

Lemma dict_keys kt vt l ws : key_ty kt = true -> Forall2 (erel kt vt) l ws ->
  distinct_b (map (fun kv => norm (fst kv)) l) = true ->
  keys_distinct (map (entry_key [] (TDictEntry kt vt)) ws).
Proof.
  intros Hkey HF Hd.
  apply (keys_distinct_transfer (map fst l)); [|rewrite map_map; exact Hd].
  clear Hd. induction HF as [|kv e l ws (wk & wx & -> & Rk & Rx) _ IH]; [constructor|].
  cbn [map entry_key]. constructor; [|exact IH].
  destruct Rk as (_ & Kw & Ke & _).
  pose proof (readback_is_key kt wk Hkey Kw) as Hik. split; [exact Hik|].
  rewrite <- (py_eqb_scalar _ _ Hik). exact Ke.
Qed.

Lemma dict_depth kt vt l ws : Forall2 (erel kt vt) l ws ->
  (wdepth (WArray ws) <= 2 * S (pair_size l))%nat.
Proof.
  intros HF. change (wdepth (WArray ws)) with (S (wdepth_list ws)).
  assert (wdepth_list ws <= 2 * pair_size l)%nat; [|lia].
  apply wdepth_list_bound. intros e Hin.
  destruct (Forall2_in_r _ _ _ HF e Hin) as (kv & Hkv & wk & wx & -> & Rk & Rx).
  destruct Rk as (_ & _ & _ & Dk). destruct Rx as (_ & _ & _ & Dx).
  pose proof (in_pair_size kv l Hkv). pose proof (pv_size_pos (fst kv)). pose proof (pv_size_pos (snd kv)).
  cbn [wdepth fold_right]. lia.
Qed.

Lemma dict_eq kt vt l ws : key_ty kt = true -> Forall2 (erel kt vt) l ws ->
  distinct_b (map (fun kv => norm (fst kv)) l) = true ->
  py_eqb (readback [] (TArray (TDictEntry kt vt)) (WArray ws)) (norm (PDict l)) = true.
Proof.
  intros Hkey HF Hd. cbn [readback norm py_eqb].
  set (lb := map (fun kv => (norm (fst kv), norm (snd kv))) l).
  apply andb_true_iff. split.
  - rewrite map_length. unfold lb. rewrite map_length. rewrite (Forall2_len _ _ _ HF). apply Nat.eqb_refl.
  - assert (Hdb : distinct_b (map fst lb) = true).
    { unfold lb. rewrite map_map. cbn [fst]. exact Hd. }
    apply forallb_forall. intros e' Hin. apply in_map_iff in Hin as (e & <- & Hin).
    destruct (Forall2_in_r _ _ _ HF e Hin) as (kv & Hkv & wk & wx & -> & Rk & Rx).
    destruct Rk as (_ & Kw & Ke & _). destruct Rx as (_ & _ & Xe & _).
    cbn [fst snd].
    pose proof (readback_is_key kt wk Hkey Kw) as Hik. rewrite (py_eqb_scalar _ _ Hik) in Ke.
    rewrite (lookup_distinct lb Hdb (norm (fst kv)) (norm (snd kv)) (readback [] kt wk)); [exact Xe| |exact Ke].
    unfold lb. apply in_map_iff. exists kv. split; [reflexivity|exact Hkv].
Qed.

Lemma dict_last_sig (same : bool) sv ks vs : forall r sk,
  sk = Ok ks -> (same = true -> sv = Ok vs) ->
  Forall (fun kv => sig_from_py (fst kv) = Ok ks) r ->
  dict_last same sv sk r = Ok (97 :: 123 :: ks ++ (if same then vs else [118]) ++ [125]).
Proof.
  induction r as [|[k' v'] r IH]; intros sk Hk Hv HF.
  - cbn [dict_last]. rewrite Hk. destruct same; [rewrite (Hv eq_refl)|]; reflexivity.
  - cbn [dict_last]. fold (dict_last same sv). inversion HF as [|? ? Hk' HF']; subst. cbn [fst] in *.
    apply IH; assumption.
Qed.

Lemma P_sig v t : P v -> ref_ty v = Some t -> sig_from_py v = Ok (show t).
Proof. intros Pv E. destruct (Pv t E) as [w [S _]]. exact S. Qed.

Lemma dict_assemble kt vt k0 x0 r (same : bool) :
  let l := (k0, x0) :: r in
  key_ty kt = true ->
  Forall (fun kv => P (fst kv)) l -> Forall (fun kv => ref_ty (fst kv) = Some kt) l ->
  distinct_b (map (fun kv => norm (fst kv)) l) = true ->
  Forall (fun kv => exists w, rel vt (snd kv) w) l ->
  forallb (fun kv => subclass (class_of (snd kv)) (class_of x0)) r = same ->
  (same = true -> sig_from_py x0 = Ok (show vt)) ->
  (same = false -> vt = TVariant) ->
  exists w, den (PDict l) (TArray (TDictEntry kt vt)) w.
Proof.
  intros l Hkey HP Hkeys Hd Hvals Hsame Hsig Hvar.
  assert (HE : Forall (fun kv => exists e, erel kt vt kv e) l).
  { apply Forall_forall. intros kv Hin. rewrite Forall_forall in HP, Hkeys, Hvals.
    destruct (HP kv Hin kt (Hkeys kv Hin)) as [wk Dk]. destruct (Hvals kv Hin) as [wx Rx].
    exists (WStruct [wk; wx]), wk, wx. split; [reflexivity|]. split; [apply rel_direct; exact Dk|exact Rx]. }
  apply forall_exists_forall2 in HE as [ws HF].
  exists (WArray ws). destruct (dict_rel kt vt l ws Hkey HF) as [A B].
  assert (Hks : Forall (fun kv => sig_from_py (fst kv) = Ok (show kt)) l).
  { apply Forall_forall. intros kv Hin. rewrite Forall_forall in HP, Hkeys.
    apply P_sig; [apply HP; exact Hin|apply Hkeys; exact Hin]. }
  split.
  { unfold l. rewrite sig_dict, Hsame.
    rewrite (dict_last_sig same (sig_from_py x0) (show kt) (show vt)).
    - cbn [show]. destruct same; [reflexivity|]. rewrite (Hvar eq_refl). reflexivity.
    - inversion Hks; assumption.
    - exact Hsig.
    - inversion Hks; assumption. }
  split; [rewrite conf_array; exists (map (fun kv => PTuple [fst kv; snd kv]) l); split; [reflexivity|exact A]|].
  split; [rewrite wt_array; split; [exact B|apply (dict_keys kt vt l ws); assumption]|].
  split; [apply (dict_eq kt vt l ws); assumption|].
  pose proof (dict_depth kt vt l ws HF). change (pv_size (PDict l)) with (S (pair_size l)). lia.
Qed.

Lemma den_dict l : Forall (fun kv => P (fst kv) /\ P (snd kv)) l -> P (PDict l).
Proof.
  intros IH t H. destruct l as [|[k0 x0] r].
  - inversion H; subst. exists (WArray []). unfold den. split; [reflexivity|].
    split; [rewrite conf_array; exists []; split; [reflexivity|exact I]|].
    split; [rewrite wt_array; split; exact I|]. split; [reflexivity|]. cbn; lia.
  - rewrite ref_ty_dict in H. destruct (ref_ty k0) as [kt|] eqn:Ek0; [|discriminate].
    match type of H with (if ?c then _ else _) = _ => destruct c eqn:Ecs; [|discriminate] end.
    apply andb_true_iff in Ecs as [Ecs Hd]. apply andb_true_iff in Ecs as [Ecs _].
    apply andb_true_iff in Ecs as [Hb Hk].
    assert (HPk : Forall (fun kv => P (fst kv)) ((k0, x0) :: r)).
    { apply Forall_forall. intros kv Hin. rewrite Forall_forall in IH. apply (IH kv Hin). }
    assert (HPx : Forall (fun kv => P (snd kv)) ((k0, x0) :: r)).
    { apply Forall_forall. intros kv Hin. rewrite Forall_forall in IH. apply (IH kv Hin). }
    assert (Hkeys : Forall (fun kv => ref_ty (fst kv) = Some kt) ((k0, x0) :: r)).
    { constructor; [exact Ek0|]. apply Forall_forall. intros kv Hin. rewrite forallb_forall in Hk.
      apply has_ty_eq. apply Hk; exact Hin. }
    assert (Hkey : key_ty kt = true).
    { inversion HPk as [|? ? Pk _]; subst. destruct (Pk kt Ek0) as [w (_ & Hc & _)].
      unfold key_ty. destruct kt; try discriminate Hb; try reflexivity.
      exfalso; eapply conf_not_fd; exact Hc. }
    destruct (forallb (fun kv => subclass (class_of (snd kv)) (class_of x0)) r) eqn:Esame.
    + destruct (ref_ty x0) as [vt|] eqn:Ex0; [|discriminate].
      destruct (forallb (fun kv => has_ty (ref_ty (snd kv)) vt || as_base x0 (snd kv)) r) eqn:Ev; [|discriminate].
      inversion H; subst. clear H.
      inversion HPx as [|? ? Px0 HPr]; subst. cbn [snd] in Px0.
      apply (dict_assemble kt vt k0 x0 r true); try assumption.
      * constructor.
        { cbn [snd]. destruct (Px0 vt Ex0) as [w D]. exists w. apply rel_direct. exact D. }
        apply Forall_forall. intros kv Hin. rewrite forallb_forall in Ev. rewrite Forall_forall in HPr.
        specialize (Ev kv Hin). apply orb_true_iff in Ev as [E|E].
        -- apply has_ty_eq in E. destruct (HPr kv Hin vt E) as [w D]. exists w. apply rel_direct. exact D.
        -- eapply rel_base; eassumption.
      * intros _. apply P_sig; assumption.
      * discriminate.
    + match type of H with (if ?c then _ else _) = _ => destruct c eqn:Ev; [|discriminate] end.
      inversion H; subst. clear H. apply andb_true_iff in Ev as [Ev0 Evr].
      apply (dict_assemble kt TVariant k0 x0 r false); try assumption; try discriminate; try reflexivity.
      apply Forall_forall. intros kv Hin. rewrite Forall_forall in HPx.
      apply rel_of_variant_ok; [apply HPx; exact Hin|].
      destruct Hin as [<-|Hin]; [exact Ev0|]. rewrite forallb_forall in Evr. apply Evr. exact Hin.
Qed.

(* --- every value inside the claim denotes ---------------------------------------------------- *)

Theorem ref_ty_denotes : forall v t, ref_ty v = Some t -> exists w, den v t w.
Proof.
  induction v as [z|b|bits|s0|s0|l IH|l IH|l IH|l IH|c x IH|] using pyval_ind'.
  - apply den_int. - apply den_bool. - apply den_float. - apply den_str. - apply den_bytes.
  - apply den_list; exact IH.
  - apply den_tuple; exact IH.
  - apply den_dict; exact IH.
  - discriminate. - apply den_wrap. - discriminate.
Qed.

Theorem claim_denotes : forall v, inside_claim v ->
  exists t w, sig_from_py v = Ok (show t) /\ (length (show t) <= 255)%nat /\ conf t v w /\ wt [] t w /\
              py_eq (readback [] t w) v /\ (wdepth w <= 2 * pv_size v)%nat.
Proof.
  intros v H. apply variant_ok_inv in H as (t & Et & Hl).
  destruct (ref_ty_denotes v t Et) as (w & A & B & C & D & E).
  exists t, w. repeat split; assumption.
Qed.

(* --- the variant round trip -------------------------------------------------------------------- *)

(* for a value with a typed denotation under its inferred signature *)
Theorem variant_roundtrip_typed :
  forall v t w pre post le fds fuel,
    sig_from_py v = Ok (show t) -> (length (show t) <= 255)%nat ->
    conf t v w -> wt [] t w ->
    (S (wdepth w) <= fuel)%nat ->
    len (enc_seq [TVariant] [WVariant t w] (length pre) le) < two32 ->
    exists n b,
      m_marshal fuel [118] (PList [v]) (len pre) le fds = Ok (n, b, fds) /\ n = len b /\
      m_unmarshal fuel [118] (pre ++ b ++ post) (len pre) le (Some [])
        = Ok (n, [readback [] t w]).
Proof.
  intros v t w pre post le fds fuel Hs Hl Hc Hw Hd Hsz.
  exists (len (enc_seq [TVariant] [WVariant t w] (length pre) le)), (enc_seq [TVariant] [WVariant t w] (length pre) le).
  split.
  { apply (marshal_refines [TVariant] (PList [v]) [v] [WVariant t w] (length pre) le fds fuel eq_refl);
      [cbn; auto|unfold wdepth_list; cbn [fold_right wdepth]; lia|exact Hsz]. }
  split; [reflexivity|].
  apply (unmarshal_inverts [] le [TVariant] [WVariant t w] pre post fuel);
    [cbn; auto|unfold wdepth_list; cbn [fold_right wdepth]; lia|exact Hsz].
Qed.

(* for every value inside the claim *)
Theorem variant_roundtrip_claim :
  forall v, inside_claim v ->
  exists t w, sig_from_py v = Ok (show t) /\ conf t v w /\
    forall pre post le fds fuel,
      (2 * pv_size v + 1 <= fuel)%nat ->
      len (enc_seq [TVariant] [WVariant t w] (length pre) le) < two32 ->
      exists n b v',
        m_marshal fuel [118] (PList [v]) (len pre) le fds = Ok (n, b, fds) /\ n = len b /\
        m_unmarshal fuel [118] (pre ++ b ++ post) (len pre) le (Some []) = Ok (n, [v']) /\
        py_eq v' v.
Proof.
  intros v H. destruct (claim_denotes v H) as (t & w & Hs & Hl & Hc & Hw & He & Hd).
  exists t, w. split; [exact Hs|]. split; [exact Hc|].
  intros pre post le fds fuel Hf Hsz.
  destruct (variant_roundtrip_typed v t w pre post le fds fuel Hs Hl Hc Hw ltac:(lia) Hsz) as (n & b & A & B & C).
  exists n, b, (readback [] t w). repeat split; assumption.
Qed.
