(* Proofs for C04: the model of dataReceived (Model/Framing.v) against the
   whole-stream semantics (Spec/FramingSpec.v). *)
From Tx Require Import Lib.Base Gen.Generated Model.Marshal Model.Message Model.Framing Spec.FramingSpec.
Local Open Scope N_scope.

(* ------------------------------------------------------------------------ *)
(* constants regenerated from the tree under test                            *)

Lemma generated_constants :
  Generated.MSG_HDR_LEN = Some msg_hdr_len /\ Generated.auth_delimiter = Some crlf.
Proof. split; reflexivity. Qed.

(* ------------------------------------------------------------------------ *)
(* take_N                                                                    *)

Lemma len_cons (x : N) l : len (x :: l) = N.succ (len l).
Proof. unfold len. cbn [length]. lia. Qed.

Lemma len_app (a b : bytes) : len (a ++ b) = len a + len b.
Proof. unfold len. rewrite app_length. lia. Qed.

Lemma size_len s : size s = len s.
Proof. reflexivity. Qed.

Lemma take_N_app : forall a b, take_N (a ++ b) (len a) = Some (a, b).
Proof.
  induction a as [|x a IH]; intros b.
  - cbn. destruct b; reflexivity.
  - cbn [app take_N]. rewrite len_cons.
    destruct (N.succ (len a) =? 0) eqn:E; [apply N.eqb_eq in E; lia|].
    rewrite N.pred_succ, IH. reflexivity.
Qed.

Lemma take_N_Some : forall l n a b, take_N l n = Some (a, b) -> l = a ++ b /\ len a = n.
Proof.
  induction l as [|x l IH]; intros n a b H; cbn [take_N] in H.
  - destruct (n =? 0) eqn:E; [|discriminate]. apply N.eqb_eq in E. inversion H; subst. split; reflexivity.
  - destruct (n =? 0) eqn:E.
    + apply N.eqb_eq in E. inversion H; subst. split; reflexivity.
    + destruct (take_N l (N.pred n)) as [[a' b']|] eqn:T; [|discriminate].
      inversion H; subst. apply IH in T as [-> L]. split; [reflexivity|].
      rewrite len_cons, L. apply N.eqb_neq in E. lia.
Qed.

Lemma take_N_None : forall l n, take_N l n = None -> len l < n.
Proof.
  induction l as [|x l IH]; intros n H; cbn [take_N] in H.
  - destruct (n =? 0) eqn:E; [discriminate|]. apply N.eqb_neq in E. unfold len; cbn; lia.
  - destruct (n =? 0) eqn:E; [discriminate|]. apply N.eqb_neq in E.
    destruct (take_N l (N.pred n)) as [[a' b']|] eqn:T; [discriminate|].
    apply IH in T. rewrite len_cons. lia.
Qed.

Lemma take_N_le : forall l n, n <= len l -> exists a b, take_N l n = Some (a, b).
Proof.
  intros l n H. destruct (take_N l n) as [[a b]|] eqn:T; [eauto|].
  apply take_N_None in T. lia.
Qed.

Lemma take_N_mono l n a b w : take_N l n = Some (a, b) -> take_N (l ++ w) n = Some (a, b ++ w).
Proof.
  intros H. apply take_N_Some in H as [-> <-]. rewrite <- app_assoc. apply take_N_app.
Qed.

Lemma has_bytes_spec l n : has_bytes l n = (n <=? len l).
Proof.
  unfold has_bytes. destruct (take_N l n) as [[a b]|] eqn:T.
  - apply take_N_Some in T as [-> <-]. rewrite len_app. symmetry. apply N.leb_le. lia.
  - apply take_N_None in T. symmetry. apply N.leb_gt. exact T.
Qed.

(* ------------------------------------------------------------------------ *)
(* the announced length                                                      *)

Lemma pad_round8 h : h + pad_len 8 h = round8 h.
Proof.
  unfold pad_len, round8. cbv zeta.
  destruct (h mod 8 =? 0) eqn:E.
  - apply N.eqb_eq in E. zify. Z.to_euclidean_division_equations. lia.
  - apply N.eqb_neq in E. zify. Z.to_euclidean_division_equations. lia.
Qed.

Lemma round8_ge h : h <= round8 h.
Proof. rewrite <- pad_round8. lia. Qed.

Lemma frame_total_ge16 s : 16 <= frame_total s.
Proof.
  unfold frame_total.
  assert (H := round8_ge (16 + u32_at (little s) s 12)). lia.
Qed.

Lemma explode16 (s : bytes) : 16 <= len s ->
  exists b0 b1 b2 b3 b4 b5 b6 b7 b8 b9 b10 b11 b12 b13 b14 b15 r,
    s = b0 :: b1 :: b2 :: b3 :: b4 :: b5 :: b6 :: b7 :: b8 :: b9 :: b10 :: b11 :: b12 :: b13 :: b14 :: b15 :: r.
Proof.
  intros H. unfold len in H.
  assert (H' : (16 <= length s)%nat) by lia. clear H.
  do 16 (destruct s as [|? s]; [cbn in H'; lia|]).
  repeat eexists.
Qed.

Lemma frame_total_app x w : 16 <= len x -> frame_total (x ++ w) = frame_total x.
Proof.
  intros H. destruct (explode16 x H) as (b0&b1&b2&b3&b4&b5&b6&b7&b8&b9&b10&b11&b12&b13&b14&b15&r&->).
  reflexivity.
Qed.

Lemma next_msg_len_eq buf : 16 <= len buf -> next_msg_len buf = frame_total buf.
Proof.
  intros H. destruct (explode16 buf H) as (b0&b1&b2&b3&b4&b5&b6&b7&b8&b9&b10&b11&b12&b13&b14&b15&r&->).
  unfold next_msg_len, frame_total.
  cbn [firstn is_big little].
  change (slice [b0; b1; b2; b3; b4; b5; b6; b7; b8; b9; b10; b11; b12; b13; b14; b15] 4 4) with [b4; b5; b6; b7].
  change (slice [b0; b1; b2; b3; b4; b5; b6; b7; b8; b9; b10; b11; b12; b13; b14; b15] 12 4) with [b12; b13; b14; b15].
  rewrite negb_involutive.
  unfold u32_at. cbn [nth Nat.add].
  rewrite <- pad_round8. unfold msg_hdr_len, dec_uint.
  destruct (b0 =? 108); cbn [rev app le_value]; rewrite !N.mul_0_r, !N.add_0_r; reflexivity.
Qed.

(* the same computation as the one C03 reasons about *)
Lemma next_msg_len_is_frame_len buf :
  16 <= len buf -> next_msg_len buf = Message.frame_len (negb (is_big buf)) buf.
Proof.
  intros H. destruct (explode16 buf H) as (b0&b1&b2&b3&b4&b5&b6&b7&b8&b9&b10&b11&b12&b13&b14&b15&r&->).
  unfold next_msg_len, Message.frame_len. cbn [firstn].
  assert (S1 : forall a n, a + n <= 16 ->
     slice (b0 :: b1 :: b2 :: b3 :: b4 :: b5 :: b6 :: b7 :: b8 :: b9 :: b10 :: b11 :: b12 :: b13 :: b14 :: b15 :: r) a n =
     slice [b0; b1; b2; b3; b4; b5; b6; b7; b8; b9; b10; b11; b12; b13; b14; b15] a n).
  { intros a n Han. unfold slice.
    set (full := b0 :: b1 :: b2 :: b3 :: b4 :: b5 :: b6 :: b7 :: b8 :: b9 :: b10 :: b11 :: b12 :: b13 :: b14 :: b15 :: r).
    set (hd := [b0; b1; b2; b3; b4; b5; b6; b7; b8; b9; b10; b11; b12; b13; b14; b15]).
    assert (Lf : 16 <= len full) by exact H.
    assert (Lh : len hd = 16) by reflexivity.
    rewrite !N.min_l by lia.
    change full with (hd ++ r).
    assert (Ha : (N.to_nat a <= length hd)%nat) by (change (length hd) with 16%nat; lia).
    rewrite skipn_app.
    rewrite firstn_app.
    assert (Z1 : (N.to_nat a - length hd = 0)%nat) by lia.
    rewrite Z1. cbn [skipn].
    assert (Z2 : (N.to_nat n - length (skipn (N.to_nat a) hd) = 0)%nat).
    { rewrite skipn_length. change (length hd) with 16%nat. lia. }
    rewrite Z2. cbn [firstn]. apply app_nil_r. }
  rewrite (S1 4 4), (S1 12 4) by lia. reflexivity.
Qed.

(* ------------------------------------------------------------------------ *)
(* frames: fuel irrelevance, unfolding, extension of the stream              *)

Lemma frames_fuel : forall f1 f2 s, (length s < f1)%nat -> (length s < f2)%nat -> frames f1 s = frames f2 s.
Proof.
  induction f1 as [|f1 IH]; intros f2 s H1 H2; [lia|].
  destruct f2 as [|f2]; [lia|].
  cbn [frames].
  destruct (take_N s 16) as [[h0 t0]|]; [|reflexivity].
  destruct (take_N s (frame_total s)) as [[m rest]|] eqn:T; [|reflexivity].
  apply take_N_Some in T as [E L].
  assert (LS : length s = (length m + length rest)%nat) by (rewrite E at 1; apply app_length).
  assert (G := frame_total_ge16 s). unfold len in L.
  rewrite (IH f2 rest) by lia. reflexivity.
Qed.

Lemma take_rest_shorter s m rest : take_N s (frame_total s) = Some (m, rest) -> (length rest < length s)%nat.
Proof.
  intros T. apply take_N_Some in T as [E L].
  assert (LS : length s = (length m + length rest)%nat) by (rewrite E at 1; apply app_length).
  assert (G := frame_total_ge16 s). unfold len in L. lia.
Qed.

Lemma frames_of_step s :
  frames_of s =
  match take_N s 16 with
  | None => ([], Some s)
  | Some _ =>
      match take_N s (frame_total s) with
      | None => ([], Some s)
      | Some (m, rest) => let '(evs, r) := frames_of rest in (Msg m :: evs, r)
      end
  end.
Proof.
  unfold frames_of at 1. cbn [frames].
  destruct (take_N s 16) as [[h0 t0]|]; [|reflexivity].
  destruct (take_N s (frame_total s)) as [[m rest]|] eqn:T; [|reflexivity].
  assert (L := take_rest_shorter _ _ _ T).
  unfold frames_of. rewrite (frames_fuel (length s) (S (length rest)) rest) by lia. reflexivity.
Qed.

Lemma frames_app : forall f s evs r w, (length s < f)%nat -> frames f s = (evs, Some r) ->
  frames_of (s ++ w) = (evs ++ fst (frames_of (r ++ w)), snd (frames_of (r ++ w))).
Proof.
  induction f as [|f IH]; intros s evs r w Hf H; [lia|]. cbn [frames] in H.
  destruct (take_N s 16) as [[h0 t0]|] eqn:T16.
  - destruct (take_N s (frame_total s)) as [[m rest]|] eqn:T.
    + destruct (frames f rest) as [evs' r'] eqn:F. inversion H; subst. clear H.
      rewrite frames_of_step.
      rewrite (take_N_mono _ _ _ _ w T16).
      assert (L16 : 16 <= len s) by (apply take_N_Some in T16 as [E L]; rewrite E, len_app; lia).
      rewrite frame_total_app by assumption.
      rewrite (take_N_mono _ _ _ _ w T).
      assert (L := take_rest_shorter _ _ _ T).
      rewrite (IH rest evs' r w) by (lia || assumption). reflexivity.
    + inversion H; subst. cbn [app]. destruct (frames_of (r ++ w)); reflexivity.
  - inversion H; subst. cbn [app]. destruct (frames_of (r ++ w)); reflexivity.
Qed.

Lemma frames_some : forall f s, exists evs r, frames f s = (evs, Some r).
Proof.
  induction f as [|f IH]; intros s; cbn [frames]; [eauto|].
  destruct (take_N s 16) as [[h0 t0]|]; [|eauto].
  destruct (take_N s (frame_total s)) as [[m rest]|]; [|eauto].
  destruct (IH rest) as (evs & r & ->). eauto.
Qed.

(* what frames leaves over contains no complete message *)
Lemma frames_quiet f s evs r : (length s < f)%nat -> frames f s = (evs, Some r) -> frames_of r = ([], Some r).
Proof.
  intros Hf H.
  assert (A := frames_app f s evs r [] Hf H). rewrite !app_nil_r in A.
  unfold frames_of in A at 1. rewrite (frames_fuel _ f s) in A by lia. rewrite H in A.
  destruct (frames_of r) as [e x]. cbn [fst snd] in A. inversion A as [[A1 A2]].
  rewrite <- (app_nil_r evs) in A1 at 1. apply app_inv_head in A1. subst. reflexivity.
Qed.

(* ------------------------------------------------------------------------ *)
(* the binary branch computes frames                                         *)

Definition cache_ok (buf : bytes) (next : N) : Prop :=
  next = 0 \/ (16 <= len buf /\ next = frame_total buf).

Lemma bin_loop_frames : forall f buf next big, (length buf < f)%nat -> cache_ok buf next ->
  exists r n' b', bin_loop f buf next big = ((r, n', b'), fst (frames f buf))
                  /\ snd (frames f buf) = Some r /\ cache_ok r n'.
Proof.
  induction f as [|f IH]; intros buf next big Hf C; [lia|].
  cbn [bin_loop frames]. rewrite has_bytes_spec.
  destruct (take_N buf 16) as [[h0 t0]|] eqn:T16.
  - assert (L16 : 16 <= len buf) by (apply take_N_Some in T16 as [E L]; rewrite E, len_app; lia).
    assert (E16 : (16 <=? len buf) = true) by (apply N.leb_le; exact L16).
    rewrite E16, andb_true_r.
    assert (N1 : (if next =? 0 then (next_msg_len buf, is_big buf) else (next, big)) =
                 (frame_total buf, if next =? 0 then is_big buf else big)).
    { destruct (next =? 0) eqn:E0.
      - rewrite next_msg_len_eq by assumption. reflexivity.
      - apply N.eqb_neq in E0. destruct C as [C|[_ C]]; [contradiction|]. rewrite C. reflexivity. }
    rewrite N1. clear N1.
    assert (G := frame_total_ge16 buf).
    destruct (frame_total buf =? 0) eqn:EZ; [apply N.eqb_eq in EZ; lia|].
    destruct (take_N buf (frame_total buf)) as [[m rest]|] eqn:T.
    + assert (L := take_rest_shorter _ _ _ T).
      destruct (IH rest 0 (if next =? 0 then is_big buf else big)) as (r & n' & b' & E1 & E2 & E3);
        [lia | left; reflexivity |].
      rewrite E1. destruct (frames f rest) as [evs x]. cbn [fst snd] in *.
      exists r, n', b'. auto.
    + cbn [fst snd]. eexists _, _, _. split; [reflexivity|]. split; [reflexivity|].
      right. split; [assumption | reflexivity].
  - assert (L16 : len buf < 16) by (apply take_N_None; exact T16).
    assert (E16 : (16 <=? len buf) = false) by (apply N.leb_gt; exact L16).
    rewrite E16, andb_false_r.
    destruct C as [C|[C _]]; [|lia]. subst next. cbn [N.eqb fst snd].
    eexists _, _, _. split; [reflexivity|]. split; [reflexivity|]. left; reflexivity.
Qed.

(* ------------------------------------------------------------------------ *)
(* lines: cut_line (first delimiter) and split_crlf (all of them)            *)

Lemma cut_line_cons2 x y r :
  cut_line (x :: y :: r) =
  if (x =? 13) && (y =? 10) then Some ([], r)
  else match cut_line (y :: r) with Some (l, r') => Some (x :: l, r') | None => None end.
Proof. reflexivity. Qed.

Lemma split_crlf_cons2 x y r :
  split_crlf (x :: y :: r) =
  if (x =? 13) && (y =? 10) then [] :: split_crlf r else cons_head x (split_crlf (y :: r)).
Proof. reflexivity. Qed.

Lemma cut_line_Some : forall s l r, cut_line s = Some (l, r) -> s = l ++ 13 :: 10 :: r /\ cut_line l = None.
Proof.
  induction s as [|x t IH]; intros l r H; [discriminate|].
  destruct t as [|y t']; [discriminate|].
  rewrite cut_line_cons2 in H.
  destruct ((x =? 13) && (y =? 10)) eqn:E.
  - inversion H; subst. apply andb_true_iff in E as [E1 E2]. apply N.eqb_eq in E1, E2. subst.
    split; reflexivity.
  - destruct (cut_line (y :: t')) as [[l' r']|] eqn:C; [|discriminate]. inversion H; subst.
    destruct (IH l' r eq_refl) as [E1 E2]. split.
    + cbn [app]. f_equal. exact E1.
    + destruct l' as [|y' l'']; [reflexivity|].
      cbn [app] in E1. inversion E1; subst y'. rewrite cut_line_cons2, E, E2. reflexivity.
Qed.

Lemma cut_line_shorter s l r : cut_line s = Some (l, r) -> (length r < length s)%nat.
Proof.
  intros H. apply cut_line_Some in H as [E _].
  assert (L : length s = (length l + S (S (length r)))%nat) by (rewrite E at 1; rewrite app_length; reflexivity).
  lia.
Qed.

Lemma cut_line_app_some : forall s l r w, cut_line s = Some (l, r) -> cut_line (s ++ w) = Some (l, r ++ w).
Proof.
  induction s as [|x t IH]; intros l r w H; [discriminate|].
  destruct t as [|y t']; [discriminate|].
  rewrite cut_line_cons2 in H. cbn [app]. rewrite cut_line_cons2.
  destruct ((x =? 13) && (y =? 10)) eqn:E.
  - inversion H; subst. reflexivity.
  - destruct (cut_line (y :: t')) as [[l' r']|] eqn:C; [|discriminate]. inversion H; subst.
    change (y :: t' ++ w) with ((y :: t') ++ w). rewrite (IH l' r w eq_refl). reflexivity.
Qed.

Lemma cut_line_join : forall l r, cut_line l = None -> cut_line (l ++ 13 :: 10 :: r) = Some (l, r).
Proof.
  induction l as [|x t IH]; intros r H; [reflexivity|].
  destruct t as [|y t'].
  - cbn [app]. rewrite cut_line_cons2.
    replace ((x =? 13) && (13 =? 10)) with false by (rewrite andb_false_r; reflexivity).
    reflexivity.
  - rewrite cut_line_cons2 in H. cbn [app]. rewrite cut_line_cons2.
    destruct ((x =? 13) && (y =? 10)); [discriminate|].
    destruct (cut_line (y :: t')) as [[l' r']|] eqn:C; [discriminate|].
    change (y :: t' ++ 13 :: 10 :: r) with ((y :: t') ++ 13 :: 10 :: r).
    rewrite (IH r eq_refl). reflexivity.
Qed.

(* a buffer without delimiter can lose at most its last byte to a later line *)
Lemma cut_line_none_app_bound : forall t w l r,
  cut_line t = None -> cut_line (t ++ w) = Some (l, r) -> (length t <= length l + 1)%nat.
Proof.
  induction t as [|x t IH]; intros w l r H1 H2; [cbn; lia|].
  destruct t as [|y t']; [cbn; lia|].
  rewrite cut_line_cons2 in H1. cbn [app] in H2. rewrite cut_line_cons2 in H2.
  destruct ((x =? 13) && (y =? 10)); [discriminate|].
  destruct (cut_line (y :: t')) as [[l' r']|] eqn:C; [discriminate|].
  change (y :: t' ++ w) with ((y :: t') ++ w) in H2.
  destruct (cut_line ((y :: t') ++ w)) as [[l' r']|] eqn:C2; [|discriminate].
  inversion H2; subst.
  assert (B := IH w l' r eq_refl C2). cbn [length] in *. lia.
Qed.

Lemma split_cut : forall s,
  split_crlf s = match cut_line s with None => [s] | Some (l, r) => l :: split_crlf r end.
Proof.
  induction s as [|x t IH]; [reflexivity|].
  destruct t as [|y t']; [reflexivity|].
  rewrite split_crlf_cons2, cut_line_cons2.
  destruct ((x =? 13) && (y =? 10)); [reflexivity|].
  rewrite IH. destruct (cut_line (y :: t')) as [[l' r']|]; reflexivity.
Qed.

Lemma split_nonnil s : split_crlf s <> [].
Proof. rewrite split_cut. destruct (cut_line s) as [[l r]|]; discriminate. Qed.

Lemma join_cons_nonnil l L : L <> [] -> join_crlf (l :: L) = l ++ 13 :: 10 :: join_crlf L.
Proof. destruct L; [contradiction|reflexivity]. Qed.

Lemma join_split : forall n s, (length s < n)%nat -> join_crlf (split_crlf s) = s.
Proof.
  induction n as [|n IH]; intros s H; [lia|].
  rewrite split_cut. destruct (cut_line s) as [[l r]|] eqn:C; [|reflexivity].
  rewrite join_cons_nonnil by apply split_nonnil.
  assert (L := cut_line_shorter _ _ _ C).
  rewrite IH by lia. apply cut_line_Some in C as [E _]. symmetry; exact E.
Qed.

Lemma join_removelast_last L : L <> [] -> join_crlf (removelast L ++ [last L []]) = join_crlf L.
Proof. intros H. rewrite <- app_removelast_last by assumption. reflexivity. Qed.

(* ------------------------------------------------------------------------ *)
Section Main.
  Context {A : Type}.
  Variable astep : A -> bytes -> A * ares.
  Variable maxl : N.

  Notation st := (st A).
  Notation handshake := (handshake astep maxl).
  Notation handshake_of := (handshake_of astep maxl).
  Notation sem := (sem astep maxl).
  Notation line_loop := (line_loop astep maxl).
  Notation line_process := (line_process astep maxl).
  Notation recv := (recv astep maxl).
  Notation run_st := (run_st astep maxl).
  Notation run := (run astep maxl).

  Lemma handshake_fuel : forall f1 f2 a s, (length s < f1)%nat -> (length s < f2)%nat ->
    handshake f1 a s = handshake f2 a s.
  Proof.
    induction f1 as [|f1 IH]; intros f2 a s H1 H2; [lia|].
    destruct f2 as [|f2]; [lia|].
    cbn [FramingSpec.handshake].
    destruct (cut_line s) as [[l r]|] eqn:C; [|reflexivity].
    assert (L := cut_line_shorter _ _ _ C).
    destruct (maxl <? size l); [reflexivity|].
    destruct (astep a l) as [a' [| | |]]; try reflexivity.
    rewrite (IH f2 a' r) by lia. reflexivity.
  Qed.

  Lemma handshake_of_step a s :
    handshake_of a s =
    match cut_line s with
    | None => if maxl + 1 <? size s then ([Close], None) else ([], Some s)
    | Some (l, r) =>
        if maxl <? size l then ([Close], None)
        else
          match astep a l with
          | (a', AContinue) => let '(evs, x) := handshake_of a' r in (Line l :: evs, x)
          | (_, ADone) => let '(evs, x) := frames_of r in (Line l :: AuthOk :: evs, x)
          | (_, AFail) => ([Line l; Close], None)
          | (_, ACrash) => ([Line l; Crash], None)
          end
    end.
  Proof.
    unfold FramingSpec.handshake_of at 1. cbn [FramingSpec.handshake].
    destruct (cut_line s) as [[l r]|] eqn:C; [|reflexivity].
    assert (L := cut_line_shorter _ _ _ C).
    destruct (maxl <? size l); [reflexivity|].
    destruct (astep a l) as [a' [| | |]]; try reflexivity.
    unfold FramingSpec.handshake_of. rewrite (handshake_fuel (length s) (S (length r))) by lia. reflexivity.
  Qed.

  (* the semantics of what is still to come, seen from a state *)
  Definition sem_from (s : st) (w : bytes) : list event * option bytes :=
    if s_closed s then ([], None)
    else if s_authed s then frames_of (s_buf s ++ w)
    else if negb (s_client s) && s_first s then sem false (s_auth s) w
    else handshake_of (s_auth s) (s_buf s ++ w).

  Definition Inv (s : st) : Prop :=
    (s_authed s = true -> cache_ok (s_buf s) (s_next s)) /\
    (s_authed s = false -> s_next s = 0) /\
    (s_authed s = false -> negb (s_client s) && s_first s = true -> s_buf s = []) /\
    sem_from s [] = ([], residual s).

  Definition extends (s : st) (x : list event * option bytes) (evs : list event) (s' : st) (w : bytes) : Prop :=
    x = (evs ++ fst (sem_from s' w), snd (sem_from s' w)).

  Lemma sem_from_closed s w : s_closed s = true -> sem_from s w = ([], None).
  Proof. intros H. unfold sem_from. rewrite H. reflexivity. Qed.

  Lemma Inv_closed s : s_closed s = true -> (s_authed s = false -> s_next s = 0) ->
    (s_authed s = true -> cache_ok (s_buf s) (s_next s)) ->
    (s_authed s = false -> negb (s_client s) && s_first s = true -> s_buf s = []) -> Inv s.
  Proof.
    intros H H1 H2 H3. repeat split; try assumption.
    rewrite sem_from_closed by assumption. unfold residual. rewrite H. reflexivity.
  Qed.

  (* ---------------------------------------------------------------------- *)
  Lemma bin_process_sem s s' evs w :
    s_authed s = true -> s_closed s = false -> cache_ok (s_buf s) (s_next s) ->
    bin_process s = (s', evs) ->
    extends s (frames_of (s_buf s ++ w)) evs s' w /\ Inv s' /\ s_client s' = s_client s /\
    s_authed s' = true.
  Proof.
    intros Ha Hc Hk H. unfold bin_process in H.
    destruct (bin_loop_frames (S (length (s_buf s))) (s_buf s) (s_next s) (s_big s)) as (r & n' & b' & E1 & E2 & E3);
      [lia | assumption |].
    destruct (frames (S (length (s_buf s))) (s_buf s)) as [evs0 x] eqn:F. cbn [fst snd] in E1, E2. subst x.
    rewrite E1 in H. inversion H; subst s' evs. clear H.
    assert (SF : forall v, sem_from (set_bin s r n' b') v = frames_of (r ++ v)).
    { intros v. unfold sem_from. cbn. rewrite Hc, Ha. reflexivity. }
    split; [|split; [|split]].
    - unfold extends. rewrite SF. eapply frames_app; [|exact F]. lia.
    - unfold Inv. cbn [set_bin s_authed s_buf s_next s_client s_first].
      split; [intros _; exact E3|]. split; [congruence|]. split; [congruence|].
      rewrite SF, app_nil_r. unfold residual. cbn. rewrite Hc.
      eapply frames_quiet; [|exact F]. lia.
    - reflexivity.
    - exact Ha.
  Qed.

  Lemma line_loop_closed : forall ls s, s_closed s = true ->
    exists s', line_loop s ls = (s', []) /\ s_closed s' = true /\ s_authed s' = s_authed s /\
               s_next s' = s_next s /\ s_client s' = s_client s /\ s_first s' = s_first s.
  Proof.
    intros ls s H. destruct ls as [|l rest]; cbn [Framing.line_loop].
    - destruct (maxl + 1 <? len (s_buf s)).
      + unfold lose. rewrite H. eexists. split; [reflexivity|]. cbn. auto.
      + eexists. split; [reflexivity|]. auto.
    - rewrite H. eexists. split; [reflexivity|]. auto.
  Qed.

  (* the line branch on the joined buffer x *)
  Definition lp (s : st) (x : bytes) : st * list event :=
    line_loop (set_buf s (last (split_crlf x) [])) (removelast (split_crlf x)).

  Lemma lp_none s x : cut_line x = None -> lp s x = line_loop (set_buf s x) [].
  Proof. intros C. unfold lp. rewrite split_cut, C. reflexivity. Qed.

  Lemma lp_some s x l r : cut_line x = Some (l, r) ->
    lp s x = line_loop (set_buf s (last (split_crlf r) [])) (l :: removelast (split_crlf r)).
  Proof.
    intros C. unfold lp. rewrite split_cut, C.
    destruct (split_crlf r) as [|f fs] eqn:E; [exfalso; eapply split_nonnil; exact E|].
    reflexivity.
  Qed.

  Lemma lp_sem : forall n x s w s' evs,
    (length x < n)%nat ->
    s_authed s = false -> s_closed s = false -> s_next s = 0 ->
    negb (s_client s) && s_first s = false ->
    lp s x = (s', evs) ->
    extends s (handshake_of (s_auth s) (x ++ w)) evs s' w /\ Inv s' /\ s_client s' = s_client s.
  Proof.
    induction n as [|n IH]; intros x s w s' evs Hn Ha Hc Hz Hf H; [lia|].
    rewrite handshake_of_step.
    destruct (cut_line x) as [[l r]|] eqn:C.
    - (* a complete line *)
      rewrite (cut_line_app_some _ _ _ w C).
      rewrite (lp_some _ _ _ _ C) in H. cbn [Framing.line_loop] in H.
      set (tl := last (split_crlf r) []) in *.
      set (L := removelast (split_crlf r)) in *.
      cbn [set_buf s_closed s_auth] in H. rewrite Hc in H.
      change (size l) with (len l).
      destruct (maxl <? len l) eqn:EL.
      + unfold lose in H. cbn in H. rewrite Hc in H. inversion H; subst s' evs.
        split; [|split].
        * unfold extends. rewrite sem_from_closed by reflexivity. reflexivity.
        * apply Inv_closed; cbn; try congruence.
        * reflexivity.
      + destruct (astep (s_auth s) l) as [a' res] eqn:EA. destruct res.
        * (* AContinue *)
          change (Framing.line_loop astep maxl (set_auth (set_buf s tl) a') L) with (lp (set_auth s a') r) in H.
          destruct (lp (set_auth s a') r) as [s2 evs2] eqn:E2. inversion H; subst s' evs. clear H.
          assert (Lr := cut_line_shorter _ _ _ C).
          destruct (IH r (set_auth s a') w s2 evs2) as (X1 & X2 & X3); try assumption; [lia|].
          cbn [set_auth s_auth] in X1. unfold extends in X1. rewrite X1.
          split; [|split]; [reflexivity | assumption | exact X3].
        * (* ADone *)
          assert (J : join_crlf (L ++ [tl]) = r).
          { unfold L, tl. rewrite join_removelast_last by apply split_nonnil.
            apply (join_split (S (length r))). lia. }
          cbn [set_auth set_buf s_buf] in H. rewrite J in H.
          destruct (bin_process (set_buf (set_authed (set_auth (set_buf s tl) a')) r)) as [s3 evs3] eqn:E3.
          inversion H; subst s' evs. clear H.
          destruct (bin_process_sem (set_buf (set_authed (set_auth (set_buf s tl) a')) r) s3 evs3 w
                      eq_refl Hc (or_introl Hz) E3) as (X1 & X2 & X3 & _).
          cbn [set_buf set_authed set_auth s_buf] in X1. unfold extends in X1. rewrite X1.
          split; [|split]; [reflexivity | assumption | exact X3].
        * (* AFail *)
          unfold lose in H. cbn [set_auth set_buf s_closed] in H. rewrite Hc in H.
          destruct (line_loop_closed L (set_closed (set_auth (set_buf s tl) a')) eq_refl) as (s3 & E3 & C3 & A3 & N3 & K3 & F3).
          rewrite E3 in H. inversion H; subst s' evs. clear H.
          split; [|split].
          -- unfold extends. rewrite sem_from_closed by assumption. reflexivity.
          -- apply Inv_closed; try assumption.
             ++ intros _. rewrite N3. exact Hz.
             ++ rewrite A3. cbn. congruence.
             ++ rewrite K3, F3. cbn. congruence.
          -- exact K3.
        * (* ACrash *)
          inversion H; subst s' evs. split; [|split].
          -- unfold extends. rewrite sem_from_closed by reflexivity. reflexivity.
          -- apply Inv_closed; cbn; congruence.
          -- reflexivity.
    - (* no complete line: only the length check *)
      rewrite (lp_none _ _ C) in H. cbn [Framing.line_loop set_buf s_buf] in H.
      destruct (maxl + 1 <? len x) eqn:EL.
      + apply N.ltb_lt in EL.
        unfold lose in H. cbn in H. rewrite Hc in H. inversion H; subst s' evs.
        split; [|split].
        * unfold extends. rewrite sem_from_closed by reflexivity. cbn [app fst snd].
          destruct (cut_line (x ++ w)) as [[l r]|] eqn:C2.
          -- assert (B := cut_line_none_app_bound _ _ _ _ C C2).
             assert (E : maxl <? size l = true) by (apply N.ltb_lt; unfold size, len in *; lia).
             rewrite E. reflexivity.
          -- assert (E : maxl + 1 <? size (x ++ w) = true).
             { apply N.ltb_lt. unfold size, len in *. rewrite app_length. lia. }
             rewrite E. reflexivity.
        * apply Inv_closed; cbn; congruence.
        * reflexivity.
      + inversion H; subst s' evs.
        assert (SF : forall v, sem_from (set_buf s x) v = handshake_of (s_auth s) (x ++ v)).
        { intros v. unfold sem_from. cbn. rewrite Hc, Ha, Hf. reflexivity. }
        split; [|split].
        * unfold extends. rewrite SF, <- handshake_of_step. cbn [app].
          destruct (handshake_of (s_auth s) (x ++ w)); reflexivity.
        * repeat split; cbn; try congruence.
          rewrite SF, app_nil_r, handshake_of_step, C. change (size x) with (len x). rewrite EL.
          unfold residual. cbn. rewrite Hc. reflexivity.
        * reflexivity.
  Qed.

  (* ---------------------------------------------------------------------- *)
  (* one read *)
  Lemma recv_sem s c w s' evs :
    Inv s -> s_closed s = false ->
    (s_authed s = false -> negb (s_client s) && s_first s = true -> c <> []) ->
    recv s c = (s', evs) ->
    extends s (sem_from s (c ++ w)) evs s' w /\ Inv s' /\ s_client s' = s_client s.
  Proof.
    intros (I1 & I2 & I3 & I4) Hc Hne H. unfold Framing.recv in H.
    destruct (s_authed s) eqn:Ha.
    - (* binary *)
      assert (K : cache_ok (s_buf s ++ c) (s_next s)).
      { destruct (I1 eq_refl) as [K|[K1 K2]]; [left; exact K|right].
        split; [rewrite len_app; lia | rewrite frame_total_app by assumption; exact K2]. }
      destruct (bin_process_sem (set_buf s (s_buf s ++ c)) s' evs w Ha Hc K H) as (X1 & X2 & X3 & _).
      split; [|split; assumption].
      unfold extends in *. rewrite <- X1. unfold sem_from. rewrite Hc, Ha.
      cbn [set_buf s_buf]. rewrite app_assoc. reflexivity.
    - destruct (negb (s_client s) && s_first s) eqn:Hf.
      + (* server side, first byte *)
        specialize (I3 eq_refl eq_refl). specialize (Hne eq_refl eq_refl).
        destruct c as [|b0 c']; [contradiction|].
        unfold sem_from at 1. rewrite Hc, Ha, Hf. cbn [app FramingSpec.sem].
        destruct (b0 =? 0) eqn:E0; cbn [negb] in H.
        * unfold Framing.line_process in H. cbn [set_first_done s_buf] in H. rewrite I3 in H. cbn [app] in H.
          change (Framing.line_loop astep maxl
                    (set_buf (set_first_done s) (last (split_crlf c') [])) (removelast (split_crlf c')))
            with (lp (set_first_done s) c') in H.
          destruct (lp_sem (S (length c')) c' (set_first_done s) w s' evs) as (X1 & X2 & X3);
            try assumption; [lia | exact (I2 eq_refl) | cbn; apply andb_false_r |].
          split; [exact X1 | split; [exact X2 | exact X3]].
        * unfold lose in H. rewrite Hc in H. inversion H; subst s' evs.
          split; [|split].
          -- unfold extends. rewrite sem_from_closed by reflexivity. reflexivity.
          -- apply Inv_closed; cbn [set_closed s_closed s_authed s_next s_buf s_client s_first].
             ++ reflexivity.
             ++ intros _. exact (I2 eq_refl).
             ++ congruence.
             ++ intros _ _. exact I3.
          -- reflexivity.
      + (* authentication lines *)
        unfold Framing.line_process in H.
        change (Framing.line_loop astep maxl
                  (set_buf s (last (split_crlf (s_buf s ++ c)) [])) (removelast (split_crlf (s_buf s ++ c))))
          with (lp s (s_buf s ++ c)) in H.
        destruct (lp_sem (S (length (s_buf s ++ c))) (s_buf s ++ c) s w s' evs) as (X1 & X2 & X3);
          try assumption; [lia | exact (I2 eq_refl) |].
        split; [|split; assumption].
        unfold extends in *. rewrite <- X1. unfold sem_from. rewrite Hc, Ha, Hf.
        rewrite app_assoc. reflexivity.
  Qed.

  (* ---------------------------------------------------------------------- *)
  (* the server side waits for its first byte only until the first non-empty read *)
  Definition waiting (s : st) : bool :=
    negb (s_authed s) && (negb (s_client s) && s_first s).

  Lemma bin_process_fields (s s' : st) evs : bin_process s = (s', evs) ->
    s_first s' = s_first s /\ s_client s' = s_client s /\ s_authed s' = s_authed s.
  Proof.
    unfold bin_process. destruct (bin_loop _ _ _ _) as [[[b n] big] e]. intros H. inversion H; subst.
    cbn. auto.
  Qed.

  Lemma line_loop_fields : forall ls s s' evs, line_loop s ls = (s', evs) ->
    s_first s' = s_first s /\ s_client s' = s_client s.
  Proof.
    induction ls as [|l rest IH]; intros s s' evs H; cbn [Framing.line_loop] in H.
    - destruct (maxl + 1 <? len (s_buf s)); inversion H; subst; cbn; auto.
    - destruct (s_closed s); [inversion H; subst; auto|].
      destruct (maxl <? len l); [inversion H; subst; cbn; auto|].
      destruct (astep (s_auth s) l) as [a' res]. destruct res.
      + destruct (line_loop (set_auth s a') rest) as [s2 e2] eqn:E. inversion H; subst.
        apply IH in E. cbn in E. exact E.
      + destruct (bin_process _) as [s3 e3] eqn:E. inversion H; subst.
        apply bin_process_fields in E as (E1 & E2 & _). cbn in E1, E2. auto.
      + unfold lose in H. destruct (line_loop _ rest) as [s3 e3] eqn:E. inversion H; subst.
        apply IH in E. cbn in E. exact E.
      + inversion H; subst. cbn. auto.
  Qed.

  Lemma recv_waiting s c s' evs :
    recv s c = (s', evs) -> waiting s = false \/ c <> [] ->
    s_closed s' = true \/ waiting s' = false.
  Proof.
    intros H Hw. unfold Framing.recv in H. unfold waiting in *.
    destruct (s_authed s) eqn:Ha.
    - apply bin_process_fields in H as (_ & _ & H3). cbn in H3. right. rewrite H3, Ha. reflexivity.
    - destruct (negb (s_client s) && s_first s) eqn:Hf.
      + destruct c as [|b0 c']; [destruct Hw as [Hw|Hw]; [discriminate | contradiction]|].
        destruct (b0 =? 0); cbn [negb] in H.
        * unfold Framing.line_process in H. apply line_loop_fields in H as (H1 & H2). cbn in H1.
          right. rewrite H1. rewrite !andb_false_r. reflexivity.
        * unfold lose in H. inversion H; subst. left. reflexivity.
      + unfold Framing.line_process in H. apply line_loop_fields in H as (H1 & H2). cbn in H1, H2.
        right. rewrite H1, H2, Hf. apply andb_false_r.
  Qed.

  Definition reads_ok (s : st) (chunks : list bytes) : Prop :=
    s_closed s = true \/ waiting s = false \/ first_read_nonempty chunks.

  (* any sequence of reads *)
  Lemma run_sem : forall chunks s w s' evs,
    Inv s -> reads_ok s chunks ->
    run_st s chunks = (s', evs) ->
    extends s (sem_from s (concat chunks ++ w)) evs s' w /\ Inv s'.
  Proof.
    induction chunks as [|c cs IH]; intros s w s' evs HI Hne H; cbn [Framing.run_st] in H.
    - inversion H; subst. split; [|assumption]. unfold extends. cbn [concat app].
      destruct (sem_from s' w); reflexivity.
    - destruct (s_closed s) eqn:Hc.
      + inversion H; subst. split; [|assumption]. unfold extends.
        rewrite !sem_from_closed by assumption. reflexivity.
      + destruct (recv s c) as [s1 e1] eqn:R. destruct (run_st s1 cs) as [s2 e2] eqn:R2.
        inversion H; subst s' evs. clear H.
        assert (Hw : waiting s = false \/ c <> []).
        { destruct Hne as [Hx|[Hx|Hx]]; [congruence | left; exact Hx | right; exact Hx]. }
        destruct (recv_sem s c (concat cs ++ w) s1 e1 HI Hc) as (X1 & X2 & X3); [|exact R|].
        { intros Ha Hf. destruct Hw as [Hw|Hw]; [|exact Hw].
          unfold waiting in Hw. rewrite Ha, Hf in Hw. discriminate. }
        destruct (IH s1 w s2 e2 X2) as (Y1 & Y2); [|exact R2|].
        { destruct (recv_waiting s c s1 e1 R Hw) as [Z|Z]; [left; exact Z | right; left; exact Z]. }
        split; [|assumption].
        unfold extends in *. cbn [concat]. rewrite <- app_assoc, X1, Y1. cbn [fst snd].
        rewrite app_assoc. reflexivity.
  Qed.

  Lemma ltb_zero n : (n <? 0) = false.
  Proof. apply N.ltb_ge. lia. Qed.

  Lemma Inv_init client a : Inv (init client a).
  Proof.
    unfold Inv, init. cbn. repeat split; try congruence.
    destruct client; cbn; [|reflexivity].
    unfold FramingSpec.handshake_of. cbn. rewrite ltb_zero. reflexivity.
  Qed.

  Lemma sem_from_init client a x : sem_from (init client a) x = sem client a x.
  Proof. destruct client; reflexivity. Qed.

  Theorem partition_independent client a chunks :
    client = true \/ first_read_nonempty chunks ->
    run client a chunks = sem client a (concat chunks).
  Proof.
    intros Hne. unfold Framing.run.
    destruct (run_st (init client a) chunks) as [s' evs] eqn:R.
    assert (Hok : reads_ok (init client a) chunks).
    { destruct Hne as [->|Hne]; [right; left; reflexivity | right; right; exact Hne]. }
    destruct (run_sem chunks (init client a) [] s' evs (Inv_init client a) Hok R) as (X & (_ & _ & _ & Q)).
    unfold extends in X. rewrite app_nil_r, sem_from_init in X. rewrite X, Q. cbn [fst snd].
    rewrite app_nil_r. reflexivity.
  Qed.

  Corollary any_two_partitions client a chunks1 chunks2 :
    client = true \/ (first_read_nonempty chunks1 /\ first_read_nonempty chunks2) ->
    concat chunks1 = concat chunks2 ->
    run client a chunks1 = run client a chunks2.
  Proof.
    intros H E. rewrite !partition_independent; [congruence | |]; destruct H as [H|[H1 H2]]; auto.
  Qed.

  (* ---------------------------------------------------------------------- *)
  (* the handshake as the peer sends it, then arbitrary bytes *)
  Lemma handshake_lines : forall lines a rest,
    Forall (good_line maxl) lines -> auth_accepts astep a lines = true ->
    handshake_of a (concat (map (fun l => l ++ [13; 10]) lines) ++ rest) =
      (map Line lines ++ AuthOk :: fst (frames_of rest), snd (frames_of rest)).
  Proof.
    induction lines as [|l ls IH]; intros a rest HG HA; [discriminate|].
    inversion HG as [|? ? [G1 G2] HG']; subst.
    cbn [map concat]. rewrite <- !app_assoc. cbn [app].
    rewrite handshake_of_step, (cut_line_join l _ G1).
    assert (E : (maxl <? size l) = false) by (apply N.ltb_ge; exact G2).
    rewrite E. cbn [auth_accepts] in HA.
    destruct (astep a l) as [a' res]. destruct res, ls; try discriminate.
    - rewrite (IH a' rest HG' HA). reflexivity.
    - cbn [map concat app]. destruct (frames_of rest); reflexivity.
  Qed.

  Theorem handshake_boundary client a lines rest chunks :
    Forall (good_line maxl) lines -> auth_accepts astep a lines = true ->
    client = true \/ first_read_nonempty chunks ->
    concat chunks = hs_bytes client lines ++ rest ->
    run client a chunks = (map Line lines ++ AuthOk :: fst (frames_of rest), snd (frames_of rest)).
  Proof.
    intros HG HA Hne E. rewrite partition_independent by assumption. rewrite E.
    unfold hs_bytes, FramingSpec.sem. destruct client.
    - cbn [app]. apply handshake_lines; assumption.
    - cbn [app N.eqb]. apply handshake_lines; assumption.
  Qed.
End Main.

Lemma frames_of_msgs : forall msgs, Forall wellframed msgs -> frames_of (concat msgs) = (map Msg msgs, Some []).
Proof.
  induction msgs as [|m ms IH]; intros H; [reflexivity|].
  inversion H as [|? ? [W1 W2] H']; subst. cbn [concat map].
  rewrite frames_of_step.
  destruct (take_N_le m 16 W1) as (a & b & T). rewrite (take_N_mono _ _ _ _ (concat ms) T).
  rewrite frame_total_app by exact W1. rewrite W2. change (size m) with (len m).
  rewrite take_N_app, (IH H'). reflexivity.
Qed.

Theorem messages_intact {A} (astep : A -> bytes -> A * ares) maxl client a lines msgs chunks :
  Forall (good_line maxl) lines -> auth_accepts astep a lines = true ->
  Forall wellframed msgs ->
  client = true \/ first_read_nonempty chunks ->
  concat chunks = hs_bytes client lines ++ concat msgs ->
  run astep maxl client a chunks = (map Line lines ++ AuthOk :: map Msg msgs, Some []).
Proof.
  intros HG HA HW Hne E.
  rewrite (handshake_boundary astep maxl client a lines (concat msgs) chunks HG HA Hne E).
  rewrite (frames_of_msgs msgs HW). reflexivity.
Qed.

(* two adjacent reads may be delivered as one (the "key lemma" in its
   observable form) *)
Theorem coalesce {A} (astep : A -> bytes -> A * ares) maxl client a pre x y post :
  client = true \/ first_read_nonempty (pre ++ x :: y :: post) ->
  run astep maxl client a (pre ++ x :: y :: post) = run astep maxl client a (pre ++ (x ++ y) :: post).
Proof.
  intros H. apply any_two_partitions.
  - destruct H as [H|H]; [left; exact H|right]. split; [exact H|].
    destruct pre as [|p pre]; [|exact H].
    cbn in *. destruct x; [contradiction|discriminate].
  - rewrite !concat_app. cbn [concat]. rewrite <- app_assoc. reflexivity.
Qed.

(* link to C03: a message whose length Message.frame_len announces is wellframed *)
Lemma wellframed_from_frame_len raw :
  16 <= len raw -> Message.frame_len (negb (is_big raw)) raw = len raw -> wellframed raw.
Proof.
  intros H E. split; [exact H|].
  rewrite <- next_msg_len_eq, next_msg_len_is_frame_len by exact H. exact E.
Qed.

(* ------------------------------------------------------------------------ *)
(* concrete data for examples and for the witnesses of the pre-repair model  *)

Definition GO : bytes := [71; 79].
Definition go_rules : list (bytes * ares) := [(GO, ADone)].
Definition AUTHX : bytes := [65; 85; 84; 72; 32; 88].          (* "AUTH X" *)

(* METHOD_RETURN, little endian, 24 bytes *)
Definition ex_m1 : bytes :=
  [108; 2; 0; 1; 0; 0; 0; 0; 5; 0; 0; 0; 8; 0; 0; 0; 5; 1; 117; 0; 5; 0; 0; 0].
(* METHOD_RETURN, big endian, serial 0x0d0a0000, body "x\r\ny": 41 bytes with
   "\r\n" at offset 8 of the fixed header and inside the body *)
Definition ex_m2 : bytes :=
  [66; 2; 0; 1; 0; 0; 0; 9; 13; 10; 0; 0; 0; 0; 0; 15; 5; 1; 117; 0; 0; 0; 0; 1; 8; 1; 103; 0;
   1; 115; 0; 0; 0; 0; 0; 4; 120; 13; 10; 121; 0].
(* SIGNAL, little endian, serial 0x0a0d: 64 bytes *)
Definition ex_m3 : bytes :=
  [108; 4; 1; 1; 0; 0; 0; 0; 13; 10; 0; 0; 42; 0; 0; 0; 1; 1; 111; 0; 1; 0; 0; 0; 47; 0; 0; 0;
   0; 0; 0; 0; 2; 1; 115; 0; 3; 0; 0; 0; 97; 46; 98; 0; 0; 0; 0; 0; 3; 1; 115; 0; 1; 0; 0; 0;
   83; 0; 0; 0; 0; 0; 0; 0].

Lemma ex_wellframed : Forall wellframed [ex_m1; ex_m2; ex_m3].
Proof. repeat constructor; vm_compute; try reflexivity; discriminate. Qed.

Lemma ex_lines_good : Forall (good_line 16384) [AUTHX; GO] /\
                      auth_accepts (astep_rules go_rules) tt [AUTHX; GO] = true.
Proof. split; [repeat constructor; vm_compute; try reflexivity; discriminate | reflexivity]. Qed.

(* D02: 1000 messages in one read, 990 nested calls allowed *)
Lemma legacy_depth_witness :
  let chunks := [GO ++ crlf; concat (repeat ex_m1 1000)] in
  run_legacy (astep_rules go_rules) 16384 990 true tt chunks <>
  sem (astep_rules go_rules) 16384 true tt (concat chunks).
Proof.
  intros chunks H.
  apply (f_equal (fun r => length (fst r))) in H. vm_compute in H. discriminate H.
Qed.

(* D03: the line completing authentication and a message containing "\r\n" in one read *)
Lemma legacy_crlf_witness :
  let chunks := [GO ++ crlf ++ ex_m2] in
  run_legacy (astep_rules go_rules) 16384 990 true tt chunks =
    ([Line GO; AuthOk; Crash], None) /\
  sem (astep_rules go_rules) 16384 true tt (concat chunks) =
    ([Line GO; AuthOk; Msg ex_m2], Some []).
Proof. split; vm_compute; reflexivity. Qed.

(* the signal ex_m3 with serial 7: no "\r\n" inside *)
Definition ex_m4 : bytes := firstn 8 ex_m3 ++ [7; 0] ++ skipn 10 ex_m3.

(* D03, second face: a binary remainder longer than the line limit arriving with
   the end of the handshake closes the connection (limit 30 here) *)
Lemma legacy_long_tail_witness :
  let chunks := [GO ++ crlf ++ firstn 40 ex_m4; skipn 40 ex_m4] in
  run_legacy (astep_rules go_rules) 30 990 true tt chunks = ([Line GO; AuthOk; Close], None) /\
  sem (astep_rules go_rules) 30 true tt (concat chunks) = ([Line GO; AuthOk; Msg ex_m4], Some []).
Proof. split; vm_compute; reflexivity. Qed.

(* D32: a line of exactly the maximum length, the read ending between '\r' and '\n' *)
Lemma legacy_limit_witness :
  let chunks := [AUTHX ++ [13]; [10] ++ GO ++ crlf] in
  run_legacy (astep_rules go_rules) 6 990 true tt chunks = ([Close], None) /\
  run_legacy (astep_rules go_rules) 6 990 true tt [concat chunks] = ([Line AUTHX; Line GO; AuthOk], Some []) /\
  sem (astep_rules go_rules) 6 true tt (concat chunks) = ([Line AUTHX; Line GO; AuthOk], Some []).
Proof. repeat split; vm_compute; reflexivity. Qed.

Lemma frame_length_agrees buf : 16 <= len buf ->
  next_msg_len buf = frame_total buf /\
  next_msg_len buf = Message.frame_len (negb (is_big buf)) buf.
Proof. intros H. split; [exact (next_msg_len_eq buf H) | exact (next_msg_len_is_frame_len buf H)]. Qed.

Lemma legacy_depth_refuted :
  exists (chunks : list bytes),
    run_legacy (astep_rules go_rules) 16384 990 true tt chunks <>
    sem (astep_rules go_rules) 16384 true tt (concat chunks).
Proof. eexists. exact legacy_depth_witness. Qed.

Lemma legacy_crlf_refuted :
  exists (chunks : list bytes),
    run_legacy (astep_rules go_rules) 16384 990 true tt chunks = ([Line GO; AuthOk; Crash], None) /\
    sem (astep_rules go_rules) 16384 true tt (concat chunks) = ([Line GO; AuthOk; Msg ex_m2], Some []).
Proof. eexists. exact legacy_crlf_witness. Qed.

Lemma legacy_long_tail_refuted :
  exists (chunks : list bytes),
    run_legacy (astep_rules go_rules) 30 990 true tt chunks = ([Line GO; AuthOk; Close], None) /\
    sem (astep_rules go_rules) 30 true tt (concat chunks) = ([Line GO; AuthOk; Msg ex_m4], Some []).
Proof. eexists. exact legacy_long_tail_witness. Qed.

Lemma legacy_limit_refuted :
  exists (chunks : list bytes),
    run_legacy (astep_rules go_rules) 6 990 true tt chunks = ([Close], None) /\
    run_legacy (astep_rules go_rules) 6 990 true tt [concat chunks] =
      ([Line AUTHX; Line GO; AuthOk], Some []) /\
    sem (astep_rules go_rules) 6 true tt (concat chunks) = ([Line AUTHX; Line GO; AuthOk], Some []).
Proof. eexists. exact legacy_limit_witness. Qed.
