(* Proofs for C13: the faithful model of the bus's name table (Model/BusNames.v)
   refines the reference table (Spec/NameSpec.v) over all histories, and the
   reference table has the properties stated in Props/C13.v. *)
From Tx Require Import Lib.Base Lib.Sexp Gen.Generated Model.Validators Spec.Grammar Proofs.ValidatorsProofs
  Model.BusNames Spec.NameSpec.
From Coq Require Import Permutation.
Local Open Scope N_scope.

Lemma nodup_snoc {A} (l : list A) (k : A) : NoDup l -> ~ In k l -> NoDup (l ++ [k]).
Proof.
  induction l as [|x l IH]; cbn [app]; intros ND Hn.
  - constructor; [intros [] | constructor].
  - inversion ND as [|? ? Hx ND']; subst. constructor.
    + rewrite in_app_iff. intros [H | [H | []]]; [contradiction | subst; apply Hn; left; reflexivity].
    + apply IH; [exact ND' | intro H; apply Hn; right; exact H].
Qed.

(* ---- association lists -------------------------------------------------------- *)
Section AList.
  Context {K V : Type} (eqb : K -> K -> bool).
  Hypothesis eqb_spec : forall a b, eqb a b = true <-> a = b.

  Lemma eqb_refl' k : eqb k k = true.
  Proof. apply eqb_spec; reflexivity. Qed.

  Lemma eqb_neq k k' : k <> k' -> eqb k k' = false.
  Proof. intro H. destruct (eqb k k') eqn:E; [apply eqb_spec in E; contradiction | reflexivity]. Qed.

  Lemma aget_set_eq k (v : V) l : alist_get eqb k (alist_set eqb k v l) = Some v.
  Proof.
    induction l as [|[k' v'] l IH]; cbn [alist_set alist_get].
    - rewrite eqb_refl'; reflexivity.
    - destruct (eqb k k') eqn:E; cbn [alist_get]; rewrite E; [reflexivity | exact IH].
  Qed.

  Lemma aget_set_neq k k' (v : V) l : k <> k' -> alist_get eqb k' (alist_set eqb k v l) = alist_get eqb k' l.
  Proof.
    intro H. induction l as [|[k2 v2] l IH]; cbn [alist_set alist_get].
    - rewrite (eqb_neq k' k) by congruence. reflexivity.
    - destruct (eqb k k2) eqn:E; cbn [alist_get].
      + apply eqb_spec in E; subst k2. rewrite (eqb_neq k' k) by congruence. reflexivity.
      + destruct (eqb k' k2); [reflexivity | exact IH].
  Qed.

  Lemma aget_del_neq k k' (l : list (K * V)) : k <> k' -> alist_get eqb k' (alist_del eqb k l) = alist_get eqb k' l.
  Proof.
    intro H. induction l as [|[k2 v2] l IH]; cbn [alist_del alist_get]; [reflexivity|].
    destruct (eqb k k2) eqn:E; cbn [alist_get].
    - apply eqb_spec in E; subst k2. rewrite (eqb_neq k' k) by congruence. reflexivity.
    - destruct (eqb k' k2); [reflexivity | exact IH].
  Qed.

  Lemma aget_none k (l : list (K * V)) : alist_get eqb k l = None <-> ~ In k (map fst l).
  Proof.
    induction l as [|[k2 v2] l IH]; cbn [alist_get map fst In].
    - split; [intros _ [] | reflexivity].
    - destruct (eqb k k2) eqn:E.
      + apply eqb_spec in E; subst. split; [discriminate | intro H; exfalso; apply H; left; reflexivity].
      + rewrite IH. split.
        * intros H [H1 | H1]; [subst; rewrite eqb_refl' in E; discriminate | contradiction].
        * intros H H1. apply H. right. exact H1.
  Qed.

  Lemma aget_some_in k (v : V) l : alist_get eqb k l = Some v -> In (k, v) l.
  Proof.
    induction l as [|[k2 v2] l IH]; cbn [alist_get]; [discriminate|].
    destruct (eqb k k2) eqn:E.
    - apply eqb_spec in E; subst. intro H; injection H as ->. left; reflexivity.
    - intro H. right. exact (IH H).
  Qed.

  Lemma aget_in_nodup k (v : V) l : NoDup (map fst l) -> In (k, v) l -> alist_get eqb k l = Some v.
  Proof.
    induction l as [|[k2 v2] l IH]; cbn [map fst alist_get]; [intros _ []|].
    intros ND [H | H].
    - injection H as -> ->. rewrite eqb_refl'. reflexivity.
    - inversion ND as [|? ? Hn ND']; subst.
      destruct (eqb k k2) eqn:E.
      + apply eqb_spec in E; subst. exfalso. apply Hn. apply (in_map fst) in H. exact H.
      + exact (IH ND' H).
  Qed.

  Lemma aget_del_eq k (l : list (K * V)) : NoDup (map fst l) -> alist_get eqb k (alist_del eqb k l) = None.
  Proof.
    induction l as [|[k2 v2] l IH]; cbn [alist_del alist_get map fst]; [reflexivity|].
    intro ND. inversion ND as [|? ? Hn ND']; subst.
    destruct (eqb k k2) eqn:E.
    - apply eqb_spec in E; subst. apply aget_none. exact Hn.
    - cbn [alist_get]. rewrite E. exact (IH ND').
  Qed.

  Lemma keys_set k (v : V) l :
    map fst (alist_set eqb k v l) =
    match alist_get eqb k l with Some _ => map fst l | None => map fst l ++ [k] end.
  Proof.
    induction l as [|[k2 v2] l IH]; cbn [alist_set alist_get map fst app]; [reflexivity|].
    destruct (eqb k k2) eqn:E; cbn [map fst]; [reflexivity|].
    rewrite IH. destruct (alist_get eqb k l); reflexivity.
  Qed.

  Lemma nodup_set k (v : V) l : NoDup (map fst l) -> NoDup (map fst (alist_set eqb k v l)).
  Proof.
    intro ND. rewrite keys_set. destruct (alist_get eqb k l) eqn:E; [exact ND|].
    apply aget_none in E.
    apply nodup_snoc; assumption.
  Qed.

  Lemma keys_del_incl k (l : list (K * V)) x : In x (map fst (alist_del eqb k l)) -> In x (map fst l).
  Proof.
    induction l as [|[k2 v2] l IH]; cbn [alist_del map fst In]; [tauto|].
    destruct (eqb k k2); cbn [map fst In]; tauto.
  Qed.

  Lemma nodup_del k (l : list (K * V)) : NoDup (map fst l) -> NoDup (map fst (alist_del eqb k l)).
  Proof.
    induction l as [|[k2 v2] l IH]; cbn [alist_del map fst]; [trivial|].
    intro ND. inversion ND as [|? ? Hn ND']; subst.
    destruct (eqb k k2); [exact ND'|].
    cbn [map fst]. constructor; [|exact (IH ND')].
    intro H. apply Hn. exact (keys_del_incl _ _ _ H).
  Qed.
End AList.

(* ---- keys ---------------------------------------------------------------------------- *)
Lemma key_eqb_spec a b : key_eqb a b = true <-> a = b.
Proof.
  destruct a as [c n], b as [c' n']. unfold key_eqb; cbn [fst snd].
  rewrite andb_true_iff, N.eqb_eq, str_eqb_spec. split; [intros [-> ->]; reflexivity | intro H; injection H; auto].
Qed.

Lemma fget_fset_eq fl c n a : fget (fset fl c n a) c n = Some a.
Proof. apply (aget_set_eq key_eqb key_eqb_spec). Qed.

Lemma fget_fset_neq fl c n a c' n' : (c, n) <> (c', n') -> fget (fset fl c n a) c' n' = fget fl c' n'.
Proof. apply (aget_set_neq key_eqb key_eqb_spec). Qed.

Lemma fget_fdel_neq fl c n c' n' : (c, n) <> (c', n') -> fget (fdel fl c n) c' n' = fget fl c' n'.
Proof. apply (aget_del_neq key_eqb key_eqb_spec). Qed.

Lemma nget_nset_eq ns n q : nget (nset ns n q) n = Some q.
Proof. apply (aget_set_eq str_eqb str_eqb_spec). Qed.

Lemma nget_nset_neq ns n q n' : n <> n' -> nget (nset ns n q) n' = nget ns n'.
Proof. apply (aget_set_neq str_eqb str_eqb_spec). Qed.

Lemma nget_ndel_neq ns n n' : n <> n' -> nget (ndel ns n) n' = nget ns n'.
Proof. apply (aget_del_neq str_eqb str_eqb_spec). Qed.

Lemma nget_ndel_eq ns n : NoDup (map fst ns) -> nget (ndel ns n) n = None.
Proof. apply (aget_del_eq str_eqb str_eqb_spec). Qed.

Lemma str_eq_dec (a b : str) : {a = b} + {a <> b}.
Proof. apply list_eq_dec. apply N.eq_dec. Qed.

(* ---- membership, removal ------------------------------------------------------------------- *)
Lemma mem_in c q : mem c q = true <-> In c q.
Proof.
  unfold mem. rewrite existsb_exists. split.
  - intros [x [H1 H2]]. apply N.eqb_eq in H2. subst. exact H1.
  - intro H. exists c. split; [exact H | apply N.eqb_refl].
Qed.

Lemma mem_false c q : mem c q = false <-> ~ In c q.
Proof. rewrite <- mem_in. destruct (mem c q); split; congruence. Qed.

Definition drop (c : client) (q : list client) : list client := filter (fun x => negb (N.eqb c x)) q.

Lemma drop_notin c q : ~ In c q -> drop c q = q.
Proof.
  induction q as [|x q IH]; cbn [drop filter]; [reflexivity|]. intro H.
  destruct (N.eqb c x) eqn:E; cbn [negb].
  - apply N.eqb_eq in E. subst. exfalso. apply H. left; reflexivity.
  - f_equal. apply IH. intro H1. apply H. right; exact H1.
Qed.

Lemma remove1_drop c q : NoDup q -> remove1 c q = drop c q.
Proof.
  induction q as [|x q IH]; cbn [remove1 drop filter]; [reflexivity|]. intro ND.
  inversion ND as [|? ? Hx ND']; subst.
  destruct (N.eqb c x) eqn:E; cbn [negb].
  - apply N.eqb_eq in E. subst. symmetry. apply drop_notin. exact Hx.
  - f_equal. exact (IH ND').
Qed.

Lemma in_drop c q x : In x (drop c q) <-> In x q /\ x <> c.
Proof.
  unfold drop. rewrite filter_In, negb_true_iff, N.eqb_neq. intuition congruence.
Qed.

Lemma nodup_drop c q : NoDup q -> NoDup (drop c q).
Proof. apply NoDup_filter. Qed.

(* ---- the spec's queue operations ------------------------------------------------------------ *)
Lemma fst_without c q : map fst (without c q) = drop c (map fst q).
Proof.
  induction q as [|[x a] q IH]; cbn [without filter map drop fst]; [reflexivity|].
  destruct (N.eqb c x); cbn [negb map fst]; [exact IH | f_equal; exact IH].
Qed.

Lemma without_notin c q : ~ In c (map fst q) -> without c q = q.
Proof.
  induction q as [|[x a] q IH]; cbn [without filter map In fst]; [reflexivity|]. intro H.
  destruct (N.eqb c x) eqn:E; cbn [negb].
  - apply N.eqb_eq in E. exfalso. apply H. left. congruence.
  - f_equal. apply IH. tauto.
Qed.

Lemma fst_enqueue e q :
  map fst (enqueue e q) = if mem (fst e) (map fst q) then map fst q else map fst q ++ [fst e].
Proof.
  destruct e as [c a]. cbn [fst].
  induction q as [|[x b] q IH]; cbn [enqueue map mem existsb app fst]; [reflexivity|].
  destruct (N.eqb c x) eqn:E; cbn [orb map fst].
  - apply N.eqb_eq in E. subst. reflexivity.
  - rewrite IH. unfold mem. destruct (existsb (N.eqb c) (map fst q)); reflexivity.
Qed.

Lemma queue_put_eq qs n q : queue_in (put n q qs) n = q.
Proof.
  unfold queue_in, put.
  assert (H : alist_get str_eqb n (filter (fun p => negb (str_eqb n (fst p))) qs) = None).
  { induction qs as [|[k v] qs IH]; cbn [filter fst alist_get]; [reflexivity|].
    destruct (str_eqb n k) eqn:E; cbn [negb alist_get]; [exact IH | rewrite E; exact IH]. }
  destruct q as [|e q]; [rewrite H; reflexivity|].
  cbn [alist_get]. rewrite str_eqb_refl. reflexivity.
Qed.

Lemma queue_put_neq qs n q n' : n <> n' -> queue_in (put n q qs) n' = queue_in qs n'.
Proof.
  intro H. unfold queue_in, put.
  assert (H1 : alist_get str_eqb n' (filter (fun p => negb (str_eqb n (fst p))) qs) = alist_get str_eqb n' qs).
  { induction qs as [|[k v] qs IH]; cbn [filter fst alist_get]; [reflexivity|].
    destruct (str_eqb n k) eqn:E; cbn [negb alist_get].
    - apply str_eqb_spec in E. subst k.
      destruct (str_eqb n' n) eqn:E2; [apply str_eqb_spec in E2; congruence | exact IH].
    - destruct (str_eqb n' k); [reflexivity | exact IH]. }
  destruct q as [|e q]; [rewrite H1; reflexivity|].
  cbn [alist_get fst]. destruct (str_eqb n' n) eqn:E2; [apply str_eqb_spec in E2; congruence|].
  rewrite H1. reflexivity.
Qed.

Lemma keys_put qs n q x : In x (map fst (put n q qs)) -> x = n \/ In x (map fst qs).
Proof.
  unfold put. intro H.
  assert (H1 : forall y, In y (map fst (filter (fun p => negb (str_eqb n (fst p))) qs)) -> In y (map fst qs)).
  { intros y Hy. apply in_map_iff in Hy as [p [<- Hp]]. apply filter_In in Hp as [Hp _]. apply in_map. exact Hp. }
  destruct q; [right; exact (H1 _ H)|].
  cbn [map fst In] in H. destruct H as [H | H]; [left; congruence | right; exact (H1 _ H)].
Qed.

Lemma nodup_put qs n q : NoDup (map fst qs) -> NoDup (map fst (put n q qs)).
Proof.
  intro ND. unfold put.
  assert (H1 : NoDup (map fst (filter (fun p => negb (str_eqb n (fst p))) qs))).
  { induction qs as [|[k v] qs IH]; cbn [filter map fst]; [constructor|].
    cbn [map fst] in ND. inversion ND as [|? ? Hk ND']; subst.
    destruct (str_eqb n k); cbn [negb map fst]; [exact (IH ND')|].
    constructor; [|exact (IH ND')].
    intro H. apply Hk. apply in_map_iff in H as [p [<- Hp]]. apply filter_In in Hp as [Hp _]. apply in_map. exact Hp. }
  destruct q; [exact H1|].
  cbn [map fst]. constructor; [|exact H1].
  intro H. apply in_map_iff in H as [p [E Hp]]. apply filter_In in Hp as [_ Hp].
  rewrite <- E, str_eqb_refl in Hp. discriminate.
Qed.

(* ---- flags and names --------------------------------------------------------------------------- *)
Lemma flag_bit0 f : N.testbit f 0 = has_flag f ALLOW_REPLACEMENT.
Proof. unfold has_flag, ALLOW_REPLACEMENT. destruct f as [|[p|p|]]; reflexivity. Qed.

Lemma flag_bit1 f : N.testbit f 1 = has_flag f REPLACE_EXISTING.
Proof. unfold has_flag, REPLACE_EXISTING. destruct f as [|[[p|p|]|[p|p|]|]]; reflexivity. Qed.

Lemma flag_bit2 f : N.testbit f 2 = has_flag f DO_NOT_QUEUE.
Proof.
  unfold has_flag, DO_NOT_QUEUE.
  destruct f as [|[[[p|p|]|[p|p|]|]|[[p|p|]|[p|p|]|]|]]; reflexivity.
Qed.

Lemma name_ok_wellknown n : name_ok n = wellknown n.
Proof.
  unfold name_ok, wellknown. rewrite <- validate_bus_grammar.
  destruct n as [|ch r]; [reflexivity|].
  cbn [starts_with]. rewrite andb_true_r, (N.eqb_sym 58 ch). unfold c_colon.
  apply andb_comm.
Qed.

Lemma reply_codes_generated :
  name_reply_codes = Some [NAME_ACQUIRED; NAME_IN_QUEUE; NAME_IN_USE; NAME_ALREADY_OWNER;
                           NAME_RELEASED; NAME_NON_EXISTENT; NAME_NOT_OWNER].
Proof. reflexivity. Qed.

Lemma reply_codes_spec :
  [NAME_ACQUIRED; NAME_IN_QUEUE; NAME_IN_USE; NAME_ALREADY_OWNER; NAME_RELEASED; NAME_NON_EXISTENT; NAME_NOT_OWNER]
  = [PRIMARY_OWNER; IN_QUEUE; EXISTS; ALREADY_OWNER; RELEASED; NON_EXISTENT; NOT_OWNER].
Proof. reflexivity. Qed.

(* ---- the reference table: invariant ---------------------------------------------------------------- *)
Record SInv (t : table) : Prop := mkSInv {
  si_keys : NoDup (map fst (t_queues t));
  si_nodup : forall n, NoDup (map fst (queue t n));
  si_live : forall n c, In c (map fst (queue t n)) -> In c (t_live t);
  si_fresh : forall c, In c (t_live t) -> c < t_next t
}.

Lemma is_live_in t c : is_live t c = true <-> In c (t_live t).
Proof. apply mem_in. Qed.

Lemma queue_with_eq t n q : queue (with_queue t n q) n = q.
Proof. apply queue_put_eq. Qed.

Lemma queue_with_neq t n q n' : n <> n' -> queue (with_queue t n q) n' = queue t n'.
Proof. apply queue_put_neq. Qed.

Lemma sinv_with t n q :
  SInv t -> NoDup (map fst q) -> (forall c, In c (map fst q) -> In c (t_live t)) -> SInv (with_queue t n q).
Proof.
  intros [K ND L F] Hq Hl. constructor; cbn [with_queue t_queues t_live t_next].
  - apply nodup_put. exact K.
  - intro n'. destruct (str_eq_dec n n') as [<-|Hn].
    + rewrite queue_with_eq. exact Hq.
    + rewrite queue_with_neq by exact Hn. apply ND.
  - intros n' c. destruct (str_eq_dec n n') as [<-|Hn].
    + rewrite queue_with_eq. apply Hl.
    + rewrite queue_with_neq by exact Hn. apply L.
  - exact F.
Qed.

Lemma sinv_empty : SInv empty.
Proof. constructor; cbn; [constructor | intro; constructor | intros _ _ [] | intros _ []]. Qed.

Lemma sinv_request t c n f : SInv t -> In c (t_live t) -> SInv (fst (spec_request t c n f)).
Proof.
  intros I Hc. unfold spec_request.
  destruct (negb (wellknown n)); [exact I|].
  pose proof (si_nodup t I n) as ND. pose proof (si_live t I n) as L.
  destruct (queue t n) as [|[o a] rest] eqn:Q; cbn [fst].
  - apply sinv_with; [exact I | repeat constructor; intros [] | intros x [<- | []]; exact Hc].
  - cbn [map fst] in ND, L. inversion ND as [|? ? Ho ND']; subst.
    destruct (o =? c) eqn:E; cbn [fst].
    { apply N.eqb_eq in E. subst o. apply sinv_with; [exact I | exact ND | exact L]. }
    apply N.eqb_neq in E.
    assert (NDw : NoDup (map fst (without c rest))) by (rewrite fst_without; apply nodup_drop; exact ND').
    assert (Lw : forall x, In x (map fst (without c rest)) -> In x (t_live t)).
    { intros x Hx. rewrite fst_without in Hx. apply in_drop in Hx as [Hx _]. apply L. right. exact Hx. }
    assert (How : ~ In o (map fst (without c rest))).
    { rewrite fst_without. intro H. apply in_drop in H as [H _]. contradiction. }
    destruct (a && has_flag f REPLACE_EXISTING); cbn [fst].
    { apply sinv_with; [exact I | |].
      - cbn [map fst]. constructor; [|exact NDw].
        rewrite fst_without. intro H. apply in_drop in H as [_ H]. congruence.
      - intros x [<- | Hx]; [exact Hc | exact (Lw x Hx)]. }
    destruct (has_flag f DO_NOT_QUEUE); cbn [fst].
    { apply sinv_with; [exact I | |].
      - cbn [map fst]. constructor; assumption.
      - intros x [<- | Hx]; [apply L; left; reflexivity | exact (Lw x Hx)]. }
    apply sinv_with; [exact I | |].
    + cbn [map fst]. rewrite fst_enqueue. cbn [fst].
      destruct (mem c (map fst rest)) eqn:M; [exact ND|].
      apply mem_false in M. constructor.
      * rewrite in_app_iff. intros [H | [H | []]]; [contradiction | congruence].
      * apply nodup_snoc; assumption.
    + cbn [map fst]. rewrite fst_enqueue. cbn [fst].
      intros x [<- | Hx]; [apply L; left; reflexivity|].
      destruct (mem c (map fst rest)); [apply L; right; exact Hx|].
      apply in_app_iff in Hx as [Hx | [<- | []]]; [apply L; right; exact Hx | exact Hc].
Qed.

Lemma sinv_release t c n : SInv t -> SInv (fst (spec_release t c n)).
Proof.
  intros I. unfold spec_release.
  pose proof (si_nodup t I n) as ND. pose proof (si_live t I n) as L.
  destruct (queue t n) as [|[o a] rest] eqn:Q; cbn [fst]; [exact I|].
  cbn [map fst] in ND, L. inversion ND as [|? ? Ho ND']; subst.
  destruct (o =? c); cbn [fst].
  - apply sinv_with; [exact I | exact ND' | intros x Hx; apply L; right; exact Hx].
  - match goal with |- context [existsb ?g rest] => destruct (existsb g rest) end; cbn [fst]; [|exact I].
    apply sinv_with; [exact I | |].
    + cbn [map fst]. rewrite fst_without. constructor.
      * intro H. apply in_drop in H as [H _]. contradiction.
      * apply nodup_drop. exact ND'.
    + cbn [map fst]. rewrite fst_without. intros x [<- | Hx]; [apply L; left; reflexivity|].
      apply in_drop in Hx as [Hx _]. apply L. right. exact Hx.
Qed.

(* the queue of a name after a connection has gone *)
Lemma queue_gone qs c n :
  NoDup (map fst qs) ->
  queue_in (filter (fun p : name * list entry => match snd p with [] => false | _ => true end)
                   (map (fun p => (fst p, without c (snd p))) qs)) n
  = without c (queue_in qs n).
Proof.
  unfold queue_in. induction qs as [|[k q] qs IH]; cbn [map fst snd filter alist_get]; [reflexivity|].
  intro ND. inversion ND as [|? ? Hk ND']; subst.
  destruct (str_eqb n k) eqn:E.
  - apply str_eqb_spec in E. subst k.
    destruct (without c q) eqn:W; [|cbn [alist_get]; rewrite str_eqb_refl; reflexivity].
    rewrite (IH ND').
    replace (alist_get str_eqb n qs) with (@None (list entry)); [reflexivity|].
    symmetry. apply (aget_none str_eqb str_eqb_spec). exact Hk.
  - destruct (without c q); [exact (IH ND')|].
    cbn [alist_get]. rewrite E. exact (IH ND').
Qed.

Lemma keys_gone qs c :
  NoDup (map fst qs) ->
  NoDup (map fst (filter (fun p : name * list entry => match snd p with [] => false | _ => true end)
                         (map (fun p => (fst p, without c (snd p))) qs))).
Proof.
  induction qs as [|[k q] qs IH]; cbn [map fst snd filter]; [constructor|].
  intro ND. inversion ND as [|? ? Hk ND']; subst.
  destruct (without c q); [exact (IH ND')|].
  cbn [map fst]. constructor; [|exact (IH ND')].
  intro H. apply Hk. apply in_map_iff in H as [p [<- Hp]]. apply filter_In in Hp as [Hp _].
  apply in_map_iff in Hp as [p' [<- Hp']]. cbn [fst]. apply in_map. exact Hp'.
Qed.

Lemma queue_disconnect t c n : SInv t -> queue (fst (spec_disconnect t c)) n = without c (queue t n).
Proof. intros I. unfold spec_disconnect, queue; cbn [fst t_queues]. apply queue_gone. apply I. Qed.

Lemma sinv_disconnect t c : SInv t -> SInv (fst (spec_disconnect t c)).
Proof.
  intros I. constructor.
  - unfold spec_disconnect; cbn [fst t_queues]. apply keys_gone. apply I.
  - intro n. rewrite queue_disconnect by exact I. rewrite fst_without. apply nodup_drop. apply I.
  - intros n x. rewrite queue_disconnect by exact I. rewrite fst_without. intro H.
    apply in_drop in H as [H Hx]. unfold spec_disconnect; cbn [fst t_live].
    apply filter_In. split; [exact (si_live t I n x H)|].
    apply negb_true_iff, N.eqb_neq. congruence.
  - unfold spec_disconnect; cbn [fst t_live t_next]. intros x Hx. apply filter_In in Hx as [Hx _].
    exact (si_fresh t I x Hx).
Qed.

Lemma sinv_connect t : SInv t -> SInv (fst (spec_connect t)).
Proof.
  intros [K ND L F]. constructor; unfold spec_connect; cbn [fst t_queues t_live t_next].
  - exact K.
  - exact ND.
  - intros n c H. apply in_app_iff. left. exact (L n c H).
  - intros c H. apply in_app_iff in H as [H | [<- | []]]; [specialize (F c H)|]; lia.
Qed.

Lemma sinv_step t o : SInv t -> SInv (fst (spec_step t o)).
Proof.
  intro I. destruct o as [|c n f|c n|c n|c n|c]; cbn [spec_step].
  - apply sinv_connect. exact I.
  - destruct (is_live t c) eqn:E; [|exact I]. apply sinv_request; [exact I | apply is_live_in; exact E].
  - destruct (is_live t c); [|exact I]. apply sinv_release. exact I.
  - destruct (is_live t c); exact I.
  - destruct (is_live t c); exact I.
  - destruct (is_live t c); [|exact I]. apply sinv_disconnect. exact I.
Qed.

Lemma sinv_run_from t h : SInv t -> SInv (fst (spec_run_from t h)).
Proof.
  revert t. induction h as [|o h IH]; intros t I; cbn [spec_run_from]; [exact I|].
  destruct (spec_step t o) as [t1 x] eqn:E1.
  specialize (IH t1). destruct (spec_run_from t1 h) as [t2 xs]. cbn [fst] in *.
  apply IH. change t1 with (fst (t1, x)). rewrite <- E1. apply sinv_step. exact I.
Qed.

Lemma sinv_run h : SInv (fst (spec_run h)).
Proof. apply sinv_run_from. exact sinv_empty. Qed.

(* ---- the model: invariant and simulation relation ------------------------------------------------------ *)
Definition dec (fl : list ((client * name) * bool)) (n : name) (c : client) : client * option bool :=
  (c, fget fl c n).
Definition lift (e : entry) : client * option bool := (fst e, Some (snd e)).

Definition names_ok (ns : list (name * list client)) : Prop :=
  NoDup (map fst ns) /\ forall n, nget ns n <> Some [].

Record MInv (b : bus) : Prop := mkMInv {
  mi_names : names_ok (b_names b);
  mi_flags : NoDup (map fst (b_flags b))
}.

Record R (b : bus) (t : table) : Prop := mkR {
  r_next : b_next b = t_next t;
  r_live : b_clients b = t_live t;
  r_view : forall n, map (dec (b_flags b) n) (mqueue b n) = map lift (queue t n)
}.

Lemma names_ok_nset ns n q : names_ok ns -> q <> [] -> names_ok (nset ns n q).
Proof.
  intros [K NE] Hq. split.
  - apply (nodup_set str_eqb str_eqb_spec). exact K.
  - intro n'. destruct (str_eq_dec n n') as [<-|Hn].
    + rewrite nget_nset_eq. congruence.
    + rewrite nget_nset_neq by exact Hn. apply NE.
Qed.

Lemma names_ok_ndel ns n : names_ok ns -> names_ok (ndel ns n).
Proof.
  intros [K NE]. split.
  - apply nodup_del. exact K.
  - intro n'. destruct (str_eq_dec n n') as [<-|Hn].
    + rewrite nget_ndel_eq by exact K. discriminate.
    + rewrite nget_ndel_neq by exact Hn. apply NE.
Qed.

Lemma flags_ok_fset fl c n a : NoDup (map fst fl) -> NoDup (map fst (fset fl c n a)).
Proof. apply (nodup_set key_eqb key_eqb_spec). Qed.

Lemma flags_ok_fdel fl c n : NoDup (map fst fl) -> NoDup (map fst (fdel fl c n)).
Proof. apply nodup_del. Qed.

Lemma map_fst_dec fl n l : map fst (map (dec fl n) l) = l.
Proof. induction l as [|x l IH]; cbn [map dec fst]; [reflexivity | f_equal; exact IH]. Qed.

Lemma map_fst_lift q : map fst (map lift q) = map fst q.
Proof. induction q as [|x q IH]; cbn [map lift fst]; [reflexivity | f_equal; exact IH]. Qed.

Lemma view_fst b t n : R b t -> mqueue b n = map fst (queue t n).
Proof.
  intros Rb. rewrite <- (map_fst_dec (b_flags b) n (mqueue b n)), (r_view b t Rb n). apply map_fst_lift.
Qed.

Lemma view_nil b t n : MInv b -> R b t -> queue t n = [] -> nget (b_names b) n = None.
Proof.
  intros [[_ NE] _] Rb Q. pose proof (view_fst b t n Rb) as H. rewrite Q in H. cbn [map] in H.
  unfold mqueue in H. specialize (NE n). destruct (nget (b_names b) n); [subst; congruence | reflexivity].
Qed.

Lemma view_cons b t n o a rest :
  R b t -> queue t n = (o, a) :: rest ->
  nget (b_names b) n = Some (o :: map fst rest) /\
  fget (b_flags b) o n = Some a /\
  map (dec (b_flags b) n) (map fst rest) = map lift rest.
Proof.
  intros Rb Q. pose proof (view_fst b t n Rb) as H. pose proof (r_view b t Rb n) as V.
  rewrite Q in H, V. cbn [map fst] in H. rewrite H in V. cbn [map dec lift fst snd] in V.
  injection V as V1 V2. split; [|split; assumption].
  unfold mqueue in H. destruct (nget (b_names b) n); [congruence | discriminate].
Qed.

Lemma dec_cons fl n x l : map (dec fl n) (x :: l) = (x, fget fl x n) :: map (dec fl n) l.
Proof. reflexivity. Qed.

Lemma lift_cons c a q : map lift ((c, a) :: q) = (c, Some a) :: map lift q.
Proof. reflexivity. Qed.

Lemma dec_ext fl fl' n l :
  (forall x, In x l -> fget fl' x n = fget fl x n) -> map (dec fl' n) l = map (dec fl n) l.
Proof. intro H. apply map_ext_in. intros x Hx. unfold dec. rewrite (H x Hx). reflexivity. Qed.

Lemma view_drop fl n c l q :
  map (dec fl n) l = map lift q -> map (dec fl n) (drop c l) = map lift (without c q).
Proof.
  revert q. induction l as [|x l IH]; intros [|[y a] q] H; try discriminate; [reflexivity|].
  rewrite ?dec_cons, ?lift_cons in H. injection H as Hx Hf Ht. subst y.
  cbn [drop filter without fst]. fold (drop c l). fold (without c q).
  destruct (N.eqb c x); cbn [negb]; [exact (IH q Ht)|].
  rewrite ?dec_cons, ?lift_cons; cbn [map]. rewrite Hf. f_equal. exact (IH q Ht).
Qed.

Lemma view_enqueue fl n c a l q :
  NoDup l -> map (dec fl n) l = map lift q ->
  map (dec (fset fl c n a) n) (if mem c l then l else l ++ [c]) = map lift (enqueue (c, a) q).
Proof.
  revert q. induction l as [|x l IH]; intros [|[y ay] q] ND H; try discriminate.
  - cbn [mem existsb app enqueue]; rewrite ?dec_cons, ?lift_cons; cbn [map]. rewrite fget_fset_eq. reflexivity.
  - rewrite ?dec_cons, ?lift_cons in H. injection H as Hx Hf Ht. subst y.
    inversion ND as [|? ? Hn ND']; subst.
    cbn [mem existsb enqueue fst]. fold (mem c l).
    destruct (N.eqb c x) eqn:E; cbn [orb].
    + apply N.eqb_eq in E. subst x. rewrite ?dec_cons, ?lift_cons; cbn [map]. rewrite fget_fset_eq. f_equal.
      rewrite <- Ht. apply dec_ext. intros z Hz. apply fget_fset_neq. congruence.
    + apply N.eqb_neq in E.
      replace (if mem c l then x :: l else (x :: l) ++ [c]) with (x :: (if mem c l then l else l ++ [c]))
        by (destruct (mem c l); reflexivity).
      rewrite ?dec_cons, ?lift_cons; cbn [map]. rewrite fget_fset_neq by congruence. rewrite Hf. f_equal.
      exact (IH q ND' Ht).
Qed.

(* establishing R after an update of one name *)
Lemma R_with b t b' n qs :
  R b t -> b_next b' = b_next b -> b_clients b' = b_clients b ->
  (forall n', n <> n' -> nget (b_names b') n' = nget (b_names b) n') ->
  (forall n' c', n <> n' -> fget (b_flags b') c' n' = fget (b_flags b) c' n') ->
  map (dec (b_flags b') n) (mqueue b' n) = map lift qs ->
  R b' (with_queue t n qs).
Proof.
  intros [Rn Rl Rv] Hn Hc Hq Hf Hv. constructor; cbn [with_queue t_next t_live].
  - congruence.
  - congruence.
  - intro n'. destruct (str_eq_dec n n') as [<-|Hne].
    + rewrite queue_with_eq. exact Hv.
    + rewrite queue_with_neq by exact Hne. rewrite <- Rv.
      unfold mqueue. rewrite (Hq n' Hne). apply dec_ext. intros x _. apply Hf. exact Hne.
Qed.

Lemma key_neq_name (c c' : client) (n n' : name) : n <> n' -> (c, n) <> (c', n').
Proof. congruence. Qed.

Lemma tl_remove_owner c o rest :
  c <> o -> NoDup rest ->
  tl (if mem c (o :: rest) then remove1 c (o :: rest) else o :: rest) = drop c rest.
Proof.
  intros Hc ND. cbn [mem existsb remove1]. fold (mem c rest).
  destruct (N.eqb c o) eqn:E; [apply N.eqb_eq in E; contradiction|]. cbn [orb].
  destruct (mem c rest) eqn:M; cbn [tl].
  - apply remove1_drop. exact ND.
  - symmetry. apply drop_notin. apply mem_false. exact M.
Qed.

Lemma sim_request b t c n f :
  MInv b -> SInv t -> R b t -> In c (t_live t) ->
  MInv (fst (request b c n f)) /\ R (fst (request b c n f)) (fst (spec_request t c n f)) /\
  snd (request b c n f) = snd (spec_request t c n f).
Proof.
  intros Mb St Rb Hc. unfold request, spec_request.
  rewrite flag_bit0, flag_bit1, flag_bit2, name_ok_wellknown.
  destruct (negb (wellknown n)); [cbn [fst snd]; split; [exact Mb | split; [exact Rb | reflexivity]]|].
  destruct Mb as [NK FK].
  destruct (queue t n) as [|[o a] rest] eqn:Q.
  - rewrite (view_nil b t n (mkMInv b NK FK) Rb Q). cbn [fst snd]. split; [|split].
    + constructor; cbn [b_names b_flags]; [apply names_ok_nset; [exact NK | discriminate] | apply flags_ok_fset; exact FK].
    + apply (R_with b t); cbn [b_next b_clients b_names b_flags]; try reflexivity; [exact Rb | | |].
      * intros n' Hn. apply nget_nset_neq. exact Hn.
      * intros n' c' Hn. apply fget_fset_neq. apply key_neq_name. exact Hn.
      * unfold mqueue; cbn [b_names]. rewrite nget_nset_eq. rewrite ?dec_cons, ?lift_cons; cbn [map].
        rewrite fget_fset_eq. reflexivity.
    + reflexivity.
  - destruct (view_cons b t n o a rest Rb Q) as [Hq [Hfo Hrest]]. rewrite Hq.
    pose proof (si_nodup t St n) as ND. rewrite Q in ND. cbn [map fst] in ND.
    inversion ND as [|? ? Ho ND']; subst.
    destruct (o =? c) eqn:E.
    { apply N.eqb_eq in E. subst o. cbn [fst snd]. split; [|split].
      - constructor; unfold set_flags; cbn [b_names b_flags]; [exact NK | apply flags_ok_fset; exact FK].
      - apply (R_with b t); unfold set_flags; cbn [b_next b_clients b_names b_flags]; try reflexivity; [exact Rb | |].
        + intros n' c' Hn. apply fget_fset_neq. apply key_neq_name. exact Hn.
        + unfold mqueue; cbn [b_names]. rewrite Hq. rewrite ?dec_cons, ?lift_cons; cbn [map].
          rewrite fget_fset_eq. f_equal. rewrite <- Hrest. apply dec_ext.
          intros x Hx. apply fget_fset_neq. congruence.
      - reflexivity. }
    apply N.eqb_neq in E.
    assert (Eco : c <> o) by congruence.
    destruct (has_flag f REPLACE_EXISTING) eqn:FR.
    + rewrite Hfo, andb_true_r. destruct a.
      * (* the owner is replaced *)
        rewrite (tl_remove_owner c o (map fst rest) Eco ND'). cbn [fst snd]. split; [|split].
        -- constructor; cbn [b_names b_flags];
             [apply names_ok_nset; [exact NK | discriminate] | apply flags_ok_fset, flags_ok_fdel; exact FK].
        -- apply (R_with b t); cbn [b_next b_clients b_names b_flags]; try reflexivity; [exact Rb | | |].
           ++ intros n' Hn. apply nget_nset_neq. exact Hn.
           ++ intros n' c' Hn. rewrite fget_fset_neq by (apply key_neq_name; exact Hn).
              apply fget_fdel_neq. apply key_neq_name. exact Hn.
           ++ unfold mqueue; cbn [b_names]. rewrite nget_nset_eq. rewrite ?dec_cons, ?lift_cons; cbn [map].
              rewrite fget_fset_eq. f_equal.
              rewrite <- (view_drop (b_flags b) n c (map fst rest) rest Hrest).
              apply dec_ext. intros x Hx. apply in_drop in Hx as [Hx Hxc].
              rewrite fget_fset_neq by congruence. apply fget_fdel_neq. congruence.
        -- reflexivity.
      * (* not replaceable: refused or queued *)
        cbn [andb]. destruct (has_flag f DO_NOT_QUEUE).
        -- cbn [mem existsb]. fold (mem c (map fst rest)).
           destruct (N.eqb c o) eqn:E2; [apply N.eqb_eq in E2; contradiction|]. cbn [orb].
           destruct (mem c (map fst rest)) eqn:M; cbn [fst snd].
           ++ split; [|split; [|reflexivity]].
              ** constructor; unfold set_names; cbn [b_names b_flags]; [apply names_ok_nset; [exact NK|] | exact FK].
                 cbn [remove1]. rewrite E2. discriminate.
              ** apply (R_with b t); unfold set_names; cbn [b_next b_clients b_names b_flags]; try reflexivity; [exact Rb | |].
                 --- intros n' Hn. apply nget_nset_neq. exact Hn.
                 --- unfold mqueue; cbn [b_names]. rewrite nget_nset_eq. cbn [remove1]. rewrite E2.
                     rewrite (remove1_drop c (map fst rest) ND').
                     rewrite ?dec_cons, ?lift_cons; cbn [map]. rewrite Hfo. f_equal. apply view_drop. exact Hrest.
           ++ split; [constructor; assumption | split; [|reflexivity]].
              apply mem_false in M. rewrite (without_notin c rest M).
              apply (R_with b t); try reflexivity; [exact Rb|].
              pose proof (r_view b t Rb n) as V. rewrite Q in V. exact V.
        -- cbn [fst snd]. split; [|split; [|reflexivity]].
           ++ constructor; cbn [b_names b_flags]; [|apply flags_ok_fset; exact FK].
              destruct (mem c (o :: map fst rest)); [exact NK|]. apply names_ok_nset; [exact NK|discriminate].
           ++ apply (R_with b t); cbn [b_next b_clients b_names b_flags]; try reflexivity; [exact Rb | | |].
              ** intros n' Hn. destruct (mem c (o :: map fst rest)); [reflexivity|]. apply nget_nset_neq. exact Hn.
              ** intros n' c' Hn. apply fget_fset_neq. apply key_neq_name. exact Hn.
              ** assert (Hm : mqueue (mkBus (b_next b) (b_clients b)
                                 (if mem c (o :: map fst rest) then b_names b
                                  else nset (b_names b) n ((o :: map fst rest) ++ [c]))
                                 (fset (b_flags b) c n (has_flag f ALLOW_REPLACEMENT))) n
                               = o :: (if mem c (map fst rest) then map fst rest else map fst rest ++ [c])).
                 { unfold mqueue; cbn [b_names mem existsb]. fold (mem c (map fst rest)).
                   destruct (N.eqb c o) eqn:E2; [apply N.eqb_eq in E2; contradiction|]. cbn [orb].
                   destruct (mem c (map fst rest)); [rewrite Hq; reflexivity | rewrite nget_nset_eq; reflexivity]. }
                 rewrite Hm. cbn [b_flags]; rewrite ?dec_cons, ?lift_cons; cbn [map].
                 rewrite fget_fset_neq by congruence. rewrite Hfo. f_equal.
                 apply view_enqueue; assumption.
    + (* did not ask to replace *)
      rewrite andb_false_r. destruct (has_flag f DO_NOT_QUEUE).
      * cbn [mem existsb]. fold (mem c (map fst rest)).
        destruct (N.eqb c o) eqn:E2; [apply N.eqb_eq in E2; contradiction|]. cbn [orb].
        destruct (mem c (map fst rest)) eqn:M; cbn [fst snd].
        -- split; [|split; [|reflexivity]].
           ++ constructor; unfold set_names; cbn [b_names b_flags]; [apply names_ok_nset; [exact NK|] | exact FK].
              cbn [remove1]. rewrite E2. discriminate.
           ++ apply (R_with b t); unfold set_names; cbn [b_next b_clients b_names b_flags]; try reflexivity; [exact Rb | |].
              ** intros n' Hn. apply nget_nset_neq. exact Hn.
              ** unfold mqueue; cbn [b_names]. rewrite nget_nset_eq. cbn [remove1]. rewrite E2.
                 rewrite (remove1_drop c (map fst rest) ND').
                 rewrite ?dec_cons, ?lift_cons; cbn [map]. rewrite Hfo. f_equal. apply view_drop. exact Hrest.
        -- split; [constructor; assumption | split; [|reflexivity]].
           apply mem_false in M. rewrite (without_notin c rest M).
           apply (R_with b t); try reflexivity; [exact Rb|].
           pose proof (r_view b t Rb n) as V. rewrite Q in V. exact V.
      * cbn [fst snd]. split; [|split; [|reflexivity]].
        -- constructor; cbn [b_names b_flags]; [|apply flags_ok_fset; exact FK].
           destruct (mem c (o :: map fst rest)); [exact NK|]. apply names_ok_nset; [exact NK|discriminate].
        -- apply (R_with b t); cbn [b_next b_clients b_names b_flags]; try reflexivity; [exact Rb | | |].
           ++ intros n' Hn. destruct (mem c (o :: map fst rest)); [reflexivity|]. apply nget_nset_neq. exact Hn.
           ++ intros n' c' Hn. apply fget_fset_neq. apply key_neq_name. exact Hn.
           ++ assert (Hm : mqueue (mkBus (b_next b) (b_clients b)
                              (if mem c (o :: map fst rest) then b_names b
                               else nset (b_names b) n ((o :: map fst rest) ++ [c]))
                              (fset (b_flags b) c n (has_flag f ALLOW_REPLACEMENT))) n
                            = o :: (if mem c (map fst rest) then map fst rest else map fst rest ++ [c])).
              { unfold mqueue; cbn [b_names mem existsb]. fold (mem c (map fst rest)).
                destruct (N.eqb c o) eqn:E2; [apply N.eqb_eq in E2; contradiction|]. cbn [orb].
                destruct (mem c (map fst rest)); [rewrite Hq; reflexivity | rewrite nget_nset_eq; reflexivity]. }
              rewrite Hm. cbn [b_flags]; rewrite ?dec_cons, ?lift_cons; cbn [map].
              rewrite fget_fset_neq by congruence. rewrite Hfo. f_equal.
              apply view_enqueue; assumption.
Qed.

Lemma mem_map_fst c (q : list entry) : existsb (fun e : entry => N.eqb c (fst e)) q = mem c (map fst q).
Proof.
  induction q as [|[x a] q IH]; cbn [existsb map mem fst]; [reflexivity|].
  fold (mem c (map fst q)). rewrite IH. reflexivity.
Qed.

Lemma sim_release b t c n :
  MInv b -> SInv t -> R b t ->
  MInv (fst (release b c n true)) /\ R (fst (release b c n true)) (fst (spec_release t c n)) /\
  snd (release b c n true) = snd (spec_release t c n).
Proof.
  intros Mb St Rb. unfold release, spec_release.
  destruct (queue t n) as [|[o a] rest] eqn:Q.
  - rewrite (view_nil b t n Mb Rb Q). cbn [fst snd]. split; [exact Mb | split; [exact Rb | reflexivity]].
  - destruct (view_cons b t n o a rest Rb Q) as [Hq [Hfo Hrest]]. rewrite Hq.
    destruct Mb as [NK FK].
    pose proof (si_nodup t St n) as ND. rewrite Q in ND. cbn [map fst] in ND.
    inversion ND as [|? ? Ho ND']; subst.
    rewrite mem_map_fst.
    destruct (o =? c) eqn:E; cbn [negb].
    + apply N.eqb_eq in E. subst o.
      destruct rest as [|[w aw] rest']; cbn [map fst promoted app]; cbn [fst snd].
      * split; [|split; [|reflexivity]].
        -- constructor; unfold set_names; cbn [b_names b_flags]; [apply names_ok_ndel; exact NK | exact FK].
        -- apply (R_with b t); unfold set_names; cbn [b_next b_clients b_names b_flags]; try reflexivity; [exact Rb | |].
           ++ intros n' Hn. apply nget_ndel_neq. exact Hn.
           ++ unfold mqueue; cbn [b_names]. rewrite nget_ndel_eq by apply NK. reflexivity.
      * split; [|split; [|reflexivity]].
        -- constructor; unfold set_names; cbn [b_names b_flags]; [apply names_ok_nset; [exact NK | discriminate] | exact FK].
        -- apply (R_with b t); unfold set_names; cbn [b_next b_clients b_names b_flags]; try reflexivity; [exact Rb | |].
           ++ intros n' Hn. apply nget_nset_neq. exact Hn.
           ++ unfold mqueue; cbn [b_names]. rewrite nget_nset_eq. exact Hrest.
    + apply N.eqb_neq in E.
      cbn [mem existsb]. fold (mem c (map fst rest)).
      destruct (N.eqb c o) eqn:E2; [apply N.eqb_eq in E2; congruence|]. cbn [orb].
      destruct (mem c (map fst rest)) eqn:M; cbn [negb fst snd].
      * split; [|split; [|reflexivity]].
        -- constructor; unfold set_names; cbn [b_names b_flags]; [apply names_ok_nset; [exact NK|] | exact FK].
           cbn [remove1]. rewrite E2. discriminate.
        -- apply (R_with b t); unfold set_names; cbn [b_next b_clients b_names b_flags]; try reflexivity; [exact Rb | |].
           ++ intros n' Hn. apply nget_nset_neq. exact Hn.
           ++ unfold mqueue; cbn [b_names]. rewrite nget_nset_eq. cbn [remove1]. rewrite E2.
              rewrite (remove1_drop c (map fst rest) ND').
              rewrite ?dec_cons, ?lift_cons; cbn [map]. rewrite Hfo. f_equal. apply view_drop. exact Hrest.
      * split; [constructor; assumption | split; [exact Rb | reflexivity]].
Qed.

(* ---- lookups ------------------------------------------------------------------------------------------------- *)
Lemma sim_get_owner b t n : MInv b -> R b t -> get_owner b n = spec_get_owner t n.
Proof.
  intros Mb Rb. unfold get_owner, spec_get_owner. unfold c_colon.
  destruct (starts_with [58] n).
  - rewrite (r_live b t Rb).
    induction (t_live t) as [|x l IH]; cbn [find existsb]; [reflexivity|].
    destruct (str_eqb (unique_name x) n) eqn:E; cbn [orb]; [|exact IH].
    apply str_eqb_spec in E. rewrite E. reflexivity.
  - unfold owner. destruct (queue t n) as [|[o a] rest] eqn:Q.
    + rewrite (view_nil b t n Mb Rb Q). reflexivity.
    + destruct (view_cons b t n o a rest Rb Q) as [Hq _]. rewrite Hq. reflexivity.
Qed.

Lemma sim_list_queued b t n : MInv b -> R b t -> list_queued b n = spec_list_queued t n.
Proof.
  intros Mb Rb. unfold list_queued, spec_list_queued.
  destruct (queue t n) as [|[o a] rest] eqn:Q.
  - rewrite (view_nil b t n Mb Rb Q). reflexivity.
  - destruct (view_cons b t n o a rest Rb Q) as [Hq _]. rewrite Hq.
    cbn [map fst]. do 3 f_equal. rewrite map_map. reflexivity.
Qed.

Lemma sim_connect b t :
  MInv b -> R b t -> MInv (fst (connect b)) /\ R (fst (connect b)) (fst (spec_connect t)) /\
  snd (connect b) = snd (spec_connect t).
Proof.
  intros [NK FK] [Rn Rl Rv]. unfold connect, spec_connect; cbn [fst snd]. split; [|split].
  - constructor; cbn [b_names b_flags]; assumption.
  - constructor; cbn [b_next b_clients t_next t_live]; [congruence | congruence |].
    intro n. exact (Rv n).
  - rewrite Rn. reflexivity.
Qed.

(* ---- a connection goes away -------------------------------------------------------------------------------------- *)
Definition gone_m (c : client) (n : name) (q : list client) : list signal :=
  match q with
  | o :: rest => if o =? c then match rest with w :: _ => [NameAcquired w n] | [] => [] end else []
  | [] => []
  end.

Lemma gone_signals_m c n (q : list entry) : gone_signals c (n, q) = gone_m c n (map fst q).
Proof.
  unfold gone_signals, gone_m; cbn [fst snd].
  destruct q as [|[o a] [|[w aw] rest]]; cbn [map fst promoted]; try reflexivity;
    rewrite (N.eqb_sym c o); reflexivity.
Qed.

Lemma mqueue_set b ns n q : nget ns n = Some q -> mqueue (set_names b ns) n = q.
Proof. intro H. unfold mqueue, set_names; cbn [b_names]. rewrite H. reflexivity. Qed.

Lemma release_gone b c n :
  MInv b -> NoDup (mqueue b n) ->
  MInv (fst (release b c n false)) /\
  b_next (fst (release b c n false)) = b_next b /\
  b_clients (fst (release b c n false)) = b_clients b /\
  b_flags (fst (release b c n false)) = b_flags b /\
  mqueue (fst (release b c n false)) n = drop c (mqueue b n) /\
  (forall n', n <> n' -> nget (b_names (fst (release b c n false))) n' = nget (b_names b) n') /\
  o_signals (snd (release b c n false)) = gone_m c n (mqueue b n).
Proof.
  intros [NK FK] ND. unfold release, mqueue in *.
  destruct (nget (b_names b) n) as [[|o rest]|] eqn:Q.
  - exfalso. exact (proj2 NK n Q).
  - inversion ND as [|? ? Ho ND']; subst.
    destruct (o =? c) eqn:E; cbn [negb].
    + apply N.eqb_eq in E. subst o.
      assert (Hd : drop c (c :: rest) = rest).
      { cbn [drop filter]. rewrite N.eqb_refl. cbn [negb]. apply drop_notin. exact Ho. }
      rewrite Hd. unfold gone_m. rewrite N.eqb_refl.
      destruct rest as [|w rest']; cbn [fst snd app o_signals]; unfold set_names; cbn [b_next b_clients b_names b_flags].
      * split; [constructor; cbn [b_names b_flags]; [apply names_ok_ndel; exact NK | exact FK]|].
        do 3 (split; [reflexivity|]). split; [|split; [|reflexivity]].
        -- rewrite nget_ndel_eq by apply NK. reflexivity.
        -- intros n' Hn. apply nget_ndel_neq. exact Hn.
      * split; [constructor; cbn [b_names b_flags]; [apply names_ok_nset; [exact NK | discriminate] | exact FK]|].
        do 3 (split; [reflexivity|]). split; [|split; [|reflexivity]].
        -- rewrite nget_nset_eq. reflexivity.
        -- intros n' Hn. apply nget_nset_neq. exact Hn.
    + apply N.eqb_neq in E. unfold gone_m. replace (o =? c) with false by (symmetry; apply N.eqb_neq; exact E).
      cbn [mem existsb]. fold (mem c rest).
      destruct (N.eqb c o) eqn:E2; [apply N.eqb_eq in E2; congruence|]. cbn [orb].
      destruct (mem c rest) eqn:M; cbn [negb fst snd o_signals say]; unfold set_names; cbn [b_next b_clients b_names b_flags].
      * split; [constructor; cbn [b_names b_flags]; [apply names_ok_nset; [exact NK|] | exact FK]|].
        { cbn [remove1]. rewrite E2. discriminate. }
        do 3 (split; [reflexivity|]). split; [|split; [|reflexivity]].
        -- rewrite nget_nset_eq. apply remove1_drop. exact ND.
        -- intros n' Hn. apply nget_nset_neq. exact Hn.
      * split; [constructor; assumption|].
        do 3 (split; [reflexivity|]). split; [|split; [|reflexivity]].
        -- rewrite Q. symmetry. apply drop_notin. apply mem_false in M.
           intros [H | H]; [congruence | contradiction].
        -- reflexivity.
  - cbn [fst snd o_signals say]. split; [constructor; assumption|].
    do 3 (split; [reflexivity|]). split; [|split; reflexivity].
    rewrite Q. reflexivity.
Qed.

Lemma flat_map_ext_in' {A B} (f g : A -> list B) l :
  (forall x, In x l -> f x = g x) -> flat_map f l = flat_map g l.
Proof.
  induction l as [|x l IH]; intro H; cbn [flat_map]; [reflexivity|].
  rewrite (H x (or_introl eq_refl)), IH; [reflexivity|]. intros y Hy. apply H. right. exact Hy.
Qed.

Lemma mqueue_of_nget b b' n : nget (b_names b') n = nget (b_names b) n -> mqueue b' n = mqueue b n.
Proof. unfold mqueue. intros ->. reflexivity. Qed.

Lemma release_all_gone c ks : forall b,
  MInv b -> (forall n, NoDup (mqueue b n)) -> NoDup ks ->
  MInv (fst (release_all release b c ks)) /\
  b_next (fst (release_all release b c ks)) = b_next b /\
  b_clients (fst (release_all release b c ks)) = b_clients b /\
  b_flags (fst (release_all release b c ks)) = b_flags b /\
  (forall n, In n ks -> mqueue (fst (release_all release b c ks)) n = drop c (mqueue b n)) /\
  (forall n, ~ In n ks -> mqueue (fst (release_all release b c ks)) n = mqueue b n) /\
  snd (release_all release b c ks) = flat_map (fun n => gone_m c n (mqueue b n)) ks.
Proof.
  induction ks as [|k r IH]; intros b Mb NDq NDk; cbn [release_all].
  - cbn [fst snd flat_map]. repeat split; try reflexivity; try apply Mb. intros n [].
  - inversion NDk as [|? ? Hk NDr]; subst.
    destruct (release_gone b c k Mb (NDq k)) as [M1 [N1 [C1 [F1 [Q1 [O1 S1]]]]]].
    destruct (release b c k false) as [b1 o] eqn:E1. cbn [fst snd] in *.
    assert (NDq1 : forall n, NoDup (mqueue b1 n)).
    { intro n. destruct (str_eq_dec k n) as [<-|Hn].
      - rewrite Q1. apply nodup_drop. apply NDq.
      - rewrite (mqueue_of_nget b b1 n (O1 n Hn)). apply NDq. }
    destruct (IH b1 M1 NDq1 NDr) as [M2 [N2 [C2 [F2 [Q2 [O2 S2]]]]]].
    destruct (release_all release b1 c r) as [b2 s] eqn:E2. cbn [fst snd] in *.
    split; [exact M2|]. split; [congruence|]. split; [congruence|]. split; [congruence|].
    split; [|split].
    + intros n [<- | Hn].
      * rewrite (O2 k Hk). exact Q1.
      * rewrite (Q2 n Hn). destruct (str_eq_dec k n) as [<-|Hkn]; [contradiction|].
        rewrite (mqueue_of_nget b b1 n (O1 n Hkn)). reflexivity.
    + intros n Hn. rewrite O2 by (intro H; apply Hn; right; exact H).
      apply mqueue_of_nget. apply O1. intro H. apply Hn. left. exact H.
    + cbn [flat_map]. rewrite S1, S2. f_equal. apply flat_map_ext_in'.
      intros n Hn. destruct (str_eq_dec k n) as [<-|Hkn]; [contradiction|].
      rewrite (mqueue_of_nget b b1 n (O1 n Hkn)). reflexivity.
Qed.

Lemma client_keys_in fl c n a : fget fl c n = Some a -> In n (client_keys fl c).
Proof.
  unfold fget, client_keys. induction fl as [|[[c' n'] v] fl IH]; cbn [alist_get filter fst snd]; [discriminate|].
  unfold key_eqb at 1; cbn [fst snd].
  destruct (N.eqb c c') eqn:E1; cbn [andb map fst snd].
  - destruct (str_eqb n n') eqn:E2.
    + intros _. apply str_eqb_spec in E2. left. congruence.
    + intro H. right. exact (IH H).
  - intro H. exact (IH H).
Qed.

Lemma client_keys_keys fl c n : In n (client_keys fl c) -> In (c, n) (map fst fl).
Proof.
  unfold client_keys. intro H. apply in_map_iff in H as [[[c' n'] v] [E H]]. cbn [fst snd] in E. subst n'.
  apply filter_In in H as [H Hc]. cbn [fst] in Hc. apply N.eqb_eq in Hc. subst c'.
  apply in_map_iff. exists ((c, n), v). split; [reflexivity | exact H].
Qed.

Lemma client_keys_nodup fl c : NoDup (map fst fl) -> NoDup (client_keys fl c).
Proof.
  induction fl as [|[[c' n'] v] fl IH]; cbn [map fst]; intro ND; [constructor|].
  inversion ND as [|? ? Hk ND']; subst.
  unfold client_keys; cbn [filter fst snd]. fold (client_keys fl c).
  destruct (N.eqb c c') eqn:E; [|exact (IH ND')].
  apply N.eqb_eq in E. subst c'. change (NoDup (n' :: client_keys fl c)).
  constructor; [|exact (IH ND')]. intro H. apply Hk. apply client_keys_keys. exact H.
Qed.

Lemma held_has_flag b t c n : R b t -> In c (mqueue b n) -> exists a, fget (b_flags b) c n = Some a.
Proof.
  intros Rb H. apply (in_map (dec (b_flags b) n)) in H. rewrite (r_view b t Rb n) in H.
  apply in_map_iff in H as [e [E _]]. unfold lift, dec in E. exists (snd e). congruence.
Qed.

Lemma gone_spec_flat (qs : list (name * list entry)) c :
  NoDup (map fst qs) ->
  flat_map (gone_signals c) qs = flat_map (fun n => gone_m c n (map fst (queue_in qs n))) (map fst qs).
Proof.
  intro ND.
  assert (H : forall l, (forall p, In p l -> In p qs) ->
              flat_map (gone_signals c) l = flat_map (fun n => gone_m c n (map fst (queue_in qs n))) (map fst l)).
  { induction l as [|[k q] l IH]; intro Hl; cbn [flat_map map fst]; [reflexivity|].
    rewrite IH by (intros p Hp; apply Hl; right; exact Hp). f_equal.
    rewrite gone_signals_m. unfold queue_in.
    rewrite (aget_in_nodup str_eqb str_eqb_spec k q qs ND (Hl _ (or_introl eq_refl))). reflexivity. }
  apply H. auto.
Qed.

Lemma perm_support {A B} (g : A -> list B) (k1 k2 : list A) :
  (forall x y : A, {x = y} + {x <> y}) ->
  NoDup k1 -> NoDup k2 ->
  (forall x, g x <> [] -> In x k1) -> (forall x, g x <> [] -> In x k2) ->
  Permutation (flat_map g k1) (flat_map g k2).
Proof.
  intros dec_eq N1 N2 H1 H2.
  set (p := fun x => match g x with [] => false | _ => true end).
  assert (F : forall k, flat_map g k = flat_map g (filter p k)).
  { induction k as [|x k IH]; cbn [flat_map filter]; [reflexivity|].
    unfold p at 1. destruct (g x) eqn:E; cbn [flat_map app]; [exact IH | rewrite E, IH; reflexivity]. }
  rewrite (F k1), (F k2). apply Permutation_flat_map.
  apply NoDup_Permutation; try (apply NoDup_filter; assumption).
  intro x. rewrite !filter_In. unfold p.
  split; intros [_ Hx]; (split; [|exact Hx]); destruct (g x) eqn:E; try discriminate;
    [apply H2 | apply H1]; rewrite E; discriminate.
Qed.

Definition out_equiv (a b : out) : Prop :=
  o_reply a = o_reply b /\ Permutation (o_signals a) (o_signals b).

Lemma out_equiv_eq a b : a = b -> out_equiv a b.
Proof. intros ->. split; [reflexivity | apply Permutation_refl]. Qed.

Lemma sim_disconnect b t c :
  MInv b -> SInv t -> R b t ->
  MInv (fst (disconnect b c)) /\ R (fst (disconnect b c)) (fst (spec_disconnect t c)) /\
  out_equiv (snd (disconnect b c)) (snd (spec_disconnect t c)).
Proof.
  intros Mb St Rb. unfold disconnect, disconnect_with.
  assert (NDq : forall n, NoDup (mqueue b n)).
  { intro n. rewrite (view_fst b t n Rb). apply (si_nodup t St). }
  pose proof (client_keys_nodup (b_flags b) c (mi_flags b Mb)) as NDk.
  destruct (release_all_gone c (client_keys (b_flags b) c) b Mb NDq NDk) as [M1 [N1 [C1 [F1 [Q1 [O1 S1]]]]]].
  destruct (release_all release b c (client_keys (b_flags b) c)) as [b1 s] eqn:E1. cbn [fst snd] in *.
  split; [|split].
  - destruct M1 as [NK FK]. constructor; unfold set_clients; cbn [b_names b_flags]; assumption.
  - constructor; unfold set_clients, spec_disconnect; cbn [fst b_next b_clients b_flags t_next t_live].
    + rewrite N1. apply Rb.
    + rewrite C1, (r_live b t Rb). reflexivity.
    + intro n. change (queue (fst (spec_disconnect t c)) n) with (queue (fst (spec_disconnect t c)) n).
      replace (mqueue (mkBus (b_next b1) (filter (fun x => negb (N.eqb c x)) (b_clients b1)) (b_names b1) (b_flags b1)) n)
        with (mqueue b1 n) by reflexivity.
      rewrite F1.
      pose proof (queue_disconnect t c n St) as QD. unfold spec_disconnect in QD; cbn [fst] in QD.
      unfold queue in QD |- *; cbn [t_queues] in QD |- *. rewrite QD. fold (queue t n).
      destruct (in_dec str_eq_dec n (client_keys (b_flags b) c)) as [Hin | Hout].
      * rewrite (Q1 n Hin). apply view_drop. apply (r_view b t Rb).
      * rewrite (O1 n Hout).
        assert (Hc : ~ In c (mqueue b n)).
        { intro H. destruct (held_has_flag b t c n Rb H) as [a Ha]. apply Hout.
          exact (client_keys_in _ _ _ _ Ha). }
        rewrite (view_fst b t n Rb) in Hc. rewrite (without_notin c (queue t n) Hc). apply (r_view b t Rb).
  - split; [reflexivity|]. cbn [o_signals snd spec_disconnect].
    rewrite S1, (gone_spec_flat (t_queues t) c (si_keys t St)).
    assert (EQ : forall n, gone_m c n (mqueue b n) = gone_m c n (map fst (queue_in (t_queues t) n))).
    { intro n. rewrite (view_fst b t n Rb). reflexivity. }
    rewrite (flat_map_ext _ _ EQ).
    apply perm_support; [exact str_eq_dec | exact NDk | apply (si_keys t St) | |].
    + intros n Hn. fold (queue t n) in Hn. rewrite <- (view_fst b t n Rb) in Hn.
      assert (Hc : In c (mqueue b n)).
      { unfold gone_m in Hn. destruct (mqueue b n) as [|o rest]; [congruence|].
        destruct (o =? c) eqn:E; [apply N.eqb_eq in E; left; exact E | congruence]. }
      destruct (held_has_flag b t c n Rb Hc) as [a Ha]. exact (client_keys_in _ _ _ _ Ha).
    + intros n Hn. unfold queue_in in Hn.
      destruct (alist_get str_eqb n (t_queues t)) eqn:G; [|cbn in Hn; congruence].
      apply (aget_some_in str_eqb str_eqb_spec) in G. apply (in_map fst) in G. exact G.
Qed.

(* ---- one step, all histories ----------------------------------------------------------------------------------------- *)
Lemma sim_step b t o :
  MInv b -> SInv t -> R b t ->
  MInv (fst (step b o)) /\ R (fst (step b o)) (fst (spec_step t o)) /\
  out_equiv (snd (step b o)) (snd (spec_step t o)).
Proof.
  intros Mb St Rb. unfold step.
  assert (Hl : forall c, mem c (b_clients b) = is_live t c).
  { intro c. rewrite (r_live b t Rb). reflexivity. }
  destruct o as [|c n f|c n|c n|c n|c]; cbn [step_with spec_step]; try rewrite Hl.
  - destruct (sim_connect b t Mb Rb) as [H1 [H2 H3]]. split; [exact H1 | split; [exact H2 | apply out_equiv_eq; exact H3]].
  - destruct (is_live t c) eqn:L; [|split; [exact Mb | split; [exact Rb | apply out_equiv_eq; reflexivity]]].
    apply is_live_in in L. destruct (sim_request b t c n f Mb St Rb L) as [H1 [H2 H3]].
    split; [exact H1 | split; [exact H2 | apply out_equiv_eq; exact H3]].
  - destruct (is_live t c) eqn:L; [|split; [exact Mb | split; [exact Rb | apply out_equiv_eq; reflexivity]]].
    destruct (sim_release b t c n Mb St Rb) as [H1 [H2 H3]].
    split; [exact H1 | split; [exact H2 | apply out_equiv_eq; exact H3]].
  - destruct (is_live t c); cbn [fst snd]; (split; [exact Mb | split; [exact Rb | apply out_equiv_eq]]);
      [apply sim_get_owner; assumption | reflexivity].
  - destruct (is_live t c); cbn [fst snd]; (split; [exact Mb | split; [exact Rb | apply out_equiv_eq]]);
      [apply sim_list_queued; assumption | reflexivity].
  - destruct (is_live t c) eqn:L; [|split; [exact Mb | split; [exact Rb | apply out_equiv_eq; reflexivity]]].
    exact (sim_disconnect b t c Mb St Rb).
Qed.

Lemma minv_init : MInv init.
Proof. constructor; cbn; [split; [constructor | intros n; discriminate] | constructor]. Qed.

Lemma R_init : R init empty.
Proof. constructor; reflexivity. Qed.

Lemma sim_run_from h : forall b t,
  MInv b -> SInv t -> R b t ->
  MInv (fst (run_from b h)) /\ R (fst (run_from b h)) (fst (spec_run_from t h)) /\
  Forall2 out_equiv (snd (run_from b h)) (snd (spec_run_from t h)).
Proof.
  induction h as [|o h IH]; intros b t Mb St Rb; unfold run_from; cbn [run_from_with spec_run_from].
  - cbn [fst snd]. split; [exact Mb | split; [exact Rb | constructor]].
  - destruct (sim_step b t o Mb St Rb) as [M1 [R1 O1]].
    pose proof (sinv_step t o St) as S1.
    fold step. destruct (step b o) as [b1 x]. destruct (spec_step t o) as [t1 y]. cbn [fst snd] in *.
    destruct (IH b1 t1 M1 S1 R1) as [M2 [R2 O2]].
    unfold run_from in M2, R2, O2.
    destruct (run_from_with request release b1 h) as [b2 xs]. destruct (spec_run_from t1 h) as [t2 ys].
    cbn [fst snd] in *. split; [exact M2 | split; [exact R2 | constructor; assumption]].
Qed.

Theorem refines h : Forall2 out_equiv (snd (run h)) (snd (spec_run h)).
Proof. apply (sim_run_from h init empty minv_init sinv_empty R_init). Qed.

Theorem state_refines h n :
  b_clients (fst (run h)) = t_live (fst (spec_run h)) /\
  b_next (fst (run h)) = t_next (fst (spec_run h)) /\
  map (fun c => (c, fget (b_flags (fst (run h))) c n)) (mqueue (fst (run h)) n)
  = map (fun e : entry => (fst e, Some (snd e))) (queue (fst (spec_run h)) n).
Proof.
  destruct (sim_run_from h init empty minv_init sinv_empty R_init) as [_ [Rb _]].
  split; [apply Rb | split; [apply Rb | apply (r_view _ _ Rb n)]].
Qed.

Lemma R_run h : R (fst (run h)) (fst (spec_run h)).
Proof. apply (sim_run_from h init empty minv_init sinv_empty R_init). Qed.

Lemma minv_run h : MInv (fst (run h)).
Proof. apply (sim_run_from h init empty minv_init sinv_empty R_init). Qed.

(* ---- properties of the reference table ------------------------------------------------------------------------------------ *)
Lemma holds_in t c n : holds t c n = true <-> In c (map fst (queue t n)).
Proof. unfold holds. rewrite mem_map_fst. apply mem_in. Qed.

Lemma holds_false t c n : holds t c n = false <-> ~ In c (map fst (queue t n)).
Proof. rewrite <- holds_in. destruct (holds t c n); split; congruence. Qed.

Theorem unique_live_owner h n :
  let t := fst (spec_run h) in
  let b := fst (run h) in
  (NoDup (map fst (queue t n)) /\
   (forall c, holds t c n = true -> is_live t c = true) /\
   (forall o, owner t n = Some o -> is_live t o = true /\ ~ In o (waiting t n))) /\
  (mqueue b n = map fst (queue t n) /\ NoDup (mqueue b n) /\
   (forall c, In c (mqueue b n) -> In c (b_clients b))).
Proof.
  intros t b. pose proof (sinv_run h) as I. fold t in I.
  pose proof (R_run h) as Rb. fold t b in Rb.
  split; [split; [apply I | split]|].
  - intros c H. apply is_live_in. apply (si_live t I n). apply holds_in. exact H.
  - intros o H. unfold owner, waiting in *. pose proof (si_nodup t I n) as ND. pose proof (si_live t I n) as L.
    destruct (queue t n) as [|[o' a] rest]; [discriminate|]. injection H as <-. cbn [fst map tl] in *.
    split; [apply is_live_in; apply L; left; reflexivity|]. inversion ND; assumption.
  - rewrite (view_fst b t n Rb). split; [reflexivity | split; [apply I|]].
    intros c H. rewrite (r_live b t Rb). exact (si_live t I n c H).
Qed.

Lemma step_request_live t c n f : is_live t c = true -> spec_step t (Request c n f) = spec_request t c n f.
Proof. intro H. cbn [spec_step]. rewrite H. reflexivity. Qed.

Lemma step_release_live t c n : is_live t c = true -> spec_step t (Release c n) = spec_release t c n.
Proof. intro H. cbn [spec_step]. rewrite H. reflexivity. Qed.

Lemma step_disconnect_live t c : is_live t c = true -> spec_step t (Disconnect c) = spec_disconnect t c.
Proof. intro H. cbn [spec_step]. rewrite H. reflexivity. Qed.

Definition request_relation (t t' : table) (c : client) (n : name) (r : reply) : Prop :=
  (r = RCode PRIMARY_OWNER /\ owner t' n = Some c /\ owner t n <> Some c) \/
  (r = RCode ALREADY_OWNER /\ owner t' n = Some c /\ owner t n = Some c) \/
  (r = RCode IN_QUEUE /\ In c (waiting t' n) /\ owner t' n = owner t n /\ owner t n <> Some c /\ owner t n <> None) \/
  (r = RCode EXISTS /\ holds t' c n = false /\ owner t' n = owner t n /\ owner t n <> Some c /\ owner t n <> None).

Definition release_relation (t t' : table) (c : client) (n : name) (r : reply) : Prop :=
  (r = RCode RELEASED /\ holds t c n = true /\ holds t' c n = false) \/
  (r = RCode NON_EXISTENT /\ queue t n = [] /\ t' = t) \/
  (r = RCode NOT_OWNER /\ queue t n <> [] /\ holds t c n = false /\ t' = t).

Lemma in_enqueue c a q : In c (map fst (enqueue (c, a) q)).
Proof.
  rewrite fst_enqueue. cbn [fst]. destruct (mem c (map fst q)) eqn:M; [apply mem_in; exact M|].
  apply in_app_iff. right. left. reflexivity.
Qed.

Lemma request_relation_holds t c n f :
  wellknown n = true ->
  request_relation t (fst (spec_request t c n f)) c n (o_reply (snd (spec_request t c n f))).
Proof.
  intro W. unfold spec_request, request_relation. rewrite W. cbn [negb].
  set (ow := owner t n).
  assert (How : ow = match queue t n with e :: _ => Some (fst e) | [] => None end) by reflexivity.
  clearbody ow. revert How.
  destruct (queue t n) as [|[o a] rest] eqn:Q; cbn [fst snd o_reply]; intros ->.
  - left. unfold owner. rewrite queue_with_eq. cbn [fst]. repeat split; congruence.
  - destruct (o =? c) eqn:E.
    + apply N.eqb_eq in E. subst o. right; left. cbn [fst snd o_reply]. unfold owner. rewrite queue_with_eq.
      cbn [fst]. repeat split; reflexivity.
    + apply N.eqb_neq in E. destruct (a && has_flag f REPLACE_EXISTING).
      * left. cbn [fst snd o_reply]. unfold owner. rewrite queue_with_eq. cbn [fst].
        repeat split; congruence.
      * destruct (has_flag f DO_NOT_QUEUE); cbn [fst snd o_reply].
        -- right; right; right. unfold owner, holds. rewrite queue_with_eq. cbn [fst existsb].
           split; [reflexivity|]. split; [|repeat split; congruence].
           replace (N.eqb c o) with false by (symmetry; apply N.eqb_neq; congruence). cbn [orb].
           rewrite mem_map_fst. apply mem_false. rewrite fst_without. intro H. apply in_drop in H as [_ H]. congruence.
        -- right; right; left. unfold owner, waiting. rewrite queue_with_eq. cbn [fst tl].
           split; [reflexivity|]. split; [apply in_enqueue | repeat split; congruence].
Qed.

Lemma release_relation_holds t c n :
  SInv t -> release_relation t (fst (spec_release t c n)) c n (o_reply (snd (spec_release t c n))).
Proof.
  intro I. unfold spec_release, release_relation.
  pose proof (si_nodup t I n) as ND.
  assert (Hh : holds t c n = existsb (fun e : entry => N.eqb c (fst e)) (queue t n)) by reflexivity.
  destruct (queue t n) as [|[o a] rest] eqn:Q; cbn [fst snd o_reply].
  - right; left. repeat split; reflexivity.
  - cbn [map fst] in ND. inversion ND as [|? ? Ho ND']; subst.
    cbn [existsb fst] in Hh.
    destruct (o =? c) eqn:E.
    + apply N.eqb_eq in E. subst o. left. cbn [fst snd o_reply]. split; [reflexivity|]. split.
      * rewrite Hh, N.eqb_refl. reflexivity.
      * apply holds_false. rewrite queue_with_eq. exact Ho.
    + apply N.eqb_neq in E.
      replace (N.eqb c o) with false in Hh by (symmetry; apply N.eqb_neq; congruence). cbn [orb] in Hh.
      match goal with |- context [existsb ?g rest] => destruct (existsb g rest) eqn:M end; cbn [fst snd o_reply].
      * left. split; [reflexivity|]. split; [exact (eq_trans Hh M)|].
        apply holds_false. rewrite queue_with_eq. cbn [map fst]. rewrite fst_without.
        intros [H | H]; [congruence | apply in_drop in H as [_ H]; congruence].
      * right; right. split; [reflexivity|]. split; [discriminate|]. split; [exact (eq_trans Hh M) | reflexivity].
Qed.

Theorem reply_states_relation h c n :
  let t := fst (spec_run h) in
  is_live t c = true ->
  (forall f, wellknown n = true ->
     request_relation t (fst (spec_step t (Request c n f))) c n (o_reply (snd (spec_step t (Request c n f))))) /\
  release_relation t (fst (spec_step t (Release c n))) c n (o_reply (snd (spec_step t (Release c n)))).
Proof.
  intros t L. split.
  - intros f W. rewrite (step_request_live t c n f L). apply request_relation_holds. exact W.
  - rewrite (step_release_live t c n L). apply release_relation_holds. apply sinv_run.
Qed.

(* replaced iff the owner allowed it and the requester asked; otherwise queued unless it declined *)
Theorem replace_iff h c n f o allows rest :
  let t := fst (spec_run h) in
  is_live t c = true -> wellknown n = true ->
  queue t n = (o, allows) :: rest -> o <> c ->
  let t' := fst (spec_step t (Request c n f)) in
  (owner t' n = Some c <-> allows = true /\ has_flag f REPLACE_EXISTING = true) /\
  (owner t' n = Some c \/ owner t' n = Some o) /\
  (owner t' n = Some c -> holds t' o n = false) /\
  (owner t' n = Some o -> (holds t' c n = true <-> has_flag f DO_NOT_QUEUE = false)).
Proof.
  intros t L W Q Hoc t'. unfold t'. rewrite (step_request_live t c n f L).
  pose proof (si_nodup t (sinv_run h) n) as ND. fold t in ND. rewrite Q in ND. cbn [map fst] in ND.
  inversion ND as [|? ? Ho ND']; subst.
  unfold spec_request. rewrite W, Q. cbn [negb].
  replace (o =? c) with false by (symmetry; apply N.eqb_neq; exact Hoc).
  destruct allows, (has_flag f REPLACE_EXISTING); cbn [andb fst].
  - unfold owner. rewrite queue_with_eq. cbn [fst]. split; [tauto|]. split; [left; reflexivity|].
    split; [|intro H; congruence].
    intros _. apply holds_false. rewrite queue_with_eq. cbn [map fst]. rewrite fst_without.
    intros [H | H]; [congruence | apply in_drop in H as [H _]; contradiction].
  - destruct (has_flag f DO_NOT_QUEUE); cbn [fst]; unfold owner; rewrite queue_with_eq; cbn [fst];
      (split; [split; [congruence | intros [_ H]; discriminate]|]); (split; [right; reflexivity|]);
      (split; [congruence|]); intros _.
    + split; [|discriminate]. intro H. apply holds_in in H. rewrite queue_with_eq in H. cbn [map fst] in H.
      rewrite fst_without in H. destruct H as [H | H]; [congruence | apply in_drop in H as [_ H]; congruence].
    + split; [reflexivity|]. intros _. apply holds_in. rewrite queue_with_eq. cbn [map fst]. right. apply in_enqueue.
  - destruct (has_flag f DO_NOT_QUEUE); cbn [fst]; unfold owner; rewrite queue_with_eq; cbn [fst];
      (split; [split; [congruence | intros [H _]; discriminate]|]); (split; [right; reflexivity|]);
      (split; [congruence|]); intros _.
    + split; [|discriminate]. intro H. apply holds_in in H. rewrite queue_with_eq in H. cbn [map fst] in H.
      rewrite fst_without in H. destruct H as [H | H]; [congruence | apply in_drop in H as [_ H]; congruence].
    + split; [reflexivity|]. intros _. apply holds_in. rewrite queue_with_eq. cbn [map fst]. right. apply in_enqueue.
  - destruct (has_flag f DO_NOT_QUEUE); cbn [fst]; unfold owner; rewrite queue_with_eq; cbn [fst];
      (split; [split; [congruence | intros [H _]; discriminate]|]); (split; [right; reflexivity|]);
      (split; [congruence|]); intros _.
    + split; [|discriminate]. intro H. apply holds_in in H. rewrite queue_with_eq in H. cbn [map fst] in H.
      rewrite fst_without in H. destruct H as [H | H]; [congruence | apply in_drop in H as [_ H]; congruence].
    + split; [reflexivity|]. intros _. apply holds_in. rewrite queue_with_eq. cbn [map fst]. right. apply in_enqueue.
Qed.

(* ---- promotion in arrival order ------------------------------------------------------------------------------------------------ *)
Lemma in_queue_in_table t n q : queue t n = q -> q <> [] -> In (n, q) (t_queues t).
Proof.
  unfold queue, queue_in. intros H Hq.
  destruct (alist_get str_eqb n (t_queues t)) eqn:G; [|congruence].
  subst. apply (aget_some_in str_eqb str_eqb_spec). exact G.
Qed.

Lemma without_head c a q : without c ((c, a) :: q) = without c q.
Proof. unfold without; cbn [filter fst]. rewrite N.eqb_refl. reflexivity. Qed.

Theorem fifo_promotion h n o a w aw rest :
  let t := fst (spec_run h) in
  let b := fst (run h) in
  queue t n = (o, a) :: (w, aw) :: rest ->
  is_live t o = true /\
  (queue (fst (spec_step t (Release o n))) n = (w, aw) :: rest /\
   o_reply (snd (spec_step t (Release o n))) = RCode RELEASED /\
   In (NameAcquired w n) (o_signals (snd (spec_step t (Release o n)))) /\
   In (NameAcquired w n) (o_signals (snd (step b (Release o n))))) /\
  (queue (fst (spec_step t (Disconnect o))) n = (w, aw) :: rest /\
   In (NameAcquired w n) (o_signals (snd (spec_step t (Disconnect o)))) /\
   In (NameAcquired w n) (o_signals (snd (step b (Disconnect o))))).
Proof.
  intros t b Q. pose proof (sinv_run h) as I. fold t in I.
  assert (L : is_live t o = true).
  { apply is_live_in. apply (si_live t I n). rewrite Q. left. reflexivity. }
  pose proof (si_nodup t I n) as ND. rewrite Q in ND. cbn [map fst] in ND.
  inversion ND as [|? ? Ho ND']; subst.
  assert (Tr : forall op x, In x (o_signals (snd (spec_step t op))) -> In x (o_signals (snd (step b op)))).
  { intros op x Hx. destruct (sim_step b t op (minv_run h) I (R_run h)) as [_ [_ [_ P]]].
    apply (Permutation_in x (Permutation_sym P)). exact Hx. }
  split; [exact L|]. split.
  - assert (Hs : In (NameAcquired w n) (o_signals (snd (spec_step t (Release o n))))).
    { rewrite (step_release_live t o n L). unfold spec_release. rewrite Q, N.eqb_refl.
      cbn [snd o_signals promoted fst]. right. left. reflexivity. }
    split; [|split; [|split; [exact Hs | exact (Tr _ _ Hs)]]].
    + rewrite (step_release_live t o n L). unfold spec_release. rewrite Q, N.eqb_refl. cbn [fst].
      apply queue_with_eq.
    + rewrite (step_release_live t o n L). unfold spec_release. rewrite Q, N.eqb_refl. reflexivity.
  - assert (Hs : In (NameAcquired w n) (o_signals (snd (spec_step t (Disconnect o))))).
    { rewrite (step_disconnect_live t o L). unfold spec_disconnect; cbn [snd o_signals].
      apply in_flat_map. exists (n, (o, a) :: (w, aw) :: rest). split.
      - apply in_queue_in_table; [exact Q | discriminate].
      - unfold gone_signals; cbn [fst snd promoted]. rewrite N.eqb_refl. left. reflexivity. }
    split; [|split; [exact Hs | exact (Tr _ _ Hs)]].
    rewrite (step_disconnect_live t o L), (queue_disconnect t o n I), Q.
    rewrite without_head. apply without_notin. exact Ho.
Qed.

Theorem waits_in_arrival_order h c n f :
  let t := fst (spec_run h) in
  is_live t c = true -> wellknown n = true ->
  o_reply (snd (spec_step t (Request c n f))) = RCode IN_QUEUE ->
  waiting (fst (spec_step t (Request c n f))) n = if holds t c n then waiting t n else waiting t n ++ [c].
Proof.
  intros t L W. rewrite (step_request_live t c n f L). unfold spec_request. rewrite W. cbn [negb].
  unfold holds, waiting at 2 3.
  destruct (queue t n) as [|[o a] rest] eqn:Q; cbn [fst snd o_reply]; [intro H; inversion H|].
  destruct (o =? c) eqn:E; cbn [fst snd o_reply]; [intro H; inversion H|].
  destruct (a && has_flag f REPLACE_EXISTING); cbn [fst snd o_reply]; [intro H; inversion H|].
  destruct (has_flag f DO_NOT_QUEUE); cbn [fst snd o_reply]; [intro H; inversion H|].
  intros _. unfold waiting. rewrite queue_with_eq. cbn [tl existsb fst].
  rewrite (N.eqb_sym c o), E. cbn [orb]. rewrite fst_enqueue, mem_map_fst. reflexivity.
Qed.

(* ---- released or gone: absent ----------------------------------------------------------------------------------------------------- *)
Lemma spec_run_from_app h1 h2 t :
  fst (spec_run_from t (h1 ++ h2)) = fst (spec_run_from (fst (spec_run_from t h1)) h2).
Proof.
  revert t. induction h1 as [|o h1 IH]; intro t; cbn [app spec_run_from]; [reflexivity|].
  destruct (spec_step t o) as [t1 x]. specialize (IH t1).
  destruct (spec_run_from t1 (h1 ++ h2)) as [t2 xs]. destruct (spec_run_from t1 h1) as [t3 ys].
  cbn [fst] in *. exact IH.
Qed.

Lemma gone_step t o c :
  c < t_next t -> ~ In c (t_live t) ->
  c < t_next (fst (spec_step t o)) /\ ~ In c (t_live (fst (spec_step t o))).
Proof.
  intros Hn Hl.
  assert (Hreq : forall c' n f, t_next (fst (spec_request t c' n f)) = t_next t /\ t_live (fst (spec_request t c' n f)) = t_live t).
  { intros c' n f. unfold spec_request. destruct (negb (wellknown n)); [split; reflexivity|].
    destruct (queue t n) as [|[o' a] rest]; [split; reflexivity|].
    destruct (o' =? c'); [split; reflexivity|].
    destruct (a && has_flag f REPLACE_EXISTING); [split; reflexivity|].
    destruct (has_flag f DO_NOT_QUEUE); split; reflexivity. }
  assert (Hrel : forall c' n, t_next (fst (spec_release t c' n)) = t_next t /\ t_live (fst (spec_release t c' n)) = t_live t).
  { intros c' n. unfold spec_release. destruct (queue t n) as [|[o' a] rest]; [split; reflexivity|].
    destruct (o' =? c'); [split; reflexivity|].
    match goal with |- context [existsb ?g rest] => destruct (existsb g rest) end; split; reflexivity. }
  destruct o as [|c' n f|c' n|c' n|c' n|c']; cbn [spec_step].
  - unfold spec_connect; cbn [fst t_next t_live]. split; [lia|].
    rewrite in_app_iff. intros [H | [H | []]]; [contradiction | lia].
  - destruct (is_live t c'); [|split; assumption]. destruct (Hreq c' n f) as [-> ->]. split; assumption.
  - destruct (is_live t c'); [|split; assumption]. destruct (Hrel c' n) as [-> ->]. split; assumption.
  - destruct (is_live t c'); split; assumption.
  - destruct (is_live t c'); split; assumption.
  - destruct (is_live t c'); [|split; assumption]. unfold spec_disconnect; cbn [fst t_next t_live].
    split; [exact Hn|]. intro H. apply filter_In in H as [H _]. contradiction.
Qed.

Lemma gone_run_from h t c :
  c < t_next t -> ~ In c (t_live t) ->
  c < t_next (fst (spec_run_from t h)) /\ ~ In c (t_live (fst (spec_run_from t h))).
Proof.
  revert t. induction h as [|o h IH]; intros t Hn Hl; cbn [spec_run_from]; [split; assumption|].
  destruct (gone_step t o c Hn Hl) as [H1 H2].
  destruct (spec_step t o) as [t1 x]. cbn [fst] in *. specialize (IH t1 H1 H2).
  destruct (spec_run_from t1 h) as [t2 xs]. exact IH.
Qed.

Theorem released_or_gone_absent h c :
  let t := fst (spec_run h) in
  is_live t c = true ->
  (forall n, holds (fst (spec_step t (Release c n))) c n = false) /\
  (forall n, holds (fst (spec_step t (Disconnect c))) c n = false) /\
  is_live (fst (spec_step t (Disconnect c))) c = false /\
  (forall h2 n, holds (fst (spec_run (h ++ Disconnect c :: h2))) c n = false /\
                is_live (fst (spec_run (h ++ Disconnect c :: h2))) c = false).
Proof.
  intros t L. pose proof (sinv_run h) as I. fold t in I.
  assert (D2 : forall n, holds (fst (spec_step t (Disconnect c))) c n = false).
  { intro n. rewrite (step_disconnect_live t c L). apply holds_false. rewrite (queue_disconnect t c n I), fst_without.
    intro H. apply in_drop in H as [_ H]. congruence. }
  assert (D3 : ~ In c (t_live (fst (spec_step t (Disconnect c))))).
  { rewrite (step_disconnect_live t c L). unfold spec_disconnect; cbn [fst t_live]. intro H.
    apply filter_In in H as [_ H]. rewrite N.eqb_refl in H. discriminate. }
  split; [|split; [exact D2 | split]].
  - intro n. rewrite (step_release_live t c n L).
    destruct (release_relation_holds t c n I) as [[_ [_ H]] | [[_ [H1 H2]] | [_ [_ [H1 H2]]]]].
    + exact H.
    + rewrite H2. apply holds_false. rewrite H1. intros [].
    + rewrite H2. exact H1.
  - destruct (is_live (fst (spec_step t (Disconnect c))) c) eqn:E; [|reflexivity].
    apply is_live_in in E. contradiction.
  - intros h2 n. unfold spec_run. rewrite spec_run_from_app. fold (spec_run h). fold t.
    cbn [spec_run_from].
    assert (Hn : c < t_next (fst (spec_step t (Disconnect c)))).
    { rewrite (step_disconnect_live t c L). unfold spec_disconnect; cbn [fst t_next].
      apply (si_fresh t I). apply is_live_in. exact L. }
    pose proof (sinv_step t (Disconnect c) I) as I1.
    destruct (spec_step t (Disconnect c)) as [t1 x]. cbn [fst] in *.
    destruct (gone_run_from h2 t1 c Hn D3) as [_ G].
    pose proof (sinv_run_from t1 h2 I1) as I2.
    destruct (spec_run_from t1 h2) as [t2 xs]. cbn [fst] in *.
    split.
    + apply holds_false. intro H. apply G. exact (si_live t2 I2 n c H).
    + destruct (is_live t2 c) eqn:E; [|reflexivity]. apply is_live_in in E. contradiction.
Qed.

(* ---- lookups ------------------------------------------------------------------------------------------------------------------------- *)
Theorem lookups_agree h c n :
  let b := fst (run h) in
  let t := fst (spec_run h) in
  In c (b_clients b) ->
  step b (GetOwner c n) = (b, spec_get_owner t n) /\
  step b (ListQueued c n) = (b, spec_list_queued t n) /\
  (starts_with [58] n = false ->
   spec_get_owner t n =
   mkOut (match owner t n with Some o => ROwner (unique_name o) | None => RError NameHasNoOwner end) []) /\
  spec_list_queued t n =
  mkOut (match owner t n with
         | Some o => RQueue (map unique_name (o :: waiting t n))
         | None => RError NameHasNoOwner
         end) [].
Proof.
  intros b t L. apply mem_in in L. unfold step; cbn [step_with]. rewrite L.
  split; [|split; [|split]].
  - f_equal. apply sim_get_owner; [apply minv_run | apply R_run].
  - f_equal. apply sim_list_queued; [apply minv_run | apply R_run].
  - intro H. unfold spec_get_owner. rewrite H. destruct (owner t n); reflexivity.
  - unfold spec_list_queued, owner, waiting. destruct (queue t n) as [|[o a] rest]; [reflexivity|].
    cbn [fst tl map]. do 3 f_equal. rewrite map_map. reflexivity.
Qed.

(* ---- unique names ---------------------------------------------------------------------------------------------------------------------- *)
Lemma uint_chars_inj u : forall u', uint_chars u = uint_chars u' -> u = u'.
Proof.
  induction u; intros u' H; destruct u'; cbn [uint_chars] in H; try discriminate; try reflexivity;
    injection H as H; f_equal; apply IHu; exact H.
Qed.

Theorem unique_name_inj c c' : unique_name c = unique_name c' -> c = c'.
Proof.
  unfold unique_name, n_chars. intro H. apply app_inv_head in H. apply uint_chars_inj in H.
  rewrite <- (DecimalN.Unsigned.of_to c), <- (DecimalN.Unsigned.of_to c'). congruence.
Qed.

(* ---- the pre-repair model --------------------------------------------------------------------------------------------------------------- *)
Lemma forall2_replies xs ys : Forall2 out_equiv xs ys -> map o_reply xs = map o_reply ys.
Proof. induction 1 as [|x y xs ys [H _] _ IH]; cbn [map]; [reflexivity | rewrite H, IH; reflexivity]. Qed.

Definition w_name : name := [97; 46; 98].       (* "a.b" *)
Definition w_d21 : list op := [Connect; Connect; Request 1 w_name 0; Request 2 w_name 0; ListQueued 1 w_name].
Definition w_d22 : list op := [Connect; Connect; Request 1 w_name 0; Request 2 w_name 2; Release 2 w_name; ListQueued 1 w_name].
Definition w_d23 : list op :=
  [Connect; Connect; Request 1 w_name 0; Request 2 w_name 2; Disconnect 2; Release 1 w_name; GetOwner 1 w_name].
Definition w_d28 : list op :=
  [Connect; Connect; Request 1 w_name 0; Request 2 w_name 2; Request 2 w_name 2; ListQueued 1 w_name].
Definition w_d30 : list op :=
  [Connect; Connect; Request 1 w_name 0; Request 2 w_name 2; Request 2 w_name 6; ListQueued 1 w_name].

Definition u1 : str := unique_name 1.
Definition u2 : str := unique_name 2.

Lemma legacy_witnesses :
  (map o_reply (snd (run_legacy w_d21)) = [RHello u1; RHello u2; RCode 1; RCode 3; RQueue [u1]] /\
   map o_reply (snd (spec_run w_d21)) = [RHello u1; RHello u2; RCode 1; RCode 2; RQueue [u1; u2]]) /\
  (map o_reply (snd (run_legacy w_d22)) = [RHello u1; RHello u2; RCode 1; RCode 2; RCode 3; RQueue [u1; u2]] /\
   map o_reply (snd (spec_run w_d22)) = [RHello u1; RHello u2; RCode 1; RCode 2; RCode 1; RQueue [u1]]) /\
  (map o_reply (snd (run_legacy w_d23)) = [RHello u1; RHello u2; RCode 1; RCode 2; RNone; RCode 1; ROwner u2] /\
   map o_reply (snd (spec_run w_d23)) = [RHello u1; RHello u2; RCode 1; RCode 2; RNone; RCode 1; RError NameHasNoOwner]) /\
  (map o_reply (snd (run_legacy w_d28)) = [RHello u1; RHello u2; RCode 1; RCode 2; RCode 2; RQueue [u1; u2; u2]] /\
   map o_reply (snd (spec_run w_d28)) = [RHello u1; RHello u2; RCode 1; RCode 2; RCode 2; RQueue [u1; u2]]) /\
  (map o_reply (snd (run_legacy w_d30)) = [RHello u1; RHello u2; RCode 1; RCode 2; RCode 3; RQueue [u1; u2]] /\
   map o_reply (snd (spec_run w_d30)) = [RHello u1; RHello u2; RCode 1; RCode 2; RCode 3; RQueue [u1]]).
Proof. vm_compute. repeat split; reflexivity. Qed.

Theorem refines_legacy_refuted :
  exists h, ~ Forall2 out_equiv (snd (run_legacy h)) (snd (spec_run h)).
Proof.
  exists w_d21. intro H. apply forall2_replies in H. vm_compute in H. discriminate.
Qed.

(* the repaired model on the same histories *)
Lemma repaired_on_witnesses :
  map o_reply (snd (run w_d21)) = map o_reply (snd (spec_run w_d21)) /\
  map o_reply (snd (run w_d22)) = map o_reply (snd (spec_run w_d22)) /\
  map o_reply (snd (run w_d23)) = map o_reply (snd (spec_run w_d23)) /\
  map o_reply (snd (run w_d28)) = map o_reply (snd (spec_run w_d28)) /\
  map o_reply (snd (run w_d30)) = map o_reply (snd (spec_run w_d30)).
Proof. vm_compute. repeat split; reflexivity. Qed.
