(* marshal() of Model/Marshal.v produces exactly the specification encoding
   (Spec/WireSpec.v) of every conforming value (Spec/Conforms.v). *)
From Tx Require Import Lib.Base Model.PyVal Model.Validators Model.Marshal
  Spec.WireSpec Spec.Conforms Proofs.SigProofs Proofs.BytesProofs.
From Coq Require Import ZifyBool ZifyNat ZifyN.
Local Open Scope N_scope.
Ltac Zify.zify_post_hook ::= Z.to_euclidean_division_equations.

(* --- nested induction on wire values ------------------------------------------ *)
Section WvalInd.
  Variable P : wval -> Prop.
  Hypothesis Hint : forall z, P (WInt z).
  Hypothesis Hbool : forall b, P (WBool b).
  Hypothesis Hdbl : forall b, P (WDouble b).
  Hypothesis Hstr : forall s, P (WStr s).
  Hypothesis Harr : forall l, Forall P l -> P (WArray l).
  Hypothesis Hstruct : forall l, Forall P l -> P (WStruct l).
  Hypothesis Hvar : forall t v, P v -> P (WVariant t v).

  Fixpoint wval_ind' (w : wval) : P w :=
    let fix go (l : list wval) : Forall P l :=
      match l with
      | [] => Forall_nil P
      | x :: r => Forall_cons x (wval_ind' x) (go r)
      end in
    match w with
    | WInt z => Hint z | WBool b => Hbool b | WDouble b => Hdbl b | WStr s => Hstr s
    | WArray l => Harr l (go l)
    | WStruct l => Hstruct l (go l)
    | WVariant t v => Hvar t v (wval_ind' v)
    end.
End WvalInd.

(* --- padding: model vs specification --------------------------------------------- *)

Definition good_align (a : nat) : Prop := a = 1%nat \/ a = 2%nat \/ a = 4%nat \/ a = 8%nat.

Lemma align_good t : good_align (align t).
Proof. unfold good_align. destruct t; cbn; auto. Qed.

Lemma padding_length a off : length (padding a off) = ((a - off mod a) mod a)%nat.
Proof. unfold padding. apply repeat_n_length. Qed.

Lemma pad_len_spec a off : good_align a ->
  pad_len (N.of_nat a) (N.of_nat off) = len (padding a off).
Proof.
  intros Ha. unfold len. rewrite padding_length. unfold pad_len.
  destruct (N.eqb_spec (N.of_nat off mod N.of_nat a) 0) as [E|E];
    destruct Ha as [-> | [-> | [-> | ->]]]; cbn [N.of_nat Pos.of_succ_nat Pos.succ] in *; lia.
Qed.

Lemma zeros_padding a off : zeros (len (padding a off)) = padding a off.
Proof. unfold zeros, len. rewrite Nat2N.id, padding_length. reflexivity. Qed.

Lemma padding_aligned a off : good_align a -> (off mod a = 0)%nat -> padding a off = [].
Proof.
  intros Ha H. unfold padding. rewrite H.
  assert (E : ((a - 0) mod a = 0)%nat) by (destruct Ha as [-> | [-> | [-> | ->]]]; reflexivity).
  rewrite E. reflexivity.
Qed.

Lemma padding_then_aligned a off : good_align a -> ((off + length (padding a off)) mod a = 0)%nat.
Proof.
  intros Ha. rewrite padding_length. destruct Ha as [-> | [-> | [-> | ->]]]; lia.
Qed.

Lemma hd_code t : exists c r, show t = c :: r /\ align_of c = Some (N.of_nat (align t)).
Proof.
  destruct t; eexists; eexists; (split; [reflexivity|reflexivity]).
Qed.

Lemma enc_aligned t w o le : (o mod align t = 0)%nat -> enc t w o le = encb t w o le.
Proof.
  intros H. unfold enc. rewrite (padding_aligned _ _ (align_good t) H). cbn. rewrite Nat.add_0_r. reflexivity.
Qed.

(* --- dispatch of m_one on the first character --------------------------------------- *)

Lemma show_ascii t : is_ascii (show t) = true.
Proof.
  induction t as [t Hb| |t IH|ts IH|k v IHk IHv] using ty_ind'.
  - destruct t; try discriminate; reflexivity.
  - reflexivity.
  - cbn [show is_ascii forallb]. exact IH.
  - rewrite show_struct. unfold is_ascii in *.
    assert (E : forallb (fun x : N => x <? 128) (show_list ts) = true).
    { induction IH as [|x l Hx Hl IHl]; [reflexivity|].
      rewrite show_list_cons, forallb_app, Hx, IHl. reflexivity. }
    cbn [forallb]. rewrite forallb_app, E. reflexivity.
  - cbn [show]. unfold is_ascii in *. cbn [forallb]. rewrite !forallb_app, IHk, IHv. reflexivity.
Qed.

Lemma twos_of_N n x : in_width n -> x < 256 ^ N.of_nat n -> twos n (Z.of_N x) = x.
Proof.
  intros Hn Hx. unfold twos.
  assert (E : (2 ^ (8 * Z.of_nat n))%Z = Z.of_N (256 ^ N.of_nat n)).
  { destruct Hn as [-> | [-> | [-> | ->]]]; reflexivity. }
  rewrite E, Z.mod_small by lia. apply N2Z.id.
Qed.

Lemma pack_len n le x : in_width n -> x < 256 ^ N.of_nat n ->
  pack_int n false le (Z.of_N x) = Ok (uint n le x).
Proof.
  intros Hn Hx. rewrite pack_int_spec.
  - rewrite twos_of_N by assumption. reflexivity.
  - rewrite pow256_eq.
    assert (E : (2 ^ (8 * Z.of_nat n))%Z = Z.of_N (256 ^ N.of_nat n)).
    { destruct Hn as [-> | [-> | [-> | ->]]]; reflexivity. }
    rewrite E. lia.
Qed.

Lemma len_uint n le v : len (uint n le v) = N.of_nat n.
Proof. unfold len. rewrite uint_length. reflexivity. Qed.

Lemma int_range_pack t z : is_int_ty t = true -> int_range t z = true ->
  let signed := match t with TInt16 | TInt32 | TInt64 => true | _ => false end in
  in_width (width t) /\
  (if signed then (- (pow256 (width t) / 2) <= z < pow256 (width t) / 2)%Z
   else (0 <= z < pow256 (width t))%Z).
Proof.
  intros Ht Hr. unfold in_width.
  destruct t; try discriminate; cbn in Hr |- *; (split; [auto|]);
    unfold pow256; cbn; lia.
Qed.

Lemma m_int_refines t v z le fds :
  is_int_ty t = true -> as_int v = Ok z -> int_range t z = true ->
  m_int (width t) (match t with TInt16 | TInt32 | TInt64 => true | _ => false end) v le fds
  = Ok (len (uint (width t) le (twos (width t) z)), uint (width t) le (twos (width t) z), fds).
Proof.
  intros Ht Hv Hr. unfold m_int. rewrite Hv. cbn [bind].
  destruct (int_range_pack t z Ht Hr) as [Hw Hrange].
  rewrite (pack_int_spec _ _ le z Hrange). cbn [bind]. rewrite len_uint. reflexivity.
Qed.

(* --- the specification's inner loops, named --------------------------------------------- *)

Definition arr_body (et : ty) (le : bool) :=
  fix go (l : list wval) (off : nat) : bytes :=
    match l with
    | [] => []
    | x :: r =>
        let p := padding (align et) off in
        let b := p ++ encb et x (off + length p) le in
        b ++ go r (off + length b)%nat
    end.

Definition struct_body (le : bool) :=
  fix go (ts : list ty) (l : list wval) (off : nat) {struct l} : bytes :=
    match ts, l with
    | t :: ts', x :: r =>
        let p := padding (align t) off in
        let b := p ++ encb t x (off + length p) le in
        b ++ go ts' r (off + length b)%nat
    | _, _ => []
    end.

Lemma encb_array et l o le :
  encb (TArray et) (WArray l) o le =
  uint 4 le (N.of_nat (length (arr_body et le l (o + 4 + length (padding (align et) (o + 4))))))
  ++ padding (align et) (o + 4) ++ arr_body et le l (o + 4 + length (padding (align et) (o + 4))).
Proof. reflexivity. Qed.

Lemma encb_struct ts l o le : encb (TStruct ts) (WStruct l) o le = struct_body le ts l o.
Proof. reflexivity. Qed.

Lemma encb_dict kt vt k v o le :
  encb (TDictEntry kt vt) (WStruct [k; v]) o le = struct_body le [kt; vt] [k; v] o.
Proof.
  cbn [encb struct_body]. rewrite app_nil_r, <- !app_assoc. cbn [app].
  rewrite !app_length, !Nat.add_assoc. reflexivity.
Qed.

Lemma struct_body_enc le t ts x r off :
  struct_body le (t :: ts) (x :: r) off =
  enc t x off le ++ struct_body le ts r (off + length (enc t x off le)).
Proof. reflexivity. Qed.

Lemma arr_body_enc et le x r off :
  arr_body et le (x :: r) off = enc et x off le ++ arr_body et le r (off + length (enc et x off le)).
Proof. reflexivity. Qed.

Lemma struct_body_seq le ts l off : length ts = length l ->
  struct_body le ts l off = enc_seq ts l off le.
Proof.
  revert l off; induction ts as [|t ts IH]; intros [|x r] off H; try discriminate; [reflexivity|].
  rewrite struct_body_enc. cbn [enc_seq]. rewrite IH by (cbn in H; lia). reflexivity.
Qed.

(* --- conformance of element lists, named -------------------------------------------------- *)

Definition conf_all (et : ty) :=
  fix all2 (items : list pyval) (l : list wval) {struct l} : Prop :=
    match items, l with
    | [], [] => True
    | x :: items', y :: l' => conf et x y /\ all2 items' l'
    | _, _ => False
    end.

Definition conf_fields :=
  fix all3 (ts : list ty) (items : list pyval) (l : list wval) {struct l} : Prop :=
    match ts, items, l with
    | [], [], [] => True
    | t :: ts', x :: items', y :: l' => conf t x y /\ all3 ts' items' l'
    | _, _, _ => False
    end.

Lemma conf_array et v l :
  conf (TArray et) v (WArray l) = exists items, array_items v = Ok items /\ conf_all et items l.
Proof. reflexivity. Qed.

Lemma conf_struct ts v l :
  conf (TStruct ts) v (WStruct l) = exists items, seq_items v = Ok items /\ conf_fields ts items l.
Proof. reflexivity. Qed.

Lemma conf_fields_seq ts vs ws : conf_fields ts vs ws <-> conf_seq ts vs ws.
Proof.
  revert vs ws; induction ts as [|t ts IH]; intros [|v vs] [|w ws]; cbn; try tauto.
  rewrite IH. tauto.
Qed.

(* --- the statement proved by induction on the wire value ------------------------------------ *)

Definition two32 : N := 4294967296.

Definition elem_ok (le : bool) (x : wval) : Prop :=
  forall t v, conf t v x -> forall f o fds,
    (wdepth x <= f)%nat -> (o mod align t = 0)%nat -> len (encb t x o le) < two32 ->
    m_one f (show t) v (N.of_nat o) le fds = Ok (len (encb t x o le), encb t x o le, fds).

Lemma enc_split t x off le :
  enc t x off le = padding (align t) off ++ encb t x (off + length (padding (align t) off)) le.
Proof. reflexivity. Qed.

Lemma one_padded le x t v f off fds :
  elem_ok le x -> conf t v x -> (wdepth x <= f)%nat -> len (enc t x off le) < two32 ->
  forall c r, show t = c :: r -> align_of c = Some (N.of_nat (align t)) ->
  exists p, pad_for c (N.of_nat off) = Ok p /\
    zeros p ++ encb t x (off + length (padding (align t) off)) le = enc t x off le /\
    m_one f (show t) v (N.of_nat off + p) le fds =
      Ok (len (encb t x (off + length (padding (align t) off)) le),
          encb t x (off + length (padding (align t) off)) le, fds) /\
    N.of_nat off + p + len (encb t x (off + length (padding (align t) off)) le)
      = N.of_nat (off + length (enc t x off le)).
Proof.
  intros Hx Hc Hd Hs c r Hshow Hal.
  exists (len (padding (align t) off)). unfold pad_for. rewrite Hal.
  rewrite (pad_len_spec _ _ (align_good t)). split; [reflexivity|].
  rewrite zeros_padding. split; [reflexivity|].
  rewrite enc_split, len_app in Hs.
  split.
  - replace (N.of_nat off + len (padding (align t) off))
      with (N.of_nat (off + length (padding (align t) off))) by (unfold len; lia).
    apply Hx; [exact Hc|exact Hd|apply padding_then_aligned, align_good|lia].
  - rewrite enc_split, app_length. unfold len. lia.
Qed.

Lemma arr_loop_refines le et c r f :
  show et = c :: r -> align_of c = Some (N.of_nat (align et)) ->
  forall l, Forall (elem_ok le) l -> forall items, conf_all et items l -> (wdepth_list l <= f)%nat ->
  forall off dlen fds, len (arr_body et le l off) < two32 ->
  arr_loop (m_one f) (show et) c items (N.of_nat off) dlen le fds =
  Ok (N.of_nat (off + length (arr_body et le l off)), dlen + len (arr_body et le l off),
      arr_body et le l off, fds).
Proof.
  intros Hshow Hal l Hl. induction Hl as [|x l Hx Hl IH]; intros items Hc Hd off dlen fds Hs.
  - destruct items; [|contradiction]. cbn [arr_loop arr_body length]. unfold len; cbn [length].
    rewrite Nat.add_0_r, N.add_0_r. reflexivity.
  - destruct items as [|v items]; [contradiction|]. destruct Hc as [Hc1 Hc2].
    unfold wdepth_list in Hd; cbn [fold_right] in Hd. fold (wdepth_list l) in Hd.
    rewrite arr_body_enc in *. rewrite len_app in Hs.
    destruct (one_padded le x et v f off fds Hx Hc1 ltac:(lia) ltac:(lia) c r Hshow Hal)
      as (p & Hp & Hz & Hone & Hoff).
    cbn [arr_loop]. rewrite Hp. cbn [bind]. rewrite Hone. cbn [bind].
    rewrite Hoff.
    replace (dlen + p + len (encb et x (off + length (padding (align et) off)) le))
      with (dlen + len (enc et x off le)) by (rewrite <- Hz at 1; rewrite len_app; unfold zeros, len; rewrite repeat_n_length; lia).
    rewrite (IH items Hc2 ltac:(lia) (off + length (enc et x off le))%nat _ fds ltac:(lia)). cbn [bind].
    rewrite app_assoc, Hz, len_app, app_length.
    f_equal. f_equal. f_equal. f_equal; lia.
Qed.

Lemma seq_loop_refines le f :
  forall l, Forall (elem_ok le) l -> forall ts items, conf_fields ts items l -> (wdepth_list l <= f)%nat ->
  forall off fds, len (struct_body le ts l off) < two32 ->
  seq_loop (m_one f) (show_list ts) items (N.of_nat off) le fds =
  Ok (N.of_nat (off + length (struct_body le ts l off)), struct_body le ts l off, fds).
Proof.
  intros l Hl. induction Hl as [|x l Hx Hl IH]; intros ts items Hc Hd off fds Hs.
  - destruct ts; [|destruct items; contradiction]. destruct items; [|contradiction].
    cbn. rewrite Nat.add_0_r. reflexivity.
  - destruct ts as [|t ts]; [destruct items; contradiction|].
    destruct items as [|v items]; [contradiction|]. destruct Hc as [Hc1 Hc2].
    unfold wdepth_list in Hd; cbn [fold_right] in Hd. fold (wdepth_list l) in Hd.
    rewrite struct_body_enc in *. rewrite len_app in Hs.
    destruct (hd_code t) as (c & r & Hshow & Hal).
    destruct (one_padded le x t v f off fds Hx Hc1 ltac:(lia) ltac:(lia) c r Hshow Hal)
      as (p & Hp & Hz & Hone & Hoff).
    cbn [seq_loop]. rewrite show_list_cons, gct_next_show. rewrite Hshow at 1.
    rewrite Hp. cbn [bind]. rewrite Hone. cbn [bind]. rewrite Hoff.
    rewrite (IH ts items Hc2 ltac:(lia) (off + length (enc t x off le))%nat fds ltac:(lia)). cbn [bind].
    rewrite app_assoc, Hz, app_length.
    f_equal. f_equal. f_equal. f_equal; lia.
Qed.

(* --- m_one dispatch ------------------------------------------------------------------------- *)

Lemma m_one_array f tsig v off le fds :
  m_one (S f) (97 :: tsig) v off le fds =
  match tsig with
  | [] => Err EIndex
  | ecode :: _ =>
      do ip <- pad_for ecode (off + 4);
      do items <- array_items v;
      do r <- arr_loop (m_one f) tsig ecode items (off + 4 + ip) 0 le fds;
      let '(_, dlen, b, fds1) := r in
      do lenb <- pack_int 4 false le (Z.of_N dlen);
      Ok (4 + ip + dlen, lenb ++ zeros ip ++ b, fds1)
  end.
Proof. reflexivity. Qed.

Lemma m_one_struct f rest v off le fds :
  m_one (S f) (40 :: rest) v off le fds = marshal_with (m_one f) (strip_ends (40 :: rest)) v off le fds.
Proof. reflexivity. Qed.

Lemma m_one_dict f rest v off le fds :
  m_one (S f) (123 :: rest) v off le fds = marshal_with (m_one f) (strip_ends (123 :: rest)) v off le fds.
Proof. reflexivity. Qed.

Lemma m_one_variant f v off le fds :
  m_one (S f) [118] v off le fds =
  do vsig <- sig_from_py v;
  do r1 <- m_signature (PStr vsig) le fds;
  let '(n1, b1, _) := r1 in
  match vsig with
  | [] => Err EIndex
  | vcode :: _ =>
      do p <- pad_for vcode (off + n1);
      do r2 <- marshal_with (m_one f) vsig (PList [v]) (off + n1 + p) le None;
      let '(n2, b2, _) := r2 in
      Ok (n1 + p + n2, b1 ++ zeros p ++ b2, fds)
  end.
Proof. reflexivity. Qed.

Lemma m_one_array' f c r v off le fds :
  m_one (S f) (97 :: c :: r) v off le fds =
  do ip <- pad_for c (off + 4);
  do items <- array_items v;
  do r0 <- arr_loop (m_one f) (c :: r) c items (off + 4 + ip) 0 le fds;
  let '(_, dlen, b, fds1) := r0 in
  do lenb <- pack_int 4 false le (Z.of_N dlen);
  Ok (4 + ip + dlen, lenb ++ zeros ip ++ b, fds1).
Proof. reflexivity. Qed.

Lemma m_one_variant' f v off le fds c r : sig_from_py v = Ok (c :: r) ->
  m_one (S f) [118] v off le fds =
  do r1 <- m_signature (PStr (c :: r)) le fds;
  let '(n1, b1, _) := r1 in
  do p <- pad_for c (off + n1);
  do r2 <- marshal_with (m_one f) (c :: r) (PList [v]) (off + n1 + p) le None;
  let '(n2, b2, _) := r2 in
  Ok (n1 + p + n2, b1 ++ zeros p ++ b2, fds).
Proof. intros H. rewrite m_one_variant, H. reflexivity. Qed.

Lemma strip_ends_wrap c s e : strip_ends (c :: s ++ [e]) = s.
Proof. unfold strip_ends. cbn [tl]. apply removelast_last. Qed.

Lemma m_signature_refines s le fds : is_ascii s = true -> (length s <= 255)%nat ->
  m_signature (PStr s) le fds =
  Ok (len (uint 1 le (N.of_nat (length s)) ++ s ++ [0]), uint 1 le (N.of_nat (length s)) ++ s ++ [0], fds).
Proof.
  intros Ha Hl. unfold m_signature. cbn [str_of unwrap]. rewrite Ha. cbn [negb].
  rewrite pack_len; [|unfold in_width; auto|unfold len; cbn; lia].
  cbn [bind]. rewrite !len_app, len_uint. unfold len. cbn [length]. f_equal. f_equal. f_equal. lia.
Qed.

(* --- the main refinement ------------------------------------------------------------------------ *)

Lemma wdepth_pos w : (1 <= wdepth w)%nat.
Proof. destruct w; cbn; lia. Qed.

Theorem m_one_refines le : forall w, elem_ok le w.
Proof.
  induction w as [z|b|bits|s|l IH|l IH|vt x IH] using wval_ind';
    intros t v Hc f o fds Hd Hal Hs;
    match type of Hd with (wdepth ?w0 <= _)%nat => pose proof (wdepth_pos w0) as Hpos end;
    (destruct f as [|f]; [cbn in Hd; lia|]).
  - (* integers *)
    destruct t; try contradiction; destruct Hc as [Hv Hr];
      match goal with
      | |- m_one _ (show ?T) _ _ _ _ = _ => exact (m_int_refines T v z le fds eq_refl Hv Hr)
      end.
  - (* boolean *)
    destruct t; try contradiction. cbn [show encb].
    change (m_one (S f) [98] v (N.of_nat o) le fds) with
      (do b0 <- pack_int 4 false le (if truthy v then 1 else 0)%Z; Ok (4, b0, fds)).
    assert (Ht : truthy v = b).
    { unfold truthy. destruct Hc as [-> | ->]; [reflexivity|]. destruct b; reflexivity. }
    rewrite Ht.
    replace (if b then 1 else 0)%Z with (Z.of_N (if b then 1 else 0)) by (destruct b; reflexivity).
    rewrite pack_len; [|unfold in_width; auto|destruct b; reflexivity].
    cbn [bind]. rewrite len_uint. reflexivity.
  - (* double *)
    destruct t; try contradiction. destruct Hc as [Hv Hb]. cbn [show encb].
    change (m_one (S f) [100] v (N.of_nat o) le fds) with (m_double v le fds).
    unfold m_double. rewrite Hv, enc_uint_spec, len_uint. reflexivity.
  - (* strings *)
    destruct t; try contradiction; cbn [show encb] in *.
    + destruct Hc as (Hv & Hn & Hu).
      change (m_one (S f) [115] v (N.of_nat o) le fds) with (m_string v le fds).
      unfold m_string. rewrite Hv, Hn.
      rewrite !len_app, len_uint in Hs. unfold len in Hs. cbn [length] in Hs.
      rewrite pack_len; [|unfold in_width; auto|unfold len, two32 in *; cbn; lia].
      cbn [bind]. rewrite !len_app, len_uint. unfold len. cbn [length]. f_equal. f_equal. f_equal. lia.
    + destruct Hc as (Hv & Hn & Hu & Hp).
      change (m_one (S f) [111] v (N.of_nat o) le fds) with (m_object_path v le fds).
      unfold m_object_path, m_string. rewrite Hv, Hp, Hn.
      rewrite !len_app, len_uint in Hs. unfold len in Hs. cbn [length] in Hs.
      rewrite pack_len; [|unfold in_width; auto|unfold len, two32 in *; cbn; lia].
      cbn [bind]. rewrite !len_app, len_uint. unfold len. cbn [length]. f_equal. f_equal. f_equal. lia.
    + destruct Hc as (Hv & Ha & Hl).
      change (m_one (S f) [103] v (N.of_nat o) le fds) with (m_signature v le fds).
      assert (E : m_signature v le fds = m_signature (PStr s) le fds).
      { unfold m_signature. rewrite Hv. reflexivity. }
      rewrite E. apply m_signature_refines; assumption.
  - (* arrays *)
    destruct t as [| | | | | | | | | | | | |et| | |]; try contradiction.
    rewrite conf_array in Hc. destruct Hc as (items & Hitems & Hall).
    destruct (hd_code et) as (c & r & Hshow & Halc).
    cbn [show]. rewrite Hshow, m_one_array', <- Hshow.
    rewrite encb_array in *.
    set (ip := padding (align et) (o + 4)) in *.
    set (start := (o + 4 + length ip)%nat) in *.
    rewrite !len_app, len_uint in Hs.
    unfold pad_for. rewrite Halc.
    replace (N.of_nat o + 4) with (N.of_nat (o + 4)) by lia.
    rewrite (pad_len_spec _ _ (align_good et)). fold ip. cbn [bind]. rewrite Hitems. cbn [bind].
    replace (N.of_nat (o + 4) + len ip) with (N.of_nat start) by (unfold start, len; lia).
    cbn [wdepth] in Hd. fold (wdepth_list l) in Hd.
    rewrite (arr_loop_refines le et c r f Hshow Halc l IH items Hall ltac:(lia) start 0 fds ltac:(lia)).
    cbn [bind]. rewrite N.add_0_l.
    rewrite pack_len; [|unfold in_width; auto|unfold two32 in *; cbn; lia].
    cbn [bind].
    assert (Hz : zeros (len ip) = ip) by (unfold ip; apply zeros_padding).
    rewrite Hz, !len_app, len_uint. unfold len.
    f_equal. f_equal. f_equal. lia.
  - (* structs and dict entries *)
    destruct t as [| | | | | | | | | | | | | |ts|kt vt|]; try contradiction.
    + rewrite conf_struct in Hc. destruct Hc as (items & Hitems & Hall).
      rewrite show_struct, m_one_struct, strip_ends_wrap, encb_struct in *.
      unfold marshal_with. rewrite Hitems. cbn [bind].
      cbn [wdepth] in Hd. fold (wdepth_list l) in Hd.
      rewrite (seq_loop_refines le f l IH ts items Hall ltac:(lia) o fds Hs). cbn [bind].
      f_equal. f_equal. f_equal. unfold len. lia.
    + destruct l as [|k [|x [|? ?]]]; try contradiction.
      destruct Hc as (pk & pv & Hitems & Hck & Hcx).
      rewrite encb_dict in *.
      cbn [show].
      replace (show kt ++ show vt ++ [125]) with (show_list [kt; vt] ++ [125])
        by (cbn [show_list flat_map]; rewrite app_nil_r, app_assoc; reflexivity).
      rewrite m_one_dict, strip_ends_wrap.
      unfold marshal_with. rewrite Hitems. cbn [bind].
      cbn [wdepth] in Hd. fold (wdepth_list [k; x]) in Hd.
      assert (Hall : conf_fields [kt; vt] [pk; pv] [k; x]) by (cbn; auto).
      rewrite (seq_loop_refines le f [k; x] IH [kt; vt] [pk; pv] Hall ltac:(lia) o fds Hs). cbn [bind].
      f_equal. f_equal. f_equal. unfold len. lia.
  - (* variants *)
    destruct t; try contradiction. destruct Hc as (Hsig & Hlen & Hc).
    destruct (hd_code vt) as (c & r & Hshow & Halc).
    cbn [show]. rewrite Hshow in Hsig. rewrite (m_one_variant' _ _ _ _ _ _ _ Hsig), <- Hshow.
    rewrite (m_signature_refines _ le fds (show_ascii vt) Hlen). cbn [bind].
    cbn [encb] in *.
    set (s := uint 1 le (N.of_nat (length (show vt))) ++ show vt ++ [0]) in *.
    set (p := padding (align vt) (o + length s)) in *.
    unfold pad_for. rewrite Halc.
    replace (N.of_nat o + len s) with (N.of_nat (o + length s)) by (unfold len; lia).
    rewrite (pad_len_spec _ _ (align_good vt)). fold p. cbn [bind].
    unfold marshal_with. cbn [seq_items bind].
    replace (N.of_nat (o + length s) + len p) with (N.of_nat (o + length s + length p)) by (unfold len; lia).
    rewrite !len_app in Hs.
    cbn [wdepth] in Hd.
    assert (Hall : conf_fields [vt] [v] [x]) by (cbn; auto).
    assert (Hal' : ((o + length s + length p) mod align vt = 0)%nat)
      by (apply padding_then_aligned, align_good).
    assert (Hbody : struct_body le [vt] [x] (o + length s + length p) = encb vt x (o + length s + length p) le).
    { cbn [struct_body]. rewrite (padding_aligned _ _ (align_good vt) Hal'). cbn [app length].
      rewrite Nat.add_0_r, app_nil_r. reflexivity. }
    replace (show vt) with (show_list [vt]) at 1 by (cbn [show_list flat_map]; apply app_nil_r).
    rewrite (seq_loop_refines le f [x] (Forall_cons x IH (Forall_nil _)) [vt] [v] Hall
               ltac:(unfold wdepth_list; cbn [fold_right]; lia) (o + length s + length p)%nat None
               ltac:(rewrite Hbody; lia)).
    cbn [bind].
    assert (Hz : zeros (len p) = p) by (unfold p; apply zeros_padding).
    rewrite Hbody, Hz, !len_app. unfold len.
    f_equal. f_equal. f_equal. lia.
Qed.

(* --- marshal(): the top-level driver ---------------------------------------------------------- *)

Theorem marshal_refines ts vals vs ws off le fds fuel :
  seq_items vals = Ok vs -> conf_seq ts vs ws -> (wdepth_list ws <= fuel)%nat ->
  len (enc_seq ts ws off le) < two32 ->
  m_marshal fuel (show_list ts) vals (N.of_nat off) le fds =
  Ok (len (enc_seq ts ws off le), enc_seq ts ws off le, fds).
Proof.
  intros Hitems Hc Hd Hs. unfold m_marshal, marshal_with. rewrite Hitems. cbn [bind].
  apply conf_fields_seq in Hc.
  assert (Hlen : length ts = length ws).
  { clear -Hc. revert vs ws Hc; induction ts as [|t ts IH]; intros [|v vs] [|w ws] H;
      cbn in H; try contradiction; [reflexivity|]. destruct H as [_ H]. cbn. f_equal. eapply IH; eauto. }
  rewrite <- (struct_body_seq le ts ws off Hlen) in *.
  assert (Hall : Forall (elem_ok le) ws).
  { clear. induction ws; constructor; [apply m_one_refines|assumption]. }
  rewrite (seq_loop_refines le fuel ws Hall ts vs Hc Hd off fds Hs). cbn [bind].
  f_equal. f_equal. f_equal. unfold len. lia.
Qed.
