(* Proofs for the re-entrant part of C09 (Model/ConnectRe.v). *)
From Tx Require Import Lib.Base Model.Calls Spec.CallSpec Proofs.CallsProofs Model.Connect Spec.ConnectSpec
  Proofs.ConnectProofs Model.ConnectRe.
From Coq Require Import Permutation.
Local Open Scope N_scope.

(* ------------------------------------------------------------------------ *)
(* 1. what an acting callback leaves alone                                     *)

Lemma exec_pofr st a : st_phase st <> HelloPending -> pofr (exec st a) = pofr st.
Proof.
  intros Hp. destruct a as [t|o cb|o cb|key [cb|]]; cbn [exec].
  - apply calls_step_pofr. exact Hp.
  - apply register_pofr.
  - apply cancel_pofr.
  - rewrite register_pofr. apply get_object_pofr. exact Hp.
  - apply get_object_pofr. exact Hp.
Qed.

Lemma pofr_phase st st' : pofr st' = pofr st -> st_phase st' = st_phase st.
Proof. unfold pofr. intros E. injection E as E _ _ _. exact E. Qed.

Lemma fold_exec_pofr l : forall st, st_phase st <> HelloPending -> pofr (fold_left exec l st) = pofr st.
Proof.
  induction l as [|a l IH]; intros st Hp; cbn [fold_left]; [reflexivity|].
  assert (E := exec_pofr st a Hp). rewrite IH; [exact E|].
  rewrite (pofr_phase _ _ E). exact Hp.
Qed.

Lemma run_callback_pofr acts r o st cb :
  st_phase st <> HelloPending ->
  pofr (run_callback acts r o st cb) = (st_phase st, st_open st, st_fired st, st_ran st ++ [(o, cb, r)]).
Proof. intros Hp. unfold run_callback. rewrite fold_exec_pofr; [reflexivity | exact Hp]. Qed.

Lemma fold_callbacks_pofr acts r o l : forall st,
  st_phase st <> HelloPending ->
  pofr (fold_left (run_callback acts r o) l st) =
  (st_phase st, st_open st, st_fired st, st_ran st ++ runs o l r).
Proof.
  induction l as [|cb l IH]; intros st Hp; cbn [fold_left runs map].
  - rewrite app_nil_r. reflexivity.
  - assert (E := run_callback_pofr acts r o st cb Hp).
    assert (Hp' : st_phase (run_callback acts r o st cb) <> HelloPending).
    { unfold pofr in E. injection E as E1 _ _ _. rewrite E1. exact Hp. }
    rewrite (IH _ Hp'). unfold pofr in E. injection E as E1 E2 E3 E4.
    rewrite E1, E2, E3, E4, <- app_assoc. reflexivity.
Qed.

Lemma conn_phase_pofr acts st r :
  st_phase st <> HelloPending ->
  pofr (conn_phase acts st r) = (st_phase st, st_open st, st_fired st, st_ran st ++ runs OConn (st_dcbs st) r).
Proof. intros Hp. unfold conn_phase. apply fold_callbacks_pofr. exact Hp. Qed.

Lemma fold_proxies_pofr acts r L : forall st,
  st_phase st <> HelloPending ->
  pofr (fold_left (fun st p => if po_reg p
                               then fold_left (run_callback acts r (OProxy (po_req p))) (po_cbs p) st
                               else st) L st) =
  (st_phase st, st_open st, st_fired st, st_ran st ++ proxy_runs L r).
Proof.
  induction L as [|p L IH]; intros st Hp; cbn [fold_left].
  - unfold proxy_runs. cbn [flat_map]. rewrite app_nil_r. reflexivity.
  - unfold proxy_runs. cbn [flat_map]. fold (proxy_runs L r). destruct (po_reg p).
    + assert (E := fold_callbacks_pofr acts r (OProxy (po_req p)) (po_cbs p) st Hp).
      set (st' := fold_left (run_callback acts r (OProxy (po_req p))) (po_cbs p) st) in *.
      unfold pofr in E. injection E as E1 E2 E3 E4.
      assert (Hp' : st_phase st' <> HelloPending) by (rewrite E1; exact Hp).
      rewrite (IH _ Hp'), E1, E2, E3, E4, <- app_assoc. reflexivity.
    + cbn [app]. apply IH. exact Hp.
Qed.

Lemma proxy_phase_pofr acts st r :
  st_phase st <> HelloPending ->
  pofr (proxy_phase acts st r) = (st_phase st, st_open st, st_fired st, st_ran st ++ proxy_runs (st_objs st) r).
Proof. intros Hp. unfold proxy_phase. apply fold_proxies_pofr. exact Hp. Qed.

(* ------------------------------------------------------------------------ *)
(* 2. generic: a property kept by every action is kept by the phases           *)

Section Keep.
  Variable P : Connect.state -> Prop.
  Hypothesis P_ran : forall st l, P st -> P (set_ran st l).
  Hypothesis P_exec : forall st a, P st -> P (exec st a).

  Lemma keep_callback acts r o st cb : P st -> P (run_callback acts r o st cb).
  Proof.
    intros H. unfold run_callback.
    assert (G : forall l s, P s -> P (fold_left exec l s)).
    { induction l as [|a l IH]; intros s Hs; cbn [fold_left]; [exact Hs | apply IH, P_exec, Hs]. }
    apply G. apply P_ran. exact H.
  Qed.

  Lemma keep_callbacks acts r o l : forall st, P st -> P (fold_left (run_callback acts r o) l st).
  Proof.
    induction l as [|cb l IH]; intros st H; cbn [fold_left]; [exact H|].
    apply IH. apply keep_callback. exact H.
  Qed.

  Lemma keep_conn_phase acts st r : P st -> P (conn_phase acts st r).
  Proof. apply keep_callbacks. Qed.

  Lemma keep_proxy_phase acts st r : P st -> P (proxy_phase acts st r).
  Proof.
    unfold proxy_phase. generalize (st_objs st) as L. intros L. revert st.
    induction L as [|p L IH]; intros st H; cbn [fold_left]; [exact H|].
    apply IH. destruct (po_reg p); [apply keep_callbacks; exact H | exact H].
  Qed.
End Keep.

(* every proxy stays registered with the object handler *)
Lemma exec_reg st a : all_reg (st_objs st) -> all_reg (st_objs (exec st a)).
Proof.
  intros H.
  assert (Hmk : forall key, all_reg (st_objs (get_object false st PkExplicit key))).
  { intros key. unfold get_object. cbn [set_objdone set_objs st_objs set_nreq negb].
    apply Forall_app. split; [exact H | repeat constructor]. }
  destruct a as [t|o cb|o cb|key [cb|]]; cbn [exec]; [| | |cbn [register set_objs st_objs]; apply upd_cbs_reg; apply Hmk|apply Hmk].
  - unfold calls_step. apply deliver_reg. exact H.
  - destruct o; [exact H|]. cbn [register set_objs st_objs]. apply upd_cbs_reg. exact H.
  - unfold cancel. destruct o as [|q].
    + destruct (mem cb (st_dcbs st)); exact H.
    + destruct (find_obj q (st_objs st)) as [p|]; [|exact H].
      destruct (po_cbs p); [exact H|]. destruct (mem cb (n :: l)); [|exact H].
      cbn [set_objs st_objs]. apply upd_cbs_reg. exact H.
Qed.

Lemma conn_phase_reg acts st r : all_reg (st_objs st) -> all_reg (st_objs (conn_phase acts st r)).
Proof.
  apply (keep_conn_phase (fun s => all_reg (st_objs s))).
  - intros s l H. exact H.
  - intros s a H. apply exec_reg. exact H.
Qed.

(* ------------------------------------------------------------------------ *)
(* 3. the call table while callbacks issue calls                               *)

Definition ReachC (s0 : N) (c : Calls.state) : Prop := exists cevs, c = Calls.run s0 cevs.

Lemma exec_calls st a :
  st_calls (exec st a) = st_calls st \/
  exists t, a = ACall t /\ st_calls (exec st a) = Calls.step (st_calls st) (ECall CkNormal t RsNoCheck).
Proof.
  destruct a as [t|o cb|o cb|key [cb|]]; cbn [exec].
  - right. exists t. split; [reflexivity|]. unfold calls_step. apply deliver_calls.
  - left. apply register_calls.
  - left. apply cancel_calls.
  - left. rewrite register_calls. reflexivity.
  - left. reflexivity.
Qed.

Lemma reach_step s0 c e : ReachC s0 c -> ReachC s0 (Calls.step c e).
Proof. intros [cevs ->]. exists (cevs ++ [e]). rewrite CallsProofs.run_snoc. reflexivity. Qed.

Definition pids (c : Calls.state) : list nat := map (fun p => pc_id (snd p)) (st_pending c).

(* the serial the next call will take is not in the table *)
Lemma reach_fresh s0 c : ReachC s0 c -> ~ In (st_next_serial c) (map fst (st_pending c)).
Proof.
  intros [cevs ->]. destruct (run_inv s0 cevs) as [Hs _ Hp _ _]. rewrite Hp, Hs.
  intros Hin. apply in_map_iff in Hin as [e [He Hin]]. apply in_map_iff in Hin as [c [<- Hc]].
  cbn [entry fst] in He. apply open_calls_upper in Hc. lia.
Qed.

Lemma alist_set_fresh {V} k (v : V) l : ~ In k (map fst l) -> alist_set N.eqb k v l = l ++ [(k, v)].
Proof.
  induction l as [|[k' v'] l IH]; cbn [alist_set map fst app]; intros H; [reflexivity|].
  destruct (k =? k') eqn:E.
  - apply N.eqb_eq in E. exfalso. apply H. left. symmetry. exact E.
  - rewrite IH; [reflexivity|]. intros Hin. apply H. right. exact Hin.
Qed.

(* c is c1 after some calls were issued: nothing that was pending has gone, what has been added are
   the Deferreds numbered from n, each either pending or failed at once *)
Record Ext (n : nat) (c1 c : Calls.state) : Prop := {
  ext_done : exists later, st_done c = st_done c1 ++ later /\
                           Forall (fun x => (n <= fst x < st_next_id c)%nat /\ snd x = OFailed) later;
  ext_id : (n <= st_next_id c)%nat;
  ext_old : forall i, In i (pids c1) -> In i (pids c);
  ext_only : forall i, In i (pids c) -> In i (pids c1) \/ (n <= i < st_next_id c)%nat;
  ext_new : forall i, (n <= i < st_next_id c)%nat -> In i (pids c) \/ In (i, OFailed) (st_done c)
}.

Lemma ext_refl c : Ext (st_next_id c) c c.
Proof.
  constructor.
  - exists []. split; [rewrite app_nil_r; reflexivity | constructor].
  - lia.
  - intros i H. exact H.
  - intros i H. left. exact H.
  - intros i H. lia.
Qed.

Lemma forall_weaken_id (n a b : nat) (l : list (nat * outcome)) :
  (a <= b)%nat ->
  Forall (fun x => (n <= fst x < a)%nat /\ snd x = OFailed) l ->
  Forall (fun x => (n <= fst x < b)%nat /\ snd x = OFailed) l.
Proof. intros Hab H. eapply Forall_impl; [|exact H]. cbn. intros x [Hx Ho]. split; [lia | exact Ho]. Qed.

Lemma ext_call n c1 c t :
  ~ In (st_next_serial c) (map fst (st_pending c)) ->
  Ext n c1 c -> Ext n c1 (Calls.step c (ECall CkNormal t RsNoCheck)).
Proof.
  intros Hfresh [[later [Hd Hl]] Hn Hold Honly Hnew].
  destruct c as [ser nid pend tims done fault]. unfold pids in *.
  cbn [st_next_serial st_pending st_done st_next_id] in *.
  cbn [Calls.step]. unfold call_remote.
  cbn [st_next_id st_next_serial st_pending st_timers st_done st_fault].
  destruct (max_serial <? ser).
  - (* no serial left: the Deferred fails at once *)
    unfold complete. cbn [st_next_id st_next_serial st_pending st_timers st_done st_fault].
    constructor; unfold pids; cbn [st_done st_next_id st_pending].
    + exists (later ++ [(nid, OFailed)]). split; [rewrite Hd, app_assoc; reflexivity|].
      apply Forall_app. split.
      * apply (forall_weaken_id n nid (S nid)); [lia | exact Hl].
      * constructor; [cbn; split; [lia | reflexivity] | constructor].
    + lia.
    + exact Hold.
    + intros i H. destruct (Honly i H) as [H'|H']; [left; exact H' | right; lia].
    + intros i H. destruct (Nat.eq_dec i nid) as [->|Hne].
      * right. apply in_or_app. right. left. reflexivity.
      * destruct (Hnew i ltac:(lia)) as [H'|H']; [left; exact H' | right; apply in_or_app; left; exact H'].
  - assert (Epend : alist_set N.eqb ser (PCall nid (truthy_timeout t) RsNoCheck) pend =
                    pend ++ [(ser, PCall nid (truthy_timeout t) RsNoCheck)]).
    { apply alist_set_fresh. exact Hfresh. }
    assert (Epids : map (fun p : N * pcall => pc_id (snd p))
                        (alist_set N.eqb ser (PCall nid (truthy_timeout t) RsNoCheck) pend) =
                    map (fun p : N * pcall => pc_id (snd p)) pend ++ [nid]).
    { rewrite Epend, map_app. reflexivity. }
    destruct (truthy_timeout t); unfold set_pending, set_timers;
      cbn [st_next_id st_next_serial st_pending st_timers st_done st_fault];
      (constructor; unfold pids; cbn [st_done st_next_id st_pending];
       [ exists later; split; [exact Hd | apply (forall_weaken_id n nid (S nid)); [lia | exact Hl]]
       | lia
       | intros i H; rewrite Epids; apply in_or_app; left; apply Hold; exact H
       | intros i H; rewrite Epids in H; apply in_app_or in H as [H|[<-|[]]];
           [destruct (Honly i H) as [H'|H']; [left; exact H' | right; lia] | right; lia]
       | intros i H; rewrite Epids; destruct (Nat.eq_dec i nid) as [->|Hne];
           [left; apply in_or_app; right; left; reflexivity
           | destruct (Hnew i ltac:(lia)) as [H'|H']; [left; apply in_or_app; left; exact H' | right; exact H']] ]).
Qed.

Definition Mid (s0 : N) (n : nat) (c1 : Calls.state) (st : Connect.state) : Prop :=
  ReachC s0 (st_calls st) /\ Ext n c1 (st_calls st).

Lemma mid_exec s0 n c1 st a : Mid s0 n c1 st -> Mid s0 n c1 (exec st a).
Proof.
  intros [HR HE]. destruct (exec_calls st a) as [E|[t [-> E]]]; unfold Mid; rewrite E.
  - split; assumption.
  - split; [apply reach_step; exact HR|]. apply ext_call; [apply (reach_fresh s0); exact HR | exact HE].
Qed.

Lemma mid_phases s0 n c1 acts st r :
  Mid s0 n c1 st -> Mid s0 n c1 (proxy_phase acts (conn_phase acts st r) r).
Proof.
  intros H. apply (keep_proxy_phase (Mid s0 n c1)).
  - intros s l Hs. exact Hs.
  - intros s a Hs. apply mid_exec. exact Hs.
  - apply (keep_conn_phase (Mid s0 n c1)).
    + intros s l Hs. exact Hs.
    + intros s a Hs. apply mid_exec. exact Hs.
    + exact H.
Qed.

(* ------------------------------------------------------------------------ *)
(* 4. the loss of a ready connection with acting callbacks                     *)

Lemma filter_conn_registered dcbs objs :
  filter on_connection (map (fun cb : N => (OConn, cb)) dcbs ++ regs_of objs) =
  map (fun cb : N => (OConn, cb)) dcbs.
Proof.
  rewrite filter_app.
  assert (H1 : filter on_connection (map (fun cb : N => (OConn, cb)) dcbs) = map (fun cb : N => (OConn, cb)) dcbs).
  { apply filter_all_true. intros x Hx. apply in_map_iff in Hx as [cb [<- _]]. reflexivity. }
  assert (H2 : filter on_connection (regs_of objs) = []).
  { apply filter_all_false. intros x Hx. unfold regs_of in Hx. apply in_flat_map in Hx as [p [_ Hx]].
    apply in_map_iff in Hx as [cb [<- _]]. reflexivity. }
  rewrite H1, H2, app_nil_r. reflexivity.
Qed.

Lemma filter_proxy_registered dcbs objs :
  filter on_proxy (map (fun cb : N => (OConn, cb)) dcbs ++ regs_of objs) = regs_of objs.
Proof.
  rewrite filter_app.
  assert (H1 : filter on_proxy (map (fun cb : N => (OConn, cb)) dcbs) = []).
  { apply filter_all_false. intros x Hx. apply in_map_iff in Hx as [cb [<- _]]. reflexivity. }
  assert (H2 : filter on_proxy (regs_of objs) = regs_of objs).
  { apply filter_all_true. intros x Hx. unfold regs_of in Hx. apply in_flat_map in Hx as [p [_ Hx]].
    apply in_map_iff in Hx as [cb [<- _]]. reflexivity. }
  rewrite H1, H2. reflexivity.
Qed.

Lemma pofr_fst st a b c d : pofr st = (a, b, c, d) -> st_phase st = a.
Proof. unfold pofr. intros E. injection E as E _ _ _. exact E. Qed.

Lemma step_re_lost_ready acts st r :
  st_phase st = Ready -> st_open st = true ->
  step_re acts st (ECalls (ELost r)) = established_lost_re acts (set_open st false) r.
Proof.
  intros Hp Ho. cbn [step_re]. rewrite Ho. unfold connection_lost_re.
  assert (E : st_phase (set_open st false) = Ready) by exact Hp. rewrite E. reflexivity.
Qed.

Lemma loss_reentrant_step acts addr s0 pre r :
  st_phase (Connect.run addr s0 pre) = Ready ->
  let st1 := Connect.run addr s0 pre in
  let st2 := step_re acts st1 (ECalls (ELost r)) in
  loss_reentrant_ok r (snap st1) (snap (conn_phase acts (set_open st1 false) r)) (snap st2) /\
  Post (st_next_id (st_calls st2)) (st_done (st_calls st2)) (st_ran st2) (st_fired st2) st2.
Proof.
  intros Hph. cbv zeta. set (st1 := Connect.run addr s0 pre) in *.
  assert (G := good_run addr s0 pre). fold st1 in G. unfold Good in G. rewrite Hph in G.
  destruct G as [_ Hopen].
  destruct (run_quiet_until_dead addr s0 pre) as [Hran Hreg]. fold st1 in Hran, Hreg.
  assert (Hran0 : st_ran st1 = []) by (apply Hran; rewrite Hph; discriminate).
  destruct (calls_reachable addr s0 pre) as [cevs Hc]. fold st1 in Hc.
  rewrite (step_re_lost_ready acts st1 r Hph Hopen). unfold established_lost_re.
  set (st0 := set_open st1 false).
  set (stm := conn_phase acts st0 r).
  set (stp := proxy_phase acts stm r).
  assert (Hp0 : st_phase st0 <> HelloPending).
  { change (st_phase st0) with (st_phase st1). rewrite Hph. discriminate. }
  (* fields after the two phases *)
  assert (Em := conn_phase_pofr acts st0 r Hp0). fold stm in Em.
  assert (Hpm : st_phase stm <> HelloPending) by (rewrite (pofr_fst _ _ _ _ _ Em); exact Hp0).
  assert (Ep := proxy_phase_pofr acts stm r Hpm). fold stp in Ep.
  assert (Hpp : st_phase stp <> HelloPending) by (rewrite (pofr_fst _ _ _ _ _ Ep); exact Hpm).
  unfold pofr in Em, Ep. injection Em as Em1 Em2 Em3 Em4. injection Ep as Ep1 Ep2 Ep3 Ep4.
  assert (Hregm : all_reg (st_objs stm)) by (apply conn_phase_reg; exact Hreg).
  (* the call table after the two phases *)
  assert (HM : Mid s0 (st_next_id (st_calls st1)) (st_calls st1) stp).
  { apply mid_phases. split; [exists cevs; exact Hc | apply ext_refl]. }
  destruct HM as [[cevs' Hc'] [[later [Hd Hl]] Hn Hold Honly Hnew]].
  destruct (calls_lost_reachable s0 cevs' r) as (D1 & D2 & D3 & D4). cbv zeta in D1, D2, D3, D4.
  rewrite <- Hc' in D1, D2, D3, D4.
  set (c2 := Calls.connection_lost (st_calls stp) r).
  assert (Ec2 : c2 = Calls.step (st_calls stp) (ELost r)) by reflexivity.
  set (sta := deliver false stp c2).
  assert (Ea := deliver_pofr false stp c2 Hpp). fold sta in Ea.
  unfold pofr in Ea. injection Ea as Ea1 Ea2 Ea3 Ea4.
  assert (Eac : st_calls sta = c2) by apply deliver_calls.
  split.
  - unfold loss_reentrant_ok, snap.
    cbn [sn_outstanding sn_timers sn_registered sn_completed sn_ran sn_fired sn_issued
         set_phase st_calls st_ran st_fired st_dcbs st_objs].
    rewrite Eac, Ec2, Ea3, Ea4, Ep3, Ep4, Em3, Em4.
    change (st_fired st0) with (st_fired st1). change (st_ran st0) with (st_ran st1).
    change (st_dcbs st0) with (st_dcbs st1).
    fold (pids (st_calls st1)).
    repeat split.
    + unfold timer_serials. rewrite D3. reflexivity.
    + rewrite Hc', <- CallsProofs.run_snoc. apply at_most_once.
    + intros i Hi. rewrite D1. apply in_or_app. right.
      apply Hold in Hi. unfold pids in Hi. apply in_map_iff in Hi as [p [<- Hp]].
      apply in_map_iff. exists p. split; [reflexivity | exact Hp].
    + intros i Hi. rewrite D4 in Hi. rewrite D1.
      destruct (Hnew i Hi) as [H|H].
      * left. apply in_or_app. right. unfold pids in H. apply in_map_iff in H as [p [<- Hp]].
        apply in_map_iff. exists p. split; [reflexivity | exact Hp].
      * right. apply in_or_app. left. exact H.
    + exists (later ++ map (fun p => (pc_id (snd p), OLost r)) (st_pending (st_calls stp))).
      split; [rewrite D1, Hd, app_assoc; reflexivity|].
      intros x Hx. rewrite D4. apply in_app_or in Hx as [Hx|Hx].
      * right. rewrite Forall_forall in Hl. apply (Hl x Hx).
      * apply in_map_iff in Hx as [p [<- Hp]]. cbn [fst]. apply Honly.
        unfold pids. apply in_map_iff. exists p. split; [reflexivity | exact Hp].
    + exact Hran0.
    + rewrite Hran0. cbn [app].
      unfold expected_runs_reentrant. cbn [sn_registered].
      rewrite filter_conn_registered.
      change (map (fun cb : N => (OConn, cb)) (st_dcbs stm) ++
              flat_map (fun p : pobj => map (fun cb : N => (OProxy (po_req p), cb)) (po_cbs p)) (st_objs stm))
        with (map (fun cb : N => (OConn, cb)) (st_dcbs stm) ++ regs_of (st_objs stm)).
      rewrite filter_proxy_registered.
      unfold with_reason. rewrite map_app, map_map.
      rewrite (proxy_runs_all_reg _ r Hregm). apply Permutation_refl.
  - split.
    + unfold pofr. cbn [set_phase st_phase st_open st_fired st_ran]. rewrite Ea2, Ep2, Em2. reflexivity.
    + cbn [set_phase st_calls]. rewrite Eac, Ec2. unfold PostC. rewrite D2, D3.
      repeat split; try constructor.
      exists []. split; [rewrite app_nil_r; reflexivity | constructor].
Qed.

(* ------------------------------------------------------------------------ *)
(* 5. after the loss; the history before it                                    *)

Lemma step_re_closed acts st e : st_open st = false -> step_re acts st e = Connect.step st e.
Proof.
  intros Ho. destruct e as [| | | |ce|k key|o cb|o cb]; try reflexivity.
  destruct ce; try reflexivity. cbn [step_re]. unfold Connect.step, step_gen. rewrite Ho. reflexivity.
Qed.

Lemma post_open n d ran fired st : Post n d ran fired st -> st_open st = false.
Proof. intros [H _]. unfold pofr in H. injection H as _ H _ _. exact H. Qed.

Lemma post_run_re acts n d ran fired evs : forall st,
  Post n d ran fired st -> Post n d ran fired (fold_left (step_re acts) evs st).
Proof.
  induction evs as [|e evs IH]; intros st H; cbn [fold_left]; [exact H|].
  apply IH. rewrite (step_re_closed acts st e (post_open _ _ _ _ _ H)). apply post_step. exact H.
Qed.

Lemma established_lost_re_dead acts st r : st_phase (established_lost_re acts st r) = Dead.
Proof. reflexivity. Qed.

(* step_re is step, except when it handles the loss of an authenticated connection - which ends in Dead *)
Lemma step_re_cases acts st e :
  step_re acts st e = Connect.step st e \/ st_phase (step_re acts st e) = Dead.
Proof.
  destruct e as [| | | |ce|k key|o cb|o cb]; try (left; reflexivity).
  destruct ce; try (left; reflexivity). cbn [step_re].
  destruct (st_open st) eqn:Ho.
  - right. unfold connection_lost_re. destruct (st_phase (set_open st false)); reflexivity.
  - left. unfold Connect.step, step_gen. rewrite Ho. reflexivity.
Qed.

Lemma run_re_snoc acts addr s0 evs e :
  run_re acts addr s0 (evs ++ [e]) = step_re acts (run_re acts addr s0 evs) e.
Proof. unfold run_re. rewrite fold_left_app. reflexivity. Qed.

Lemma run_re_app acts addr s0 pre e post :
  run_re acts addr s0 (pre ++ e :: post) =
  fold_left (step_re acts) post (step_re acts (run_re acts addr s0 pre) e).
Proof. unfold run_re. rewrite fold_left_app. reflexivity. Qed.

Lemma dead_absorbing_re acts st e : st_phase st = Dead -> st_phase (step_re acts st e) = Dead.
Proof.
  intros H. destruct (step_re_cases acts st e) as [E|E]; [|exact E].
  rewrite E. apply dead_absorbing. exact H.
Qed.

(* as long as the connection has not died the callbacks have not run: both models are one *)
Lemma run_re_alive acts addr s0 evs :
  st_phase (run_re acts addr s0 evs) <> Dead -> run_re acts addr s0 evs = Connect.run addr s0 evs.
Proof.
  induction evs as [|e evs IH] using rev_ind; [reflexivity|].
  rewrite run_re_snoc, connect_run_snoc. intros Hnd.
  assert (Hprev : st_phase (run_re acts addr s0 evs) <> Dead).
  { intros Hd. apply Hnd. apply dead_absorbing_re. exact Hd. }
  rewrite (IH Hprev) in *.
  destruct (step_re_cases acts (Connect.run addr s0 evs) e) as [E|E]; [exact E | contradiction].
Qed.

Lemma loss_reentrant acts addr s0 pre r post :
  st_phase (run_re acts addr s0 pre) = Ready ->
  loss_reentrant_ok r (snap (run_re acts addr s0 pre))
                      (snap (conn_phase acts (set_open (run_re acts addr s0 pre) false) r))
                      (snap (run_re acts addr s0 (pre ++ [ECalls (ELost r)]))) /\
  quiet (snap (run_re acts addr s0 (pre ++ [ECalls (ELost r)])))
        (snap (run_re acts addr s0 (pre ++ ECalls (ELost r) :: post))).
Proof.
  intros Hph.
  assert (Eq : run_re acts addr s0 pre = Connect.run addr s0 pre).
  { apply run_re_alive. rewrite Hph. discriminate. }
  rewrite run_re_snoc, run_re_app, Eq. rewrite Eq in Hph.
  destruct (loss_reentrant_step acts addr s0 pre r Hph) as [H1 P2]. cbv zeta in H1, P2.
  split; [exact H1|].
  set (st2 := step_re acts (Connect.run addr s0 pre) (ECalls (ELost r))) in *.
  destruct (post_run_re acts _ _ _ _ post st2 P2) as [Q1 ([later [Q2 Q3]] & _)].
  unfold pofr in Q1. injection Q1 as _ _ Q1f Q1r.
  unfold quiet, snap. cbn [sn_ran sn_fired sn_completed sn_issued].
  split; [exact Q1r|]. split; [exact Q1f|]. exists later. split; assumption.
Qed.

(* ------------------------------------------------------------------------ *)
(* 6. passive callbacks are the special case                                   *)

Lemma on_completion_set_ran l13 st x ran :
  on_completion l13 (set_ran st ran) x = set_ran (on_completion l13 st x) ran.
Proof.
  unfold on_completion. destruct (fst x).
  - unfold hello_done. cbn [set_ran st_phase]. destruct (st_phase st); try reflexivity.
    destruct (snd x) as [v| | | | |]; reflexivity.
  - cbn [set_ran st_intro]. destruct (alist_get Nat.eqb (S n) (st_intro st)) as [[[q key] parses]|]; [|reflexivity].
    unfold intro_done. destruct (snd x) as [[[z|s|l]|]|? ? ?| | | |]; try reflexivity.
    destruct parses; reflexivity.
Qed.

Lemma deliver_set_ran l13 st c ran : deliver l13 (set_ran st ran) c = set_ran (deliver l13 st c) ran.
Proof.
  unfold deliver. cbn [set_ran st_calls].
  change (set_calls (set_ran st ran) c) with (set_ran (set_calls st c) ran).
  generalize (skipn (length (st_done (st_calls st))) (st_done c)) as l.
  generalize (set_calls st c) as s. intros s l. revert s.
  induction l as [|x l IH]; intros s; cbn [fold_left]; [reflexivity|].
  rewrite on_completion_set_ran. apply IH.
Qed.

Lemma lose_done_general r l : forall c,
  st_done (fold_left (lose_one r) l c) = st_done c ++ map (fun e => (pc_id (snd e), OLost r)) l.
Proof.
  induction l as [|e l IH]; intros c; cbn [fold_left map]; [rewrite app_nil_r; reflexivity|].
  rewrite IH.
  assert (E : st_done (lose_one r c e) = st_done c ++ [(pc_id (snd e), OLost r)]).
  { unfold lose_one. cbn [complete st_done]. f_equal.
    destruct (pc_timer (snd e)); [|reflexivity]. unfold cancel_timer.
    destruct (find_timer (fst e) (st_timers c)); reflexivity. }
  rewrite E, <- app_assoc. reflexivity.
Qed.

Lemma deliver_lost_objs st r : st_objs (deliver false st (Calls.connection_lost (st_calls st) r)) = st_objs st.
Proof.
  unfold deliver. rewrite (fold_objs_lost false r); [reflexivity|].
  unfold Calls.connection_lost. cbn [set_pending st_done]. rewrite lose_done_general, skipn_app_exact.
  apply Forall_forall. intros x Hx. apply in_map_iff in Hx as [p [<- _]]. reflexivity.
Qed.

Lemma passive_callbacks r o l : forall st,
  fold_left (run_callback no_actions r o) l st = set_ran st (st_ran st ++ runs o l r).
Proof.
  induction l as [|cb l IH]; intros st; cbn [fold_left runs map].
  - rewrite app_nil_r. destruct st; reflexivity.
  - rewrite IH. unfold run_callback, no_actions. cbn [fold_left set_ran st_ran].
    rewrite <- app_assoc. destruct st; reflexivity.
Qed.

Lemma passive_proxies r L : forall st,
  fold_left (fun st p => if po_reg p
                         then fold_left (run_callback no_actions r (OProxy (po_req p))) (po_cbs p) st
                         else st) L st =
  set_ran st (st_ran st ++ proxy_runs L r).
Proof.
  induction L as [|p L IH]; intros st; cbn [fold_left].
  - unfold proxy_runs. cbn [flat_map]. rewrite app_nil_r. destruct st; reflexivity.
  - unfold proxy_runs. cbn [flat_map]. fold (proxy_runs L r). destruct (po_reg p).
    + rewrite passive_callbacks, IH. cbn [set_ran st_ran]. rewrite <- app_assoc. destruct st; reflexivity.
    + apply IH.
Qed.

Lemma established_lost_passive st r : established_lost_re no_actions st r = established_lost false st r.
Proof.
  unfold established_lost_re, established_lost, conn_phase, proxy_phase.
  rewrite passive_callbacks.
  set (stA := set_ran st (st_ran st ++ runs OConn (st_dcbs st) r)).
  rewrite passive_proxies.
  change (st_calls (set_ran stA (st_ran stA ++ proxy_runs (st_objs stA) r))) with (st_calls stA).
  rewrite deliver_set_ran. f_equal.
  rewrite (deliver_ran false stA), (deliver_lost_objs stA r).
  reflexivity.
Qed.

Lemma step_re_passive st e : step_re no_actions st e = Connect.step st e.
Proof.
  destruct e as [| | | |ce|k key|o cb|o cb]; try reflexivity.
  destruct ce; try reflexivity. cbn [step_re]. unfold Connect.step, step_gen.
  destruct (st_open st); [|reflexivity].
  unfold connection_lost_re, connection_lost.
  destruct (st_phase (set_open st false)); try reflexivity; apply established_lost_passive.
Qed.

Lemma run_re_passive addr s0 evs : run_re no_actions addr s0 evs = Connect.run addr s0 evs.
Proof.
  unfold run_re, Connect.run. generalize (Connect.init addr s0) as st. induction evs as [|e evs IH]; intros st.
  - reflexivity.
  - cbn [fold_left]. rewrite step_re_passive. apply IH.
Qed.

(* ------------------------------------------------------------------------ *)
(* 7. corollaries                                                              *)

Lemma exec_regs_untouched st a :
  touches_proxy [a] = false -> regs_of (st_objs (exec st a)) = regs_of (st_objs st).
Proof.
  intros H. destruct a as [t|[|q] cb|[|q] cb|key [cb|]]; cbn [exec]; try discriminate H.
  - unfold calls_step. apply deliver_regs.
  - reflexivity.
  - unfold cancel. destruct (mem cb (st_dcbs st)); reflexivity.
  - unfold get_object. cbn [set_objdone set_objs st_objs set_nreq]. apply regs_of_snoc_empty.
Qed.

Lemma fold_exec_regs_untouched l : forall st,
  touches_proxy l = false -> regs_of (st_objs (fold_left exec l st)) = regs_of (st_objs st).
Proof.
  induction l as [|a l IH]; intros st H; cbn [fold_left]; [reflexivity|].
  cbn [touches_proxy existsb] in H. apply orb_false_iff in H as [Ha Hl].
  rewrite IH by exact Hl. apply exec_regs_untouched. cbn [touches_proxy existsb]. rewrite Ha. reflexivity.
Qed.

Lemma conn_callbacks_regs_untouched acts r l : forall st,
  (forall cb, In cb l -> touches_proxy (acts cb) = false) ->
  regs_of (st_objs (fold_left (run_callback acts r OConn) l st)) = regs_of (st_objs st).
Proof.
  induction l as [|cb l IH]; intros st H; cbn [fold_left]; [reflexivity|].
  rewrite IH by (intros c Hc; apply H; right; exact Hc).
  unfold run_callback. rewrite fold_exec_regs_untouched by (apply H; left; reflexivity). reflexivity.
Qed.

(* if the connection-level callbacks leave the proxies' callback lists alone, every callback registered
   at the loss - connection or proxy - runs exactly once, and only those *)
Lemma loss_reentrant_all_registered acts addr s0 pre r :
  st_phase (run_re acts addr s0 pre) = Ready ->
  (forall cb, In cb (st_dcbs (run_re acts addr s0 pre)) -> touches_proxy (acts cb) = false) ->
  Permutation (sn_ran (snap (run_re acts addr s0 (pre ++ [ECalls (ELost r)]))))
              (expected_runs r (snap (run_re acts addr s0 pre))).
Proof.
  intros Hph Hno. destruct (loss_reentrant acts addr s0 pre r [] Hph) as [H _].
  destruct H as (_ & _ & _ & _ & _ & _ & _ & Hperm & _).
  eapply perm_trans; [exact Hperm|].
  unfold expected_runs_reentrant, expected_runs, with_reason.
  set (st1 := run_re acts addr s0 pre) in *.
  rewrite !registered_eq. rewrite filter_conn_registered, filter_proxy_registered.
  unfold conn_phase.
  rewrite (conn_callbacks_regs_untouched acts r (st_dcbs (set_open st1 false)) (set_open st1 false)) by exact Hno.
  apply Permutation_refl.
Qed.

(* a connection-level callback runs only if it was registered when the loss began: one that a callback
   registers while the loss is handled does not run (and by [quiet] never will) *)
Lemma conn_callback_ran_was_registered acts addr s0 pre r cb r' :
  st_phase (run_re acts addr s0 pre) = Ready ->
  In (OConn, cb, r') (sn_ran (snap (run_re acts addr s0 (pre ++ [ECalls (ELost r)])))) ->
  In cb (st_dcbs (run_re acts addr s0 pre)) /\ r' = r.
Proof.
  intros Hph Hin. destruct (loss_reentrant acts addr s0 pre r [] Hph) as [H _].
  destruct H as (_ & _ & _ & _ & _ & _ & _ & Hperm & _).
  apply (Permutation_in _ Hperm) in Hin.
  unfold expected_runs_reentrant, with_reason in Hin.
  apply in_map_iff in Hin as [[o c] [E Hin]]. cbn [fst snd] in E. injection E as -> -> ->.
  split; [|reflexivity].
  apply in_app_or in Hin as [Hin|Hin].
  - rewrite registered_eq, filter_conn_registered in Hin.
    apply in_map_iff in Hin as [c [E Hc]]. injection E as ->. exact Hc.
  - apply filter_In in Hin as [_ Hf]. discriminate Hf.
Qed.

(* which proxy-level callbacks run: exactly those on the proxies that exist when the connection-level
   callbacks have finished, with the callback lists they have then.  So a proxy created by a
   connection-level callback during the loss is notified, one created by a proxy-level callback is not. *)
Lemma proxy_callback_ran_iff acts addr s0 pre r q cb r' :
  st_phase (run_re acts addr s0 pre) = Ready ->
  In (OProxy q, cb, r') (sn_ran (snap (run_re acts addr s0 (pre ++ [ECalls (ELost r)])))) <->
  r' = r /\ exists p, In p (st_objs (conn_phase acts (set_open (run_re acts addr s0 pre) false) r)) /\
                      po_req p = q /\ In cb (po_cbs p).
Proof.
  intros Hph. destruct (loss_reentrant acts addr s0 pre r [] Hph) as [H _].
  destruct H as (_ & _ & _ & _ & _ & _ & _ & Hperm & _).
  set (m := conn_phase acts (set_open (run_re acts addr s0 pre) false) r) in *.
  assert (Hexp : In (OProxy q, cb, r')
                    (expected_runs_reentrant r (snap (run_re acts addr s0 pre)) (snap m)) <->
                 r' = r /\ In (OProxy q, cb) (regs_of (st_objs m))).
  { unfold expected_runs_reentrant, with_reason. rewrite in_map_iff. split.
    - intros [[o c] [E Hin]]. cbn [fst snd] in E. injection E as -> -> ->. split; [reflexivity|].
      apply in_app_or in Hin as [Hin|Hin].
      + apply filter_In in Hin as [_ Hf]. discriminate Hf.
      + rewrite registered_eq, filter_proxy_registered in Hin. exact Hin.
    - intros [-> Hin]. exists (OProxy q, cb). split; [reflexivity|].
      apply in_or_app. right. rewrite registered_eq, filter_proxy_registered. exact Hin. }
  assert (Hregs : In (OProxy q, cb) (regs_of (st_objs m)) <->
                  exists p, In p (st_objs m) /\ po_req p = q /\ In cb (po_cbs p)).
  { unfold regs_of. rewrite in_flat_map. split.
    - intros [p [Hp Hin]]. apply in_map_iff in Hin as [c [E Hc]]. injection E as <- <-.
      exists p. repeat split; assumption.
    - intros [p [Hp [<- Hc]]]. exists p. split; [exact Hp|]. apply in_map_iff. exists cb. split; [reflexivity | exact Hc]. }
  split.
  - intros Hin. apply (Permutation_in _ Hperm) in Hin. apply Hexp in Hin as [E Hin].
    split; [exact E | apply Hregs; exact Hin].
  - intros [E Hp]. apply (Permutation_in _ (Permutation_sym Hperm)). apply Hexp.
    split; [exact E | apply Hregs; exact Hp].
Qed.
