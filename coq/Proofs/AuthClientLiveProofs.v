(* The handshake of the client model against the specification's reference
   server completes, for every configuration of the server, both transports,
   every user name, every source of client challenges and every hash function
   (whose outputs are byte strings without a space).

   Configurations in which the client never answers a DBUS_COOKIE_SHA1 challenge
   are decided by vm_compute with the oracles left abstract.  In the others the
   run is computed up to the challenge, the two symbolic steps (the client's
   answer, the server's check) are done by lemmas, and the rest is computed. *)
From Tx Require Import Lib.Base Lib.Sexp Model.AuthClient Spec.AuthClientSpec Model.AuthClientLoop.
Local Open Scope N_scope.

(* a byte string without a space: what a hex digest or a hex challenge is *)
Definition wire_token (l : bytes) : Prop := Forall (fun c => c < 256 /\ c <> 32) l.

(* --- hex round trip ---------------------------------------------------------- *)
Lemma hexval_hexdigit v : v < 16 -> hexval (hexdigit v) = Some v.
Proof.
  intros H.
  assert (C : v = 0 \/ v = 1 \/ v = 2 \/ v = 3 \/ v = 4 \/ v = 5 \/ v = 6 \/ v = 7 \/ v = 8 \/ v = 9 \/
              v = 10 \/ v = 11 \/ v = 12 \/ v = 13 \/ v = 14 \/ v = 15) by lia.
  repeat (destruct C as [->|C]; [reflexivity|]). subst. reflexivity.
Qed.

Lemma unhex_hex_chars x : Forall (fun c => c < 256) x -> unhex (hex_chars x) = Some x.
Proof.
  induction 1 as [|c r Hc Hr IH]; [reflexivity|].
  cbn [hex_chars unhex].
  assert (D : c / 16 < 16) by (apply N.div_lt_upper_bound; lia).
  assert (M : c mod 16 < 16) by (apply N.mod_lt; lia).
  rewrite (hexval_hexdigit _ D), (hexval_hexdigit _ M), IH.
  f_equal. f_equal. rewrite N.mul_comm. symmetry. apply N.div_mod. lia.
Qed.

(* --- splitting the response at its space ------------------------------------- *)
Lemma split_on_no_sep b : Forall (fun c => c <> 32) b -> split_on 32 b = [b].
Proof.
  induction 1 as [|c r Hc Hr IH]; [reflexivity|].
  cbn [split_on]. apply N.eqb_neq in Hc. rewrite Hc, IH. reflexivity.
Qed.

Lemma split_on_two a b :
  Forall (fun c => c <> 32) a -> Forall (fun c => c <> 32) b ->
  split_on 32 (a ++ 32 :: b) = [a; b].
Proof.
  intros Ha Hb. induction Ha as [|c r Hc Hr IH].
  - cbn [app split_on]. rewrite N.eqb_refl, (split_on_no_sep b Hb). reflexivity.
  - cbn [app split_on]. apply N.eqb_neq in Hc. rewrite Hc, IH. reflexivity.
Qed.

Lemma token_bytes l : wire_token l -> Forall (fun c => c < 256) l.
Proof. intros H. eapply Forall_impl; [|exact H]. cbn. tauto. Qed.

Lemma token_nosp l : wire_token l -> Forall (fun c => c <> 32) l.
Proof. intros H. eapply Forall_impl; [|exact H]. cbn. tauto. Qed.

Section Live.
  Variable user : bytes.
  Variable nonce : nat -> bytes.
  Variable sha1hex : bytes -> bytes.
  Hypothesis nonce_token : forall k, wire_token (nonce k).
  Hypothesis sha_token : forall x, wire_token (sha1hex x).

  Notation h := (handle user shared_keyring nonce sha1hex).

  (* the client's answer to the reference server's challenge, number k *)
  Definition answer (k : nat) : bytes :=
    s_DATA ++ [32] ++ hexlify (nonce k ++ [32] ++ sha1hex (srv_challenge ++ [58] ++ nonce k ++ [58] ++ srv_cookie)).

  Lemma server_accepts_answer cfg k :
    server_step sha1hex cfg (SWaitData m_DBUS_COOKIE_SHA1) (CLine (answer k)) = (SWaitBegin, [ok_reply]).
  Proof.
    unfold answer, server_step.
    change (word (s_DATA ++ [32] ++ ?x)) with w_DATA.
    change (str_eqb w_DATA w_DATA) with true. cbv iota.
    change (args_or_empty (s_DATA ++ [32] ++ ?x)) with x.
    unfold continue_mechanism. change (str_eqb m_DBUS_COOKIE_SHA1 m_DBUS_COOKIE_SHA1) with true. cbv iota.
    unfold cookie_response_ok, hexlify.
    rewrite unhex_hex_chars.
    2:{ apply Forall_app. split; [apply token_bytes, nonce_token|].
        constructor; [reflexivity | apply token_bytes, sha_token]. }
    change (nonce k ++ [32] ++ ?r) with (nonce k ++ 32 :: r).
    rewrite split_on_two; [|apply token_nosp, nonce_token | apply token_nosp, sha_token].
    change (srv_challenge ++ [58] ++ nonce k ++ [58] ++ srv_cookie)
      with (srv_challenge ++ 58 :: nonce k ++ 58 :: srv_cookie).
    rewrite str_eqb_refl. reflexivity.
  Qed.

  Lemma iterate_add cfg a : forall b y,
    iterate sha1hex h cfg (a + b) y = iterate sha1hex h cfg b (iterate sha1hex h cfg a y).
  Proof. induction a as [|a IH]; intros b y; [reflexivity|]. cbn [Nat.add iterate]. apply IH. Qed.

  Notation run cfg unix := (completed (handshake user sha1hex h cfg unix 40)).

  (* configurations where the client's first accepted mechanism is the cookie one *)
  Definition cookie_first (c : server_cfg) : bool :=
    negb (existsb (str_eqb m_EXTERNAL) (accepted c)) && existsb (str_eqb m_DBUS_COOKIE_SHA1) (accepted c).

  Lemma easy_cfgs :
    forallb (fun c => run c true && run c false) (filter (fun c => negb (cookie_first c)) all_cfgs) = true.
  Proof. vm_compute. reflexivity. Qed.

  (* the state in which the cookie challenge has just been answered by the server's OK *)
  Definition after_ok (cfg : server_cfg) (unix : bool) : sys :=
    mk_sys (mk_pst (mk_cst unix [s_ANONYMOUS] s_COOKIE None false false 1) false false)
           SWaitBegin [] [ok_reply].

  Lemma to_after_ok cfg unix :
    cookie_first cfg = true -> In cfg all_cfgs ->
    iterate sha1hex h cfg 6 (sys_init user unix) = after_ok cfg unix.
  Proof.
    intros CF I.
    assert (S4 : iterate sha1hex h cfg 4 (sys_init user unix) =
                 mk_sys (mk_pst (mk_cst unix [s_ANONYMOUS] s_COOKIE None false false 0) false false)
                        (SWaitData m_DBUS_COOKIE_SHA1) [] [cookie_challenge]).
    { vm_compute in I.
      repeat (destruct I as [<-|I]; [first [discriminate CF | destruct unix; vm_compute; reflexivity]|]).
      destruct I. }
    change 6%nat with (4 + 2)%nat. rewrite iterate_add, S4.
    assert (S5 : sys_step sha1hex h cfg
                   (mk_sys (mk_pst (mk_cst unix [s_ANONYMOUS] s_COOKIE None false false 0) false false)
                           (SWaitData m_DBUS_COOKIE_SHA1) [] [cookie_challenge]) =
                 mk_sys (mk_pst (mk_cst unix [s_ANONYMOUS] s_COOKIE None false false 1) false false)
                        (SWaitData m_DBUS_COOKIE_SHA1) [Send (answer 0)] []).
    { destruct unix; vm_compute; reflexivity. }
    cbn [iterate]. rewrite S5.
    unfold sys_step. cbn [y_to_c y_to_s y_c y_s]. rewrite server_accepts_answer. reflexivity.
  Qed.

  Lemma from_after_ok :
    forallb (fun c => completed (iterate sha1hex h c 34 (after_ok c true)) &&
                      completed (iterate sha1hex h c 34 (after_ok c false))) all_cfgs = true.
  Proof. vm_compute. reflexivity. Qed.

  Theorem completes cfg unix :
    In cfg all_cfgs -> completed (handshake user sha1hex h cfg unix 40) = true.
  Proof.
    intros I. destruct (cookie_first cfg) eqn:CF.
    - unfold handshake. change 40%nat with (6 + 34)%nat.
      rewrite iterate_add, (to_after_ok cfg unix CF I).
      pose proof from_after_ok as F. rewrite forallb_forall in F. specialize (F cfg I).
      apply andb_true_iff in F as [F1 F2]. destruct unix; assumption.
    - pose proof easy_cfgs as E. rewrite forallb_forall in E.
      assert (J : In cfg (filter (fun c => negb (cookie_first c)) all_cfgs)).
      { apply filter_In. split; [exact I | rewrite CF; reflexivity]. }
      specialize (E cfg J). apply andb_true_iff in E as [E1 E2]. destruct unix; assumption.
  Qed.
End Live.
