(* The shared cookie file under interleaved exchanges (Model/CookieStore.v):
   ids stay pairwise distinct, every exchange in progress finds its own cookie
   under its id, hence the conforming client is accepted whatever overlaps. *)
From Tx Require Import Lib.Base Model.AuthText Model.AuthServer Model.CookieStore Proofs.AuthProofs.
Local Open Scope N_scope.

(* ----- _create_cookie's id is larger than every id in the file ------------------ *)
Lemma next_id_fold l : forall acc,
  acc <= fold_left (fun a i => if a <=? i then i + 1 else a) l acc /\
  forall i, In i l -> i < fold_left (fun a i => if a <=? i then i + 1 else a) l acc.
Proof.
  induction l as [|x l IH]; intros acc; cbn [fold_left].
  - split; [apply N.le_refl|intros i []].
  - destruct (IH (if acc <=? x then x + 1 else acc)) as [H1 H2].
    assert (Hx : acc <= (if acc <=? x then x + 1 else acc) /\ x < (if acc <=? x then x + 1 else acc)).
    { destruct (N.leb_spec acc x); lia. }
    split; [lia|]. intros i [<-|Hi]; [lia|apply H2; exact Hi].
Qed.

Lemma next_id_fresh l i : In i l -> i < next_id l.
Proof. intros H. unfold next_id. apply (next_id_fold l 1). exact H. Qed.

(* ----- list facts ---------------------------------------------------------------- *)
Lemma delete_id_incl i st e : In e (delete_id i st) -> In e st.
Proof.
  induction st as [|[j k] r IH]; cbn; [tauto|].
  destruct (j =? i); [intros H; right; exact H|]. intros [H|H]; [left; exact H|right; apply IH; exact H].
Qed.

Lemma delete_id_other i st j k : In (j, k) st -> j <> i -> In (j, k) (delete_id i st).
Proof.
  induction st as [|[j' k'] r IH]; cbn; [tauto|]. intros [H|H] Hne.
  - inversion H; subst. destruct (N.eqb_spec j i); [congruence|left; reflexivity].
  - destruct (j' =? i); [exact H|right; apply IH; assumption].
Qed.

Lemma delete_id_nodup i st : NoDup (ids st) -> NoDup (ids (delete_id i st)).
Proof.
  induction st as [|[j k] r IH]; cbn; [trivial|]. intros H. inversion H as [|? ? Hn Hr]; subst.
  destruct (j =? i); [exact Hr|]. cbn. constructor; [|apply IH; exact Hr].
  intros Hin. apply Hn. unfold ids in *. apply in_map_iff in Hin as ([j' k'] & E & Hin). cbn in E; subst.
  apply in_map_iff. exists (j, k'). split; [reflexivity|]. eapply delete_id_incl; exact Hin.
Qed.

Lemma lookup_nodup i k st : NoDup (ids st) -> In (i, k) st -> lookup i st = Some k.
Proof.
  induction st as [|[j k'] r IH]; cbn; [tauto|]. intros H Hin. inversion H as [|? ? Hn Hr]; subst.
  destruct Hin as [E|Hin].
  - inversion E; subst. rewrite N.eqb_refl. reflexivity.
  - destruct (N.eqb_spec j i) as [->|_]; [|apply IH; assumption].
    exfalso. apply Hn. unfold ids. apply in_map_iff. exists (i, k). split; [reflexivity|exact Hin].
Qed.

Lemma NoDup_app_fresh (l : list N) x : NoDup l -> ~ In x l -> NoDup (l ++ [x]).
Proof.
  induction 1 as [|y l Hy Hl IH]; intros Hx; cbn.
  - constructor; [intros []|constructor].
  - constructor.
    + intros Hin. apply in_app_or in Hin as [Hin|[E|[]]]; [apply Hy; exact Hin|].
      apply Hx. left. symmetry. exact E.
    + apply IH. intros Hin. apply Hx. right. exact Hin.
Qed.

Section Proofs.
  Variable cookie : nat -> bytes.
  Variable chal : nat -> bytes.
  Variable sha1hex : bytes -> bytes.

  Notation step := (step alloc_max cookie chal sha1hex).
  Notation run := (run alloc_max cookie chal sha1hex).

  (* the invariant: distinct ids in the file; an exchange in progress has its line in
     the file; two connections never hold the same id *)
  Definition inv (s : sys) : Prop :=
    NoDup (ids (k_store s)) /\
    (forall c x, k_held s c = Some x -> In (x_id x, x_cookie x) (k_store s)) /\
    (forall c1 c2 x1 x2, k_held s c1 = Some x1 -> k_held s c2 = Some x2 ->
                         x_id x1 = x_id x2 -> c1 = c2).

  Lemma upd_same f c v : upd f c v c = v.
  Proof. unfold upd. rewrite Nat.eqb_refl. reflexivity. Qed.

  Lemma upd_other f c v c' : c' <> c -> upd f c v c' = f c'.
  Proof. intros H. unfold upd. apply Nat.eqb_neq in H. rewrite H. reflexivity. Qed.

  Lemma held_upd_none f c c' x : upd f c None c' = Some x -> c' <> c /\ f c' = Some x.
  Proof.
    unfold upd. destruct (Nat.eqb_spec c' c); [discriminate|]. intros H; split; assumption.
  Qed.

  (* removing the line of connection c keeps the invariant *)
  Lemma inv_delete s c x :
    inv s -> k_held s c = Some x ->
    inv {| k_store := delete_id (x_id x) (k_store s); k_held := upd (k_held s) c None;
           k_made := k_made s |}.
  Proof.
    intros (I1 & I2 & I3) Hc. split; [|split]; cbn.
    - apply delete_id_nodup; exact I1.
    - intros c' x' H. apply held_upd_none in H as [Hne H].
      apply delete_id_other; [apply (I2 c'); exact H|].
      intros E. apply Hne. apply (I3 c' c x' x H Hc E).
    - intros c1 c2 x1 x2 H1 H2 E.
      apply held_upd_none in H1 as [_ H1]. apply held_upd_none in H2 as [_ H2].
      apply (I3 c1 c2 x1 x2 H1 H2 E).
  Qed.

  Lemma inv_step s e : inv s -> inv (fst (step s e)).
  Proof.
    intros Hi. pose proof Hi as (I1 & I2 & I3). destruct e as [c|c resp|c|c]; cbn [CookieStore.step].
    - (* Start *)
      destruct (k_held s c) eqn:Hc; [exact Hi|]. cbn [fst].
      set (i := alloc_max (k_store s)).
      assert (Hfresh : forall j, In j (ids (k_store s)) -> j < i) by (intros j Hj; apply next_id_fresh; exact Hj).
      split; [|split]; cbn.
      + unfold ids. rewrite map_app. cbn. apply NoDup_app_fresh; [exact I1|].
        intros Hin. apply Hfresh in Hin. lia.
      + intros c' x' H. unfold upd in H. destruct (Nat.eqb_spec c' c).
        * inversion H; subst. cbn. apply in_or_app. right. left. reflexivity.
        * apply in_or_app. left. apply (I2 c'); exact H.
      + intros c1 c2 x1 x2 H1 H2 E. unfold upd in H1, H2.
        destruct (Nat.eqb_spec c1 c), (Nat.eqb_spec c2 c); subst; try reflexivity.
        * inversion H1; subst. cbn in E. exfalso.
          assert (Hin : In (x_id x2) (ids (k_store s))).
          { unfold ids. apply in_map_iff. exists (x_id x2, x_cookie x2). split; [reflexivity|apply (I2 c2); exact H2]. }
          apply Hfresh in Hin. fold i in E. lia.
        * inversion H2; subst. cbn in E. exfalso.
          assert (Hin : In (x_id x1) (ids (k_store s))).
          { unfold ids. apply in_map_iff. exists (x_id x1, x_cookie x1). split; [reflexivity|apply (I2 c1); exact H1]. }
          apply Hfresh in Hin. fold i in E. lia.
        * apply (I3 c1 c2 x1 x2 H1 H2 E).
    - destruct (k_held s c) eqn:Hc; [|exact Hi]. cbn [fst]. apply inv_delete; assumption.
    - destruct (k_held s c) eqn:Hc; [|exact Hi]. cbn [fst]. apply inv_delete; assumption.
    - cbn [fst]. split; [|split]; cbn.
      + exact I1.
      + intros c' x' H. apply held_upd_none in H as [_ H]. apply (I2 c'); exact H.
      + intros c1 c2 x1 x2 H1 H2 E.
        apply held_upd_none in H1 as [_ H1]. apply held_upd_none in H2 as [_ H2].
        apply (I3 c1 c2 x1 x2 H1 H2 E).
  Qed.

  Lemma inv_run evs : forall s, inv s -> inv (run s evs).
  Proof.
    induction evs as [|e r IH]; intros s Hi; [exact Hi|]. cbn. apply IH. apply inv_step. exact Hi.
  Qed.

  Lemma inv_sys0 st : NoDup (ids st) -> inv (sys0 st).
  Proof.
    intros H. split; [exact H|]. split; [intros c x X; discriminate|intros c1 c2 x1 x2 X; discriminate].
  Qed.

  (* whatever is in the file at the start (distinct ids), whatever the interleaving *)
  Theorem ids_distinct st evs :
    NoDup (ids st) -> NoDup (ids (k_store (run (sys0 st) evs))).
  Proof. intros H. apply (inv_run evs (sys0 st) (inv_sys0 st H)). Qed.

  Theorem holder_reads_own st evs c x :
    NoDup (ids st) -> k_held (run (sys0 st) evs) c = Some x ->
    lookup (x_id x) (k_store (run (sys0 st) evs)) = Some (x_cookie x) /\
    forall c' x', k_held (run (sys0 st) evs) c' = Some x' -> x_id x' = x_id x -> c' = c.
  Proof.
    intros H Hc. destruct (inv_run evs (sys0 st) (inv_sys0 st H)) as (I1 & I2 & I3).
    split; [apply lookup_nodup; [exact I1|apply (I2 c); exact Hc]|].
    intros c' x' Hc' E. apply (I3 c' c x' x Hc' Hc E).
  Qed.

  (* the conforming client of an exchange in progress is accepted *)
  Theorem accepts_concurrent st evs c x cc :
    NoDup (ids st) ->
    let s := run (sys0 st) evs in
    k_held s c = Some x ->
    is_token cc -> is_token (sha1hex (colon (x_chal x) (colon cc (x_cookie x)))) ->
    snd (step s (Finish c (client_response sha1hex (k_store s) x cc))) = Some VOk.
  Proof.
    intros H s Hc (C1 & C2 & _) (H1 & H2 & _).
    destruct (holder_reads_own st evs c x H Hc) as [Hl _]. fold s in Hl.
    destruct (inv_run evs (sys0 st) (inv_sys0 st H)) as (_ & I2 & _). fold s in I2.
    pose proof (I2 c x Hc) as Hin.
    assert (Hm : forall (a b : verdict), match k_store s with [] => a | _ :: _ => b end = b).
    { intros a b. revert Hin. destruct (k_store s); [intros []|reflexivity]. }
    cbn [CookieStore.step]. rewrite Hc. cbn [snd]. rewrite Hm.
    unfold client_response, check. rewrite Hl.
    rewrite split_ws_sp by assumption. rewrite split_ws_token by assumption.
    rewrite str_eqb_refl. reflexivity.
  Qed.
End Proofs.

(* ----- the seeded variant: ids from the number of lines ---------------------------- *)
(* A starts, B starts, A finishes, C starts: C is given B's id; C's conforming client
   reads B's cookie and is rejected.  (cookie n = [107; n], challenge n = [99; n],
   "SHA-1" = identity with a prefix.) *)
Definition w_cookie (n : nat) : bytes := [107; N.of_nat n + 48].
Definition w_chal (n : nat) : bytes := [99; N.of_nat n + 48].
Definition w_sha (x : bytes) : bytes := 104 :: x.
Definition w_events : list sev :=
  [Start 0; Start 1; Finish 0 (sp [97] (w_sha (colon (w_chal 0) (colon [97] (w_cookie 0))))); Start 2].

Lemma len_alloc_collides :
  let s := run alloc_len w_cookie w_chal w_sha (sys0 []) w_events in
  ids (k_store s) = [2; 2] /\
  (exists x, k_held s 2%nat = Some x /\ x_cookie x = w_cookie 2 /\
             lookup (x_id x) (k_store s) = Some (w_cookie 1) /\
             snd (step alloc_len w_cookie w_chal w_sha s
                       (Finish 2 (client_response w_sha (k_store s) x [97]))) = Some VReject) /\
  let s' := run alloc_max w_cookie w_chal w_sha (sys0 []) w_events in
  ids (k_store s') = [2; 3].
Proof.
  vm_compute. split; [reflexivity|]. split; [|reflexivity].
  eexists. repeat split; reflexivity.
Qed.
