(* Proofs for C12: the router's matcher against the match-rule semantics, the
   add / del / route histories, the proxy's signature gate.  (The rule text
   round trip is in Proofs/RuleTextProofs.v.) *)
From Tx Require Import Lib.Base Lib.Sexp Gen.Generated Model.Router Spec.MatchSpec.
From Coq Require Import Btauto.
Local Open Scope N_scope.

(* ---- the type table of the tree under test is the specification's ---------- *)

Lemma mtypes_generated : router_mtypes = Some type_names.
Proof. reflexivity. Qed.

Lemma lookup_mtype_spec n : lookup_mtype n = type_code n.
Proof. unfold lookup_mtype. rewrite mtypes_generated. reflexivity. Qed.

(* ---- Router.matches = MatchSpec.matches --------------------------------------- *)

Lemma simple_of_ok a v m :
  forallb (fun kv => pyv_eqb (getattr m (fst kv)) (snd kv)) (simple_of a v) =
  holds v (fun s => match getattr m a with PStr f => str_eqb f s | _ => false end).
Proof.
  destruct v as [s|]; cbn [simple_of forallb holds fst snd]; [|reflexivity].
  rewrite andb_true_r. destruct (getattr m a); reflexivity.
Qed.

Lemma getattr_field m a fld :
  (match a with
   | AtInterface => m_interface m | AtMember => m_member m
   | AtPath => m_path m | AtDestination => m_destination m | AtType => None end) = fld ->
  a <> AtType ->
  forall s, match getattr m a with PStr f => str_eqb f s | _ => false end = field_is s fld.
Proof.
  intros E Ha s. subst fld. unfold field_is.
  destruct a; try congruence; cbn [getattr]; unfold opt_pyv;
    match goal with |- context [match ?o with Some _ => _ | None => _ end] => destruct o end; reflexivity.
Qed.

Lemma arg_ok_spec m iv : arg_ok (body_list m) iv = arg_is m iv.
Proof.
  unfold arg_ok, arg_is, string_arg, arguments, body_list.
  destruct (nth_error _ (fst iv)) as [[s|t]|]; reflexivity.
Qed.

Lemma arg_path_ok_spec m iv : arg_path_ok (body_list m) iv = arg_path_is m iv.
Proof.
  unfold arg_path_ok, arg_path_is, string_arg, arguments, body_list, path_like, slash.
  destruct (nth_error _ (fst iv)) as [[s|t]|]; reflexivity.
Qed.

Lemma forallb_ext_eq {A} (f g : A -> bool) l : (forall x, f x = g x) -> forallb f l = forallb g l.
Proof. intros H. induction l as [|x l IH]; cbn; [reflexivity|]. rewrite H, IH. reflexivity. Qed.

Lemma nonempty_forallb {A} (f : A -> bool) (l : list A) :
  match nonempty l with None => true | Some l' => forallb f l' end = forallb f l.
Proof. destruct l; reflexivity. Qed.

Lemma rule_match_compiled r c m :
  compile r = Ok c -> rule_match c m = MatchSpec.matches r m.
Proof.
  unfold compile. intros E.
  assert (exists ty, (match r_type r with
                      | None => Ok []
                      | Some name => match lookup_mtype name with
                                     | Some c => Ok [(AtType, PInt c)]
                                     | None => Err EKey
                                     end
                      end) = Ok ty /\
                     forallb (fun kv => pyv_eqb (getattr m (fst kv)) (snd kv)) ty
                     = holds (r_type r) (fun n => type_is n m)) as (ty & Ety & Hty).
  { destruct (r_type r) as [n|]; cbn [holds].
    - unfold type_is. rewrite lookup_mtype_spec in *. destruct (type_code n) as [c0|].
      + eexists; split; [reflexivity|]. cbn. rewrite andb_true_r. apply N.eqb_sym.
      + cbn in E. discriminate.
    - eexists; split; reflexivity. }
  rewrite Ety in E. cbn [bind] in E. injection E as <-.
  unfold rule_match, simple_ok, ns_ok, args_ok, arg_paths_ok, MatchSpec.matches.
  cbn [c_simple c_path_namespace c_args c_arg_paths].
  rewrite !forallb_app, Hty, !simple_of_ok.
  rewrite (nonempty_forallb (arg_ok (body_list m))), (nonempty_forallb (arg_path_ok (body_list m))).
  rewrite (forallb_ext_eq _ _ (r_args r) (arg_ok_spec m)),
          (forallb_ext_eq _ _ (r_arg_paths r) (arg_path_ok_spec m)).
  assert (Hi : holds (r_interface r) (fun s => match getattr m AtInterface with PStr f => str_eqb f s | _ => false end)
               = holds (r_interface r) (fun v => field_is v (m_interface m))).
  { destruct (r_interface r); cbn [holds]; [|reflexivity]. apply (getattr_field m AtInterface); congruence. }
  assert (Hm : holds (r_member r) (fun s => match getattr m AtMember with PStr f => str_eqb f s | _ => false end)
               = holds (r_member r) (fun v => field_is v (m_member m))).
  { destruct (r_member r); cbn [holds]; [|reflexivity]. apply (getattr_field m AtMember); congruence. }
  assert (Hp : holds (r_path r) (fun s => match getattr m AtPath with PStr f => str_eqb f s | _ => false end)
               = holds (r_path r) (fun v => field_is v (m_path m))).
  { destruct (r_path r); cbn [holds]; [|reflexivity]. apply (getattr_field m AtPath); congruence. }
  assert (Hd : holds (r_destination r) (fun s => match getattr m AtDestination with PStr f => str_eqb f s | _ => false end)
               = holds (r_destination r) (fun v => field_is v (m_destination m))).
  { destruct (r_destination r); cbn [holds]; [|reflexivity]. apply (getattr_field m AtDestination); congruence. }
  rewrite Hi, Hm, Hp, Hd.
  assert (Hn : match r_path_namespace r with
               | None => true
               | Some ns => match m_path m with
                            | None => false
                            | Some p => str_eqb p ns || str_eqb ns [slash] || starts_with (ns ++ [slash]) p
                            end
               end = holds (r_path_namespace r) (fun ns => path_within ns m)).
  { destruct (r_path_namespace r); reflexivity. }
  rewrite Hn.
  set (b1 := holds (r_type r) _). set (b2 := holds (r_interface r) _). set (b3 := holds (r_member r) _).
  set (b4 := holds (r_path r) _). set (b5 := holds (r_destination r) _). set (b6 := holds (r_path_namespace r) _).
  set (b7 := forallb _ (r_args r)). set (b8 := forallb _ (r_arg_paths r)).
  clearbody b1 b2 b3 b4 b5 b6 b7 b8.
  destruct b1, b2, b3, b4, b5, b6, b7, b8; reflexivity.
Qed.

Lemma compile_registrable r :
  (registrable r = true -> exists c, compile r = Ok c) /\
  (registrable r = false -> compile r = Err EKey /\ forall m, MatchSpec.matches r m = false).
Proof.
  unfold registrable, compile, MatchSpec.matches.
  destruct (r_type r) as [n|]; cbn [holds].
  - change (lookup_mtype n) with (type_code n). unfold type_is.
    destruct (type_code n) as [c|]; split; intro H; try discriminate.
    + eexists; reflexivity.
    + split; reflexivity.
  - split; intro H; try discriminate. eexists; reflexivity.
Qed.

Theorem matches_spec r m : Router.matches r m = MatchSpec.matches r m.
Proof.
  unfold Router.matches.
  destruct (registrable r) eqn:R.
  - destruct (proj1 (compile_registrable r) R) as [c Ec]. rewrite Ec. apply rule_match_compiled; exact Ec.
  - destruct (proj2 (compile_registrable r) R) as [Ec Hf]. rewrite Ec, Hf. reflexivity.
Qed.

(* what the specification's `within` says *)
Lemma within_spec ns p :
  within ns p = true <-> p = ns \/ ns = [47] \/ exists t, p = ns ++ [47] ++ t.
Proof.
  unfold within. rewrite !orb_true_iff, !str_eqb_spec, starts_with_spec.
  split.
  - intros [[H|H]|[t H]]; [left; exact H | right; left; exact H | right; right; exists t].
    rewrite H, <- app_assoc. reflexivity.
  - intros [H|[H|[t H]]]; [left; left; exact H | left; right; exact H | right; exists t].
    rewrite H, <- app_assoc. reflexivity.
Qed.

Lemma path_like_spec a v :
  path_like a v = true <->
  a = v \/ (ends_with_char 47 v = true /\ exists t, a = v ++ t) \/ (ends_with_char 47 a = true /\ exists t, v = a ++ t).
Proof.
  unfold path_like. rewrite !orb_true_iff, !andb_true_iff, str_eqb_spec, !starts_with_spec. tauto.
Qed.

(* ---- witnesses against the matcher of the pinned commit -------------------------- *)

Definition w_sig (path : str) (body : option (list arg)) : msg :=
  mkMsg 4 (Some path) (Some [111; 46; 73]) (Some [77]) None None None body.
Definition w_ab : str := [47; 97; 47; 98].          (* /a/b *)
Definition w_abc : str := [47; 97; 47; 98; 99].     (* /a/bc *)
Definition w_a_ : str := [47; 97; 47].              (* /a/ *)
Definition w_ab_ : str := [47; 97; 47; 98; 47].     (* /a/b/ *)
Definition w_x : str := [120].
Definition k_method_call : str := [109; 101; 116; 104; 111; 100; 95; 99; 97; 108; 108].

Definition r_with_type (t : str) : rule := mkRule (Some t) None None None None None None [] [] None.
Definition r_with_ns (ns : str) : rule := mkRule None None None None None (Some ns) None [] [] None.
Definition r_with_arg (i : nat) (v : str) : rule := mkRule None None None None None None None [(i, v)] [] None.
Definition r_with_arg_path (i : nat) (v : str) : rule := mkRule None None None None None None None [] [(i, v)] None.
Definition r_with_iface (v : str) : rule := mkRule None None (Some v) None None None None [] [] None.

Lemma legacy_refuted_w :
  (* D16: type='method_call' matches a signal *)
  (matches_legacy (r_with_type k_method_call) (w_sig w_ab None) = true /\
   MatchSpec.matches (r_with_type k_method_call) (w_sig w_ab None) = false) /\
  (* D17: path_namespace='/a/b' matches the sibling /a/bc *)
  (matches_legacy (r_with_ns w_ab) (w_sig w_abc None) = true /\
   MatchSpec.matches (r_with_ns w_ab) (w_sig w_abc None) = false) /\
  (* D18: arg0='x' matches a signal without body *)
  (matches_legacy (r_with_arg 0 w_x) (w_sig w_ab None) = true /\
   MatchSpec.matches (r_with_arg 0 w_x) (w_sig w_ab None) = false) /\
  (* D19: arg0path='/a/b' matches the value /a/bc ... *)
  (matches_legacy (r_with_arg_path 0 w_ab) (w_sig w_ab (Some [AStr w_abc])) = true /\
   MatchSpec.matches (r_with_arg_path 0 w_ab) (w_sig w_ab (Some [AStr w_abc])) = false) /\
  (* ... and arg0path='/a/b/' does not match the value /a/ *)
  (matches_legacy (r_with_arg_path 0 w_ab_) (w_sig w_ab (Some [AStr w_a_])) = false /\
   MatchSpec.matches (r_with_arg_path 0 w_ab_) (w_sig w_ab (Some [AStr w_a_])) = true) /\
  (* D34: interface='' matches every signal *)
  (matches_legacy (r_with_iface []) (w_sig w_ab None) = true /\
   MatchSpec.matches (r_with_iface []) (w_sig w_ab None) = false).
Proof. vm_compute. repeat split; reflexivity. Qed.

Lemma current_on_witnesses :
  Router.matches (r_with_type k_method_call) (w_sig w_ab None) = false /\
  Router.matches (r_with_ns w_ab) (w_sig w_abc None) = false /\
  Router.matches (r_with_arg 0 w_x) (w_sig w_ab None) = false /\
  Router.matches (r_with_arg_path 0 w_ab) (w_sig w_ab (Some [AStr w_abc])) = false /\
  Router.matches (r_with_arg_path 0 w_ab_) (w_sig w_ab (Some [AStr w_a_])) = true /\
  Router.matches (r_with_iface []) (w_sig w_ab None) = false.
Proof. vm_compute. repeat split; reflexivity. Qed.

(* ---- association-list facts ------------------------------------------------------- *)

Section Alist.
  Context {V : Type}.
  Implicit Types l : list (nat * V).

  Lemma alist_get_some_in l i v : alist_get Nat.eqb i l = Some v -> In (i, v) l.
  Proof.
    induction l as [|[j w] l IH]; cbn; [discriminate|].
    destruct (Nat.eqb i j) eqn:E.
    - apply Nat.eqb_eq in E. subst j. intros [= ->]. left; reflexivity.
    - intros H. right. apply IH; exact H.
  Qed.

  Lemma alist_get_none l i : alist_get Nat.eqb i l = None <-> ~ In i (map fst l).
  Proof.
    induction l as [|[j w] l IH]; cbn; [tauto|].
    destruct (Nat.eqb i j) eqn:E.
    - apply Nat.eqb_eq in E. subst j. split; [discriminate | intros H; exfalso; apply H; left; reflexivity].
    - apply Nat.eqb_neq in E. rewrite IH. split; [intros H [H'|H']; [congruence|tauto] | tauto].
  Qed.

  Lemma alist_get_in l i v : In (i, v) l -> exists w, alist_get Nat.eqb i l = Some w.
  Proof.
    intros H. destruct (alist_get Nat.eqb i l) eqn:E; [eexists; reflexivity|].
    exfalso. apply alist_get_none in E. apply E. apply in_map_iff. exists (i, v); split; [reflexivity|exact H].
  Qed.

  Lemma alist_set_fresh l k v : ~ In k (map fst l) -> alist_set Nat.eqb k v l = l ++ [(k, v)].
  Proof.
    induction l as [|[j w] l IH]; cbn; [reflexivity|].
    intros H. destruct (Nat.eqb k j) eqn:E.
    - apply Nat.eqb_eq in E. exfalso. apply H. left. congruence.
    - rewrite IH; [reflexivity|]. intro H'. apply H. right; exact H'.
  Qed.

  Lemma alist_del_filter l k :
    NoDup (map fst l) -> alist_del Nat.eqb k l = filter (fun e => negb (Nat.eqb k (fst e))) l.
  Proof.
    induction l as [|[j w] l IH]; cbn; [reflexivity|].
    intros ND. inversion ND as [|? ? Hj ND']; subst.
    destruct (Nat.eqb k j) eqn:E; cbn.
    - apply Nat.eqb_eq in E. subst j.
      symmetry. rewrite (proj2 (filter_ext_in_iff _ (fun _ => true) l)).
      + clear. induction l as [|x l IH]; cbn; congruence.
      + intros [j' w'] Hin. cbn. destruct (Nat.eqb k j') eqn:E'; [|reflexivity].
        apply Nat.eqb_eq in E'. subst j'. exfalso. apply Hj. apply in_map_iff. exists (k, w'); split; [reflexivity|exact Hin].
    - rewrite IH; [reflexivity | exact ND'].
  Qed.
End Alist.

Lemma NoDup_app_snoc {A} (l : list A) x : NoDup l -> ~ In x l -> NoDup (l ++ [x]).
Proof.
  induction l as [|y l IH]; cbn; intros ND Hx; [constructor; [tauto|constructor]|].
  inversion ND as [|? ? Hy ND']; subst. constructor.
  - rewrite in_app_iff. cbn. intros [H|[H|[]]]; [tauto | subst; tauto].
  - apply IH; tauto.
Qed.

Lemma flat_map_ext_in_ {A B} (f g : A -> list B) l :
  (forall x, In x l -> f x = g x) -> flat_map f l = flat_map g l.
Proof.
  induction l as [|x l IH]; cbn; intros H; [reflexivity|].
  rewrite H by (left; reflexivity). rewrite IH; [reflexivity|]. intros; apply H; right; assumption.
Qed.

Lemma filter_app_ {A} (f : A -> bool) l1 l2 : filter f (l1 ++ l2) = filter f l1 ++ filter f l2.
Proof. induction l1 as [|x l1 IH]; cbn; [reflexivity|]. destruct (f x); cbn; rewrite IH; reflexivity. Qed.

Lemma filter_filter {A} (f g : A -> bool) l : filter f (filter g l) = filter (fun x => g x && f x) l.
Proof.
  induction l as [|x l IH]; cbn; [reflexivity|].
  destruct (g x); cbn; [destruct (f x); cbn|]; rewrite IH; reflexivity.
Qed.

Lemma NoDup_filter {A B} (f : A -> bool) (g : A -> B) l : NoDup (map g l) -> NoDup (map g (filter f l)).
Proof.
  induction l as [|x l IH]; cbn; [auto|].
  intros ND. inversion ND as [|? ? Hx ND']; subst.
  destruct (f x); cbn; [constructor|]; auto.
  intro H. apply Hx. apply in_map_iff in H as (y & Ey & Hy). apply filter_In in Hy as [Hy _].
  apply in_map_iff. exists y; split; assumption.
Qed.

(* ---- registrations of a history --------------------------------------------------- *)

Definition reg_id (x : nat * rule * cbk * list event) : nat := fst (fst (fst x)).

Lemma registrations_ids h n : map reg_id (registrations h n) = seq n (length (registrations h n)).
Proof.
  revert n. induction h as [|e h IH]; intros n; cbn; [reflexivity|].
  destruct e as [r k|j|m]; try apply IH.
  destruct (registrable r); [|apply IH]. cbn. rewrite IH. reflexivity.
Qed.

Lemma registrations_app h1 h2 n :
  registrations (h1 ++ h2) n =
  map (fun x => match x with (i, r, k, later) => (i, r, k, later ++ h2) end) (registrations h1 n)
  ++ registrations h2 (n + length (registrations h1 n)).
Proof.
  revert n. induction h1 as [|e h1 IH]; intros n; cbn.
  - rewrite Nat.add_0_r. reflexivity.
  - destruct e as [r k|j|m]; try apply IH.
    destruct (registrable r); [|apply IH]. cbn. rewrite IH. cbn. rewrite Nat.add_succ_r. reflexivity.
Qed.

Lemma registrations_registrable h n i r k later :
  In (i, r, k, later) (registrations h n) -> registrable r = true.
Proof.
  revert n. induction h as [|e h IH]; intros n; cbn; [tauto|].
  destruct e as [r' k'|j|m]; try apply IH.
  destruct (registrable r') eqn:R; [|apply IH]. intros [H|H]; [congruence | eapply IH; exact H].
Qed.

(* the part of `live` that comes from registrations numbered from n *)
Definition live_from (h : list event) (n : nat) : list (nat * rule * cbk) :=
  flat_map (fun x => match x with (i, r, k, later) => if removed_in i later then [] else [(i, r, k)] end)
           (registrations h n).

Lemma live_is_live_from h : live h = live_from h 0.
Proof. reflexivity. Qed.

Lemma live_from_ids_ge h n i r k : In (i, r, k) (live_from h n) -> (n <= i)%nat.
Proof.
  unfold live_from. rewrite in_flat_map. intros ([[[i' r'] k'] later] & Hin & Hx).
  destruct (removed_in i' later); [destruct Hx|]. destruct Hx as [[= -> -> ->]|[]].
  assert (H : In i (map reg_id (registrations h n))) by (apply in_map_iff; eexists; split; [|exact Hin]; reflexivity).
  rewrite registrations_ids in H. apply in_seq in H. lia.
Qed.

Lemma live_from_registrable h n i r k : In (i, r, k) (live_from h n) -> registrable r = true.
Proof.
  unfold live_from. rewrite in_flat_map. intros ([[[i' r'] k'] later] & Hin & Hx).
  destruct (removed_in i' later); [destruct Hx|]. destruct Hx as [[= -> -> ->]|[]].
  eapply registrations_registrable; exact Hin.
Qed.

Lemma NoDup_map_flat_map_sub {A B} (g : A -> nat) (f : A -> list B) (g' : B -> nat) l :
  (forall x y, In y (f x) -> g' y = g x) -> (forall x, length (f x) <= 1)%nat ->
  NoDup (map g l) -> NoDup (map g' (flat_map f l)).
Proof.
  intros Hg Hlen. induction l as [|x l IH]; cbn; [constructor|].
  intros ND. inversion ND as [|? ? Hx ND']; subst.
  rewrite map_app. specialize (Hlen x).
  destruct (f x) as [|y [|y' ys]] eqn:E; cbn in *; [auto | | lia].
  constructor; [|auto].
  intro H. apply Hx. apply in_map_iff in H as (z & Ez & Hz). apply in_flat_map in Hz as (x' & Hx' & Hz).
  apply in_map_iff. exists x'. split; [|exact Hx'].
  rewrite <- (Hg x' z Hz), Ez. apply Hg. rewrite E. left; reflexivity.
Qed.

Lemma live_from_nodup h n : NoDup (map (fun x => fst (fst x)) (live_from h n)).
Proof.
  unfold live_from.
  apply (NoDup_map_flat_map_sub reg_id).
  - intros [[[i r] k] later] y. destruct (removed_in i later); [intros []|]. intros [<-|[]]. reflexivity.
  - intros [[[i r] k] later]. destruct (removed_in i later); cbn; lia.
  - rewrite registrations_ids. apply seq_NoDup.
Qed.

(* ---- the router along a passive history ---------------------------------------------- *)

Definition crule_dummy : crule := mkCRule [] None None None.
Definition cr (r : rule) : crule := match compile r with Ok c => c | Err _ => crule_dummy end.
Definition enc (x : nat * rule * cbk) : nat * (crule * cbk) :=
  match x with (i, r, k) => (i, (cr r, k)) end.

Record wf (st : router) : Prop := {
  wf_lt : forall i x, In (i, x) (rules st) -> (i < next_id st)%nat;
  wf_nodup : NoDup (map fst (rules st));
  wf_passive : forall i c k, In (i, (c, k)) (rules st) -> cb_acts k = []
}.

Lemma wf_init : wf init.
Proof. constructor; cbn; [tauto | constructor | tauto]. Qed.

(* with passive callbacks a route leaves the table alone and calls, in table
   order, the callbacks of the registered rules that match *)
Lemma route_loop_passive snap m st :
  (forall i c k, In (i, (c, k)) snap -> cb_acts k = []) ->
  route_loop snap m st =
  (st, flat_map (fun e => match alist_get Nat.eqb (fst e) (rules st) with
                          | Some _ => if rule_match (fst (snd e)) m then [(fst e, cb_tag (snd (snd e)))] else []
                          | None => []
                          end) snap).
Proof.
  induction snap as [|[i [c k]] snap IH]; intros Hp; cbn [route_loop flat_map fst snd]; [reflexivity|].
  assert (Hk : cb_acts k = []) by (eapply Hp; left; reflexivity).
  assert (Hp' : forall i c k, In (i, (c, k)) snap -> cb_acts k = []) by (intros; eapply Hp; right; eassumption).
  destruct (alist_get Nat.eqb i (rules st)); [|rewrite (IH Hp'); reflexivity].
  destruct (rule_match c m); [|rewrite (IH Hp'); reflexivity].
  rewrite Hk. cbn [run_acts]. rewrite (IH Hp'). reflexivity.
Qed.

Lemma route_message_passive m st :
  wf st ->
  route_message m st =
  (st, flat_map (fun e => if rule_match (fst (snd e)) m then [(fst e, cb_tag (snd (snd e)))] else []) (rules st)).
Proof.
  intros W. unfold route_message. rewrite route_loop_passive; [|apply (wf_passive _ W)].
  f_equal. apply flat_map_ext_in_. intros [i [c k]] Hin. cbn [fst snd].
  destruct (alist_get_in _ _ _ Hin) as [w ->]. reflexivity.
Qed.

Lemma step_wf st e :
  wf st -> (match e with EAdd _ k => cb_acts k = [] | _ => True end) -> wf (fst (step st e)).
Proof.
  intros W He. destruct e as [r k|j|m]; cbn [step].
  - unfold add_match, add_match_with. destruct (compile r) as [c|er]; cbn [fst]; [|exact W].
    assert (Hfresh : ~ In (next_id st) (map fst (rules st))).
    { intro H. apply in_map_iff in H as ([i x] & Ei & Hin). cbn in Ei. subst i.
      apply (wf_lt _ W) in Hin. lia. }
    constructor; cbn [next_id rules]; rewrite alist_set_fresh by exact Hfresh.
    + intros i x Hin. apply in_app_iff in Hin as [Hin|[[= <- <-]|[]]]; [apply (wf_lt _ W) in Hin|]; lia.
    + rewrite map_app. cbn. apply NoDup_app_snoc; [exact (wf_nodup _ W) | exact Hfresh].
    + intros i c' k' Hin. apply in_app_iff in Hin as [Hin|[[= <- <- <-]|[]]]; [eapply (wf_passive _ W); exact Hin | exact He].
  - unfold del_match. destruct (alist_get Nat.eqb j (rules st)); cbn [fst]; [|exact W].
    constructor; cbn [next_id rules]; rewrite alist_del_filter by exact (wf_nodup _ W).
    + intros i x Hin. apply filter_In in Hin as [Hin _]. exact (wf_lt _ W _ _ Hin).
    + apply NoDup_filter. exact (wf_nodup _ W).
    + intros i c k Hin. apply filter_In in Hin as [Hin _]. exact (wf_passive _ W _ _ _ Hin).
  - rewrite (route_message_passive m st W). cbn [fst]. exact W.
Qed.

Lemma filter_true_ {A} (f : A -> bool) l : (forall x, In x l -> f x = true) -> filter f l = l.
Proof.
  induction l as [|x l IH]; cbn; intros H; [reflexivity|].
  rewrite H by (left; reflexivity). rewrite IH; [reflexivity|]. intros; apply H; right; assumption.
Qed.

Lemma filter_ext_in_ {A} (f g : A -> bool) l : (forall x, In x l -> f x = g x) -> filter f l = filter g l.
Proof.
  induction l as [|x l IH]; cbn; intros H; [reflexivity|].
  rewrite H by (left; reflexivity). rewrite IH; [reflexivity|]. intros; apply H; right; assumption.
Qed.

Lemma run_from_cons st e h : run_from st (e :: h) = run_from (fst (step st e)) h.
Proof. reflexivity. Qed.

Lemma cr_compiled r c : compile r = Ok c -> cr r = c.
Proof. unfold cr. intros ->. reflexivity. Qed.

Lemma live_from_cons_add r k h n :
  live_from (EAdd r k :: h) n =
  if registrable r then (if removed_in n h then [] else [(n, r, k)]) ++ live_from h (S n) else live_from h n.
Proof. unfold live_from. cbn [registrations]. destruct (registrable r); reflexivity. Qed.

Lemma passive_tail e h : passive_history (e :: h) -> passive_history h.
Proof. intros P r k H. eapply P. right; exact H. Qed.

(* the table after a passive history, from any well-formed table: what was
   there and is not removed by the history, then the history's own live
   registrations *)
Lemma run_from_rules h :
  forall st, wf st -> passive_history h ->
    wf (run_from st h) /\
    rules (run_from st h) =
      filter (fun e => negb (removed_in (fst e) h)) (rules st) ++ map enc (live_from h (next_id st)).
Proof.
  induction h as [|e h IH]; intros st W P.
  - split; [exact W|]. cbn [run_from fold_left]. unfold live_from. cbn.
    rewrite app_nil_r. symmetry. apply filter_true_. reflexivity.
  - rewrite run_from_cons.
    assert (W' : wf (fst (step st e))).
    { apply step_wf; [exact W|]. destruct e as [r k| |]; [|exact I|exact I]. eapply P. left; reflexivity. }
    destruct (IH _ W' (passive_tail _ _ P)) as [Wf Hr]. split; [exact Wf|]. rewrite Hr. clear IH Hr Wf.
    destruct e as [r k|j|m]; cbn [step].
    + (* addMatch *)
      rewrite live_from_cons_add.
      unfold add_match, add_match_with.
      destruct (registrable r) eqn:R.
      * destruct (proj1 (compile_registrable r) R) as [c Ec]. rewrite Ec. cbn [fst next_id rules].
        assert (Hfresh : ~ In (next_id st) (map fst (rules st))).
        { intro H. apply in_map_iff in H as ([i x] & Ei & Hin). cbn in Ei. subst i.
          apply (wf_lt _ W) in Hin. lia. }
        rewrite alist_set_fresh by exact Hfresh.
        rewrite filter_app_, map_app, <- app_assoc. f_equal.
        cbn [filter fst]. f_equal.
        destruct (removed_in (next_id st) h); cbn; [reflexivity|].
        rewrite (cr_compiled _ _ Ec). reflexivity.
      * destruct (proj2 (compile_registrable r) R) as [Ec _]. rewrite Ec. cbn [fst]. reflexivity.
    + (* delMatch *)
      unfold del_match.
      assert (Hl : live_from (EDel j :: h) (next_id st) = live_from h (next_id st)) by reflexivity.
      rewrite Hl.
      destruct (alist_get Nat.eqb j (rules st)) eqn:G; cbn [fst next_id rules].
      * rewrite alist_del_filter by exact (wf_nodup _ W). rewrite filter_filter. f_equal.
        apply filter_ext_in_. intros [i x] _. cbn [fst removed_in existsb].
        rewrite negb_orb. rewrite (Nat.eqb_sym i j). reflexivity.
      * f_equal. apply filter_ext_in_. intros [i x] Hin. cbn [fst removed_in existsb].
        apply alist_get_none in G.
        destruct (Nat.eqb i j) eqn:E; [|reflexivity].
        apply Nat.eqb_eq in E. subst i. exfalso. apply G. apply in_map_iff. exists (j, x); split; [reflexivity|exact Hin].
    + (* routeMessage *)
      rewrite (route_message_passive m st W). cbn [fst]. reflexivity.
Qed.

Lemma run_rules h :
  passive_history h -> wf (run h) /\ rules (run h) = map enc (live h).
Proof.
  intros P. destruct (run_from_rules h init wf_init P) as [W Hr]. split; [exact W|].
  unfold run. rewrite Hr. reflexivity.
Qed.

Lemma flat_map_map_ {A B C} (g : A -> B) (f : B -> list C) l : flat_map f (map g l) = flat_map (fun x => f (g x)) l.
Proof. induction l as [|x l IH]; cbn; [reflexivity|]. rewrite IH. reflexivity. Qed.

(* the callbacks called by a route after a passive history are the
   specification's *)
Theorem called_expected h m : passive_history h -> called_after h m = expected h m.
Proof.
  intros P. destruct (run_rules h P) as [W Hr].
  unfold called_after. rewrite (route_message_passive m _ W). cbn [snd]. rewrite Hr, flat_map_map_.
  unfold expected. apply flat_map_ext_in_. intros [[i r] k] Hin. cbn [enc fst snd].
  rewrite live_is_live_from in Hin. apply live_from_registrable in Hin.
  destruct (proj1 (compile_registrable r) Hin) as [c Ec].
  rewrite (cr_compiled _ _ Ec), (rule_match_compiled r c m Ec). reflexivity.
Qed.

(* read rule by rule *)
Lemma expected_in h m i t :
  In (i, t) (expected h m) <->
  exists r k, In (i, r, k) (live h) /\ cb_tag k = t /\ MatchSpec.matches r m = true.
Proof.
  unfold expected. rewrite in_flat_map. split.
  - intros ([[i' r] k] & Hin & Hx). destruct (MatchSpec.matches r m) eqn:M; [|destruct Hx].
    destruct Hx as [[= -> <-]|[]]. exists r, k. auto.
  - intros (r & k & Hin & <- & M). exists (i, r, k). split; [exact Hin|]. rewrite M. left; reflexivity.
Qed.

Lemma expected_nodup h m : NoDup (map fst (expected h m)).
Proof.
  unfold expected.
  apply (NoDup_map_flat_map_sub (fun x : nat * rule * cbk => fst (fst x))).
  - intros [[i r] k] y. destruct (MatchSpec.matches r m); [|intros []]. intros [<-|[]]. reflexivity.
  - intros [[i r] k]. destruct (MatchSpec.matches r m); cbn; lia.
  - rewrite live_is_live_from. apply live_from_nodup.
Qed.

Theorem route_exactly_once h m :
  passive_history h ->
  NoDup (map fst (called_after h m)) /\
  forall i t, In (i, t) (called_after h m) <->
              exists r k, In (i, r, k) (live h) /\ cb_tag k = t /\ MatchSpec.matches r m = true.
Proof.
  intros P. rewrite (called_expected h m P). split; [apply expected_nodup | apply expected_in].
Qed.

(* what the n-th event of a history shows is what a route after the events
   before it calls *)
Lemma trace_with_app stp st h1 h2 :
  trace_with stp st (h1 ++ h2) =
  trace_with stp st h1 ++ trace_with stp (fold_left (fun s e => fst (stp s e)) h1 st) h2.
Proof.
  revert st. induction h1 as [|e h1 IH]; intros st; cbn; [reflexivity|].
  destruct (stp st e) as [st' o] eqn:E. cbn. rewrite IH. reflexivity.
Qed.

Theorem trace_route h1 m h2 :
  trace (h1 ++ ERoute m :: h2) =
  trace h1 ++ ORouted (called_after h1 m) (Ok tt) :: trace_with step (run (h1 ++ [ERoute m])) h2.
Proof.
  unfold trace. rewrite trace_with_app. f_equal.
  change (fold_left (fun s e => fst (step s e)) h1 init) with (run h1).
  cbn [trace_with step]. unfold called_after.
  destruct (route_message m (run h1)) as [st' l] eqn:E. cbn [snd]. f_equal.
  unfold run, run_from. rewrite fold_left_app. cbn [fold_left step].
  change (fold_left (fun s e => fst (step s e)) h1 init) with (run h1). rewrite E. reflexivity.
Qed.

(* ---- a removed rule stays silent --------------------------------------------------- *)

Lemma live_in_registrations h n i r k :
  In (i, r, k) (live_from h n) <->
  exists later, In (i, r, k, later) (registrations h n) /\ removed_in i later = false.
Proof.
  unfold live_from. rewrite in_flat_map. split.
  - intros ([[[i' r'] k'] later] & Hin & Hx). destruct (removed_in i' later) eqn:Rm; [destruct Hx|].
    destruct Hx as [[= -> -> ->]|[]]. exists later. auto.
  - intros (later & Hin & Rm). exists (i, r, k, later). split; [exact Hin|]. rewrite Rm. left; reflexivity.
Qed.

Lemma removed_in_app i l1 l2 : removed_in i (l1 ++ l2) = removed_in i l1 || removed_in i l2.
Proof. unfold removed_in. apply existsb_app. Qed.

Theorem removed_not_live h1 i h2 :
  In i (map (fun x => fst (fst x)) (live h1)) ->
  ~ In i (map (fun x => fst (fst x)) (live (h1 ++ EDel i :: h2))).
Proof.
  intros H1 H2.
  apply in_map_iff in H1 as ([[i1 r1] k1] & E1 & H1). cbn in E1. subst i1.
  apply in_map_iff in H2 as ([[i2 r2] k2] & E2 & H2). cbn in E2. subst i2.
  rewrite live_is_live_from in H1, H2.
  apply live_in_registrations in H1 as (l1 & H1 & _).
  apply live_in_registrations in H2 as (l2 & H2 & Rm).
  rewrite registrations_app in H2. apply in_app_iff in H2 as [H2|H2].
  - apply in_map_iff in H2 as ([[[i' r'] k'] later] & E & _). injection E as -> -> -> <-.
    rewrite removed_in_app in Rm. apply orb_false_iff in Rm as [_ Rm].
    cbn [removed_in existsb] in Rm. rewrite Nat.eqb_refl in Rm. discriminate.
  - assert (Hi : In i (map reg_id (registrations h1 0))).
    { apply in_map_iff. eexists; split; [|exact H1]; reflexivity. }
    rewrite registrations_ids in Hi. apply in_seq in Hi.
    assert (Hj : In i (map reg_id (registrations (EDel i :: h2) (0 + length (registrations h1 0))))).
    { apply in_map_iff. eexists; split; [|exact H2]; reflexivity. }
    rewrite registrations_ids in Hj. apply in_seq in Hj. lia.
Qed.

Theorem removed_silent h1 i h2 m :
  passive_history (h1 ++ EDel i :: h2) ->
  In i (map (fun x => fst (fst x)) (live h1)) ->
  ~ In i (map fst (called_after (h1 ++ EDel i :: h2) m)).
Proof.
  intros P H1 H2. rewrite (called_expected _ m P) in H2.
  apply in_map_iff in H2 as ([i' t] & E & H2). cbn in E. subst i'.
  apply expected_in in H2 as (r & k & Hl & _ & _).
  apply (removed_not_live h1 i h2 H1). apply in_map_iff. exists (i, r, k). split; [reflexivity|exact Hl].
Qed.

(* delMatch answers without exception exactly for the rules that are live *)
Theorem del_ok_iff_live h i :
  passive_history h ->
  (snd (step (run h) (EDel i)) = ODeleted (Ok tt) <-> In i (map (fun x => fst (fst x)) (live h))) /\
  (snd (step (run h) (EDel i)) = ODeleted (Err EKey) <-> ~ In i (map (fun x => fst (fst x)) (live h))).
Proof.
  intros P. destruct (run_rules h P) as [W Hr]. cbn [step]. unfold del_match.
  assert (Hk : map fst (rules (run h)) = map (fun x => fst (fst x)) (live h)).
  { rewrite Hr, map_map. apply map_ext. intros [[j r] k]. reflexivity. }
  destruct (alist_get Nat.eqb i (rules (run h))) eqn:G; cbn [snd].
  - apply alist_get_some_in in G.
    assert (Hin : In i (map (fun x => fst (fst x)) (live h))).
    { rewrite <- Hk. apply in_map_iff. eexists; split; [|exact G]; reflexivity. }
    split; split; intro H; try assumption; try reflexivity; try discriminate. exfalso; exact (H Hin).
  - apply alist_get_none in G. rewrite Hk in G.
    split; split; intro H; try assumption; try reflexivity; try discriminate. exfalso; exact (G H).
Qed.

(* ---- the proxy's signal subscription ------------------------------------------------- *)

Theorem proxy_gate declared m : proxy_deliver declared m = gate declared m.
Proof.
  unfold proxy_deliver, gate, is_signature_valid, sig_norm, arguments.
  assert (Hb : match m_body m with Some (x :: l) => x :: l | _ => [] end
               = match m_body m with Some l => l | None => [] end).
  { destruct (m_body m) as [[|x l]|]; reflexivity. }
  rewrite Hb.
  destruct declared as [[|x d]|], (m_signature m) as [[|y s]|]; cbn [truthy_b negb orb opt_str_eqb]; try reflexivity.
  destruct (str_eqb (x :: d) (y :: s)); reflexivity.
Qed.

(* the whole path from the router to the user's callback *)
Definition proxy_on_signal (path member iface : str) (declared : option str) (m : msg) : option (list arg) :=
  if Router.matches (proxy_rule path member iface) m then proxy_deliver declared m else None.

Theorem proxy_subscription path member iface declared m :
  proxy_on_signal path member iface declared m =
  if (m_type m =? 4) && field_is iface (m_interface m) && field_is member (m_member m) && field_is path (m_path m)
  then gate declared m else None.
Proof.
  unfold proxy_on_signal. rewrite matches_spec, proxy_gate.
  unfold MatchSpec.matches, proxy_rule. cbn [r_type r_interface r_member r_path r_path_namespace r_destination
                                             r_args r_arg_paths holds forallb].
  rewrite !andb_true_r.
  assert (Ht : type_is k_signal m = (m_type m =? 4)).
  { unfold type_is. change (type_code k_signal) with (Some 4). apply N.eqb_sym. }
  rewrite Ht. reflexivity.
Qed.

(* ---- callbacks that change the table during a route -------------------------------- *)

Definition keys (st : router) : list nat := map fst (rules st).

Record wf0 (st : router) : Prop := {
  wf0_lt : forall i, In i (keys st) -> (i < next_id st)%nat;
  wf0_nodup : NoDup (keys st)
}.

Lemma wf_wf0 st : wf st -> wf0 st.
Proof.
  intros W. constructor; [|exact (wf_nodup _ W)].
  intros i H. apply in_map_iff in H as ([j x] & E & Hin). cbn in E. subst j. exact (wf_lt _ W _ _ Hin).
Qed.

Lemma wf0_init : wf0 init.
Proof. constructor; cbn; [tauto | constructor]. Qed.

(* one table operation keeps the table well formed, never lowers the id
   counter, and never brings back an id that is allocated but absent *)
Definition grows (st st' : router) : Prop :=
  wf0 st' /\ (next_id st <= next_id st')%nat /\
  forall i, (i < next_id st)%nat -> ~ In i (keys st) -> ~ In i (keys st').

Lemma grows_refl st : wf0 st -> grows st st.
Proof. intros W. split; [exact W|]. split; [lia|]. intros i _ H; exact H. Qed.

Lemma grows_trans a b c : grows a b -> grows b c -> grows a c.
Proof.
  intros (Wb & Lb & Ab) (Wc & Lc & Ac). split; [exact Wc|]. split; [lia|].
  intros i Hi Hn. apply Ac; [lia | apply Ab; assumption].
Qed.

Lemma add_match_grows r k st : wf0 st -> grows st (fst (add_match r k st)).
Proof.
  intros W. unfold add_match, add_match_with. destruct (compile r) as [c|e]; cbn [fst]; [|apply grows_refl; exact W].
  assert (Hfresh : ~ In (next_id st) (map fst (rules st))).
  { intro H. apply (wf0_lt _ W) in H. lia. }
  assert (Hk : keys (mkRouter (S (next_id st)) (alist_set Nat.eqb (next_id st) (c, k) (rules st)))
               = keys st ++ [next_id st]).
  { unfold keys. cbn [rules]. rewrite alist_set_fresh by exact Hfresh. rewrite map_app. reflexivity. }
  split; [|split].
  - constructor; rewrite Hk; cbn [next_id].
    + intros i H. rewrite in_app_iff in H. destruct H as [H|[<-|[]]]; [apply (wf0_lt _ W) in H|]; lia.
    + apply NoDup_app_snoc; [exact (wf0_nodup _ W) | exact Hfresh].
  - cbn [next_id]. lia.
  - intros i Hi Hn. rewrite Hk, in_app_iff. intros [H|[<-|[]]]; [exact (Hn H) | lia].
Qed.

Lemma del_match_grows j st : wf0 st -> grows st (fst (del_match j st)).
Proof.
  intros W. unfold del_match. destruct (alist_get Nat.eqb j (rules st)); cbn [fst]; [|apply grows_refl; exact W].
  assert (Hsub : forall i, In i (map fst (filter (fun e : nat * (crule * cbk) => negb (Nat.eqb j (fst e))) (rules st)))
                           -> In i (keys st)).
  { intros i H. apply in_map_iff in H as (x & E & Hin). apply filter_In in Hin as [Hin _].
    apply in_map_iff. exists x; split; assumption. }
  assert (Hk : keys (mkRouter (next_id st) (alist_del Nat.eqb j (rules st)))
               = map fst (filter (fun e : nat * (crule * cbk) => negb (Nat.eqb j (fst e))) (rules st))).
  { unfold keys. cbn [rules]. rewrite alist_del_filter by exact (wf0_nodup _ W). reflexivity. }
  split; [|split].
  - constructor; rewrite Hk; cbn [next_id].
    + intros i H. apply (wf0_lt _ W). apply Hsub; exact H.
    + apply NoDup_filter. exact (wf0_nodup _ W).
  - cbn [next_id]. lia.
  - intros i Hi Hn. rewrite Hk. intro H. apply Hn. apply Hsub; exact H.
Qed.

Lemma run_acts_grows acts : forall st, wf0 st -> grows st (run_acts compile acts st).
Proof.
  induction acts as [|a acts IH]; intros st W; cbn [run_acts]; [apply grows_refl; exact W|].
  destruct a as [j|r t b].
  - pose proof (del_match_grows j st W) as G. destruct (del_match j st) as [st' [u|e]]; cbn [fst] in G; [|exact G].
    eapply grows_trans; [exact G|]. apply IH. exact (proj1 G).
  - pose proof (add_match_grows r (passive t b) st W) as G. fold add_match.
    destruct (add_match r (passive t b) st) as [st' [u|e]]; cbn [fst] in G; [|exact G].
    eapply grows_trans; [exact G|]. apply IH. exact (proj1 G).
Qed.

(* the remainder of routeMessage's loop: `snap` are the snapshot entries not
   yet looked at, `st` the table now *)
Lemma route_loop_reentrant m snap :
  forall st, wf0 st -> NoDup (map fst snap) -> (forall i, In i (map fst snap) -> (i < next_id st)%nat) ->
    grows st (fst (route_loop snap m st)) /\
    NoDup (map fst (snd (route_loop snap m st))) /\
    (forall i t, In (i, t) (snd (route_loop snap m st)) ->
                 exists c k, In (i, (c, k)) snap /\ rule_match c m = true /\ cb_tag k = t) /\
    (forall i c k, In (i, (c, k)) snap -> rule_match c m = true ->
                   In i (keys (fst (route_loop snap m st))) -> In (i, cb_tag k) (snd (route_loop snap m st))).
Proof.
  induction snap as [|[j [c k]] snap IH]; intros st W ND Hlt; cbn [route_loop].
  - cbn. split; [apply grows_refl; exact W|]. split; [constructor|]. split; [intros ? ? [] | intros ? ? ? []].
  - cbn [map fst] in ND, Hlt. inversion ND as [|? ? Hj ND']; subst.
    assert (Hlt' : forall st', (next_id st <= next_id st')%nat -> forall i, In i (map fst snap) -> (i < next_id st')%nat).
    { intros st' L i Hi. specialize (Hlt i (or_intror Hi)). lia. }
    destruct (alist_get Nat.eqb j (rules st)) as [x|] eqn:G; [destruct (rule_match c m) eqn:M|].
    + (* called *)
      pose proof (run_acts_grows (cb_acts k) st W) as G1. set (st1 := run_acts compile (cb_acts k) st) in *.
      destruct (IH st1 (proj1 G1) ND' (Hlt' st1 (proj1 (proj2 G1)))) as (G2 & ND2 & Hin2 & Hall2).
      destruct (route_loop snap m st1) as [st2 l] eqn:E. cbn [fst snd] in *.
      split; [|split; [|split]].
      * eapply grows_trans; [exact G1 | exact G2].
      * cbn [map fst]. constructor; [|exact ND2].
        intro H. apply Hj. apply in_map_iff in H as ([j' t'] & Ej & H). cbn in Ej. subst j'.
        apply Hin2 in H as (c' & k' & H & _). apply in_map_iff. eexists; split; [|exact H]; reflexivity.
      * intros i t [[= <- <-]|H].
        -- exists c, k. split; [left; reflexivity|]. auto.
        -- apply Hin2 in H as (c' & k' & H & R). exists c', k'. split; [right; exact H | exact R].
      * intros i c' k' [[= <- <- <-]|H] M' Hk; [left; reflexivity|]. right. eapply Hall2; eassumption.
    + (* not satisfied *)
      destruct (IH st W ND' (Hlt' st (le_n _))) as (G2 & ND2 & Hin2 & Hall2).
      split; [exact G2|]. split; [exact ND2|]. split.
      * intros i t H. apply Hin2 in H as (c' & k' & H & R). exists c', k'. split; [right; exact H | exact R].
      * intros i c' k' [[= <- <- <-]|H] M' Hk; [congruence|]. eapply Hall2; eassumption.
    + (* removed since the snapshot was taken *)
      destruct (IH st W ND' (Hlt' st (le_n _))) as (G2 & ND2 & Hin2 & Hall2).
      split; [exact G2|]. split; [exact ND2|]. split.
      * intros i t H. apply Hin2 in H as (c' & k' & H & R). exists c', k'. split; [right; exact H | exact R].
      * intros i c' k' [[= <- <- <-]|H] M' Hk; [|eapply Hall2; eassumption].
        exfalso. apply alist_get_none in G. destruct G2 as (_ & _ & Ab).
        apply (Ab j); [apply Hlt; left; reflexivity | exact G | exact Hk].
Qed.

Theorem route_reentrant m st :
  wf0 st ->
  wf0 (fst (route_message m st)) /\
  NoDup (map fst (snd (route_message m st))) /\
  (forall i t, In (i, t) (snd (route_message m st)) ->
               exists c k, In (i, (c, k)) (rules st) /\ rule_match c m = true /\ cb_tag k = t) /\
  (forall i c k, In (i, (c, k)) (rules st) -> rule_match c m = true ->
                 In i (keys (fst (route_message m st))) -> In (i, cb_tag k) (snd (route_message m st))).
Proof.
  intros W. unfold route_message.
  destruct (route_loop_reentrant m (rules st) st W (wf0_nodup _ W) (wf0_lt _ W)) as (G & R).
  split; [exact (proj1 G) | exact R].
Qed.

(* a rule that is absent from the table (its id already handed out) when the
   remainder of the loop starts is not called by it *)
Theorem route_loop_absent_silent m snap :
  forall st i, wf0 st -> (i < next_id st)%nat -> ~ In i (keys st) ->
               ~ In i (map fst (snd (route_loop snap m st))).
Proof.
  induction snap as [|[j [c k]] snap IH]; intros st i W Hi Hn; cbn [route_loop]; [cbn; tauto|].
  destruct (alist_get Nat.eqb j (rules st)) as [x|] eqn:G; [destruct (rule_match c m)|]; try (apply IH; assumption).
  pose proof (run_acts_grows (cb_acts k) st W) as (W1 & L1 & A1).
  specialize (IH (run_acts compile (cb_acts k) st) i W1 ltac:(lia) (A1 i Hi Hn)).
  destruct (route_loop snap m (run_acts compile (cb_acts k) st)) as [st2 l]. cbn [fst snd map] in *.
  intros [<-|H]; [|exact (IH H)].
  apply Hn. apply alist_get_some_in in G. apply in_map_iff. eexists; split; [|exact G]; reflexivity.
Qed.

(* every router reached by any history (callbacks of any kind) is well formed *)
Lemma step_wf0 st e : wf0 st -> wf0 (fst (step st e)).
Proof.
  intros W. destruct e as [r k|j|m]; cbn [step].
  - pose proof (add_match_grows r k st W) as G. destruct (add_match r k st). exact (proj1 G).
  - pose proof (del_match_grows j st W) as G. destruct (del_match j st). exact (proj1 G).
  - pose proof (route_reentrant m st W) as G. destruct (route_message m st). exact (proj1 G).
Qed.

Theorem run_wf0 h : wf0 (run h).
Proof.
  unfold run. generalize init wf0_init. induction h as [|e h IH]; intros st W; [exact W|].
  rewrite run_from_cons. apply IH. apply step_wf0; exact W.
Qed.

(* the pinned commit: a callback that removes its own rule stops the route *)
Definition w_rule : rule := mkRule (Some k_signal) None None None None (Some [47; 97]) None [] [] None.
Definition w_reentrant : list event :=
  [EAdd w_rule (mkCb 0 false [ADel 0%nat]); EAdd w_rule (passive 1 false); ERoute (w_sig w_ab None)].

Lemma reentrant_legacy_refuted_w :
  trace_legacy w_reentrant = [OAdded (Ok 0%nat); OAdded (Ok 1%nat); ORouted [(0%nat, 0)] (Err EOther)] /\
  trace w_reentrant = [OAdded (Ok 0%nat); OAdded (Ok 1%nat); ORouted [(0%nat, 0); (1%nat, 1)] (Ok tt)] /\
  MatchSpec.matches w_rule (w_sig w_ab None) = true.
Proof. vm_compute. repeat split; reflexivity. Qed.

(* non-vacuity: a passive history with raising callbacks, removals (of live,
   removed and unknown ids), a refused rule *)
Definition w_history : list event :=
  [ EAdd w_rule (passive 10 true);                                  (* id 0, raises *)
    EAdd (r_with_ns w_abc) (passive 11 false);                      (* id 1, /a/bc: not satisfied by /a/b *)
    EAdd (r_with_type [98; 111; 103; 117; 115]) (passive 12 false); (* 'bogus': refused *)
    EAdd (r_with_arg 0 w_x) (passive 13 false);                     (* id 2 *)
    ERoute (w_sig w_ab (Some [AStr w_x]));
    EDel 0%nat; EDel 0%nat; EDel 7%nat;
    ERoute (w_sig w_ab (Some [AStr w_x])) ].

Lemma w_history_ok :
  passive_history w_history /\
  trace w_history =
    [ OAdded (Ok 0%nat); OAdded (Ok 1%nat); OAdded (Err EKey); OAdded (Ok 2%nat);
      ORouted [(0%nat, 10); (2%nat, 13)] (Ok tt);
      ODeleted (Ok tt); ODeleted (Err EKey); ODeleted (Err EKey);
      ORouted [(2%nat, 13)] (Ok tt) ] /\
  map (fun x => fst (fst x)) (live w_history) = [1%nat; 2%nat] /\
  expected w_history (w_sig w_ab (Some [AStr w_x])) = [(2%nat, 13)].
Proof.
  split.
  - intros r k H. cbn in H.
    repeat (destruct H as [H|H]; [try discriminate H; injection H as <- <-; reflexivity|]). destruct H.
  - vm_compute. repeat split; reflexivity.
Qed.
