(* Liveness of the client model against the reference server when the client's
   keyring CANNOT answer the server's DBUS_COOKIE_SHA1 challenge: the lookup of
   the server's (context, id) raises or finds no such id.  The client answers the
   challenge with ERROR, the server rejects, the client goes on to ANONYMOUS:
   the handshake completes whenever the server accepts EXTERNAL or ANONYMOUS;
   against a server that accepts DBUS_COOKIE_SHA1 only the client runs out of
   mechanisms and closes.

   As in AuthClientLiveProofs.v the oracles (user, lookup, nonce, sha1hex) stay
   abstract: runs that never consult the keyring are decided by vm_compute; in the
   others the run is computed up to the challenge, the one step that consults the
   keyring is done by case analysis on its answer, the rest is computed. *)
From Tx Require Import Lib.Base Lib.Sexp Model.AuthClient Spec.AuthClientSpec Model.AuthClientLoop.
From Tx Require Import Proofs.AuthClientLiveProofs.
Local Open Scope N_scope.

Definition cookie_only (c : server_cfg) : bool := list_eqb str_eqb (accepted c) [m_DBUS_COOKIE_SHA1].

Lemma cookie_only_spec c : cookie_only c = true <-> accepted c = [m_DBUS_COOKIE_SHA1].
Proof. unfold cookie_only. apply (list_eqb_spec str_eqb str_eqb_spec). Qed.

Section NoCookie.
  Variable user : bytes.
  Variable lookup : bytes -> bytes -> lookup_result.
  Variable nonce : nat -> bytes.
  Variable sha1hex : bytes -> bytes.
  (* the keyring cannot answer the reference server's challenge *)
  Hypothesis unanswerable : forall c, lookup srv_ctx srv_cookie_id <> LCookie c.

  Notation h := (handle user lookup nonce sha1hex).
  Notation run cfg unix := (handshake user sha1hex h cfg unix 40).

  Lemma iterate_add' cfg a : forall b y,
    iterate sha1hex h cfg (a + b) y = iterate sha1hex h cfg b (iterate sha1hex h cfg a y).
  Proof. induction a as [|a IH]; intros b y; [reflexivity|]. cbn [Nat.add iterate]. apply IH. Qed.

  Lemma iterate_S cfg n y :
    iterate sha1hex h cfg (S n) y = iterate sha1hex h cfg n (sys_step sha1hex h cfg y).
  Proof. reflexivity. Qed.

  (* the keyring is never consulted: EXTERNAL is accepted, or the cookie mechanism is not *)
  Lemma nc_easy_cfgs :
    forallb (fun c => completed (run c true) && completed (run c false))
            (filter (fun c => negb (cookie_first c)) all_cfgs) = true.
  Proof. vm_compute. reflexivity. Qed.

  (* the server's challenge is in flight to the client *)
  Definition at_challenge (unix : bool) : sys :=
    mk_sys (mk_pst (mk_cst unix [s_ANONYMOUS] s_COOKIE None false false 0) false false)
           (SWaitData m_DBUS_COOKIE_SHA1) [] [cookie_challenge].

  (* the client has answered it with ERROR (k: calls of os.urandom so far) *)
  Definition answered_error (unix : bool) (k : nat) : sys :=
    mk_sys (mk_pst (mk_cst unix [s_ANONYMOUS] s_COOKIE None false false k) false false)
           (SWaitData m_DBUS_COOKIE_SHA1) [Send s_ERROR] [].

  Lemma to_challenge cfg unix :
    cookie_first cfg = true -> In cfg all_cfgs ->
    iterate sha1hex h cfg 4 (sys_init user unix) = at_challenge unix.
  Proof.
    intros CF I. vm_compute in I.
    repeat (destruct I as [<-|I]; [first [discriminate CF | destruct unix; vm_compute; reflexivity]|]).
    destruct I.
  Qed.

  Lemma challenge_step cfg unix :
    exists k, (k <= 1)%nat /\ sys_step sha1hex h cfg (at_challenge unix) = answered_error unix k.
  Proof.
    destruct (lookup srv_ctx srv_cookie_id) as [| |c] eqn:E.
    - exists 0%nat. split; [lia|]. vm_compute in E. destruct unix; vm_compute; rewrite E; reflexivity.
    - exists 1%nat. split; [lia|]. vm_compute in E. destruct unix; vm_compute; rewrite E; reflexivity.
    - exfalso. exact (unanswerable c eq_refl).
  Qed.

  (* from there: ERROR -> REJECTED -> AUTH ANONYMOUS -> OK ... or REJECTED -> close *)
  Lemma from_answered_error :
    forallb (fun c =>
      forallb (fun k =>
        forallb (fun unix =>
          let y := iterate sha1hex h c 35 (answered_error unix k) in
          if cookie_only c then negb (completed y) && gave_up y else completed y)
        [true; false]) [0%nat; 1%nat])
      (filter cookie_first all_cfgs) = true.
  Proof. vm_compute. reflexivity. Qed.

  Lemma cookie_first_run cfg unix :
    cookie_first cfg = true -> In cfg all_cfgs ->
    let y := run cfg unix in
    if cookie_only cfg then negb (completed y) && gave_up y = true else completed y = true.
  Proof.
    intros CF I. cbv zeta. unfold handshake. change 40%nat with (4 + 36)%nat.
    rewrite iterate_add', (to_challenge cfg unix CF I).
    rewrite (iterate_S cfg 35).
    destruct (challenge_step cfg unix) as (k & K & E). rewrite E. clear E.
    pose proof from_answered_error as F. rewrite forallb_forall in F.
    assert (J : In cfg (filter cookie_first all_cfgs)) by (apply filter_In; split; assumption).
    specialize (F cfg J). rewrite forallb_forall in F.
    assert (Kin : In k [0%nat; 1%nat]) by (destruct k as [|[|k]]; [left | right; left | lia]; reflexivity).
    specialize (F k Kin). rewrite forallb_forall in F.
    assert (Uin : In unix [true; false]) by (destruct unix; [left | right; left]; reflexivity).
    specialize (F unix Uin). cbv zeta in F.
    destruct (cookie_only cfg); exact F.
  Qed.

  (* accepted is not exactly [DBUS_COOKIE_SHA1]: the handshake completes *)
  Theorem completes_without_cookie cfg unix :
    In cfg all_cfgs -> accepted cfg <> [m_DBUS_COOKIE_SHA1] -> completed (run cfg unix) = true.
  Proof.
    intros I NC. destruct (cookie_first cfg) eqn:CF.
    - pose proof (cookie_first_run cfg unix CF I) as R. cbv zeta in R.
      destruct (cookie_only cfg) eqn:CO; [|exact R].
      exfalso. apply NC, cookie_only_spec, CO.
    - pose proof nc_easy_cfgs as E. rewrite forallb_forall in E.
      assert (J : In cfg (filter (fun c => negb (cookie_first c)) all_cfgs)).
      { apply filter_In. split; [exact I | rewrite CF; reflexivity]. }
      specialize (E cfg J). apply andb_true_iff in E as [E1 E2]. destruct unix; assumption.
  Qed.

  (* accepted is exactly [DBUS_COOKIE_SHA1]: the handshake cannot complete; the
     client does not hang, it closes, and the run is over *)
  Theorem gives_up_without_cookie cfg unix :
    In cfg all_cfgs -> accepted cfg = [m_DBUS_COOKIE_SHA1] ->
    completed (run cfg unix) = false /\ gave_up (run cfg unix) = true /\
    sys_step sha1hex h cfg (run cfg unix) = run cfg unix.
  Proof.
    intros I A.
    assert (CF : cookie_first cfg = true) by (unfold cookie_first; rewrite A; reflexivity).
    pose proof (cookie_first_run cfg unix CF I) as R. cbv zeta in R.
    apply cookie_only_spec in A. rewrite A in R.
    apply andb_true_iff in R as [R1 R2]. apply negb_true_iff in R1.
    split; [exact R1|]. split; [exact R2|].
    revert R2. generalize (run cfg unix). intros y G. unfold gave_up in G.
    apply andb_true_iff in G as [_ G]. unfold sys_step.
    destruct (y_to_s y); destruct (y_to_c y); try discriminate G. reflexivity.
  Qed.
End NoCookie.

(* the two keyrings of Model/AuthClientLoop.v cannot answer *)
Lemma no_keyring_unanswerable c : no_keyring srv_ctx srv_cookie_id <> LCookie c.
Proof. discriminate. Qed.

Lemma other_keyring_unanswerable c : other_keyring srv_ctx srv_cookie_id <> LCookie c.
Proof. discriminate. Qed.
