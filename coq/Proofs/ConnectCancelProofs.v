(* Proofs for the cancellation layer of C09 (Model/ConnectCancel.v). *)
From Tx Require Import Lib.Base Model.Calls Spec.CallSpec Proofs.CallsProofs Model.Connect Spec.ConnectSpec
  Proofs.ConnectProofs Model.ConnectRe Proofs.ConnectReProofs Model.ConnectCancel.
From Coq Require Import Permutation.
Local Open Scope N_scope.

(* ------------------------------------------------------------------------ *)
(* 1. the connection does not notice a cancellation                            *)

Lemma core_erase_from acts evs : forall cs,
  cs_core (fold_left (step_c acts) evs cs) = fold_left (step_re acts) (erase evs) (cs_core cs).
Proof.
  induction evs as [|e evs IH]; intros cs; cbn [fold_left erase flat_map]; [reflexivity|].
  rewrite IH. destruct e as [e|i]; cbn [step_c app fold_left cs_core].
  - reflexivity.
  - destruct (can_cancel cs i); reflexivity.
Qed.

Lemma core_erase acts addr s0 evs :
  cs_core (run_c acts addr s0 evs) = run_re acts addr s0 (erase evs).
Proof. unfold run_c, run_re. rewrite core_erase_from. reflexivity. Qed.

Lemma erase_app a b : erase (a ++ b) = erase a ++ erase b.
Proof. unfold erase. apply flat_map_app. Qed.

(* ------------------------------------------------------------------------ *)
(* 2. the call table only ever moves by steps of Model/Calls.v                 *)

Definition Steps (c c' : Calls.state) : Prop := exists l, c' = fold_left Calls.step l c.

Lemma steps_refl c : Steps c c.
Proof. exists []. reflexivity. Qed.

Lemma steps_trans a b c : Steps a b -> Steps b c -> Steps a c.
Proof. intros [l1 ->] [l2 ->]. exists (l1 ++ l2). rewrite fold_left_app. reflexivity. Qed.

Lemma steps_one c e : Steps c (Calls.step c e).
Proof. exists [e]. reflexivity. Qed.

Lemma steps_reach s0 c c' : ReachC s0 c -> Steps c c' -> ReachC s0 c'.
Proof.
  intros [cevs ->] [l ->]. exists (cevs ++ l). unfold Calls.run. rewrite fold_left_app. reflexivity.
Qed.

Lemma lose_fold_id r l : forall c, st_next_id (fold_left (lose_one r) l c) = st_next_id c.
Proof.
  induction l as [|e l IH]; intros c; cbn [fold_left]; [reflexivity|].
  rewrite IH. unfold lose_one. cbn [complete st_next_id].
  destruct (pc_timer (snd e)); [|reflexivity]. unfold cancel_timer.
  destruct (find_timer (fst e) (st_timers c)); reflexivity.
Qed.

Lemma calls_step_id_mono c e : (st_next_id c <= st_next_id (Calls.step c e))%nat.
Proof.
  destruct e as [k t rs|s m|s name m|s|r]; cbn [Calls.step].
  - unfold call_remote. destruct c as [ser nid pend tims done fault].
    cbn [st_next_id st_next_serial st_pending st_timers st_done st_fault].
    destruct k; try (cbn [complete st_next_id]; lia);
      destruct (max_serial <? ser); cbn [complete st_next_id]; try lia.
    destruct (truthy_timeout t); cbn [set_pending set_timers st_next_id]; lia.
  - unfold method_return_received, reply_received.
    destruct (alist_get N.eqb s (st_pending c)) as [pc|]; [|lia].
    cbn [complete set_pending st_next_id]. destruct (pc_timer pc); [|lia].
    unfold cancel_timer. destruct (find_timer s (st_timers c)); cbn; lia.
  - unfold error_received, reply_received.
    destruct (alist_get N.eqb s (st_pending c)) as [pc|]; [|lia].
    cbn [complete set_pending st_next_id]. destruct (pc_timer pc); [|lia].
    unfold cancel_timer. destruct (find_timer s (st_timers c)); cbn; lia.
  - unfold timer_fires. destruct (find_timer s (st_timers c)) as [i|]; [|lia].
    unfold on_method_timeout.
    destruct (alist_get N.eqb s (st_pending (set_timers c (remove_timer s (st_timers c))))); cbn; lia.
  - unfold Calls.connection_lost. cbn [set_pending st_next_id]. rewrite lose_fold_id. lia.
Qed.

Lemma steps_id_mono c c' : Steps c c' -> (st_next_id c <= st_next_id c')%nat.
Proof.
  intros [l ->]. revert c. induction l as [|e l IH]; intros c; cbn [fold_left]; [lia|].
  specialize (IH (Calls.step c e)). assert (H := calls_step_id_mono c e). lia.
Qed.

Lemma exec_steps st a : Steps (st_calls st) (st_calls (exec st a)).
Proof.
  destruct (exec_calls st a) as [E|[t [_ E]]]; rewrite E; [apply steps_refl | apply steps_one].
Qed.

Lemma phases_steps acts st r : Steps (st_calls st) (st_calls (proxy_phase acts (conn_phase acts st r) r)).
Proof.
  set (P := fun s : Connect.state => Steps (st_calls st) (st_calls s)).
  assert (Pr : forall s l, P s -> P (set_ran s l)) by (intros s l H; exact H).
  assert (Pe : forall s a, P s -> P (exec s a)).
  { intros s a H. unfold P in *. eapply steps_trans; [exact H | apply exec_steps]. }
  apply (keep_proxy_phase P Pr Pe). apply (keep_conn_phase P Pr Pe). apply steps_refl.
Qed.

Lemma established_lost_re_calls acts st r :
  st_calls (established_lost_re acts st r) =
  Calls.step (st_calls (proxy_phase acts (conn_phase acts st r) r)) (ELost r).
Proof. unfold established_lost_re. cbn [set_phase st_calls]. rewrite deliver_calls. reflexivity. Qed.

Lemma step_re_steps acts st e : Steps (st_calls st) (st_calls (step_re acts st e)).
Proof.
  assert (Plain : Steps (st_calls st) (st_calls (Connect.step st e))).
  { destruct (step_calls st e) as [E|[ce E]]; rewrite E; [apply steps_refl | apply steps_one]. }
  destruct e as [| | | |ce|k key|o cb|o cb]; try exact Plain.
  destruct ce; try exact Plain. cbn [step_re].
  destruct (st_open st); [|apply steps_refl].
  assert (Est : Steps (st_calls st) (st_calls (established_lost_re acts (set_open st false) reason))).
  { rewrite established_lost_re_calls.
    eapply steps_trans; [apply (phases_steps acts (set_open st false) reason) | apply steps_one]. }
  unfold connection_lost_re. destruct (st_phase (set_open st false)); try exact Est.
  apply steps_refl.
Qed.

Lemma run_re_reach acts addr s0 evs : ReachC s0 (st_calls (run_re acts addr s0 evs)).
Proof.
  induction evs as [|e evs IH] using rev_ind.
  - exists []. apply init_calls.
  - rewrite run_re_snoc. eapply steps_reach; [exact IH | apply step_re_steps].
Qed.

Lemma reach_done_lt s0 c :
  ReachC s0 c -> Forall (fun x => (fst x < st_next_id c)%nat) (st_done c).
Proof.
  intros [cevs ->]. apply Forall_forall. intros [i o] Hin.
  destruct (only_calls_complete s0 cevs i o Hin) as [cl [Hc [Hid _]]].
  apply calls_of_ids in Hc. destruct (run_inv s0 cevs) as [_ Hi _ _ _].
  cbn [fst]. rewrite Hi. lia.
Qed.

(* ------------------------------------------------------------------------ *)
(* 3. the list of cancelled Deferreds                                          *)

Definition CI (cs : cstate) : Prop :=
  NoDup (cs_cancelled cs) /\
  Forall (fun i => (i < st_next_id (st_calls (cs_core cs)))%nat) (cs_cancelled cs).

Lemma has_false_not_in l i : has l i = false -> ~ In i l.
Proof.
  unfold has. intros H Hin. assert (E : existsb (Nat.eqb i) l = true).
  { apply existsb_exists. exists i. split; [exact Hin | apply Nat.eqb_refl]. }
  rewrite E in H. discriminate H.
Qed.

Lemma has_true_in l i : has l i = true -> In i l.
Proof.
  unfold has. intros H. apply existsb_exists in H as [x [Hx E]]. apply Nat.eqb_eq in E. subst x. exact Hx.
Qed.

Lemma nodup_snoc {A} (l : list A) x : NoDup l -> ~ In x l -> NoDup (l ++ [x]).
Proof.
  induction l as [|a l IH]; intros Hnd Hx; cbn [app].
  - constructor; [intros [] | constructor].
  - inversion Hnd as [|? ? Ha Hl]; subst. constructor.
    + intros Hin. apply in_app_or in Hin as [Hin|[->|[]]]; [apply Ha; exact Hin | apply Hx; left; reflexivity].
    + apply IH; [exact Hl | intros Hin; apply Hx; right; exact Hin].
Qed.

Lemma ci_step acts cs e : CI cs -> CI (step_c acts cs e).
Proof.
  intros [Hnd Hlt]. destruct e as [e|i]; cbn [step_c].
  - split; cbn [cs_cancelled cs_core]; [exact Hnd|].
    assert (M := steps_id_mono _ _ (step_re_steps acts (cs_core cs) e)).
    eapply Forall_impl; [|exact Hlt]. cbn. intros x Hx. lia.
  - destruct (can_cancel cs i) eqn:E; [|split; assumption].
    unfold can_cancel in E. apply andb_true_iff in E as [E Enc]. apply andb_true_iff in E as [E _].
    apply andb_true_iff in E as [_ Elt]. apply Nat.ltb_lt in Elt. apply negb_true_iff in Enc.
    split; cbn [cs_cancelled cs_core].
    + apply nodup_snoc; [exact Hnd | exact (has_false_not_in _ _ Enc)].
    + apply Forall_app. split; [exact Hlt | constructor; [exact Elt | constructor]].
Qed.

Lemma ci_run acts addr s0 evs : CI (run_c acts addr s0 evs).
Proof.
  unfold run_c. assert (H : CI (init_c addr s0)) by (split; constructor).
  revert H. generalize (init_c addr s0) as cs. induction evs as [|e evs IH]; intros cs H; cbn [fold_left]; [exact H|].
  apply IH. apply ci_step. exact H.
Qed.

(* ------------------------------------------------------------------------ *)
(* 4. the contracts of Spec/ConnectSpec.v seen through [view]                  *)

Lemma not_cancelled_true canc i : not_cancelled canc i = true <-> ~ In i canc.
Proof.
  unfold not_cancelled. rewrite negb_true_iff. split.
  - apply has_false_not_in.
  - intros H. destruct (existsb (Nat.eqb i) canc) eqn:E; [|reflexivity].
    exfalso. apply H. apply (has_true_in canc i E).
Qed.

Lemma view_loss_reentrant_ok r canc b m a :
  Forall (fun i => (i < sn_issued b)%nat) canc ->
  loss_reentrant_ok r b m a ->
  loss_reentrant_ok r (view canc b) (view canc m) (view canc a).
Proof.
  intros Hc (H1 & H2 & H3 & H4 & H5 & [new [H6 H6']] & H7 & H8 & H9).
  unfold loss_reentrant_ok, view.
  cbn [sn_outstanding sn_timers sn_registered sn_completed sn_ran sn_fired sn_issued].
  repeat split.
  - rewrite H1. reflexivity.
  - exact H2.
  - apply NoDup_map_filter. exact H3.
  - intros i Hi. apply filter_In in Hi as [Hi Hn]. apply filter_In. split; [apply H4; exact Hi | exact Hn].
  - intros i Hi. assert (Hn : not_cancelled canc i = true).
    { apply not_cancelled_true. intros Hin. rewrite Forall_forall in Hc. specialize (Hc i Hin). lia. }
    destruct (H5 i Hi) as [H|H]; [left | right]; apply filter_In; (split; [exact H | exact Hn]).
  - exists (filter (fun x => not_cancelled canc (fst x)) new). split.
    + rewrite H6, filter_app. reflexivity.
    + intros x Hx. apply filter_In in Hx as [Hx Hn]. destruct (H6' x Hx) as [H|H]; [left | right; exact H].
      apply filter_In. split; [exact H | exact Hn].
  - exact H7.
  - exact H8.
  - exact H9.
Qed.

Lemma view_quiet canc lc a l :
  Forall (fun i => (sn_issued a <= i)%nat) lc ->
  Forall (fun x => (fst x < sn_issued a)%nat) (sn_completed a) ->
  quiet a l -> quiet (view canc a) (view (canc ++ lc) l).
Proof.
  intros Hlc Hlt (Q1 & Q2 & [later [Q3 Q4]]).
  unfold quiet, view. cbn [sn_ran sn_fired sn_completed sn_issued].
  split; [exact Q1|]. split; [exact Q2|].
  exists (filter (fun x => not_cancelled (canc ++ lc) (fst x)) later). split.
  - rewrite Q3, filter_app. f_equal.
    apply filter_ext_in. intros x Hx. rewrite Forall_forall in Hlt. specialize (Hlt x Hx).
    unfold not_cancelled. f_equal. rewrite existsb_app.
    assert (E : existsb (Nat.eqb (fst x)) lc = false).
    { destruct (existsb (Nat.eqb (fst x)) lc) eqn:E; [|reflexivity].
      apply (has_true_in lc (fst x)) in E. rewrite Forall_forall in Hlc. specialize (Hlc _ E). lia. }
    rewrite E, orb_false_r. reflexivity.
  - apply Forall_forall. intros x Hx. apply filter_In in Hx as [Hx _].
    rewrite Forall_forall in Q4. apply Q4. exact Hx.
Qed.

(* ------------------------------------------------------------------------ *)
(* 5. after the loss: only Deferreds issued later can still be cancelled       *)

Definition SufI (n : nat) d ran fired (canc0 : list nat) (cs : cstate) : Prop :=
  Post n d ran fired (cs_core cs) /\
  exists lc, cs_cancelled cs = canc0 ++ lc /\ Forall (fun i => (n <= i)%nat) lc.

Lemma sufi_step acts n d ran fired canc0 cs e :
  SufI n d ran fired canc0 cs -> SufI n d ran fired canc0 (step_c acts cs e).
Proof.
  intros [HP [lc [Hc Hl]]]. destruct e as [e|i]; cbn [step_c].
  - split; cbn [cs_core cs_cancelled].
    + rewrite (step_re_closed acts _ e (post_open _ _ _ _ _ HP)). apply post_step. exact HP.
    + exists lc. split; assumption.
  - destruct (can_cancel cs i) eqn:E; [|split; [exact HP | exists lc; split; assumption]].
    split; cbn [cs_core cs_cancelled]; [exact HP|].
    exists (lc ++ [i]). split; [rewrite Hc, app_assoc; reflexivity|].
    apply Forall_app. split; [exact Hl|]. constructor; [|constructor].
    unfold can_cancel in E. apply andb_true_iff in E as [E _]. apply andb_true_iff in E as [_ Ein].
    apply has_true_in in Ein. unfold pending_ids in Ein. apply in_map_iff in Ein as [p [<- Hp]].
    destruct HP as [_ (_ & _ & Hpend & _)]. rewrite Forall_forall in Hpend. exact (Hpend p Hp).
Qed.

Lemma sufi_run acts n d ran fired canc0 evs : forall cs,
  SufI n d ran fired canc0 cs -> SufI n d ran fired canc0 (fold_left (step_c acts) evs cs).
Proof.
  induction evs as [|e evs IH]; intros cs H; cbn [fold_left]; [exact H|].
  apply IH. apply sufi_step. exact H.
Qed.

(* ------------------------------------------------------------------------ *)
(* 6. the loss, with cancelled calls around                                    *)

Definition vsnap (cs : cstate) : snapshot := view (cs_cancelled cs) (snap (cs_core cs)).

Lemma run_c_snoc acts addr s0 evs e : run_c acts addr s0 (evs ++ [e]) = step_c acts (run_c acts addr s0 evs) e.
Proof. unfold run_c. rewrite fold_left_app. reflexivity. Qed.

Lemma run_c_app acts addr s0 pre e post :
  run_c acts addr s0 (pre ++ e :: post) =
  fold_left (step_c acts) post (step_c acts (run_c acts addr s0 pre) e).
Proof. unfold run_c. rewrite fold_left_app. reflexivity. Qed.

Lemma loss_with_cancelled acts addr s0 pre r post :
  st_phase (cs_core (run_c acts addr s0 pre)) = Ready ->
  let b := run_c acts addr s0 pre in
  let a := run_c acts addr s0 (pre ++ [CEv (ECalls (ELost r))]) in
  let l := run_c acts addr s0 (pre ++ CEv (ECalls (ELost r)) :: post) in
  loss_reentrant_ok r (vsnap b)
                      (view (cs_cancelled b) (snap (conn_phase acts (set_open (cs_core b) false) r)))
                      (vsnap a) /\
  pending_serials (st_calls (cs_core a)) = [] /\
  cs_cancelled a = cs_cancelled b /\
  quiet (vsnap a) (vsnap l) /\
  (exists lc, cs_cancelled l = cs_cancelled a ++ lc /\ Forall (fun i => (sn_issued (vsnap a) <= i)%nat) lc) /\
  NoDup (cs_cancelled l) /\
  (forall i, In i (cs_cancelled l) -> ~ In i (map fst (sn_completed (vsnap l)))).
Proof.
  intros Hph. cbv zeta.
  set (b := run_c acts addr s0 pre) in *.
  assert (Eb : cs_core b = run_re acts addr s0 (erase pre)) by apply core_erase.
  rewrite Eb in Hph.
  destruct (loss_reentrant acts addr s0 (erase pre) r (erase post) Hph) as [Hok Hq].
  assert (Ea : run_c acts addr s0 (pre ++ [CEv (ECalls (ELost r))]) =
               CState (run_re acts addr s0 (erase pre ++ [ECalls (ELost r)])) (cs_cancelled b)).
  { rewrite run_c_snoc. fold b. cbn [step_c]. rewrite Eb, run_re_snoc. reflexivity. }
  set (a := run_c acts addr s0 (pre ++ [CEv (ECalls (ELost r))])) in *.
  assert (CIb := ci_run acts addr s0 pre). fold b in CIb. destruct CIb as [_ Hlt].
  (* the suffix *)
  assert (Hstep := loss_reentrant_step acts addr s0 (erase pre) r).
  assert (Ealive : run_re acts addr s0 (erase pre) = Connect.run addr s0 (erase pre)).
  { apply run_re_alive. rewrite Hph. discriminate. }
  rewrite Ealive in Hph. destruct (Hstep Hph) as [_ P2]. cbv zeta in P2. clear Hstep.
  assert (Ecore_a : cs_core a = step_re acts (Connect.run addr s0 (erase pre)) (ECalls (ELost r))).
  { rewrite Ea. cbn [cs_core]. rewrite run_re_snoc, Ealive. reflexivity. }
  rewrite <- Ecore_a in P2.
  assert (S0 : SufI (st_next_id (st_calls (cs_core a))) (st_done (st_calls (cs_core a))) (st_ran (cs_core a))
                    (st_fired (cs_core a)) (cs_cancelled a) a).
  { split; [exact P2|]. exists []. split; [rewrite app_nil_r; reflexivity | constructor]. }
  assert (El : run_c acts addr s0 (pre ++ CEv (ECalls (ELost r)) :: post) =
               fold_left (step_c acts) post a).
  { rewrite run_c_app. unfold a. rewrite run_c_snoc. reflexivity. }
  rewrite El. set (l := fold_left (step_c acts) post a).
  destruct (sufi_run acts _ _ _ _ _ post a S0) as [_ [lc [Hlc Hlcn]]]. fold l in Hlc.
  assert (Ecore_l : cs_core l = run_re acts addr s0 (erase pre ++ ECalls (ELost r) :: erase post)).
  { unfold l. rewrite core_erase_from, Ea. cbn [cs_core]. rewrite !run_re_app. reflexivity. }
  assert (Ecanc_a : cs_cancelled a = cs_cancelled b) by (rewrite Ea; reflexivity).
  refine (conj _ (conj _ (conj _ (conj _ (conj _ (conj _ _)))))).
  - (* the loss itself *)
    unfold vsnap. rewrite Ecanc_a, Eb. rewrite Ea. cbn [cs_core].
    apply view_loss_reentrant_ok; [|exact Hok].
    rewrite Eb in Hlt. exact Hlt.
  - destruct Hok as (H1 & _). unfold snap in H1. cbn [sn_outstanding] in H1.
    rewrite Ea. cbn [cs_core]. unfold pending_serials.
    apply map_eq_nil in H1. exact (f_equal (map fst) H1).
  - exact Ecanc_a.
  - assert (Ecore_a2 : cs_core a = run_re acts addr s0 (erase pre ++ [ECalls (ELost r)])) by (rewrite Ea; reflexivity).
    unfold vsnap. rewrite Hlc, Ecore_l, Ecore_a2.
    apply view_quiet.
    + rewrite Ecore_a2 in Hlcn. exact Hlcn.
    + apply (reach_done_lt s0). apply run_re_reach.
    + exact Hq.
  - exists lc. split; [exact Hlc|]. exact Hlcn.
  - assert (CIl := ci_run acts addr s0 (pre ++ CEv (ECalls (ELost r)) :: post)). rewrite El in CIl. apply CIl.
  - intros i Hi Hin. unfold vsnap, view in Hin. cbn [sn_completed] in Hin.
    apply in_map_iff in Hin as [x [<- Hx]]. apply filter_In in Hx as [_ Hn].
    apply not_cancelled_true in Hn. contradiction.
Qed.

(* ------------------------------------------------------------------------ *)
(* 7. every Deferred fires at most once, cancellations included                *)

Lemma nodup_app_disjoint {A} (l1 l2 : list A) :
  NoDup l1 -> NoDup l2 -> (forall x, In x l1 -> ~ In x l2) -> NoDup (l1 ++ l2).
Proof.
  induction l1 as [|a l1 IH]; intros H1 H2 Hd; cbn [app]; [exact H2|].
  inversion H1 as [|? ? Ha Hl]; subst. constructor.
  - intros Hin. apply in_app_or in Hin as [Hin|Hin]; [apply Ha; exact Hin | apply (Hd a); [left; reflexivity | exact Hin]].
  - apply IH; [exact Hl | exact H2 | intros x Hx; apply Hd; right; exact Hx].
Qed.

Lemma fires_once acts addr s0 evs :
  let cs := run_c acts addr s0 evs in
  NoDup (map fst (sn_completed (vsnap cs)) ++ cs_cancelled cs).
Proof.
  cbv zeta. set (cs := run_c acts addr s0 evs).
  destruct (ci_run acts addr s0 evs) as [Hnd _]. fold cs in Hnd.
  apply nodup_app_disjoint; [| exact Hnd |].
  - unfold vsnap, view. cbn [sn_completed]. apply NoDup_map_filter. unfold snap. cbn [sn_completed].
    unfold cs. rewrite core_erase. destruct (run_re_reach acts addr s0 (erase evs)) as [cevs ->].
    apply at_most_once.
  - intros i Hi Hin. unfold vsnap, view in Hi. cbn [sn_completed] in Hi.
    apply in_map_iff in Hi as [x [<- Hx]]. apply filter_In in Hx as [_ Hn].
    apply not_cancelled_true in Hn. contradiction.
Qed.
