(* unmarshal() of Model/Marshal.v decodes every spec-conformant encoding
   (Spec/WireSpec.v) of a well-typed wire value (Spec/WireTyped.v) to its
   read-back (Spec/Readback.v), at any offset, with arbitrary bytes before and
   after, in either byte order. *)
From Tx Require Import Lib.Base Model.PyVal Model.Validators Model.Marshal
  Spec.WireSpec Spec.Readback Spec.WireTyped Spec.Conforms
  Proofs.SigProofs Proofs.BytesProofs Proofs.MarshalProofs.
From Coq Require Import ZifyBool ZifyNat ZifyN.
Local Open Scope N_scope.
Ltac Zify.zify_post_hook ::= Z.to_euclidean_division_equations.

(* --- windows into the data --------------------------------------------------------- *)

Definition win (data : bytes) (o : nat) (b : bytes) : Prop :=
  (o <= length data)%nat /\ exists post, skipn o data = b ++ post.

Lemma skipn_add {A} n m (l : list A) : skipn (n + m) l = skipn m (skipn n l).
Proof.
  revert l; induction n as [|n IH]; intros l; [reflexivity|].
  destruct l; [cbn; rewrite skipn_nil; reflexivity|]. cbn [Nat.add skipn]. apply IH.
Qed.

Lemma win_intro pre b post : win (pre ++ b ++ post) (length pre) b.
Proof. split; [rewrite app_length; lia|]. exists post. apply skipn_app_exact. Qed.

Lemma win_len data o b : win data o b -> (o + length b <= length data)%nat.
Proof.
  intros [Ho [post H]]. pose proof (skipn_length o data) as L. rewrite H, app_length in L. lia.
Qed.

Lemma win_sub data o a b : win data o (a ++ b) -> win data (o + length a) b.
Proof.
  intros W. pose proof (win_len _ _ _ W) as L. rewrite app_length in L.
  destruct W as [Ho [post H]]. split; [lia|]. exists post.
  rewrite skipn_add, H, <- app_assoc. apply skipn_app_exact.
Qed.

Lemma win_prefix data o a b : win data o (a ++ b) -> win data o a.
Proof. intros [Ho [post H]]. split; [exact Ho|]. exists (b ++ post). rewrite H, app_assoc. reflexivity. Qed.

Lemma win_take data o b n : win data o b -> length b = n -> take_at n data (N.of_nat o) = Ok b.
Proof.
  intros W Hn. pose proof (win_len _ _ _ W) as L. destruct W as [Ho [post H]].
  unfold take_at. destruct (N.leb_spec (N.of_nat o + N.of_nat n) (len data)) as [_|X];
    [|unfold len in X; lia].
  rewrite Nat2N.id, H, <- Hn. rewrite firstn_app_exact. reflexivity.
Qed.

Lemma win_slice data o s : win data o s -> slice data (N.of_nat o) (len s) = s.
Proof.
  intros W. pose proof (win_len _ _ _ W) as L. destruct W as [Ho [post H]].
  unfold slice. rewrite !N.min_l by (unfold len; lia).
  unfold len. rewrite !Nat2N.id, H. apply firstn_app_exact.
Qed.

(* --- sizes --------------------------------------------------------------------------------- *)

Lemma wt_struct_unfold fds ts l :
  wt fds (TStruct ts) (WStruct l) =
  (ts <> [] /\
   (fix all2 (ts : list ty) (l : list wval) {struct l} : Prop :=
      match ts, l with
      | [], [] => True
      | t :: ts', x :: r => wt fds t x /\ all2 ts' r
      | _, _ => False
      end) ts l).
Proof. reflexivity. Qed.

Lemma encb_nonempty fds le : forall w t o, wt fds t w -> (1 <= length (encb t w o le))%nat.
Proof.
  induction w as [z|b|bits|s|l IH|l IH|vt x IH] using wval_ind'; intros t o H.
  - destruct t; try contradiction; cbn [encb]; rewrite uint_length; cbn; lia.
  - destruct t; try contradiction; cbn [encb]; rewrite uint_length; lia.
  - destruct t; try contradiction; cbn [encb]; rewrite uint_length; lia.
  - destruct t; try contradiction; cbn [encb]; rewrite !app_length, uint_length; cbn; lia.
  - destruct t; try contradiction. rewrite encb_array, !app_length, uint_length. lia.
  - destruct t as [| | | | | | | | | | | | | |ts|kt vt|]; try contradiction.
    + rewrite wt_struct_unfold in H. destruct H as [Hne H].
      destruct ts as [|t ts]; [congruence|]. destruct l as [|x r]; [contradiction|].
      destruct H as [Hx _]. rewrite encb_struct, struct_body_enc, enc_split, !app_length.
      inversion IH; subst. specialize (H1 t (o + length (padding (align t) o))%nat Hx). lia.
    + destruct l as [|k [|x [|? ?]]]; try contradiction. destruct H as (_ & Hk & _).
      rewrite encb_dict, struct_body_enc, enc_split, !app_length.
      inversion IH; subst. specialize (H1 kt (o + length (padding (align kt) o))%nat Hk). lia.
  - destruct t; try contradiction. cbn [encb]. rewrite !app_length, uint_length. lia.
Qed.

(* --- dictionaries ----------------------------------------------------------------------------- *)

Lemma dict_set_fresh k v acc :
  Forall (fun ak => py_eqb_key k (fst ak) = Some false) acc ->
  (exists b, py_eqb_key k k = Some b) ->
  dict_set k v acc = Ok (acc ++ [(k, v)]).
Proof.
  intros Hf [b Hb]. induction acc as [|[k' v'] acc IH]; cbn [dict_set app].
  - rewrite Hb. reflexivity.
  - inversion Hf; subst. cbn [fst] in *. rewrite H1. rewrite IH by assumption. reflexivity.
Qed.

Lemma build_dict_fresh kvs : forall acc,
  Forall (fun kv => exists b, py_eqb_key (fst kv) (fst kv) = Some b) kvs ->
  keys_distinct (map fst kvs) ->
  Forall (fun kv => Forall (fun ak => py_eqb_key (fst kv) (fst ak) = Some false) acc) kvs ->
  build_dict (map (fun kv => PList [fst kv; snd kv]) kvs) acc = Ok (acc ++ kvs).
Proof.
  induction kvs as [|[k v] kvs IH]; intros acc Hh Hd Hf.
  - cbn. rewrite app_nil_r. reflexivity.
  - cbn [map build_dict fst snd]. inversion Hh; subst. inversion Hf; subst. destruct Hd as [Hd1 Hd2].
    cbn [fst] in *. rewrite (dict_set_fresh k v acc H3 H1). cbn [bind].
    rewrite IH; [rewrite <- app_assoc; reflexivity|assumption|assumption|].
    apply Forall_forall. intros kv Hin. apply Forall_app. split.
    + rewrite Forall_forall in H4. apply H4. exact Hin.
    + constructor; [|constructor]. cbn [fst].
      rewrite Forall_forall in Hd1. apply Hd1. apply in_map. exact Hin.
Qed.

Lemma key_hashable fds kt k : key_ty kt = true -> wt fds kt k ->
  exists b, py_eqb_key (readback fds kt k) (readback fds kt k) = Some b.
Proof.
  intros Hk Hw. destruct kt; try discriminate; destruct k; try contradiction; cbn; eexists; reflexivity.
Qed.

(* --- u_one dispatch ------------------------------------------------------------------------------- *)

Lemma u_one_array' f c r data off le fds :
  u_one (S f) (97 :: c :: r) data off le fds =
  do lb <- take_at 4 data off;
  do ip <- pad_for c (off + 4);
  do r0 <- uarr_loop (u_one f) (S (length data)) (c :: r) c data (off + 4 + ip)
             (off + 4 + ip + dec_uint le lb) le fds;
  let '(off2, vs) := r0 in
  if negb (off2 =? off + 4 + ip + dec_uint le lb) then Err EMarshal
  else if c =? 123 then do d <- build_dict vs []; Ok (off2 - off, PDict d)
       else Ok (off2 - off, PList vs).
Proof. reflexivity. Qed.

Lemma u_one_struct f rest data off le fds :
  u_one (S f) (40 :: rest) data off le fds =
  do r <- unmarshal_with (u_one f) (strip_ends (40 :: rest)) data off le fds;
  let '(n, vs) := r in Ok (n, PList vs).
Proof. reflexivity. Qed.

Lemma u_one_dict f rest data off le fds :
  u_one (S f) (123 :: rest) data off le fds =
  do r <- unmarshal_with (u_one f) (strip_ends (123 :: rest)) data off le fds;
  let '(n, vs) := r in Ok (n, PList vs).
Proof. reflexivity. Qed.

Lemma u_one_variant f data off le fds :
  u_one (S f) [118] data off le fds =
  do r <- u_signature data off le;
  let '(nsig, vsig) := r in
  match vsig with
  | [] => Err EIndex
  | vcode :: _ =>
      do p <- pad_for vcode (off + nsig);
      do r2 <- unmarshal_with (u_one f) vsig data (off + nsig + p) le fds;
      let '(nvar, vs) := r2 in
      match vs with
      | [] => Err EIndex
      | v0 :: _ => Ok (nsig + p + nvar, v0)
      end
  end.
Proof. reflexivity. Qed.

Lemma u_one_variant' f data off le fds nsig c r :
  u_signature data off le = Ok (nsig, c :: r) ->
  u_one (S f) [118] data off le fds =
  do p <- pad_for c (off + nsig);
  do r2 <- unmarshal_with (u_one f) (c :: r) data (off + nsig + p) le fds;
  let '(nvar, vs) := r2 in
  match vs with
  | [] => Err EIndex
  | v0 :: _ => Ok (nsig + p + nvar, v0)
  end.
Proof. intros H. rewrite u_one_variant, H. reflexivity. Qed.

(* --- the statement proved by induction on the wire value -------------------------------------------- *)

Section Decode.
  Variable fds : list pyval.
  Variable le : bool.
  Variable data : bytes.

  Definition uelem_ok (x : wval) : Prop :=
    forall t, wt fds t x -> forall f o,
      (wdepth x <= f)%nat -> (o mod align t = 0)%nat -> win data o (encb t x o le) ->
      len (encb t x o le) < two32 ->
      u_one f (show t) data (N.of_nat o) le (Some fds) = Ok (len (encb t x o le), readback fds t x).

  (* padding then one element, inside a window *)
  Lemma uone_padded x t f off rest :
    uelem_ok x -> wt fds t x -> (wdepth x <= f)%nat ->
    win data off (enc t x off le ++ rest) -> len (enc t x off le) < two32 ->
    forall c r, show t = c :: r -> align_of c = Some (N.of_nat (align t)) ->
    exists p, pad_for c (N.of_nat off) = Ok p /\
      u_one f (show t) data (N.of_nat off + p) le (Some fds) =
        Ok (len (encb t x (off + length (padding (align t) off)) le), readback fds t x) /\
      N.of_nat off + p + len (encb t x (off + length (padding (align t) off)) le)
        = N.of_nat (off + length (enc t x off le)).
  Proof.
    intros Hx Hw Hd W Hs c r Hshow Hal.
    exists (len (padding (align t) off)). unfold pad_for. rewrite Hal.
    rewrite (pad_len_spec _ _ (align_good t)). split; [reflexivity|].
    rewrite enc_split in W, Hs. rewrite len_app in Hs. rewrite <- app_assoc in W.
    split.
    - replace (N.of_nat off + len (padding (align t) off))
        with (N.of_nat (off + length (padding (align t) off))) by (unfold len; lia).
      apply Hx; [exact Hw|exact Hd|apply padding_then_aligned, align_good| |lia].
      apply win_sub in W. apply win_prefix in W. exact W.
    - rewrite enc_split, app_length. unfold len. lia.
  Qed.

  Definition wt_all (et : ty) :=
    fix all (l : list wval) : Prop :=
      match l with [] => True | x :: r => wt fds et x /\ all r end.

  Definition wt_fields :=
    fix all2 (ts : list ty) (l : list wval) {struct l} : Prop :=
      match ts, l with
      | [], [] => True
      | t :: ts', x :: r => wt fds t x /\ all2 ts' r
      | _, _ => False
      end.

  Lemma uarr_loop_inverts et c r f :
    show et = c :: r -> align_of c = Some (N.of_nat (align et)) ->
    forall l, Forall uelem_ok l -> wt_all et l -> (wdepth_list l <= f)%nat ->
    forall n off rest, (length l <= n)%nat ->
      win data off (arr_body et le l off ++ rest) -> len (arr_body et le l off) < two32 ->
      uarr_loop (u_one f) n (show et) c data (N.of_nat off)
        (N.of_nat (off + length (arr_body et le l off))) le (Some fds)
      = Ok (N.of_nat (off + length (arr_body et le l off)), map (readback fds et) l).
  Proof.
    intros Hshow Hal l Hl. induction Hl as [|x l Hx Hl IH]; intros Hw Hd n off rest Hn W Hs.
    - cbn [arr_body length map]. rewrite Nat.add_0_r.
      destruct n; cbn [uarr_loop]; rewrite N.ltb_irrefl; reflexivity.
    - destruct Hw as [Hw1 Hw2].
      unfold wdepth_list in Hd; cbn [fold_right] in Hd. fold (wdepth_list l) in Hd.
      rewrite arr_body_enc in *. rewrite len_app in Hs. rewrite <- app_assoc in W.
      pose proof (encb_nonempty fds le x et (off + length (padding (align et) off))%nat Hw1) as Hne.
      assert (Hne' : (1 <= length (enc et x off le))%nat) by (rewrite enc_split, app_length; lia).
      destruct n as [|n]; [cbn in Hn; lia|].
      destruct (uone_padded x et f off _ Hx Hw1 ltac:(lia) W ltac:(lia) c r Hshow Hal)
        as (p & Hp & Hone & Hoff).
      cbn [uarr_loop].
      destruct (N.ltb_spec (N.of_nat off)
                  (N.of_nat (off + length (enc et x off le ++
                     arr_body et le l (off + length (enc et x off le)))))) as [_|X];
        [|rewrite app_length in X; lia].
      rewrite Hp. cbn [bind]. rewrite Hone. cbn [bind].
      destruct (N.eqb_spec (len (encb et x (off + length (padding (align et) off)) le)) 0) as [E0|_];
        [unfold len in E0; lia|].
      rewrite Hoff.
      apply win_sub in W.
      replace (off + length (enc et x off le ++ arr_body et le l (off + length (enc et x off le))))%nat
        with (off + length (enc et x off le) + length (arr_body et le l (off + length (enc et x off le))))%nat
        by (rewrite app_length; lia).
      rewrite (IH Hw2 ltac:(lia) n _ rest ltac:(cbn in Hn; lia) W ltac:(lia)). cbn [bind map].
      reflexivity.
  Qed.

  Lemma useq_loop_inverts f :
    forall l, Forall uelem_ok l -> forall ts, wt_fields ts l -> (wdepth_list l <= f)%nat ->
    forall n off rest, (length l < n)%nat ->
      win data off (struct_body le ts l off ++ rest) -> len (struct_body le ts l off) < two32 ->
      useq_loop (u_one f) n (show_list ts) data (N.of_nat off) le (Some fds)
      = Ok (N.of_nat (off + length (struct_body le ts l off)), readback_seq fds ts l).
  Proof.
    intros l Hl. induction Hl as [|x l Hx Hl IH]; intros ts Hw Hd n off rest Hn W Hs.
    - destruct ts; [|contradiction]. destruct n; [lia|]. cbn. rewrite Nat.add_0_r. reflexivity.
    - destruct ts as [|t ts]; [contradiction|]. destruct Hw as [Hw1 Hw2].
      unfold wdepth_list in Hd; cbn [fold_right] in Hd. fold (wdepth_list l) in Hd.
      rewrite struct_body_enc in *. rewrite len_app in Hs. rewrite <- app_assoc in W.
      destruct n as [|n]; [lia|].
      destruct (hd_code t) as (c & r & Hshow & Hal).
      destruct (uone_padded x t f off _ Hx Hw1 ltac:(lia) W ltac:(lia) c r Hshow Hal)
        as (p & Hp & Hone & Hoff).
      cbn [useq_loop]. rewrite show_list_cons, gct_next_show. rewrite Hshow at 1.
      rewrite Hp. cbn [bind]. rewrite Hone. cbn [bind]. rewrite Hoff.
      apply win_sub in W.
      rewrite (IH ts Hw2 ltac:(lia) n _ rest ltac:(cbn in Hn; lia) W ltac:(lia)). cbn [bind readback_seq].
      rewrite app_length. f_equal. f_equal. f_equal. lia.
  Qed.
End Decode.

(* --- the main inversion ------------------------------------------------------------------------------- *)

Lemma readback_struct fds ts l : readback fds (TStruct ts) (WStruct l) = PList (readback_seq fds ts l).
Proof.
  cbn [readback]. f_equal. revert ts; induction l as [|x r IH]; intros [|t ts]; try reflexivity.
  cbn [readback_seq]. f_equal. apply IH.
Qed.

Lemma readback_array_plain fds et l :
  (forall k v, et <> TDictEntry k v) ->
  readback fds (TArray et) (WArray l) = PList (map (readback fds et) l).
Proof. intros H. destruct et; try reflexivity. exfalso. eapply H. reflexivity. Qed.

Lemma hd_not_brace et c r : show et = c :: r -> (forall k v, et <> TDictEntry k v) -> (c =? 123) = false.
Proof.
  intros Hs Hn. destruct et; cbn in Hs; inversion Hs; subst; try reflexivity.
  exfalso. eapply Hn. reflexivity.
Qed.

Lemma wt_all_length fds le et l : wt_all fds et l -> forall off, (length l <= length (arr_body et le l off))%nat.
Proof.
  induction l as [|x r IH]; intros H off; [cbn; lia|]. destruct H as [H1 H2].
  rewrite arr_body_enc, app_length. cbn [length].
  pose proof (encb_nonempty fds le x et (off + length (padding (align et) off))%nat H1) as Hne.
  specialize (IH H2 (off + length (enc et x off le))%nat).
  assert (1 <= length (enc et x off le))%nat by (rewrite enc_split, app_length; lia). lia.
Qed.

Lemma wt_fields_length fds ts l : wt_fields fds ts l -> length ts = length l.
Proof.
  revert ts; induction l as [|x r IH]; intros [|t ts] H; try contradiction; [reflexivity|].
  destruct H as [_ H]. cbn. f_equal. apply IH. exact H.
Qed.

Lemma Z_to_N_to_nat z : N.to_nat (Z.to_N z) = Z.to_nat z.
Proof. destruct z; reflexivity. Qed.

Theorem u_one_inverts fds le data : forall w, uelem_ok fds le data w.
Proof.
  induction w as [z|b|bits|s|l IH|l IH|vt x IH] using wval_ind';
    intros t Hw f o Hd Hal W Hs;
    match type of Hd with (wdepth ?w0 <= _)%nat => pose proof (wdepth_pos w0) as Hpos end;
    (destruct f as [|f]; [cbn in Hd; lia|]).
  - (* integers and descriptors *)
    assert (Hint : forall n (signed : bool) t',
              t' = t -> is_int_ty t = true -> width t = n ->
              signed = match t with TInt16 | TInt32 | TInt64 => true | _ => false end ->
              u_int n signed data (N.of_nat o) le = Ok (len (encb t (WInt z) o le), readback fds t (WInt z))).
    { intros n signed t' _ Hit Hn Hsg. unfold u_int.
      assert (E : encb t (WInt z) o le = uint (width t) le (twos (width t) z))
        by (destruct t; try discriminate; reflexivity).
      rewrite E in *. rewrite (win_take _ _ _ n W) by (rewrite uint_length; exact Hn).
      cbn [bind]. rewrite len_uint, Hn.
      assert (Hr : int_range t z = true) by (destruct t; try discriminate; exact Hw).
      destruct (int_range_pack t z Hit Hr) as [Hwd Hrange]. rewrite <- Hsg in Hrange. rewrite Hn in *.
      rewrite (unpack_pack n signed le z Hwd Hrange).
      destruct t; try discriminate; reflexivity. }
    destruct t; try contradiction; cbn [show].
    1-7: match goal with |- u_one _ [?c] _ _ _ _ = _ => idtac end.
    + apply (Hint 1%nat false TByte); reflexivity.
    + apply (Hint 2%nat true TInt16); reflexivity.
    + apply (Hint 2%nat false TUInt16); reflexivity.
    + apply (Hint 4%nat true TInt32); reflexivity.
    + apply (Hint 4%nat false TUInt32); reflexivity.
    + apply (Hint 8%nat true TInt64); reflexivity.
    + apply (Hint 8%nat false TUInt64); reflexivity.
    + (* UNIX_FD *)
      clear Hint. cbn [encb width readback] in *.
      change (u_one (S f) [104] data (N.of_nat o) le (Some fds)) with
        (do b <- take_at 4 data (N.of_nat o);
         let idx := dec_uint le b in
         Ok (4, if idx <? N.of_nat (length fds) then nth (N.to_nat idx) fds PNone else PNone)).
      rewrite (win_take _ _ _ 4%nat W) by apply uint_length. cbn [bind].
      rewrite <- enc_uint_spec, dec_enc_uint by (apply (twos_lt 4 z); unfold in_width; auto).
      cbn in Hw.
      assert (Ez : twos 4 z = Z.to_N z).
      { unfold twos. rewrite Z.mod_small by (cbn; lia). reflexivity. }
      rewrite Ez, len_uint, Z_to_N_to_nat.
      destruct (N.ltb_spec (Z.to_N z) (N.of_nat (length fds))); [reflexivity|].
      rewrite nth_overflow by lia. reflexivity.
  - (* boolean *)
    destruct t; try contradiction. cbn [show encb readback] in *.
    change (u_one (S f) [98] data (N.of_nat o) le (Some fds)) with
      (do b0 <- take_at 4 data (N.of_nat o); Ok (4, PBool (negb (dec_uint le b0 =? 0)))).
    rewrite (win_take _ _ _ 4%nat W) by apply uint_length. cbn [bind].
    rewrite <- enc_uint_spec, dec_enc_uint by (destruct b; reflexivity).
    rewrite enc_uint_spec, len_uint. destruct b; reflexivity.
  - (* double *)
    destruct t; try contradiction. cbn [show encb readback] in *.
    change (u_one (S f) [100] data (N.of_nat o) le (Some fds)) with
      (do b0 <- take_at 8 data (N.of_nat o); Ok (8, PFloat (dec_uint le b0))).
    rewrite (win_take _ _ _ 8%nat W) by apply uint_length. cbn [bind].
    rewrite <- enc_uint_spec, dec_enc_uint by exact Hw.
    rewrite enc_uint_spec, len_uint. reflexivity.
  - (* strings *)
    assert (Hstr : forall s0, utf8_valid s0 = true ->
              win data o (uint 4 le (N.of_nat (length s0)) ++ s0 ++ [0]) ->
              len (uint 4 le (N.of_nat (length s0)) ++ s0 ++ [0]) < two32 ->
              u_string data (N.of_nat o) le =
              Ok (len (uint 4 le (N.of_nat (length s0)) ++ s0 ++ [0]), PStr s0)).
    { intros s0 Hu W0 Hs0. unfold u_string.
      rewrite (win_take _ _ _ 4%nat (win_prefix _ _ _ _ W0)) by apply uint_length. cbn [bind].
      rewrite !len_app, len_uint in Hs0. unfold len in Hs0. cbn [length] in Hs0.
      rewrite <- enc_uint_spec, dec_enc_uint by (unfold two32 in *; cbn; lia).
      apply win_sub in W0. rewrite enc_uint_length in W0. apply win_prefix in W0.
      replace (N.of_nat o + 4) with (N.of_nat (o + 4)) by lia.
      change (N.of_nat (length s0)) with (len s0).
      rewrite (win_slice _ _ _ W0), Hu. rewrite enc_uint_spec, !len_app, len_uint. unfold len. cbn [length].
      f_equal. f_equal. lia. }
    destruct t; try contradiction; cbn [show encb readback] in *.
    + change (u_one (S f) [115] data (N.of_nat o) le (Some fds)) with (u_string data (N.of_nat o) le).
      apply Hstr; assumption.
    + change (u_one (S f) [111] data (N.of_nat o) le (Some fds)) with (u_string data (N.of_nat o) le).
      apply Hstr; assumption.
    + destruct Hw as [Ha Hl]. clear Hstr.
      change (u_one (S f) [103] data (N.of_nat o) le (Some fds)) with
        (do r <- u_signature data (N.of_nat o) le; let '(n, s1) := r in Ok (n, PStr s1)).
      unfold u_signature.
      rewrite (win_take _ _ _ 1%nat (win_prefix _ _ _ _ W)) by apply uint_length. cbn [bind].
      rewrite <- enc_uint_spec, dec_enc_uint by (cbn; lia).
      apply win_sub in W. rewrite enc_uint_length in W. apply win_prefix in W.
      replace (N.of_nat o + 1) with (N.of_nat (o + 1)) by lia.
      change (N.of_nat (length s)) with (len s).
      rewrite (win_slice _ _ _ W), Ha. cbn [bind]. rewrite enc_uint_spec, !len_app, len_uint.
      unfold len. cbn [length]. f_equal. f_equal. lia.
  - (* arrays *)
    destruct t as [| | | | | | | | | | | | |et| | |]; try contradiction.
    destruct Hw as [Hall Hkeys]. change (wt_all fds et l) in Hall.
    destruct (hd_code et) as (c & r & Hshow & Halc).
    cbn [show]. rewrite Hshow, u_one_array', <- Hshow.
    rewrite encb_array in *.
    set (ip := padding (align et) (o + 4)) in *.
    set (start := (o + 4 + length ip)%nat) in *.
    set (body := arr_body et le l start) in *.
    rewrite !len_app, len_uint in Hs.
    rewrite (win_take _ _ _ 4%nat (win_prefix _ _ _ _ W)) by apply uint_length. cbn [bind].
    rewrite <- enc_uint_spec, dec_enc_uint by (unfold two32, len in *; cbn; lia).
    rewrite ?enc_uint_spec.
    unfold pad_for. rewrite Halc.
    replace (N.of_nat o + 4) with (N.of_nat (o + 4)) by lia.
    rewrite (pad_len_spec _ _ (align_good et)). fold ip. cbn [bind].
    replace (N.of_nat (o + 4) + len ip) with (N.of_nat start) by (unfold start, len; lia).
    replace (N.of_nat start + N.of_nat (length body)) with (N.of_nat (start + length body)) by lia.
    cbn [wdepth] in Hd. fold (wdepth_list l) in Hd.
    assert (W2 : win data start (body ++ [])).
    { rewrite app_nil_r. apply win_sub in W. rewrite uint_length in W. apply win_sub in W.
      replace (o + 4 + length ip)%nat with start in W by reflexivity. exact W. }
    assert (Hn : (length l <= S (length data))%nat).
    { pose proof (wt_all_length fds le et l Hall start). pose proof (win_len _ _ _ W2).
      rewrite app_nil_r in *. fold body in H. lia. }
    unfold body at 1 2.
    rewrite (uarr_loop_inverts fds le data et c r f Hshow Halc l IH Hall ltac:(lia)
               (S (length data)) start [] Hn W2 ltac:(fold body; lia)).
    cbn [bind]. fold body. rewrite N.eqb_refl. cbn [negb].
    assert (Hcount : N.of_nat (start + length body) - N.of_nat o
                     = len (uint 4 le (N.of_nat (length body))) + (len ip + len body)).
    { rewrite len_uint. unfold start, len. lia. }
    destruct (N.eqb_spec c 123) as [Ec|Ec].
    + (* dictionary *)
      subst c.
      assert (exists kt vt, et = TDictEntry kt vt) as (kt & vt & ->).
      { destruct et; cbn in Hshow; inversion Hshow; eauto. }
      set (pairs := map (fun e => match e with
                                  | WStruct [k; v] => (readback fds kt k, readback fds vt v)
                                  | _ => (PNone, PNone)
                                  end) l).
      assert (Hmap : map (readback fds (TDictEntry kt vt)) l = map (fun kv => PList [fst kv; snd kv]) pairs).
      { unfold pairs. rewrite map_map. clear -Hall. induction l as [|e l IHl]; [reflexivity|].
        destruct Hall as [He Hl]. cbn [map]. rewrite (IHl Hl). f_equal.
        destruct e as [| | | | |[|k [|v [|? ?]]]|]; try contradiction. reflexivity. }
      rewrite Hmap, build_dict_fresh.
      * cbn [bind app]. change (readback fds (TArray (TDictEntry kt vt)) (WArray l)) with (PDict pairs).
        rewrite Hcount, !len_app. reflexivity.
      * unfold pairs. clear -Hall. induction l as [|e l IHl]; constructor.
        -- destruct Hall as [He _]. destruct e as [| | | | |[|k [|v [|? ?]]]|]; try contradiction.
           destruct He as (Hk & Hwk & _). cbn [fst]. apply (key_hashable fds kt k Hk Hwk).
        -- apply IHl. apply Hall.
      * unfold pairs. rewrite map_map.
        assert (E : map (fun e => fst match e with
                                     | WStruct [k; v] => (readback fds kt k, readback fds vt v)
                                     | _ => (PNone, PNone) end) l
                    = map (entry_key fds (TDictEntry kt vt)) l).
        { clear -Hall. induction l as [|e l IHl]; [reflexivity|]. destruct Hall as [He Hl].
          cbn [map]. rewrite (IHl Hl). f_equal.
          destruct e as [| | | | |[|k [|v [|? ?]]]|]; try contradiction. reflexivity. }
        rewrite E. exact Hkeys.
      * apply Forall_forall. intros kv _. constructor.
    + (* plain array *)
      assert (Hnd : forall k v, et <> TDictEntry k v).
      { intros k v ->. cbn in Hshow. inversion Hshow. congruence. }
      rewrite (readback_array_plain fds et l Hnd), Hcount, !len_app. reflexivity.
  - (* structs and dict entries *)
    destruct t as [| | | | | | | | | | | | | |ts|kt vt|]; try contradiction.
    + rewrite wt_struct_unfold in Hw. destruct Hw as [Hne Hall]. change (wt_fields fds ts l) in Hall.
      rewrite show_struct, u_one_struct, strip_ends_wrap, encb_struct, readback_struct in *.
      unfold unmarshal_with.
      cbn [wdepth] in Hd. fold (wdepth_list l) in Hd.
      assert (W2 : win data o (struct_body le ts l o ++ [])) by (rewrite app_nil_r; exact W).
      rewrite (useq_loop_inverts fds le data f l IH ts Hall ltac:(lia) (S (length (show_list ts))) o []
                 ltac:(pose proof (wt_fields_length _ _ _ Hall); pose proof (show_list_length ts); lia)
                 W2 Hs).
      cbn [bind]. f_equal. f_equal. unfold len. lia.
    + destruct l as [|k [|x [|? ?]]]; try contradiction.
      destruct Hw as (Hkt & Hwk & Hwx).
      rewrite encb_dict in *.
      cbn [show].
      replace (show kt ++ show vt ++ [125]) with (show_list [kt; vt] ++ [125])
        by (cbn [show_list flat_map]; rewrite app_nil_r, app_assoc; reflexivity).
      rewrite u_one_dict, strip_ends_wrap. unfold unmarshal_with.
      cbn [wdepth] in Hd. fold (wdepth_list [k; x]) in Hd.
      assert (Hall : wt_fields fds [kt; vt] [k; x]) by (cbn; auto).
      assert (W2 : win data o (struct_body le [kt; vt] [k; x] o ++ [])) by (rewrite app_nil_r; exact W).
      rewrite (useq_loop_inverts fds le data f [k; x] IH [kt; vt] Hall ltac:(lia)
                 (S (length (show_list [kt; vt]))) o []
                 ltac:(pose proof (show_list_length [kt; vt]); cbn [length] in *; lia) W2 Hs).
      cbn [bind]. f_equal. f_equal. unfold len. lia.
  - (* variants *)
    destruct t; try contradiction. destruct Hw as (Hlen & Hwx).
    destruct (hd_code vt) as (c & r & Hshow & Halc).
    cbn [show]. cbn [encb readback] in *.
    set (sg := uint 1 le (N.of_nat (length (show vt))) ++ show vt ++ [0]) in *.
    set (p := padding (align vt) (o + length sg)) in *.
    assert (Hsig : u_signature data (N.of_nat o) le = Ok (len sg, show vt)).
    { unfold u_signature. pose proof (win_prefix _ _ _ _ W) as Wsg. unfold sg in Wsg.
      rewrite (win_take _ _ _ 1%nat (win_prefix _ _ _ _ Wsg)) by apply uint_length. cbn [bind].
      rewrite <- enc_uint_spec, dec_enc_uint by (cbn; lia).
      rewrite ?enc_uint_spec.
      pose proof Wsg as W1. apply win_sub in W1. rewrite uint_length in W1.
      apply win_prefix in W1.
      replace (N.of_nat o + 1) with (N.of_nat (o + 1)) by lia.
      change (N.of_nat (length (show vt))) with (len (show vt)).
      rewrite (win_slice _ _ _ W1), show_ascii. unfold sg. rewrite !len_app, len_uint.
      unfold len. cbn [length]. f_equal. f_equal. lia. }
    rewrite Hshow in Hsig. rewrite (u_one_variant' _ _ _ _ _ _ _ _ Hsig), <- Hshow.
    unfold pad_for. rewrite Halc.
    replace (N.of_nat o + len sg) with (N.of_nat (o + length sg)) by (unfold len; lia).
    rewrite (pad_len_spec _ _ (align_good vt)). fold p. cbn [bind].
    replace (N.of_nat (o + length sg) + len p) with (N.of_nat (o + length sg + length p)) by (unfold len; lia).
    rewrite !len_app in Hs. cbn [wdepth] in Hd.
    assert (Hal' : ((o + length sg + length p) mod align vt = 0)%nat)
      by (apply padding_then_aligned, align_good).
    assert (Hbody : struct_body le [vt] [x] (o + length sg + length p) = encb vt x (o + length sg + length p) le).
    { cbn [struct_body]. rewrite (padding_aligned _ _ (align_good vt) Hal'). cbn [app length].
      rewrite Nat.add_0_r, app_nil_r. reflexivity. }
    assert (W2 : win data (o + length sg + length p) (struct_body le [vt] [x] (o + length sg + length p) ++ [])).
    { rewrite app_nil_r, Hbody. apply win_sub in W. apply win_sub in W. exact W. }
    unfold unmarshal_with.
    set (n := S (length (show vt))).
    replace (show vt) with (show_list [vt]) at 1 by (cbn [show_list flat_map]; apply app_nil_r).
    assert (Hall : wt_fields fds [vt] [x]) by (cbn; auto).
    rewrite (useq_loop_inverts fds le data f [x] (Forall_cons x IH (Forall_nil _)) [vt] Hall
               ltac:(unfold wdepth_list; cbn [fold_right]; lia)
               n (o + length sg + length p)%nat []
               ltac:(pose proof (show_length_pos vt); unfold n; cbn [length]; lia) W2 ltac:(rewrite Hbody; lia)).
    cbn [bind readback_seq]. rewrite Hbody, !len_app. unfold len. f_equal. f_equal. lia.
Qed.

(* --- unmarshal(): the top-level driver ------------------------------------------------------------------ *)

Lemma wt_seq_fields fds ts ws : wt_seq fds ts ws <-> wt_fields fds ts ws.
Proof.
  revert ws; induction ts as [|t ts IH]; intros [|w ws]; cbn; try tauto. rewrite IH. tauto.
Qed.

Theorem unmarshal_inverts fds le ts ws pre post fuel :
  wt_seq fds ts ws -> (wdepth_list ws <= fuel)%nat ->
  len (enc_seq ts ws (length pre) le) < two32 ->
  m_unmarshal fuel (show_list ts) (pre ++ enc_seq ts ws (length pre) le ++ post) (len pre) le (Some fds)
  = Ok (len (enc_seq ts ws (length pre) le), readback_seq fds ts ws).
Proof.
  intros Hw Hd Hs. unfold m_unmarshal, unmarshal_with.
  apply wt_seq_fields in Hw.
  pose proof (wt_fields_length _ _ _ Hw) as Hlen.
  rewrite <- (struct_body_seq le ts ws (length pre) Hlen) in *.
  set (data := pre ++ struct_body le ts ws (length pre) ++ post).
  assert (W : win data (length pre) (struct_body le ts ws (length pre) ++ post)).
  { unfold data. replace (pre ++ struct_body le ts ws (length pre) ++ post)
      with (pre ++ (struct_body le ts ws (length pre) ++ post) ++ []) by (rewrite app_nil_r; reflexivity).
    apply win_intro. }
  assert (Hall : Forall (uelem_ok fds le data) ws).
  { apply Forall_forall. intros x _. apply u_one_inverts. }
  unfold len at 1.
  rewrite (useq_loop_inverts fds le data fuel ws Hall ts Hw Hd (S (length (show_list ts))) (length pre) post
             ltac:(pose proof (show_list_length ts); lia) W Hs).
  cbn [bind]. f_equal. f_equal. unfold len. lia.
Qed.
