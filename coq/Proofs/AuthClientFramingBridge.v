(* Bridge between the two models of txdbus/protocol.py's receiving side:

     Model/Framing.v      dataReceived on BYTES cut into reads, the authenticator a
                          parameter (astep), C04's theorems for every astep;
     Model/AuthClient.v   the client's handshake on complete LINES (step, session).

   (1) [astep_client]: the ClientAuthenticator model as an instance of Framing's
       authenticator parameter;
   (2) [reads_bridge]: Framing.run at that instance (client side, the tree's line
       limit), fed ANY sequence of reads, makes the client write / close /
       authenticate exactly as the line-level [session] does on [stream_lines]
       of the concatenated stream;
   (3) consequences: independence of the cutting, the handshake's tail is binary,
       the C07 statements for arbitrary read sequences.

   Framing's names are used qualified (both developments have Close, handshake,
   run ...). *)
From Tx Require Import Lib.Base Lib.Sexp.
From Tx Require Model.Marshal Model.Framing Spec.FramingSpec Proofs.FramingProofs.
From Tx Require Import Model.AuthClient Spec.AuthClientSpec Model.AuthClientLoop Model.AuthClientReads
  Proofs.AuthClientSpecLemmas Proofs.AuthClientProofs.
Local Open Scope N_scope.

Definition tx_part (t : list ev) : list ev :=
  filter (fun e => match e with Rx _ => false | _ => true end) t.
Definition rx_lines (t : list ev) : list bytes :=
  flat_map (fun e => match e with Rx l => [l] | _ => [] end) t.

Lemma existsb_sends sent : forall f, (forall x, f (Send x) = false) -> existsb f (map Send sent) = false.
Proof. intros f Hf. induction sent as [|x r IHr]; [reflexivity|]. cbn. rewrite Hf, IHr. reflexivity. Qed.

Lemma sends_then_dead sent d : forall pre x post,
  dead_out x = true -> map Send sent ++ [d] = pre ++ x :: post -> post = [].
Proof.
  induction sent as [|s sent IH]; intros [|y pre] x post Dx E; cbn [map app] in E.
  - injection E as _ E. symmetry. exact E.
  - injection E as _ E. destruct pre; discriminate.
  - injection E as <- _. discriminate.
  - injection E as _ E. eapply IH; eassumption.
Qed.

Lemma sends_then_rest sent rest : forall pre x post,
  dead_out x = true -> map Send sent ++ rest = pre ++ x :: post -> exists pre', rest = pre' ++ x :: post.
Proof.
  induction sent as [|s sent IH]; intros pre x post Dx E; cbn [map app] in E.
  - exists pre. exact E.
  - destruct pre as [|y pre]; cbn [app] in E.
    + injection E as <- _. discriminate.
    + injection E as _ E. eapply IH; eassumption.
Qed.

Section Bridge.
  Variable user : bytes.
  Variable lookup : bytes -> bytes -> lookup_result.
  Variable nonce : nat -> bytes.
  Variable sha1hex : bytes -> bytes.

  Notation h := (handle user lookup nonce sha1hex).
  Notation astep_client := (AuthClientReads.astep_client user lookup nonce sha1hex).
  Notation outs_of_events := (AuthClientReads.outs_of_events user lookup nonce sha1hex).
  Notation client0 := (AuthClientReads.client0 user).
  Notation reads_run := (AuthClientReads.reads_run user lookup nonce sha1hex).
  Notation reads_outs := (AuthClientReads.reads_outs user lookup nonce sha1hex).
  Notation session_outs := (AuthClientReads.session_outs user lookup nonce sha1hex).

  (* --- the line-level model once it is closed or authenticated -------------- *)
  Lemma run_dead lines : forall p, (p_closed p = true \/ p_done p = true) -> concat (run_with h p lines) = [].
  Proof.
    induction lines as [|l lines IH]; intros p D; [reflexivity|].
    cbn [run_with]. assert (E : step_with h p l = (p, [])).
    { unfold step_with. destruct D as [D|D]; rewrite D; [destruct (p_done p)|]; reflexivity. }
    rewrite E. cbn [concat app]. apply IH. exact D.
  Qed.

  Lemma frames_only_msgs : forall f s c, outs_of_events c (fst (FramingSpec.frames f s)) = [].
  Proof.
    induction f as [|f IH]; intros s c; [reflexivity|].
    cbn [FramingSpec.frames]. destruct (Framing.take_N s 16); [|reflexivity].
    destruct (Framing.take_N s (FramingSpec.frame_total s)) as [[m rest]|]; [|reflexivity].
    specialize (IH rest c). destruct (FramingSpec.frames f rest) as [evs r]. cbn [fst outs_of_events] in *. exact IH.
  Qed.

  (* (2) the simulation, on the whole stream *)
  Lemma handshake_sim : forall fuel s p,
    (length s < fuel)%nat -> p_closed p = false -> p_done p = false -> c_authd (p_c p) = false ->
    outs_of_events (p_c p) (fst (FramingSpec.handshake astep_client max_auth_length fuel (p_c p) s)) =
    concat (run_with h p (stream_lines_f max_auth_length fuel s)).
  Proof.
    induction fuel as [|f IH]; intros s p F C D NA; [lia|].
    cbn [FramingSpec.handshake stream_lines_f].
    destruct (FramingSpec.cut_line s) as [[l r]|] eqn:CL.
    2:{ destruct (max_auth_length + 1 <? FramingSpec.size s) eqn:T; [|reflexivity].
        cbn [run_with]. unfold step_with. rewrite C, D.
        assert (E : (max_auth_length <? N.of_nat (length s)) = true).
        { apply N.ltb_lt. apply N.ltb_lt in T. unfold FramingSpec.size in T. lia. }
        rewrite E. reflexivity. }
    pose proof (FramingProofs.cut_line_shorter _ _ _ CL) as SH.
    cbn [run_with]. unfold step_with at 1. rewrite C, D.
    unfold FramingSpec.size.
    destruct (max_auth_length <? N.of_nat (length l)) eqn:LEN.
    { cbn [fst outs_of_events concat]. rewrite run_dead; [reflexivity | left; reflexivity]. }
    unfold astep_client at 1.
    destruct (h (p_c p) l) as [[c' sent] raised] eqn:H.
    destruct raised.
    { cbn [fst outs_of_events]. rewrite H. cbn [outs_of_events concat].
      rewrite run_dead; [rewrite app_nil_r; reflexivity | left; reflexivity]. }
    destruct (c_authd c') eqn:A.
    { destruct (FramingSpec.frames_of r) as [evs x] eqn:FR.
      cbn [fst outs_of_events]. rewrite H. cbn [outs_of_events concat].
      assert (E : outs_of_events c' evs = []).
      { pose proof (frames_only_msgs (S (length r)) r c') as Q.
        unfold FramingSpec.frames_of in FR. rewrite FR in Q. exact Q. }
      rewrite E, run_dead; [rewrite app_nil_r; reflexivity | right; reflexivity]. }
    specialize (IH r (mk_pst c' false false)). cbn [p_c p_closed p_done] in IH.
    destruct (FramingSpec.handshake astep_client max_auth_length f c' r) as [evs x] eqn:HS.
    cbn [fst outs_of_events]. rewrite H. cbn [concat]. f_equal.
    cbn [fst] in IH. apply IH; [lia | reflexivity | reflexivity | exact A].
  Qed.

  Lemma connect_shape unix :
    p_closed (fst (connect user unix)) = false /\ p_done (fst (connect user unix)) = false /\
    c_authd (client0 unix) = false.
  Proof. repeat split. Qed.

  Theorem reads_bridge unix chunks :
    reads_outs unix chunks = session_outs unix (stream_lines (concat chunks)).
  Proof.
    unfold reads_outs, reads_run, session_outs.
    rewrite (FramingProofs.partition_independent astep_client max_auth_length true (client0 unix) chunks)
      by (left; reflexivity).
    unfold FramingSpec.sem, FramingSpec.handshake_of, session, session_with, client0.
    destruct (connect_shape unix) as (C & D & NA). unfold client0 in NA.
    destruct (connect user unix) as [p o]. cbn [fst snd] in *. f_equal.
    apply handshake_sim; [lia | exact C | exact D | exact NA].
  Qed.

  (* (3a) two cuttings of the same stream: same callbacks, same leftover, same
     bytes written, closed / authenticated identically *)
  Theorem cut_independent unix chunks1 chunks2 :
    concat chunks1 = concat chunks2 ->
    reads_run unix chunks1 = reads_run unix chunks2 /\ reads_outs unix chunks1 = reads_outs unix chunks2.
  Proof.
    intros E. assert (R : reads_run unix chunks1 = reads_run unix chunks2).
    { unfold reads_run. apply FramingProofs.any_two_partitions; [left; reflexivity | exact E]. }
    split; [exact R|]. unfold reads_outs. rewrite R. reflexivity.
  Qed.

  (* (3b) authentication at the last of [lines] in the line-level session is
     Framing's auth_accepts at this instance *)
  Lemma step_dead_or_live p l p' o :
    step_with h p l = (p', o) -> p_closed p = false -> p_done p = false -> c_authd (p_c p) = false ->
    (N.of_nat (length l) <= max_auth_length) ->
    match astep_client (p_c p) l with
    | (c', Framing.AContinue) => existsb dead_out o = false /\ p' = mk_pst c' false false /\ c_authd c' = false
    | (c', Framing.ADone) => existsb is_authd o = true
    | (c', _) => existsb is_authd o = false /\ existsb dead_out o = true
    end.
  Proof.
    intros ST C D NA LEN. unfold step_with in ST. rewrite C, D in ST.
    assert (E : (max_auth_length <? N.of_nat (length l)) = false) by (apply N.ltb_ge; exact LEN).
    rewrite E in ST. unfold astep_client.
    destruct (h (p_c p) l) as [[c' sent] raised]. destruct raised.
    - injection ST as <- <-. rewrite !existsb_app. cbn.
      pose proof (existsb_sends sent) as X.
      rewrite (X is_authd), (X dead_out) by reflexivity. split; reflexivity.
    - pose proof (existsb_sends sent) as X.
      destruct (c_authd c') eqn:A.
      + injection ST as <- <-. rewrite existsb_app. cbn. apply orb_true_r.
      + injection ST as <- <-. rewrite (X dead_out) by reflexivity. repeat split; exact A.
  Qed.

  Lemma auth_at_last_accepts : forall lines p,
    p_closed p = false -> p_done p = false -> c_authd (p_c p) = false ->
    Forall (fun l => N.of_nat (length l) <= max_auth_length) lines ->
    auth_at_last (run_with h p lines) = true ->
    FramingSpec.auth_accepts astep_client (p_c p) lines = true.
  Proof.
    induction lines as [|l lines IH]; intros p C D NA SH AL; [discriminate|].
    inversion SH as [|? ? S1 S2]; subst.
    cbn [run_with] in AL. destruct (step_with h p l) as [p' o] eqn:ST.
    pose proof (step_dead_or_live p l p' o ST C D NA S1) as Q.
    cbn [FramingSpec.auth_accepts].
    destruct (astep_client (p_c p) l) as [c' res].
    destruct lines as [|l2 lines].
    - cbn [run_with auth_at_last] in AL. destruct res; try reflexivity.
      + destruct Q as (Q1 & _). assert (existsb is_authd o = false).
        { clear -Q1. induction o as [|x o IHo]; [reflexivity|]. cbn in *.
          apply orb_false_iff in Q1 as [Q1 Q2]. rewrite (IHo Q2). destruct x; try reflexivity; discriminate. }
        congruence.
      + destruct Q as (Q1 & _). congruence.
      + destruct Q as (Q1 & _). congruence.
    - assert (AL' : negb (existsb dead_out o) && auth_at_last (run_with h p' (l2 :: lines)) = true).
      { revert AL. cbn [run_with]. destruct (step_with h p' l2). cbn [auth_at_last]. auto. }
      clear AL. apply andb_true_iff in AL' as [AL1 AL2]. apply negb_true_iff in AL1.
      destruct res.
      + destruct Q as (_ & -> & A). apply (IH (mk_pst c' false false)); try reflexivity; assumption.
      + exfalso. assert (existsb dead_out o = true).
        { clear -Q. induction o as [|x o IHo]; [discriminate|]. cbn in *.
          apply orb_true_iff in Q as [Q|Q]; [destruct x; try discriminate; reflexivity | rewrite (IHo Q); apply orb_true_r]. }
        congruence.
      + destruct Q as (_ & Q). congruence.
      + destruct Q as (_ & Q). congruence.
  Qed.

  (* the handshake/message boundary for the client: the server's lines, the last
     of which completes the handshake, followed by ARBITRARY bytes [rest] - in the
     same read or not, containing "\r\n" or not - every line reaches the
     authenticator, then connectionAuthenticated, and [rest] is framed as binary
     message data exactly as it would be alone *)
  Theorem handshake_tail_is_binary unix lines rest chunks :
    Forall (FramingSpec.good_line max_auth_length) lines ->
    auth_at_last (snd (session user lookup nonce sha1hex unix lines)) = true ->
    concat chunks = FramingSpec.hs_bytes true lines ++ rest ->
    reads_run unix chunks =
      (map Framing.Line lines ++ Framing.AuthOk :: fst (FramingSpec.frames_of rest),
       snd (FramingSpec.frames_of rest)).
  Proof.
    intros G AL E. unfold reads_run.
    apply FramingProofs.handshake_boundary; [exact G | | left; reflexivity | exact E].
    unfold session, session_with, client0 in *.
    destruct (connect_shape unix) as (C & D & NA). unfold client0 in NA.
    destruct (connect user unix) as [p o]. cbn [fst snd] in *.
    apply auth_at_last_accepts; try assumption.
    eapply Forall_impl; [|exact G]. intros l [_ B]. exact B.
  Qed.

  (* --- (3c) the C07 statements for arbitrary read sequences ------------------ *)
  Notation lines_of chunks := (stream_lines (concat chunks)).
  Notation tr unix chunks := (session_trace user lookup nonce sha1hex unix (lines_of chunks)).

  Lemma run_with_length lines : forall p, length (run_with h p lines) = length lines.
  Proof.
    induction lines as [|l lines IH]; intros p; [reflexivity|].
    cbn [run_with]. destruct (step_with h p l). cbn [length]. rewrite IH. reflexivity.
  Qed.

  Lemma tx_part_app a b : tx_part (a ++ b) = tx_part a ++ tx_part b.
  Proof. unfold tx_part. apply filter_app. Qed.

  Lemma tx_part_map o : tx_part (map ev_of o) = map ev_of o.
  Proof. unfold tx_part. induction o as [|x o IH]; [reflexivity|]. destruct x; cbn [map ev_of filter]; rewrite IH; reflexivity. Qed.

  Lemma rx_lines_app a b : rx_lines (a ++ b) = rx_lines a ++ rx_lines b.
  Proof. unfold rx_lines. apply flat_map_app. Qed.

  Lemma rx_lines_map o : rx_lines (map ev_of o) = [].
  Proof. unfold rx_lines. induction o as [|x o IH]; [reflexivity|]. destruct x; cbn [map ev_of flat_map app]; exact IH. Qed.

  Lemma flat_combine : forall lines outs, length outs = length lines ->
    tx_part (flat (combine lines (map (map ev_of) outs))) = map ev_of (concat outs) /\
    rx_lines (flat (combine lines (map (map ev_of) outs))) = lines.
  Proof.
    induction lines as [|l lines IH]; intros [|o outs] L; try discriminate; [split; reflexivity|].
    cbn [map combine]. change ((l, map ev_of o) :: ?x) with ([(l, map ev_of o)] ++ x).
    rewrite flat_app, flat_one. injection L as L. destruct (IH outs L) as [I1 I2].
    change (Rx l :: map ev_of o) with ([Rx l] ++ map ev_of o). rewrite <- !app_assoc. split.
    - rewrite !tx_part_app, tx_part_map, I1. cbn [concat]. rewrite map_app. reflexivity.
    - rewrite !rx_lines_app, rx_lines_map, I2. reflexivity.
  Qed.

  (* the session trace, without the received lines, is what the client did; its
     received lines are the lines *)
  Lemma trace_parts unix lines :
    tx_part (session_trace user lookup nonce sha1hex unix lines) = map ev_of (session_outs unix lines) /\
    rx_lines (session_trace user lookup nonce sha1hex unix lines) = lines.
  Proof.
    unfold session_trace, session_observed, observe, session_outs, trace, session, session_with.
    destruct (connect user unix) as [p o]. cbn [fst snd].
    destruct (flat_combine lines (run_with h p lines) (run_with_length lines p)) as [F1 F2].
    rewrite tx_part_app, rx_lines_app, tx_part_map, rx_lines_map, F1, F2, map_app. split; reflexivity.
  Qed.

  Lemma reads_trace unix chunks : map ev_of (reads_outs unix chunks) = tx_part (tr unix chunks).
  Proof. rewrite reads_bridge. symmetry. apply trace_parts. Qed.

  Lemma offers_tx_part t : offers (tx_part t) = offers t.
  Proof.
    unfold offers, tx_part. induction t as [|e t IH]; [reflexivity|].
    destruct e; cbn [filter flat_map app]; rewrite IH; reflexivity.
  Qed.

  Lemma sent_lines_tx_part t : sent_lines (tx_part t) = sent_lines t.
  Proof.
    unfold sent_lines, tx_part. induction t as [|e t IH]; [reflexivity|].
    destruct e; cbn [filter flat_map app]; rewrite IH; reflexivity.
  Qed.

  (* BEGIN among the bytes written, for ANY reads: the stream contains, as a
     complete line, an OK with a valid hexadecimal GUID, after it a stretch of
     complete lines none of which is REJECTED (the OK stands) and in which, on a
     UNIX transport, there is AGREE_UNIX_FD or ERROR *)
  Theorem begin_only_after_standing_ok_reads unix chunks :
    In (Send w_BEGIN) (reads_outs unix chunks) ->
    exists a l b1 b2, lines_of chunks = a ++ l :: b1 ++ b2 /\ ok_line l = true /\
      (forall r, In r b1 -> str_eqb (word r) w_REJECTED = false) /\
      (unix = true -> exists l', In l' b1 /\ fd_answer_line l' = true).
  Proof.
    intros I. apply (in_map ev_of) in I. rewrite reads_trace in I. cbn [ev_of] in I.
    unfold tx_part in I. apply filter_In in I as [I _].
    apply in_split in I as (pre & post & E).
    destruct (begin_only_after_ok user lookup nonce sha1hex unix _ pre post E) as (p1 & l & p2 & -> & O & NR & U).
    pose proof (proj2 (trace_parts unix (lines_of chunks))) as R. rewrite E in R.
    rewrite !rx_lines_app in R. cbn [rx_lines flat_map app] in R.
    fold (rx_lines p2) in R. fold (rx_lines post) in R. rewrite <- app_assoc in R. cbn [app] in R.
    exists (rx_lines p1), l, (rx_lines p2), (rx_lines post). split; [symmetry; exact R|].
    split; [exact O|]. split.
    { intros r Ir. unfold rx_lines in Ir. apply in_flat_map in Ir as (e & Ie & Ir).
      destruct e; cbn in Ir; try contradiction. destruct Ir as [<-|[]]. apply NR, Ie. }
    intros Hu. destruct (U Hu) as (l' & I' & F). exists l'. split; [|exact F].
    unfold rx_lines. apply in_flat_map. exists (Rx l'). split; [exact I' | left; reflexivity].
  Qed.

  Theorem begin_only_after_ok_reads unix chunks :
    In (Send w_BEGIN) (reads_outs unix chunks) ->
    exists a l b, lines_of chunks = a ++ l :: b /\ ok_line l = true /\
      (unix = true -> exists l', In l' b /\ fd_answer_line l' = true).
  Proof.
    intros I. destruct (begin_only_after_standing_ok_reads unix chunks I) as (a & l & b1 & b2 & E & O & _ & U).
    exists a, l, (b1 ++ b2). split; [exact E|]. split; [exact O|].
    intros Hu. destruct (U Hu) as (l' & I' & F). exists l'. split; [apply in_or_app; left; exact I' | exact F].
  Qed.

  (* the mechanisms named in the AUTH lines written, for ANY reads *)
  Theorem offers_in_order_once_reads unix chunks :
    (exists rest, preference = offers (map ev_of (reads_outs unix chunks)) ++ rest) /\
    NoDup (offers (map ev_of (reads_outs unix chunks))).
  Proof.
    rewrite reads_trace, offers_tx_part.
    apply (offers_prefix_once user lookup nonce sha1hex unix (lines_of chunks)).
  Qed.

  Lemma dead_is_last : forall lines p pre x post,
    concat (run_with h p lines) = pre ++ x :: post -> dead_out x = true -> post = [].
  Proof.
    induction lines as [|l lines IH]; intros p pre x post E Dx.
    - destruct pre; discriminate.
    - cbn [run_with] in E. destruct (step_with h p l) as [p' o] eqn:ST. cbn [concat] in E.
      unfold step_with in ST.
      destruct (p_done p) eqn:D.
      { injection ST as <- <-. rewrite run_dead in E by (right; exact D). destruct pre; discriminate. }
      destruct (p_closed p) eqn:C.
      { injection ST as <- <-. rewrite run_dead in E by (left; exact C). destruct pre; discriminate. }
      destruct (max_auth_length <? N.of_nat (length l)).
      { injection ST as <- <-. rewrite run_dead, app_nil_r in E by (left; reflexivity).
        apply (sends_then_dead [] Close pre x post Dx E). }
      destruct (h (p_c p) l) as [[c' sent] raised]. destruct raised.
      { injection ST as <- <-. rewrite run_dead, app_nil_r in E by (left; reflexivity).
        apply (sends_then_dead sent Close pre x post Dx E). }
      destruct (c_authd c').
      { injection ST as <- <-. rewrite run_dead, app_nil_r in E by (right; reflexivity).
        apply (sends_then_dead sent _ pre x post Dx E). }
      injection ST as <- <-.
      destruct (sends_then_rest sent _ pre x post Dx E) as [pre' E'].
      eapply IH; eassumption.
  Qed.

  (* no loop, no life after the end, for ANY reads: at most one line more is
     written than the stream has lines, and closing / switching to binary is the
     last thing the client does in the handshake *)
  Theorem never_loops_reads unix chunks :
    (length (sent_lines (map ev_of (reads_outs unix chunks))) <= length (lines_of chunks) + 1)%nat /\
    (forall pre x post, reads_outs unix chunks = pre ++ x :: post -> dead_out x = true -> post = []) /\
    session_verdict preference unix
      (fst (session_observed user lookup nonce sha1hex unix (lines_of chunks)))
      (snd (session_observed user lookup nonce sha1hex unix (lines_of chunks))) = 0.
  Proof.
    split; [|split].
    - rewrite reads_trace, sent_lines_tx_part. apply sent_bound.
    - rewrite reads_bridge. unfold session_outs, session, session_with.
      destruct (connect user unix) as [p o] eqn:CN. cbn [fst snd].
      intros pre x post E Dx.
      assert (O : o = [Raw [0]; Send (s_AUTH_ ++ s_EXTERNAL)]) by (cbn in CN; injection CN as _ <-; reflexivity).
      subst o. destruct pre as [|y1 [|y2 pre]]; cbn [app] in E.
      + injection E as <- _. discriminate.
      + injection E as _ <- _. discriminate.
      + injection E as _ _ E. eapply dead_is_last; eassumption.
    - apply obs_favourable.
  Qed.
End Bridge.
