(* Proofs for C09 (Model/Connect.v against Spec/ConnectSpec.v).  The call table is Model/Calls.v;
   its invariant and the lemmas about connection loss are reused from Proofs/CallsProofs.v. *)
From Tx Require Import Lib.Base Model.Calls Spec.CallSpec Proofs.CallsProofs Model.Connect Spec.ConnectSpec.
From Coq Require Import Permutation.
Local Open Scope N_scope.

(* ------------------------------------------------------------------------ *)
(* 1. what the library's Deferred callbacks leave alone                        *)

Definition core (st : Connect.state) :=
  (st_phase st, st_open st, st_fired st, st_ran st, st_dcbs st, st_calls st).

Lemma intro_done_core l13 st rq o : core (intro_done l13 st rq o) = core st.
Proof.
  destruct rq as [[q key] parses]. unfold intro_done.
  destruct o as [[[z|s|l]|]|? ? ?| | | |]; try reflexivity.
  destruct parses; reflexivity.
Qed.

Lemma on_completion_core l13 st x :
  st_phase st <> HelloPending -> core (on_completion l13 st x) = core st.
Proof.
  intros Hp. unfold on_completion. destruct (fst x).
  - unfold hello_done. destruct (st_phase st); try reflexivity. contradiction.
  - destruct (alist_get Nat.eqb (S n) (st_intro st)); [apply intro_done_core | reflexivity].
Qed.

Lemma fold_core l13 l : forall st,
  st_phase st <> HelloPending -> core (fold_left (on_completion l13) l st) = core st.
Proof.
  induction l as [|x l IH]; intros st Hp; cbn [fold_left]; [reflexivity|].
  assert (E := on_completion_core l13 st x Hp).
  rewrite IH; [exact E|].
  unfold core in E. injection E as E1 _. rewrite E1. exact Hp.
Qed.

Lemma deliver_core l13 st c :
  st_phase st <> HelloPending ->
  core (deliver l13 st c) = (st_phase st, st_open st, st_fired st, st_ran st, st_dcbs st, c).
Proof. intros Hp. unfold deliver. rewrite fold_core; [reflexivity | exact Hp]. Qed.

Lemma hello_done_calls st o : st_calls (hello_done st o) = st_calls st.
Proof.
  unfold hello_done. destruct (st_phase st); try reflexivity.
  destruct o as [v| | | | |]; reflexivity.
Qed.

Lemma on_completion_calls l13 st x : st_calls (on_completion l13 st x) = st_calls st.
Proof.
  unfold on_completion. destruct (fst x); [apply hello_done_calls|].
  destruct (alist_get Nat.eqb (S n) (st_intro st)); [|reflexivity].
  assert (E := intro_done_core l13 st p (snd x)). unfold core in E. injection E as _ _ _ _ _ E. exact E.
Qed.

Lemma deliver_calls l13 st c : st_calls (deliver l13 st c) = c.
Proof.
  unfold deliver.
  assert (H : forall l s, st_calls (fold_left (on_completion l13) l s) = st_calls s).
  { induction l as [|x l IH]; intros s; cbn [fold_left]; [reflexivity|].
    rewrite IH. apply on_completion_calls. }
  rewrite H. reflexivity.
Qed.

Lemma skipn_all_nil {A} (l : list A) : skipn (length l) l = [].
Proof. induction l; [reflexivity | exact IHl]. Qed.

Lemma skipn_app_exact {A} (l r : list A) : skipn (length l) (l ++ r) = r.
Proof. induction l; [reflexivity | exact IHl]. Qed.

(* the call table did not move: nothing is delivered *)
Lemma deliver_same l13 st : deliver l13 st (st_calls st) = set_calls st (st_calls st).
Proof. unfold deliver. rewrite skipn_all_nil. reflexivity. Qed.

Lemma set_calls_same st : set_calls st (st_calls st) = st.
Proof. destruct st; reflexivity. Qed.

(* ------------------------------------------------------------------------ *)
(* 2. connecting concludes: the model against connect_outcome                 *)

(* the call table while Hello (serial s0, Deferred 0) is the only call *)
Definition hp (s0 : N) : Calls.state :=
  Calls.State (s0 + 1) 1 [(s0, PCall 0 false RsNoCheck)] [] [] false.

Definition Good (s0 : N) (st : Connect.state) : Prop :=
  match st_phase st with
  | Trying _ => st_fired st = [] /\ st_open st = false /\ st_calls st = Calls.init s0
  | Authenticating _ => st_fired st = [] /\ st_open st = true /\ st_calls st = Calls.init s0
  | HelloPending => st_fired st = [] /\ st_open st = true /\ st_calls st = hp s0 /\ s0 <= max_serial
  | Ready => st_fired st = [CReady] /\ st_open st = true
  | HelloFailed => (exists r, st_fired st = [r]) /\ st_open st = true
  | Dead => exists r, st_fired st = [r]
  end.

Inductive adv_res := Fin (r : cres) | Go (p : phase).

(* one event of the specification's reading of the history *)
Definition adv (s0 : N) (p : phase) (e : Connect.event) : adv_res :=
  match p with
  | Trying rest =>
      match e with
      | EEpFail => match rest with O => Fin (CFailed CNoAddress) | S k => Go (Trying k) end
      | EEpOk => Go (Authenticating false)
      | _ => Go p
      end
  | Authenticating false =>
      match e with
      | EAuthOk => if s0 <=? serial_limit then Go HelloPending else Fin (CFailed CHello)
      | EAuthRefused => Go (Authenticating true)
      | ECalls (ELost r) => Fin (CFailed (CLost r))
      | _ => Go p
      end
  | Authenticating true =>
      match e with
      | ECalls (ELost r) => Fin (CFailed (CLost r))
      | _ => Go p
      end
  | HelloPending =>
      match e with
      | ECalls (EReturn rs _) => if rs =? s0 then Fin CReady else Go p
      | ECalls (EError rs _ _) => if rs =? s0 then Fin (CFailed CHello) else Go p
      | ECalls (ELost r) => Fin (CFailed (CLost r))
      | _ => Go p
      end
  | _ => Go p
  end.

Definition cont (s0 : N) (p : phase) (evs : list Connect.event) : option cres :=
  match p with
  | Trying rest => walk rest s0 evs
  | Authenticating false => await_auth s0 evs
  | Authenticating true => await_close evs
  | HelloPending => await_hello s0 evs
  | _ => None
  end.

Lemma cont_nil s0 p : cont s0 p [] = None.
Proof. destruct p as [rest|[|]| | | |]; reflexivity. Qed.

Lemma cont_cons s0 p e evs :
  terminal p = false ->
  cont s0 p (e :: evs) = match adv s0 p e with Fin x => Some x | Go p' => cont s0 p' evs end.
Proof.
  intros Ht. destruct p as [rest|[|]| | | |]; try discriminate Ht; cbn [cont adv].
  - destruct e as [| | | |ce|? ?|? ?|? ?]; cbn [walk]; try reflexivity.
    destruct rest; reflexivity.
  - destruct e as [| | | |ce|? ?|? ?|? ?]; cbn [await_close]; try reflexivity.
    destruct ce; reflexivity.
  - destruct e as [| | | |ce|? ?|? ?|? ?]; cbn [await_auth]; try reflexivity.
    + destruct (s0 <=? serial_limit); reflexivity.
    + destruct ce; reflexivity.
  - destruct e as [| | | |ce|? ?|? ?|? ?]; cbn [await_hello]; try reflexivity.
    destruct ce; try reflexivity.
    + destruct (reply_serial =? s0); reflexivity.
    + destruct (reply_serial =? s0); reflexivity.
Qed.

Lemma cvt_reply_nocheck m : exists v, cvt_reply (Some m) RsNoCheck = OValue v.
Proof.
  unfold cvt_reply. cbn [cvt_check_fails].
  destruct (py_body m) as [[|v [|w l]]|]; try (eexists; reflexivity).
  destruct (negb (sig_first_is_paren (m_sig m))); eexists; reflexivity.
Qed.

Lemma handle_nil st : st_fired st = [] -> handle st = false.
Proof. intros H. unfold handle. rewrite H. reflexivity. Qed.

(* a timer tick on a table without timers changes nothing *)
Lemma timer_no_timers c s : st_timers c = [] -> Calls.step c (ETimer s) = c.
Proof. intros H. cbn [Calls.step]. unfold timer_fires, find_timer. rewrite H. reflexivity. Qed.

Ltac st_destruct st :=
  destruct st as [ph op bus calls fired dcbs objs nreq intro objdone ran raised];
  cbn [st_phase st_open st_bus st_calls st_fired st_dcbs st_objs st_nreq st_intro st_objdone st_ran st_raised] in *.

Ltac fin := cbn; repeat split; try reflexivity; try assumption; try (eexists; reflexivity).

(* before connecting has concluded, one step of the model is one step of the specification *)
Lemma step_adv s0 st e :
  Good s0 st -> terminal (st_phase st) = false ->
  match adv s0 (st_phase st) e with
  | Fin x => st_fired (Connect.step st e) = [x] /\ terminal (st_phase (Connect.step st e)) = true
  | Go p' => st_phase (Connect.step st e) = p'
  end /\ Good s0 (Connect.step st e).
Proof.
  intros G Ht. st_destruct st. unfold Good in G. cbn [st_phase] in G.
  destruct ph as [rest|closing| | | |]; try discriminate Ht.
  - (* Trying *)
    cbn [st_fired st_open st_calls] in G. destruct G as (-> & -> & ->).
    destruct e as [| | | |ce|k key|o cb|o cb]; [destruct rest| | | |destruct ce| | |]; solve [fin].
  - (* Authenticating *)
    cbn [st_fired st_open st_calls] in G. destruct G as (-> & -> & ->).
    destruct closing.
    + destruct e as [| | | |ce|k key|o cb|o cb]; [| | | |destruct ce| | |]; solve [fin].
    + destruct e as [| | | |ce|k key|o cb|o cb]; [| | | |destruct ce| | |]; try solve [fin].
      (* authentication accepted: Hello is sent *)
      unfold Connect.step, step_gen, connection_authenticated, calls_step, deliver.
      cbn [set_phase st_phase st_open st_bus st_calls st_fired st_dcbs st_objs st_nreq st_intro st_objdone
           st_ran st_raised Calls.step adv].
      unfold call_remote, Calls.init. cbn [st_next_id st_next_serial st_pending st_timers st_done st_fault].
      unfold serial_limit. fold max_serial.
      destruct (N.leb_spec s0 max_serial) as [Hle|Hgt].
      * assert (E : (max_serial <? s0) = false) by (apply N.ltb_ge; exact Hle). rewrite E. fin.
      * assert (E : (max_serial <? s0) = true) by (apply N.ltb_lt; exact Hgt). rewrite E. fin.
  - (* HelloPending *)
    cbn [st_fired st_open st_calls] in G. destruct G as (-> & -> & -> & Hle).
    destruct e as [| | | |ce|k key|o cb|o cb]; [| | | |destruct ce as [k t rs|rs m|rs name m|s|r]| | |];
      try solve [fin].
    + (* a method return *)
      unfold Connect.step, step_gen, calls_step, deliver.
      cbn [st_calls Calls.step st_open st_phase authed andb adv].
      unfold method_return_received, reply_received, hp.
      cbn [st_pending alist_get]. destruct (rs =? s0) eqn:E.
      * cbn [pc_timer pc_id pc_rs alist_del st_done].
        destruct (cvt_reply_nocheck m) as [v Hv]. rewrite Hv. fin.
      * fin.
    + (* an error reply *)
      unfold Connect.step, step_gen, calls_step, deliver.
      cbn [st_calls Calls.step st_open st_phase authed andb adv].
      unfold error_received, reply_received, hp.
      cbn [st_pending alist_get]. destruct (rs =? s0) eqn:E.
      * cbn [pc_timer pc_id pc_rs alist_del st_done].
        rewrite mk_remote_error_spec. unfold error_outcome. fin.
      * fin.
Qed.

(* ------------------------------------------------------------------------ *)
(* 3. once connecting has concluded                                            *)

Definition pofr (st : Connect.state) := (st_phase st, st_open st, st_fired st, st_ran st).

Lemma deliver_pofr l13 st c : st_phase st <> HelloPending -> pofr (deliver l13 st c) = pofr st.
Proof.
  intros Hp. assert (E := deliver_core l13 st c Hp). unfold core in E. unfold pofr.
  injection E as E1 E2 E3 E4 _ _. rewrite E1, E2, E3, E4. reflexivity.
Qed.

Lemma calls_step_pofr l13 st e : st_phase st <> HelloPending -> pofr (calls_step l13 st e) = pofr st.
Proof. intros Hp. unfold calls_step. apply deliver_pofr. exact Hp. Qed.

Lemma get_object_pofr l13 st k key : st_phase st <> HelloPending -> pofr (get_object l13 st k key) = pofr st.
Proof.
  intros Hp. unfold get_object. destruct k as [|parses]; [reflexivity|].
  rewrite calls_step_pofr; [reflexivity | exact Hp].
Qed.

Lemma register_pofr st o cb : pofr (register st o cb) = pofr st.
Proof. destruct o; reflexivity. Qed.

Lemma cancel_pofr st o cb : pofr (cancel st o cb) = pofr st.
Proof.
  unfold cancel. destruct o as [|q].
  - destruct (mem cb (st_dcbs st)); reflexivity.
  - destruct (find_obj q (st_objs st)) as [p|]; [|reflexivity].
    destruct (po_cbs p); [reflexivity|]. destruct (mem cb (n :: l)); reflexivity.
Qed.

Lemma terminal_not_hp p : terminal p = true -> p <> HelloPending.
Proof. intros H E. subst p. discriminate H. Qed.

Lemma established_lost_fields l13 st r :
  st_phase st <> HelloPending ->
  st_phase (established_lost l13 st r) = Dead /\
  st_open (established_lost l13 st r) = st_open st /\
  st_fired (established_lost l13 st r) = st_fired st.
Proof.
  intros Hp. unfold established_lost.
  set (st1 := set_ran st (st_ran st ++ runs OConn (st_dcbs st) r)).
  assert (Hp1 : st_phase st1 <> HelloPending) by exact Hp.
  assert (E := deliver_pofr l13 st1 (Calls.connection_lost (st_calls st1) r) Hp1).
  unfold pofr in E. injection E as _ E2 E3 _.
  cbn [set_phase set_ran st_phase st_open st_fired]. repeat split; assumption.
Qed.

(* in a terminal phase the Deferred of connect() does not fire again *)
Lemma step_terminal st e :
  terminal (st_phase st) = true ->
  st_fired (Connect.step st e) = st_fired st /\
  ((st_phase (Connect.step st e) = st_phase st /\ st_open (Connect.step st e) = st_open st) \/
   st_phase (Connect.step st e) = Dead).
Proof.
  intros Ht. assert (Hp := terminal_not_hp _ Ht).
  assert (Same : forall st', pofr st' = pofr st ->
            st_fired st' = st_fired st /\
            ((st_phase st' = st_phase st /\ st_open st' = st_open st) \/ st_phase st' = Dead)).
  { intros st' E. unfold pofr in E. injection E as E1 E2 E3 _. split; [exact E3 | left; split; assumption]. }
  destruct e as [| | | |ce|k key|o cb|o cb]; unfold Connect.step, step_gen.
  - destruct (st_phase st) as [rest|c| | | |]; try discriminate Ht; apply Same; reflexivity.
  - destruct (st_phase st) as [rest|c| | | |]; try discriminate Ht; apply Same; reflexivity.
  - destruct (st_phase st) as [rest|c| | | |]; try discriminate Ht; apply Same; reflexivity.
  - destruct (st_phase st) as [rest|c| | | |]; try discriminate Ht; apply Same; reflexivity.
  - destruct ce as [k t rs|rs m|rs name m|s|r].
    + destruct (handle st); [|apply Same; reflexivity]. apply Same. apply calls_step_pofr. exact Hp.
    + destruct (st_open st && authed (st_phase st)); [|apply Same; reflexivity].
      apply Same. apply calls_step_pofr. exact Hp.
    + destruct (st_open st && authed (st_phase st)); [|apply Same; reflexivity].
      apply Same. apply calls_step_pofr. exact Hp.
    + apply Same. apply calls_step_pofr. exact Hp.
    + destruct (st_open st) eqn:Eo; [|apply Same; reflexivity].
      unfold connection_lost.
      assert (Hp' : st_phase (set_open st false) <> HelloPending) by exact Hp.
      destruct (established_lost_fields false (set_open st false) r Hp') as (F1 & F2 & F3).
      assert (Eph : st_phase (set_open st false) = st_phase st) by reflexivity.
      rewrite Eph.
      destruct (st_phase st) as [rest|c| | | |] eqn:Ep; try discriminate Ht;
        (split; [exact F3 | right; exact F1]).
  - destruct (handle st); [|apply Same; reflexivity]. apply Same. apply get_object_pofr. exact Hp.
  - destruct (handle st); [|apply Same; reflexivity]. apply Same. apply register_pofr.
  - destruct (handle st); [|apply Same; reflexivity]. apply Same. apply cancel_pofr.
Qed.

Lemma good_init addr s0 : Good s0 (Connect.init addr s0).
Proof.
  unfold Connect.init, Good. destruct (endpoint_count addr); cbn.
  - eexists; reflexivity.
  - repeat split; reflexivity.
Qed.

Lemma good_terminal_step s0 st e :
  Good s0 st -> terminal (st_phase st) = true -> Good s0 (Connect.step st e).
Proof.
  intros G Ht. destruct (step_terminal st e Ht) as [Hf [[Hp Ho]|Hd]]; unfold Good in *.
  - rewrite Hp, Hf, Ho. destruct (st_phase st); try discriminate Ht; exact G.
  - rewrite Hd, Hf. destruct (st_phase st); try discriminate Ht;
      [destruct G as [G _]; eexists; exact G | destruct G as [G _]; exact G | exact G].
Qed.

Lemma adv_go_nonterminal s0 p e p' :
  terminal p = false -> adv s0 p e = Go p' -> terminal p' = false.
Proof.
  intros Ht H. destruct p as [rest|[|]| | | |]; try discriminate Ht; cbn [adv] in H.
  - destruct e as [| | | |ce|? ?|? ?|? ?]; try (injection H as <-; reflexivity).
    destruct rest; [discriminate H | injection H as <-; reflexivity].
  - destruct e as [| | | |ce|? ?|? ?|? ?]; try (injection H as <-; reflexivity).
    destruct ce; try (injection H as <-; reflexivity). discriminate H.
  - destruct e as [| | | |ce|? ?|? ?|? ?]; try (injection H as <-; reflexivity).
    + destruct (s0 <=? serial_limit); [injection H as <-; reflexivity | discriminate H].
    + destruct ce; try (injection H as <-; reflexivity). discriminate H.
  - destruct e as [| | | |ce|? ?|? ?|? ?]; try (injection H as <-; reflexivity).
    destruct ce; try (injection H as <-; reflexivity).
    + destruct (reply_serial =? s0); [discriminate H | injection H as <-; reflexivity].
    + destruct (reply_serial =? s0); [discriminate H | injection H as <-; reflexivity].
    + discriminate H.
Qed.

Definition is_some {A} (o : option A) : bool := match o with Some _ => true | None => false end.

Lemma run_from s0 evs : forall st,
  Good s0 st ->
  let st' := fold_left Connect.step evs st in
  Good s0 st' /\
  (terminal (st_phase st) = true ->
     st_fired st' = st_fired st /\ terminal (st_phase st') = true) /\
  (terminal (st_phase st) = false ->
     st_fired st' = fired_as (cont s0 (st_phase st) evs) /\
     terminal (st_phase st') = is_some (cont s0 (st_phase st) evs)).
Proof.
  induction evs as [|e evs IH]; intros st G; cbv zeta; cbn [fold_left].
  - split; [exact G|]. split; [intros Ht; split; [reflexivity | exact Ht]|].
    intros Ht. rewrite cont_nil. cbn [fired_as is_some]. split; [|exact Ht].
    unfold Good in G. destruct (st_phase st) as [rest|c| | | |]; try discriminate Ht; destruct G as [G _]; exact G.
  - destruct (terminal (st_phase st)) eqn:Ht.
    + assert (G' := good_terminal_step s0 st e G Ht).
      destruct (step_terminal st e Ht) as [Hf Hph].
      assert (Ht' : terminal (st_phase (Connect.step st e)) = true).
      { destruct Hph as [[Hp _]|Hd]; [rewrite Hp; exact Ht | rewrite Hd; reflexivity]. }
      destruct (IH _ G') as (I1 & I2 & _). cbv zeta in I1, I2.
      split; [exact I1|]. split; [|discriminate].
      intros _. destruct (I2 Ht') as [J1 J2]. split; [rewrite J1; exact Hf | exact J2].
    + destruct (step_adv s0 st e G Ht) as [Hadv G'].
      destruct (IH _ G') as (I1 & I2 & I3). cbv zeta in I1, I2, I3.
      split; [exact I1|]. split; [discriminate|]. intros _.
      rewrite (cont_cons s0 _ e evs Ht).
      destruct (adv s0 (st_phase st) e) as [x|p'] eqn:Eadv.
      * destruct Hadv as [Hf Ht']. destruct (I2 Ht') as [J1 J2].
        cbn [fired_as is_some]. split; [rewrite J1; exact Hf | exact J2].
      * assert (Ht' := adv_go_nonterminal s0 _ e p' Ht Eadv).
        rewrite Hadv in I3. exact (I3 Ht').
Qed.

Lemma addresses_count addr : addresses addr = endpoint_count addr.
Proof.
  unfold endpoint_count. induction addr as [|a addr IH]; [reflexivity|].
  cbn [addresses filter]. destruct a; cbn [usable makes_endpoint length]; rewrite IH; reflexivity.
Qed.

Lemma good_run addr s0 evs : Good s0 (Connect.run addr s0 evs).
Proof. unfold Connect.run. apply (run_from s0 evs _ (good_init addr s0)). Qed.

Lemma connect_fires addr s0 evs :
  st_fired (Connect.run addr s0 evs) = fired_as (connect_outcome addr s0 evs) /\
  terminal (st_phase (Connect.run addr s0 evs)) = is_some (connect_outcome addr s0 evs).
Proof.
  unfold Connect.run, connect_outcome. rewrite addresses_count.
  destruct (run_from s0 evs _ (good_init addr s0)) as (_ & Hterm & Hnon). cbv zeta in Hterm, Hnon.
  unfold Connect.init in *. destruct (endpoint_count addr) as [|k].
  - destruct (Hterm eq_refl) as [H1 H2]. split; [exact H1 | exact H2].
  - destruct (Hnon eq_refl) as [H1 H2]. split; [exact H1 | exact H2].
Qed.

Lemma connect_fires_once addr s0 evs :
  st_fired (Connect.run addr s0 evs) = fired_as (connect_outcome addr s0 evs) /\
  (terminal (st_phase (Connect.run addr s0 evs)) = true <-> connect_outcome addr s0 evs <> None).
Proof.
  destruct (connect_fires addr s0 evs) as [H1 H2]. split; [exact H1|]. rewrite H2.
  destruct (connect_outcome addr s0 evs); cbn [is_some]; split; intros H; try discriminate; try reflexivity.
  contradiction.
Qed.

(* ------------------------------------------------------------------------ *)
(* 4. the call table of a connection is a call table of C08                    *)

Lemma established_lost_calls l13 st r :
  st_calls (established_lost l13 st r) = Calls.step (st_calls st) (ELost r).
Proof.
  unfold established_lost. cbn [set_phase set_ran st_calls]. rewrite deliver_calls. reflexivity.
Qed.

Lemma get_object_calls l13 st k key :
  st_calls (get_object l13 st k key) = st_calls st \/
  st_calls (get_object l13 st k key) = Calls.step (st_calls st) (ECall CkNormal None RsNoCheck).
Proof.
  unfold get_object. destruct k; [left; reflexivity | right].
  unfold calls_step. rewrite deliver_calls. reflexivity.
Qed.

Lemma register_calls st o cb : st_calls (register st o cb) = st_calls st.
Proof. destruct o; reflexivity. Qed.

Lemma cancel_calls st o cb : st_calls (cancel st o cb) = st_calls st.
Proof.
  unfold cancel. destruct o as [|q].
  - destruct (mem cb (st_dcbs st)); reflexivity.
  - destruct (find_obj q (st_objs st)) as [p|]; [|reflexivity].
    destruct (po_cbs p); [reflexivity|]. destruct (mem cb (n :: l)); reflexivity.
Qed.

Lemma step_calls st e :
  st_calls (Connect.step st e) = st_calls st \/
  exists ce, st_calls (Connect.step st e) = Calls.step (st_calls st) ce.
Proof.
  destruct e as [| | | |ce|k key|o cb|o cb]; unfold Connect.step, step_gen.
  - left. destruct (st_phase st) as [[|rest]|c| | | |]; reflexivity.
  - left. destruct (st_phase st); reflexivity.
  - destruct (st_phase st) as [rest|[|]| | | |]; try (left; reflexivity).
    right. eexists. unfold connection_authenticated, calls_step. rewrite deliver_calls. reflexivity.
  - left. destruct (st_phase st) as [rest|[|]| | | |]; reflexivity.
  - destruct ce as [k t rs|rs m|rs name m|s|r].
    + destruct (handle st); [|left; reflexivity]. right. eexists. unfold calls_step. rewrite deliver_calls. reflexivity.
    + destruct (st_open st && authed (st_phase st)); [|left; reflexivity].
      right. eexists. unfold calls_step. rewrite deliver_calls. reflexivity.
    + destruct (st_open st && authed (st_phase st)); [|left; reflexivity].
      right. eexists. unfold calls_step. rewrite deliver_calls. reflexivity.
    + right. eexists. unfold calls_step. rewrite deliver_calls. reflexivity.
    + destruct (st_open st); [|left; reflexivity]. unfold connection_lost.
      assert (Eph : st_phase (set_open st false) = st_phase st) by reflexivity. rewrite Eph.
      destruct (st_phase st); try (right; exists (ELost r); rewrite established_lost_calls; reflexivity).
      left. reflexivity.
  - destruct (handle st); [|left; reflexivity].
    destruct (get_object_calls false st k key) as [H|H]; [left; exact H | right; eexists; exact H].
  - destruct (handle st); [|left; reflexivity]. left. apply register_calls.
  - destruct (handle st); [|left; reflexivity]. left. apply cancel_calls.
Qed.

Lemma init_calls addr s0 : st_calls (Connect.init addr s0) = Calls.init s0.
Proof. unfold Connect.init. destruct (endpoint_count addr); reflexivity. Qed.

Lemma connect_run_snoc addr s0 evs e :
  Connect.run addr s0 (evs ++ [e]) = Connect.step (Connect.run addr s0 evs) e.
Proof. unfold Connect.run. rewrite fold_left_app. reflexivity. Qed.

Lemma calls_reachable addr s0 evs :
  exists cevs, st_calls (Connect.run addr s0 evs) = Calls.run s0 cevs.
Proof.
  induction evs as [|e evs IH] using rev_ind.
  - exists []. apply init_calls.
  - destruct IH as [cevs IH]. rewrite connect_run_snoc.
    destruct (step_calls (Connect.run addr s0 evs) e) as [H|[ce H]].
    + exists cevs. rewrite H. exact IH.
    + exists (cevs ++ [ce]). rewrite H, IH, CallsProofs.run_snoc. reflexivity.
Qed.

(* ------------------------------------------------------------------------ *)
(* 5. callbacks run only when the connection is lost; every proxy is registered *)

Definition ord (st : Connect.state) := (st_open st, st_ran st, st_dcbs st).

Lemma hello_done_ord st o : ord (hello_done st o) = ord st.
Proof.
  unfold hello_done. destruct (st_phase st); try reflexivity.
  destruct o as [v| | | | |]; reflexivity.
Qed.

Lemma on_completion_ord l13 st x : ord (on_completion l13 st x) = ord st.
Proof.
  unfold on_completion. destruct (fst x); [apply hello_done_ord|].
  destruct (alist_get Nat.eqb (S n) (st_intro st)); [|reflexivity].
  assert (E := intro_done_core l13 st p (snd x)). unfold core in E. injection E as _ E2 _ E4 E5 _.
  unfold ord. rewrite E2, E4, E5. reflexivity.
Qed.

Lemma deliver_ord l13 st c : ord (deliver l13 st c) = ord st.
Proof.
  unfold deliver.
  assert (H : forall l s, ord (fold_left (on_completion l13) l s) = ord s).
  { induction l as [|x l IH]; intros s; cbn [fold_left]; [reflexivity|].
    rewrite IH. apply on_completion_ord. }
  rewrite H. reflexivity.
Qed.

Lemma deliver_ran l13 st c : st_ran (deliver l13 st c) = st_ran st.
Proof. assert (E := deliver_ord l13 st c). unfold ord in E. injection E as _ E _. exact E. Qed.

Lemma step_ran st e :
  st_phase (Connect.step st e) = Dead \/ st_ran (Connect.step st e) = st_ran st.
Proof.
  destruct e as [| | | |ce|k key|o cb|o cb]; unfold Connect.step, step_gen.
  - right. destruct (st_phase st) as [[|rest]|c| | | |]; reflexivity.
  - right. destruct (st_phase st); reflexivity.
  - right. destruct (st_phase st) as [rest|[|]| | | |]; try reflexivity.
    unfold connection_authenticated, calls_step. rewrite deliver_ran. reflexivity.
  - right. destruct (st_phase st) as [rest|[|]| | | |]; reflexivity.
  - destruct ce as [k t rs|rs m|rs name m|s|r].
    + right. destruct (handle st); [|reflexivity]. unfold calls_step. apply deliver_ran.
    + right. destruct (st_open st && authed (st_phase st)); [|reflexivity]. unfold calls_step. apply deliver_ran.
    + right. destruct (st_open st && authed (st_phase st)); [|reflexivity]. unfold calls_step. apply deliver_ran.
    + right. unfold calls_step. apply deliver_ran.
    + destruct (st_open st); [|right; reflexivity]. left. unfold connection_lost.
      destruct (st_phase (set_open st false)); reflexivity.
  - right. destruct (handle st); [|reflexivity]. unfold get_object. destruct k; [reflexivity|].
    unfold calls_step. rewrite deliver_ran. reflexivity.
  - right. destruct (handle st); [|reflexivity]. destruct o; reflexivity.
  - right. destruct (handle st); [|reflexivity].
    assert (E := cancel_pofr st o cb). unfold pofr in E. injection E as _ _ _ E. exact E.
Qed.

Lemma dead_absorbing st e : st_phase st = Dead -> st_phase (Connect.step st e) = Dead.
Proof.
  intros H. assert (Ht : terminal (st_phase st) = true) by (rewrite H; reflexivity).
  destruct (step_terminal st e Ht) as [_ [[Hp _]|Hd]]; [rewrite Hp; exact H | exact Hd].
Qed.

Definition all_reg (l : list pobj) : Prop := Forall (fun p => po_reg p = true) l.

Lemma hello_done_objs st o : st_objs (hello_done st o) = st_objs st.
Proof.
  unfold hello_done. destruct (st_phase st); try reflexivity.
  destruct o as [v| | | | |]; reflexivity.
Qed.

Lemma intro_done_reg st rq o : all_reg (st_objs st) -> all_reg (st_objs (intro_done false st rq o)).
Proof.
  intros H. destruct rq as [[q key] parses]. unfold intro_done.
  destruct o as [[[z|s|l]|]|? ? ?| | | |]; try exact H.
  destruct parses; [|exact H]. cbn [set_objdone set_objs st_objs].
  apply Forall_app. split; [exact H | repeat constructor].
Qed.

Lemma on_completion_reg st x : all_reg (st_objs st) -> all_reg (st_objs (on_completion false st x)).
Proof.
  intros H. unfold on_completion. destruct (fst x); [rewrite hello_done_objs; exact H|].
  destruct (alist_get Nat.eqb (S n) (st_intro st)); [apply intro_done_reg; exact H | exact H].
Qed.

Lemma deliver_reg st c : all_reg (st_objs st) -> all_reg (st_objs (deliver false st c)).
Proof.
  intros H. unfold deliver.
  assert (G : forall l s, all_reg (st_objs s) -> all_reg (st_objs (fold_left (on_completion false) l s))).
  { induction l as [|x l IH]; intros s Hs; cbn [fold_left]; [exact Hs|].
    apply IH. apply on_completion_reg. exact Hs. }
  apply G. exact H.
Qed.

Lemma upd_cbs_reg q f l : all_reg l -> all_reg (upd_cbs q f l).
Proof.
  unfold all_reg, upd_cbs. intros H. apply Forall_forall. intros p Hin.
  apply in_map_iff in Hin as [p0 [<- Hin0]].
  rewrite Forall_forall in H. specialize (H p0 Hin0).
  destruct (Nat.eqb (po_req p0) q); [exact H | exact H].
Qed.

Lemma step_reg st e : all_reg (st_objs st) -> all_reg (st_objs (Connect.step st e)).
Proof.
  intros H. destruct e as [| | | |ce|k key|o cb|o cb]; unfold Connect.step, step_gen.
  - destruct (st_phase st) as [[|rest]|c| | | |]; exact H.
  - destruct (st_phase st); exact H.
  - destruct (st_phase st) as [rest|[|]| | | |]; try exact H.
    unfold connection_authenticated, calls_step. apply deliver_reg. exact H.
  - destruct (st_phase st) as [rest|[|]| | | |]; exact H.
  - destruct ce as [k t rs|rs m|rs name m|s|r].
    + destruct (handle st); [|exact H]. unfold calls_step. apply deliver_reg. exact H.
    + destruct (st_open st && authed (st_phase st)); [|exact H]. unfold calls_step. apply deliver_reg. exact H.
    + destruct (st_open st && authed (st_phase st)); [|exact H]. unfold calls_step. apply deliver_reg. exact H.
    + unfold calls_step. apply deliver_reg. exact H.
    + destruct (st_open st); [|exact H]. unfold connection_lost.
      destruct (st_phase (set_open st false)); try exact H;
        unfold established_lost; cbn [set_phase set_ran st_objs]; apply deliver_reg; exact H.
  - destruct (handle st); [|exact H]. unfold get_object. destruct k.
    + cbn [set_objdone set_objs st_objs set_nreq]. apply Forall_app. split; [exact H | repeat constructor].
    + unfold calls_step. apply deliver_reg. exact H.
  - destruct (handle st); [|exact H]. destruct o; [exact H|].
    cbn [register set_objs st_objs]. apply upd_cbs_reg. exact H.
  - destruct (handle st); [|exact H]. unfold cancel. destruct o as [|q].
    + destruct (mem cb (st_dcbs st)); exact H.
    + destruct (find_obj q (st_objs st)) as [p|]; [|exact H].
      destruct (po_cbs p); [exact H|]. destruct (mem cb (n :: l)); [|exact H].
      cbn [set_objs st_objs]. apply upd_cbs_reg. exact H.
Qed.

Lemma run_quiet_until_dead addr s0 evs :
  (st_phase (Connect.run addr s0 evs) <> Dead -> st_ran (Connect.run addr s0 evs) = []) /\
  all_reg (st_objs (Connect.run addr s0 evs)).
Proof.
  induction evs as [|e evs IH] using rev_ind.
  - unfold Connect.run, Connect.init. cbn [fold_left].
    destruct (endpoint_count addr); cbn; split; try (intros _; reflexivity); constructor.
  - rewrite connect_run_snoc. destruct IH as [IH1 IH2]. split; [|apply step_reg; exact IH2].
    intros Hnd. destruct (step_ran (Connect.run addr s0 evs) e) as [Hd|Hr]; [contradiction|].
    rewrite Hr. apply IH1. intros Hd. apply Hnd. apply dead_absorbing. exact Hd.
Qed.

(* ------------------------------------------------------------------------ *)
(* 6. the loss of a ready connection                                           *)

Lemma intro_done_objs_lost l13 st rq r : st_objs (intro_done l13 st rq (OLost r)) = st_objs st.
Proof. destruct rq as [[q key] parses]. reflexivity. Qed.

Lemma fold_objs_lost l13 r l : forall st,
  Forall (fun x => snd x = OLost r) l ->
  st_objs (fold_left (on_completion l13) l st) = st_objs st.
Proof.
  induction l as [|x l IH]; intros st H; cbn [fold_left]; [reflexivity|].
  inversion H as [|y ys Hx Hl]; subst. rewrite IH by exact Hl.
  unfold on_completion. destruct (fst x); [apply hello_done_objs|].
  destruct (alist_get Nat.eqb (S n) (st_intro st)); [|reflexivity].
  rewrite Hx. apply intro_done_objs_lost.
Qed.

Lemma proxy_runs_all_reg objs r :
  all_reg objs ->
  proxy_runs objs r =
  map (fun x => (fst x, snd x, r))
      (flat_map (fun p => map (fun cb => (OProxy (po_req p), cb)) (po_cbs p)) objs).
Proof.
  intros H. unfold proxy_runs. induction H as [|p l Hp Hl IH]; [reflexivity|].
  cbn [flat_map]. rewrite map_app, IH, Hp. f_equal.
  unfold runs. rewrite map_map. reflexivity.
Qed.

(* Calls.connection_lost on a table reachable in C08 *)
Lemma calls_lost_reachable s0 cevs r :
  let c1 := Calls.run s0 cevs in
  let c2 := Calls.step c1 (ELost r) in
  st_done c2 = st_done c1 ++ map (fun p => (pc_id (snd p), OLost r)) (st_pending c1) /\
  st_pending c2 = [] /\ st_timers c2 = [] /\ st_next_id c2 = st_next_id c1.
Proof.
  cbv zeta. destruct (run_inv s0 cevs) as [Hs Hi Hp Ht Hf].
  cbn [Calls.step]. unfold Calls.connection_lost. rewrite Hp.
  destruct (lose_fold r (open_calls s0 cevs) (Calls.run s0 cevs) Ht) as (I1 & I2 & I3 & I4 & I5).
  cbv zeta in I1, I2, I3, I4, I5.
  cbn [set_pending st_done st_pending st_timers st_next_id].
  repeat split; try assumption.
  rewrite I3, map_map. reflexivity.
Qed.

Lemma loss_of_ready addr s0 pre r :
  st_phase (Connect.run addr s0 pre) = Ready ->
  loss_ok r (snap (Connect.run addr s0 pre))
            (snap (Connect.step (Connect.run addr s0 pre) (ECalls (ELost r)))).
Proof.
  intros Hph. set (st1 := Connect.run addr s0 pre) in *.
  assert (G := good_run addr s0 pre). fold st1 in G. unfold Good in G. rewrite Hph in G.
  destruct G as [_ Hopen].
  destruct (run_quiet_until_dead addr s0 pre) as [Hran Hreg]. fold st1 in Hran, Hreg.
  assert (Hran0 : st_ran st1 = []) by (apply Hran; rewrite Hph; discriminate).
  destruct (calls_reachable addr s0 pre) as [cevs Hc]. fold st1 in Hc.
  destruct (calls_lost_reachable s0 cevs r) as (D1 & D2 & D3 & D4). cbv zeta in D1, D2, D3, D4.
  rewrite <- Hc in D1, D2, D3, D4.
  (* the step *)
  assert (Estep : Connect.step st1 (ECalls (ELost r)) = established_lost false (set_open st1 false) r).
  { unfold Connect.step, step_gen. rewrite Hopen. unfold connection_lost.
    assert (Eph : st_phase (set_open st1 false) = Ready) by exact Hph. rewrite Eph. reflexivity. }
  rewrite Estep. unfold established_lost.
  set (stA := set_ran (set_open st1 false) (st_ran (set_open st1 false) ++ runs OConn (st_dcbs (set_open st1 false)) r)).
  set (c2 := Calls.connection_lost (st_calls stA) r).
  assert (Ec2 : c2 = Calls.step (st_calls st1) (ELost r)) by reflexivity.
  set (stB := deliver false stA c2).
  assert (HpA : st_phase stA <> HelloPending) by (change (st_phase stA) with (st_phase st1); rewrite Hph; discriminate).
  assert (CoreB := deliver_core false stA c2 HpA). fold stB in CoreB. unfold core in CoreB.
  injection CoreB as B1 B2 B3 B4 B5 B6.
  assert (ObjB : st_objs stB = st_objs st1).
  { unfold stB, deliver. rewrite (fold_objs_lost false r); [reflexivity|].
    change (st_calls stA) with (st_calls st1). rewrite Ec2, D1, skipn_app_exact.
    apply Forall_forall. intros x Hx. apply in_map_iff in Hx as [p [<- _]]. reflexivity. }
  unfold loss_ok, snap.
  cbn [sn_outstanding sn_timers sn_registered sn_completed sn_ran sn_fired sn_issued
       set_phase set_ran st_calls st_ran st_fired st_dcbs st_objs].
  rewrite B6, B3, B4, ObjB. rewrite Ec2.
  repeat split.
  - rewrite D1. unfold expected_failures. cbn [sn_outstanding]. rewrite map_map. apply Permutation_refl.
  - rewrite Hc, <- CallsProofs.run_snoc. apply at_most_once.
  - unfold timer_serials. rewrite D3. reflexivity.
  - exact Hran0.
  - rewrite Hran0. cbn [app].
    unfold expected_runs. cbn [sn_registered]. rewrite map_app.
    rewrite (proxy_runs_all_reg _ r Hreg). unfold runs. rewrite map_map. apply Permutation_refl.
Qed.

(* ------------------------------------------------------------------------ *)
(* 7. nothing fires afterwards                                                 *)

Lemma forall_alist_set {V} (Q : V -> Prop) k v (l : list (N * V)) :
  Forall (fun p => Q (snd p)) l -> Q v -> Forall (fun p => Q (snd p)) (alist_set N.eqb k v l).
Proof.
  intros H Hv. induction H as [|[k' v'] l Hx Hl IH]; cbn [alist_set].
  - constructor; [exact Hv | constructor].
  - destruct (k =? k'); constructor; auto.
Qed.

Lemma forall_alist_del {V} (P : N * V -> Prop) k (l : list (N * V)) :
  Forall P l -> Forall P (alist_del N.eqb k l).
Proof.
  intros H. induction H as [|[k' v'] l Hx Hl IH]; cbn [alist_del]; [constructor|].
  destruct (k =? k'); [exact Hl | constructor; assumption].
Qed.

Lemma forall_alist_get {V} (Q : V -> Prop) k (l : list (N * V)) v :
  Forall (fun p => Q (snd p)) l -> alist_get N.eqb k l = Some v -> Q v.
Proof.
  intros H. induction H as [|[k' v'] l Hx Hl IH]; cbn [alist_get]; [discriminate|].
  destruct (k =? k'); [intros E; injection E as <-; exact Hx | exact IH].
Qed.

(* a call table in which everything still alive was issued as Deferred number n or later, and whose
   completions since [d] all belong to such Deferreds *)
Definition PostC (n : nat) (d : list (nat * outcome)) (c : Calls.state) : Prop :=
  (exists later, st_done c = d ++ later /\ Forall (fun x => (n <= fst x)%nat) later) /\
  (n <= st_next_id c)%nat /\
  Forall (fun p => (fun pc => (n <= pc_id pc)%nat) (snd p)) (st_pending c) /\
  Forall (fun t => (fun i => (n <= i)%nat) (snd t)) (st_timers c).

Lemma postc_complete n d c i o :
  (n <= i)%nat -> PostC n d c -> PostC n d (complete c i o).
Proof.
  intros Hi ([later [Hd Hl]] & Hn & Hp & Ht). unfold complete, PostC.
  cbn [st_done st_next_id st_pending st_timers]. repeat split; try assumption.
  exists (later ++ [(i, o)]). split; [rewrite Hd, app_assoc; reflexivity|].
  apply Forall_app. split; [exact Hl | constructor; [exact Hi | constructor]].
Qed.

Lemma postc_call n d c k t rs : PostC n d c -> PostC n d (call_remote c k t rs).
Proof.
  intros H. destruct c as [ser nid pend tims done fault].
  assert (Hn : (n <= nid)%nat) by (destruct H as (_ & Hn & _); exact Hn).
  assert (H1 : forall ser', PostC n d (Calls.State ser' (S nid) pend tims done fault)).
  { intros ser'. destruct H as (Hd & _ & Hp & Ht). unfold PostC.
    cbn [st_done st_next_id st_pending st_timers] in *. repeat split; try assumption. lia. }
  unfold call_remote. cbn [st_next_id st_next_serial st_pending st_timers st_done st_fault].
  destruct k.
  - destruct (max_serial <? ser); [apply postc_complete; [exact Hn | apply H1]|].
    destruct (H1 (ser + 1)) as (Hd & Hn' & Hp & Ht). cbn [st_done st_next_id st_pending st_timers] in *.
    destruct (truthy_timeout t); unfold set_pending, set_timers, PostC;
      cbn [st_done st_next_id st_pending st_timers st_next_serial st_fault]; repeat split; try assumption.
    + apply (forall_alist_set (fun pc => (n <= pc_id pc)%nat)); [exact Hp | exact Hn].
    + apply Forall_app. split; [exact Ht | constructor; [exact Hn | constructor]].
    + apply (forall_alist_set (fun pc => (n <= pc_id pc)%nat)); [exact Hp | exact Hn].
  - destruct (max_serial <? ser); apply postc_complete; try exact Hn; apply H1.
  - apply postc_complete; [exact Hn | apply H1].
Qed.

Lemma postc_timer n d c s : PostC n d c -> PostC n d (timer_fires c s).
Proof.
  intros H. unfold timer_fires, find_timer.
  destruct (alist_get N.eqb s (st_timers c)) as [i|] eqn:E; [|exact H].
  destruct H as (Hd & Hn & Hp & Ht).
  assert (Hi : (n <= i)%nat) by exact (forall_alist_get (fun i => (n <= i)%nat) s _ i Ht E).
  assert (H' : PostC n d (set_timers c (remove_timer s (st_timers c)))).
  { unfold PostC, set_timers, remove_timer. cbn [st_done st_next_id st_pending st_timers].
    repeat split; try assumption. apply forall_alist_del. exact Ht. }
  unfold on_method_timeout.
  destruct (alist_get N.eqb s (st_pending (set_timers c (remove_timer s (st_timers c))))).
  - apply postc_complete; [exact Hi|].
    destruct H' as (Hd' & Hn' & Hp' & Ht'). unfold PostC, set_pending.
    cbn [st_done st_next_id st_pending st_timers] in *. repeat split; try assumption.
    apply forall_alist_del. exact Hp'.
  - destruct H' as (Hd' & Hn' & Hp' & Ht'). unfold PostC, set_fault.
    cbn [st_done st_next_id st_pending st_timers] in *. repeat split; assumption.
Qed.

Definition Post (n : nat) (d : list (nat * outcome)) (ran : list (owner * N * N)) (fired : list cres)
           (st : Connect.state) : Prop :=
  pofr st = (Dead, false, fired, ran) /\ PostC n d (st_calls st).

Lemma post_step n d ran fired st e : Post n d ran fired st -> Post n d ran fired (Connect.step st e).
Proof.
  intros [Hp Hc]. assert (Hp' := Hp). unfold pofr in Hp'. injection Hp' as Eph Eop _ _.
  assert (Hnhp : st_phase st <> HelloPending) by (rewrite Eph; discriminate).
  assert (Via : forall st' ce, pofr st' = pofr st -> st_calls st' = Calls.step (st_calls st) ce ->
                 PostC n d (Calls.step (st_calls st) ce) -> Post n d ran fired st').
  { intros st' ce E1 E2 E3. split; [rewrite E1; exact Hp | rewrite E2; exact E3]. }
  destruct e as [| | | |ce|k key|o cb|o cb]; unfold Connect.step, step_gen; rewrite ?Eph, ?Eop.
  - split; assumption.
  - split; assumption.
  - split; assumption.
  - split; assumption.
  - destruct ce as [k t rs|rs m|rs name m|s|r]; cbn [andb].
    + destruct (handle st); [|split; assumption].
      apply (Via _ (ECall k t rs)); [apply calls_step_pofr; exact Hnhp | unfold calls_step; apply deliver_calls|].
      apply postc_call. exact Hc.
    + split; assumption.
    + split; assumption.
    + apply (Via _ (ETimer s)); [apply calls_step_pofr; exact Hnhp | unfold calls_step; apply deliver_calls|].
      apply postc_timer. exact Hc.
    + split; assumption.
  - destruct (handle st); [|split; assumption]. destruct k as [|parses].
    + split; [exact Hp | exact Hc].
    + apply (Via _ (ECall CkNormal None RsNoCheck)).
      * apply get_object_pofr. exact Hnhp.
      * unfold get_object, calls_step. rewrite deliver_calls. reflexivity.
      * apply postc_call. exact Hc.
  - destruct (handle st); [|split; assumption].
    split; [rewrite register_pofr; exact Hp | rewrite register_calls; exact Hc].
  - destruct (handle st); [|split; assumption].
    split; [rewrite cancel_pofr; exact Hp | rewrite cancel_calls; exact Hc].
Qed.

Lemma post_run n d ran fired evs : forall st,
  Post n d ran fired st -> Post n d ran fired (fold_left Connect.step evs st).
Proof.
  induction evs as [|e evs IH]; intros st H; cbn [fold_left]; [exact H|].
  apply IH. apply post_step. exact H.
Qed.

Lemma quiet_after_loss addr s0 pre r post :
  st_phase (Connect.run addr s0 pre) = Ready ->
  quiet (snap (Connect.step (Connect.run addr s0 pre) (ECalls (ELost r))))
        (snap (fold_left Connect.step post (Connect.step (Connect.run addr s0 pre) (ECalls (ELost r))))).
Proof.
  intros Hph. set (st1 := Connect.run addr s0 pre) in *.
  set (st2 := Connect.step st1 (ECalls (ELost r))).
  assert (G := good_run addr s0 pre). fold st1 in G. unfold Good in G. rewrite Hph in G.
  destruct G as [_ Hopen].
  destruct (calls_reachable addr s0 pre) as [cevs Hc]. fold st1 in Hc.
  destruct (calls_lost_reachable s0 cevs r) as (D1 & D2 & D3 & D4). cbv zeta in D1, D2, D3, D4.
  rewrite <- Hc in D1, D2, D3, D4.
  assert (Estep : st2 = established_lost false (set_open st1 false) r).
  { unfold st2, Connect.step, step_gen. rewrite Hopen. unfold connection_lost.
    assert (Eph : st_phase (set_open st1 false) = Ready) by exact Hph. rewrite Eph. reflexivity. }
  assert (Hp0 : st_phase (set_open st1 false) <> HelloPending).
  { change (st_phase (set_open st1 false)) with (st_phase st1). rewrite Hph. discriminate. }
  destruct (established_lost_fields false (set_open st1 false) r Hp0) as (F1 & F2 & F3).
  rewrite <- Estep in F1, F2, F3. cbn [set_open st_open] in F2.
  assert (Ecalls : st_calls st2 = Calls.step (st_calls st1) (ELost r)).
  { rewrite Estep, established_lost_calls. reflexivity. }
  assert (P2 : Post (st_next_id (st_calls st2)) (st_done (st_calls st2)) (st_ran st2) (st_fired st2) st2).
  { split; [unfold pofr; rewrite F1, F2; reflexivity|].
    unfold PostC. rewrite Ecalls, D2, D3. repeat split; try constructor.
    exists []. split; [rewrite app_nil_r; reflexivity | constructor]. }
  destruct (post_run _ _ _ _ post st2 P2) as [Q1 ([later [Q2 Q3]] & _)].
  unfold pofr in Q1. injection Q1 as _ _ Q1f Q1r.
  unfold quiet, snap. cbn [sn_ran sn_fired sn_completed sn_issued].
  split; [exact Q1r|]. split; [exact Q1f|]. exists later. split; assumption.
Qed.

(* ------------------------------------------------------------------------ *)
(* 8. the statements of Props/C09.v                                            *)

Lemma connect_run_app addr s0 pre e post :
  Connect.run addr s0 (pre ++ e :: post) =
  fold_left Connect.step post (Connect.step (Connect.run addr s0 pre) e).
Proof. unfold Connect.run. rewrite fold_left_app. reflexivity. Qed.

Lemma loss_fails_all_once addr s0 pre r post :
  st_phase (Connect.run addr s0 pre) = Ready ->
  loss_ok r (snap (Connect.run addr s0 pre))
            (snap (Connect.run addr s0 (pre ++ [ECalls (ELost r)]))) /\
  quiet (snap (Connect.run addr s0 (pre ++ [ECalls (ELost r)])))
        (snap (Connect.run addr s0 (pre ++ ECalls (ELost r) :: post))).
Proof.
  intros H. rewrite connect_run_snoc, connect_run_app.
  split; [apply loss_of_ready; exact H | apply quiet_after_loss; exact H].
Qed.

(* a ready connection came about in the one way the property names *)
Lemma ready_only_after_hello addr s0 evs :
  st_phase (Connect.run addr s0 evs) = Ready -> connect_outcome addr s0 evs = Some CReady.
Proof.
  intros H. destruct (connect_fires addr s0 evs) as [H1 _].
  assert (G := good_run addr s0 evs). unfold Good in G. rewrite H in G. destruct G as [Hx _].
  rewrite Hx in H1. destruct (connect_outcome addr s0 evs) as [o|]; [|discriminate H1].
  cbn [fired_as] in H1. injection H1 as <-. reflexivity.
Qed.

(* ------------------------------------------------------------------------ *)
(* 9. what changes the set of registered callbacks                             *)

Definition regs_of (objs : list pobj) : list (owner * N) :=
  flat_map (fun p => map (fun cb => (OProxy (po_req p), cb)) (po_cbs p)) objs.

Lemma registered_eq st :
  sn_registered (snap st) = map (fun cb => (OConn, cb)) (st_dcbs st) ++ regs_of (st_objs st).
Proof. reflexivity. Qed.

Lemma regs_of_snoc_empty objs q key reg : regs_of (objs ++ [PObj q key reg []]) = regs_of objs.
Proof. unfold regs_of. rewrite flat_map_app. cbn. apply app_nil_r. Qed.

Lemma intro_done_regs st rq o : regs_of (st_objs (intro_done false st rq o)) = regs_of (st_objs st).
Proof.
  destruct rq as [[q key] parses]. unfold intro_done.
  destruct o as [[[z|s|l]|]|? ? ?| | | |]; try reflexivity.
  destruct parses; [|reflexivity]. cbn [set_objdone set_objs st_objs]. apply regs_of_snoc_empty.
Qed.

Lemma on_completion_regs st x : regs_of (st_objs (on_completion false st x)) = regs_of (st_objs st).
Proof.
  unfold on_completion. destruct (fst x); [rewrite hello_done_objs; reflexivity|].
  destruct (alist_get Nat.eqb (S n) (st_intro st)); [apply intro_done_regs | reflexivity].
Qed.

Lemma deliver_regs st c : regs_of (st_objs (deliver false st c)) = regs_of (st_objs st).
Proof.
  unfold deliver.
  assert (H : forall l s, regs_of (st_objs (fold_left (on_completion false) l s)) = regs_of (st_objs s)).
  { induction l as [|x l IH]; intros s; cbn [fold_left]; [reflexivity|].
    rewrite IH. apply on_completion_regs. }
  rewrite H. reflexivity.
Qed.

Lemma deliver_dcbs l13 st c : st_dcbs (deliver l13 st c) = st_dcbs st.
Proof. assert (E := deliver_ord l13 st c). unfold ord in E. injection E as _ _ E. exact E. Qed.

Lemma calls_step_registered st e :
  sn_registered (snap (calls_step false st e)) = sn_registered (snap st).
Proof. rewrite !registered_eq. unfold calls_step. rewrite deliver_dcbs, deliver_regs. reflexivity. Qed.

Definition is_reg_event (e : Connect.event) : bool :=
  match e with EReg _ _ | ECancel _ _ => true | _ => false end.

(* only notifyOnDisconnect / cancelNotifyOnDisconnect change what is registered: a new proxy comes
   without callbacks, and nothing else touches the lists *)
Lemma registered_frame st e :
  is_reg_event e = false -> sn_registered (snap (Connect.step st e)) = sn_registered (snap st).
Proof.
  intros He. destruct e as [| | | |ce|k key|o cb|o cb]; try discriminate He; unfold Connect.step, step_gen.
  - destruct (st_phase st) as [[|rest]|c| | | |]; reflexivity.
  - destruct (st_phase st); reflexivity.
  - destruct (st_phase st) as [rest|[|]| | | |]; try reflexivity.
    unfold connection_authenticated. apply (calls_step_registered (set_phase st HelloPending)).
  - destruct (st_phase st) as [rest|[|]| | | |]; reflexivity.
  - destruct ce as [k t rs|rs m|rs name m|s|r].
    + destruct (handle st); [apply calls_step_registered | reflexivity].
    + destruct (st_open st && authed (st_phase st)); [apply calls_step_registered | reflexivity].
    + destruct (st_open st && authed (st_phase st)); [apply calls_step_registered | reflexivity].
    + apply calls_step_registered.
    + destruct (st_open st); [|reflexivity]. unfold connection_lost.
      destruct (st_phase (set_open st false)); try reflexivity;
        rewrite !registered_eq; unfold established_lost;
        cbn [set_phase set_ran st_dcbs st_objs]; rewrite deliver_dcbs, deliver_regs; reflexivity.
  - destruct (handle st); [|reflexivity]. unfold get_object. destruct k.
    + rewrite !registered_eq. cbn [set_objdone set_objs set_nreq st_dcbs st_objs].
      rewrite regs_of_snoc_empty. reflexivity.
    + apply (calls_step_registered (set_intro (set_nreq st (S (st_nreq st))) _)).
Qed.

Lemma remove_first_perm x l : mem x l = true -> Permutation (x :: remove_first x l) l.
Proof.
  induction l as [|y l IH]; cbn [mem existsb remove_first]; [discriminate|].
  destruct (x =? y) eqn:E.
  - intros _. apply N.eqb_eq in E. subst y. apply Permutation_refl.
  - cbn [orb]. intros H. apply perm_trans with (y :: x :: remove_first x l); [apply perm_swap|].
    apply perm_skip. apply IH. exact H.
Qed.

(* notifyOnDisconnect / cancelNotifyOnDisconnect on the connection, once the user holds it *)
Lemma registered_conn st cb :
  handle st = true ->
  Permutation (sn_registered (snap (Connect.step st (EReg OConn cb))))
              ((OConn, cb) :: sn_registered (snap st)) /\
  (mem cb (st_dcbs st) = true ->
   Permutation ((OConn, cb) :: sn_registered (snap (Connect.step st (ECancel OConn cb))))
               (sn_registered (snap st))) /\
  (mem cb (st_dcbs st) = false ->
   sn_registered (snap (Connect.step st (ECancel OConn cb))) = sn_registered (snap st) /\
   st_raised (Connect.step st (ECancel OConn cb)) = S (st_raised st)).
Proof.
  intros Hh. unfold Connect.step, step_gen. rewrite Hh. rewrite !registered_eq. repeat split.
  - cbn [register set_dcbs st_dcbs st_objs]. rewrite map_app. cbn [map].
    rewrite <- app_assoc. cbn [app]. apply Permutation_sym. apply Permutation_middle.
  - intros Hm. unfold cancel. rewrite Hm. cbn [set_dcbs st_dcbs st_objs].
    change ((OConn, cb) :: map (fun c => (OConn, c)) (remove_first cb (st_dcbs st)) ++ regs_of (st_objs st))
      with (map (fun c => (OConn, c)) (cb :: remove_first cb (st_dcbs st)) ++ regs_of (st_objs st)).
    apply Permutation_app_tail. apply Permutation_map. apply remove_first_perm. exact Hm.
  - unfold cancel. rewrite H. reflexivity.
  - unfold cancel. rewrite H. reflexivity.
Qed.

(* the same on a proxy: exactly the proxy of request q is touched *)
Lemma registered_proxy st q cb :
  handle st = true ->
  st_objs (Connect.step st (EReg (OProxy q) cb)) = upd_cbs q (fun l => l ++ [cb]) (st_objs st) /\
  st_dcbs (Connect.step st (EReg (OProxy q) cb)) = st_dcbs st /\
  st_dcbs (Connect.step st (ECancel (OProxy q) cb)) = st_dcbs st /\
  (st_objs (Connect.step st (ECancel (OProxy q) cb)) = upd_cbs q (remove_first cb) (st_objs st) \/
   st_objs (Connect.step st (ECancel (OProxy q) cb)) = st_objs st).
Proof.
  intros Hh. unfold Connect.step, step_gen. rewrite Hh. repeat split.
  - unfold cancel. destruct (find_obj q (st_objs st)) as [p|]; [|reflexivity].
    destruct (po_cbs p); [reflexivity|]. destruct (mem cb (n :: l)); reflexivity.
  - unfold cancel. destruct (find_obj q (st_objs st)) as [p|]; [|right; reflexivity].
    destruct (po_cbs p); [right; reflexivity|]. destruct (mem cb (n :: l)); [left | right]; reflexivity.
Qed.

Lemma registered_frame' st e :
  (forall o cb, e <> EReg o cb) -> (forall o cb, e <> ECancel o cb) ->
  sn_registered (snap (Connect.step st e)) = sn_registered (snap st).
Proof.
  intros H1 H2. apply registered_frame. destruct e; try reflexivity.
  - exfalso. apply (H1 o cb). reflexivity.
  - exfalso. apply (H2 o cb). reflexivity.
Qed.
