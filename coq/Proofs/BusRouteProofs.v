(* Proofs for C14: the built-in bus's message delivery (Model/BusRoute.v) against
   Spec/BusRouteSpec.v, on top of the C13 development (BusNamesProofs: the name table
   refines the reference table) and the C12 development (RouterProofs.matches_spec). *)
From Tx Require Import Lib.Base Lib.Sexp Gen.Generated Model.Validators Model.BusNames Spec.NameSpec.
From Tx Require Import Proofs.BusNamesProofs.
From Tx Require Import Model.BusRoute Spec.BusRouteSpec.
From Tx Require Model.Router Spec.MatchSpec Proofs.RouterProofs Model.Message Proofs.MessageProofs.
From Coq Require Import Lia Permutation.
Local Open Scope N_scope.

(* ---- lists of writes ---------------------------------------------------------------------- *)
Definition fwd_list (l : list (client * delivery)) : list (client * bmsg) :=
  flat_map (fun x => match snd x with DFwd m => [(fst x, m)] | _ => [] end) l.
Definition reply_list (l : list (client * delivery)) : list (client * N) :=
  flat_map (fun x => match snd x with DReply n _ => [(fst x, n)] | _ => [] end) l.

Lemma fwd_list_app l1 l2 : fwd_list (l1 ++ l2) = fwd_list l1 ++ fwd_list l2.
Proof. apply flat_map_app. Qed.
Lemma reply_list_app l1 l2 : reply_list (l1 ++ l2) = reply_list l1 ++ reply_list l2.
Proof. apply flat_map_app. Qed.

Lemma fwd_list_signal rules s : fwd_list (deliver_signal rules s) = [].
Proof.
  destruct s as [to n|to n|n old new]; cbn [deliver_signal]; try reflexivity.
  induction (receivers rules (noc_view n old new)) as [|x l IH]; [reflexivity | exact IH].
Qed.
Lemma reply_list_signal rules s : reply_list (deliver_signal rules s) = [].
Proof.
  destruct s as [to n|to n|n old new]; cbn [deliver_signal]; try reflexivity.
  induction (receivers rules (noc_view n old new)) as [|x l IH]; [reflexivity | exact IH].
Qed.

Lemma fwd_list_signals rules sigs : fwd_list (flat_map (deliver_signal rules) sigs) = [].
Proof.
  induction sigs as [|s l IH]; [reflexivity|]. cbn [flat_map]. rewrite fwd_list_app, fwd_list_signal, IH. reflexivity.
Qed.
Lemma reply_list_signals rules sigs : reply_list (flat_map (deliver_signal rules) sigs) = [].
Proof.
  induction sigs as [|s l IH]; [reflexivity|]. cbn [flat_map]. rewrite reply_list_app, reply_list_signal, IH. reflexivity.
Qed.

Lemma fwd_list_reply c m a : fwd_list (reply_to c m a) = [].
Proof. unfold reply_to. destruct (N.testbit (g_flags m) 0); reflexivity. Qed.

Lemma fwd_list_fwd m (l : list client) : fwd_list (map (fun x => (x, DFwd m)) l) = map (fun x => (x, m)) l.
Proof. induction l as [|x l IH]; [reflexivity|]. cbn. f_equal. exact IH. Qed.
Lemma reply_list_fwd m (l : list client) : reply_list (map (fun x => (x, DFwd m)) l) = [].
Proof. induction l as [|x l IH]; [reflexivity | exact IH]. Qed.

(* ---- routing by rules is the specification's matching ---------------------------------------- *)
Lemma receivers_spec rules v :
  receivers rules v = flat_map (fun h => if MatchSpec.matches (snd h) v then [fst h] else []) (map snd rules).
Proof.
  induction rules as [|[i [c r]] l IH]; [reflexivity|].
  unfold receivers in *. cbn [flat_map map snd fst]. rewrite RouterProofs.matches_spec, IH. reflexivity.
Qed.

Lemma holders_pair (held : list (client * Router.rule)) v (m : bmsg) :
  map (fun x => (x, m)) (flat_map (fun h => if MatchSpec.matches (snd h) v then [fst h] else []) held)
  = flat_map (fun h => if MatchSpec.matches (snd h) v then [(fst h, m)] else []) held.
Proof.
  induction held as [|h l IH]; [reflexivity|]. cbn [flat_map]. rewrite map_app, IH.
  destruct (MatchSpec.matches (snd h) v); reflexivity.
Qed.

Lemma map_written_holders (held : list (client * Router.rule)) v (m : bmsg) :
  map (fun x : client * bmsg => (fst x, written (snd x)))
      (flat_map (fun h => if MatchSpec.matches (snd h) v then [(fst h, m)] else []) held)
  = flat_map (fun h => if MatchSpec.matches (snd h) v then [(fst h, written m)] else []) held.
Proof.
  induction held as [|h l IH]; [reflexivity|]. cbn [flat_map]. rewrite map_app, IH.
  destruct (MatchSpec.matches (snd h) v); reflexivity.
Qed.

(* ---- destination resolution is the reference table's --------------------------------------------- *)
Lemma resolve_addressee b t d : MInv b -> R b t -> d <> [] -> resolve b d = addressee t d.
Proof.
  intros Mb Rb Hd. destruct d as [|ch rest]; [congruence|]. unfold resolve, addressee.
  cbn [starts_with]. rewrite (N.eqb_sym 58 ch). change c_colon with 58.
  destruct (ch =? 58) eqn:E; cbn [andb].
  - rewrite (r_live b t Rb). reflexivity.
  - pose proof (view_fst b t (ch :: rest) Rb) as V. unfold mqueue in V. unfold owner.
    destruct (nget (b_names b) (ch :: rest)) as [[|o q]|] eqn:G.
    + exfalso. exact (proj2 (mi_names b Mb) _ G).
    + destruct (queue t (ch :: rest)) as [|e r]; cbn [map] in V; [discriminate|]. injection V as -> _. reflexivity.
    + destruct (queue t (ch :: rest)) as [|e r]; cbn [map] in V; [reflexivity | discriminate].
Qed.

Lemma addressee_live t d o : SInv t -> addressee t d = Some o -> is_live t o = true.
Proof.
  intros St. unfold addressee. destruct (starts_with [58] d).
  - intro F. apply find_some in F. apply is_live_in. exact (proj1 F).
  - unfold owner. destruct (queue t d) as [|e r] eqn:Q; [discriminate|]. intro H. injection H as <-.
    apply is_live_in. apply (si_live t St d). rewrite Q. left. reflexivity.
Qed.

(* ---- the re-serialisation ---------------------------------------------------------------------------- *)
Lemma stamped_with_sender c m : stamped c m = with_sender (unique_name c) m.
Proof. reflexivity. Qed.

Lemma valid_cases m : valid_type m = true -> g_type m = 1 \/ g_type m = 2 \/ g_type m = 3 \/ g_type m = 4.
Proof. unfold valid_type. rewrite andb_true_iff, !N.leb_le. lia. Qed.

Lemma written_conforming m : conforming m -> written m = m.
Proof.
  destruct m as [le t fl ser p i mb en rs d sd sg body args rsg]. unfold conforming, written.
  cbn [g_le g_type g_flags g_serial g_path g_interface g_member g_error_name g_reply_serial g_destination g_sender
       g_signature g_body g_args g_rs_signed].
  intros [[[-> | ->] [-> ->]] | [[-> (-> & -> & -> & ->)] | [-> (-> & -> & ->)]]]; reflexivity.
Qed.

Lemma conforming_valid m : conforming m -> valid_type m = true.
Proof.
  unfold conforming, valid_type.
  intros [[[-> | ->] _] | [[-> _] | [-> _]]]; reflexivity.
Qed.

Lemma written_sender m : valid_type m = true -> g_sender (written m) = g_sender m.
Proof.
  intro V. unfold written. cbn [g_sender]. destruct (valid_cases m V) as [-> | [-> | [-> | ->]]]; reflexivity.
Qed.

Lemma written_fixed m :
  valid_type m = true ->
  g_le (written m) = g_le m /\ g_type (written m) = g_type m /\ g_flags (written m) = g_flags m /\
  g_serial (written m) = g_serial m /\ g_destination (written m) = g_destination m /\
  g_signature (written m) = g_signature m /\ g_body (written m) = g_body m /\ g_args (written m) = g_args m /\
  g_rs_signed (written m) = g_rs_signed m.
Proof.
  intro V. unfold written.
  cbn [g_le g_type g_flags g_serial g_destination g_signature g_body g_args g_rs_signed].
  destruct (valid_cases m V) as [-> | [-> | [-> | ->]]]; repeat split; reflexivity.
Qed.

(* ---- reading a bus call ----------------------------------------------------------------------------------- *)
Lemma to_bus_eq m : to_bus m = opt_is bus_name (g_destination m).
Proof. unfold to_bus, dest_of, opt_is. destruct (g_destination m) as [[|x r]|]; reflexivity. Qed.

Lemma to_bus_truthy m : to_bus m = true -> truthy_s (g_destination m) = true.
Proof. unfold to_bus, dest_of, truthy_s. destruct (g_destination m) as [[|x r]|]; [discriminate | reflexivity | discriminate]. Qed.

Lemma owed_to_bus st c m : to_bus m = true -> owed st c m = [].
Proof. unfold to_bus, owed. destruct (dest_of m); [intros ->; reflexivity | discriminate]. Qed.

Lemma hello_no_effect m :
  opt_is s_Hello (g_member m) = true -> bus_op_of m = BHello \/ bus_op_of m = BOther.
Proof.
  unfold bus_op_of, opt_is. intro H.
  destruct (negb _); [right; reflexivity|]. destruct (_ && _); [right; reflexivity|].
  destruct (g_member m) as [mb|]; [|discriminate]. rewrite H.
  destruct (sig_is [] (g_signature m)); [left | right]; reflexivity.
Qed.

(* ---- invariant -------------------------------------------------------------------------------------------------- *)
Record Inv (s : state) (st : sstate) : Prop := mkInv {
  i_m : MInv (r_bus s);
  i_s : SInv (s_table st);
  i_r : R (r_bus s) (s_table st);
  i_rules : map snd (r_rules s) = s_held st;
  i_held : forall c r, In (c, r) (s_held st) -> In c (t_live (s_table st))
}.

Lemma inv_init : Inv init_state spec_init.
Proof. constructor; [exact minv_init | exact sinv_empty | exact R_init | reflexivity | intros c r []]. Qed.

Lemma mem_live b t c : R b t -> mem c (b_clients b) = is_live t c.
Proof. intro Rb. rewrite (r_live b t Rb). reflexivity. Qed.

Ltac split_ifs := repeat match goal with |- context [if ?b then _ else _] => destruct b end.

(* the live set and the counter under the reference table's operations *)
Lemma live_request t c n f : t_live (fst (NameSpec.spec_step t (Request c n f))) = t_live t.
Proof.
  cbn [NameSpec.spec_step]. destruct (is_live t c); [|reflexivity]. unfold spec_request.
  destruct (negb (wellknown n)); [reflexivity|].
  destruct (queue t n) as [|[o a] rest]; [reflexivity|].
  split_ifs; reflexivity.
Qed.

Lemma live_release t c n : t_live (fst (NameSpec.spec_step t (Release c n))) = t_live t.
Proof.
  cbn [NameSpec.spec_step]. destruct (is_live t c); [|reflexivity]. unfold spec_release.
  destruct (queue t n) as [|[o a] rest]; [reflexivity|].
  split_ifs; reflexivity.
Qed.

Lemma next_request t c n f : t_next (fst (NameSpec.spec_step t (Request c n f))) = t_next t.
Proof.
  cbn [NameSpec.spec_step]. destruct (is_live t c); [|reflexivity]. unfold spec_request.
  destruct (negb (wellknown n)); [reflexivity|].
  destruct (queue t n) as [|[o a] rest]; [reflexivity|].
  split_ifs; reflexivity.
Qed.

Lemma next_release t c n : t_next (fst (NameSpec.spec_step t (Release c n))) = t_next t.
Proof.
  cbn [NameSpec.spec_step]. destruct (is_live t c); [|reflexivity]. unfold spec_release.
  destruct (queue t n) as [|[o a] rest]; [reflexivity|].
  split_ifs; reflexivity.
Qed.

Lemma next_disconnect t c : t_next (fst (NameSpec.spec_step t (Disconnect c))) = t_next t.
Proof. cbn [NameSpec.spec_step]. destruct (is_live t c); reflexivity. Qed.

Lemma live_disconnect t c :
  is_live t c = true ->
  t_live (fst (NameSpec.spec_step t (Disconnect c))) = filter (fun x => negb (N.eqb c x)) (t_live t).
Proof. intro L. cbn [NameSpec.spec_step]. rewrite L. reflexivity. Qed.

Lemma lookup_keeps_bus b c n :
  fst (BusNames.step b (GetOwner c n)) = b /\ fst (BusNames.step b (ListQueued c n)) = b.
Proof. unfold BusNames.step. cbn [BusNames.step_with]. destruct (mem c (b_clients b)); split; reflexivity. Qed.

(* a name operation keeps the invariant *)
Lemma inv_name_op s st o :
  Inv s st -> t_live (fst (NameSpec.spec_step (s_table st) o)) = t_live (s_table st) ->
  Inv (set_bus s (fst (BusNames.step (r_bus s) o))) (mkSS (fst (NameSpec.spec_step (s_table st) o)) (s_held st)).
Proof.
  intros [Mb St Rb Hr Hh] Hl.
  destruct (BusNamesProofs.sim_step (r_bus s) (s_table st) o Mb St Rb) as [M1 [R1 _]].
  constructor; cbn [r_bus set_bus s_table s_held r_rules].
  - exact M1.
  - exact (sinv_step (s_table st) o St).
  - exact R1.
  - exact Hr.
  - intros c r H. rewrite Hl. exact (Hh c r H).
Qed.

(* ---- a call to the bus ---------------------------------------------------------------------------------------------- *)
Lemma name_call_fst s c m o : fst (name_call s c m o) = set_bus s (fst (BusNames.step (r_bus s) o)).
Proof. unfold name_call. destruct (BusNames.step (r_bus s) o); reflexivity. Qed.

Lemma name_call_fwd s c m o : fwd_list (snd (name_call s c m o)) = [].
Proof.
  unfold name_call. destruct (BusNames.step (r_bus s) o) as [b' x]. cbn [snd].
  rewrite fwd_list_app, fwd_list_signals, fwd_list_reply. reflexivity.
Qed.

Lemma name_call_replies s c m o :
  reply_list (snd (name_call s c m o)) = if N.testbit (g_flags m) 0 then [] else [(c, g_serial m)].
Proof.
  unfold name_call. destruct (BusNames.step (r_bus s) o) as [b' x]. cbn [snd].
  rewrite reply_list_app, reply_list_signals. unfold reply_to. destruct (N.testbit (g_flags m) 0); reflexivity.
Qed.

Lemma set_bus_same s : set_bus s (r_bus s) = s.
Proof. destruct s; reflexivity. Qed.

Lemma sim_bus_call s st c m :
  Inv s st -> In c (t_live (s_table st)) -> g_type m = 1 -> to_bus m = true ->
  Inv (fst (bus_call s c (with_sender (unique_name c) m))) (bus_effect st c m) /\
  fwd_list (snd (bus_call s c (with_sender (unique_name c) m))) = [].
Proof.
  intros I Hc Ht Hb. unfold bus_effect. rewrite Ht, Hb. cbn [N.eqb Pos.eqb andb].
  unfold bus_call. change (bus_op_of (with_sender (unique_name c) m)) with (bus_op_of m).
  destruct (bus_op_of m) as [|n f|n|n|n|text|].
  - split; [exact I | apply fwd_list_reply].
  - rewrite name_call_fst, name_call_fwd. split; [|reflexivity].
    apply inv_name_op; [exact I | apply live_request].
  - rewrite name_call_fst, name_call_fwd. split; [|reflexivity].
    apply inv_name_op; [exact I | apply live_release].
  - rewrite name_call_fst, name_call_fwd. split; [|reflexivity].
    rewrite (proj1 (lookup_keeps_bus (r_bus s) c n)), set_bus_same. exact I.
  - rewrite name_call_fst, name_call_fwd. split; [|reflexivity].
    rewrite (proj2 (lookup_keeps_bus (r_bus s) c n)), set_bus_same. exact I.
  - destruct (Router.parse_rule text) as [r|e]; [|split; [exact I | apply fwd_list_reply]].
    destruct (MatchSpec.registrable r) eqn:Rg.
    + destruct (proj1 (RouterProofs.compile_registrable r) Rg) as [cr Ec]. rewrite Ec.
      split; [|apply fwd_list_reply]. destruct I as [Mb St Rb Hr Hh].
      constructor; cbn [fst r_bus r_rules s_table s_held]; try assumption.
      * rewrite map_app, Hr. reflexivity.
      * intros c' r' H. apply in_app_or in H. destruct H as [H | [H | []]]; [exact (Hh c' r' H)|].
        injection H as <- _. exact Hc.
    + destruct (proj2 (RouterProofs.compile_registrable r) Rg) as [Ec _]. rewrite Ec.
      split; [exact I | apply fwd_list_reply].
  - split; [exact I | apply fwd_list_reply].
Qed.

(* ---- messageReceived ------------------------------------------------------------------------------------------------------ *)
Lemma sim_message s st c m :
  Inv s st -> In c (t_live (s_table st)) ->
  Inv (fst (message_received false s c (with_sender (unique_name c) m) (written (with_sender (unique_name c) m))))
      (bus_effect st c m) /\
  fwd_list (snd (message_received false s c (with_sender (unique_name c) m) (written (with_sender (unique_name c) m))))
  = map (fun x => (fst x, written (snd x))) (owed st c m).
Proof.
  intros I Hc. unfold message_received.
  change (g_destination (with_sender (unique_name c) m)) with (g_destination m).
  change (g_type (with_sender (unique_name c) m)) with (g_type m).
  rewrite <- (to_bus_eq m). cbn [orb].
  destruct ((g_type m =? 1) && to_bus m) eqn:Cb.
  - apply andb_true_iff in Cb. destruct Cb as [Ht Hb]. apply N.eqb_eq in Ht.
    destruct (sim_bus_call s st c m I Hc Ht Hb) as [I1 F1].
    destruct (bus_call s c (with_sender (unique_name c) m)) as [s1 d1]. cbn [fst snd] in *.
    rewrite Hb, (to_bus_truthy m Hb). cbn [negb andb]. rewrite !app_nil_r, F1, (owed_to_bus st c m Hb).
    split; [exact I1 | reflexivity].
  - assert (E : bus_effect st c m = st) by (unfold bus_effect; rewrite Cb; reflexivity).
    rewrite E. cbn [fst snd app]. split; [exact I|].
    destruct I as [Mb St Rb Hr Hh]. unfold owed, to_bus, dest_of, truthy_s.
    change (stamped c m) with (with_sender (unique_name c) m).
    destruct (g_destination m) as [[|x r]|] eqn:D; cbn [negb andb app].
    + (* an empty destination: routed by rules *)
      rewrite fwd_list_fwd, receivers_spec, Hr, holders_pair, map_written_holders. reflexivity.
    + rewrite app_nil_r.
      destruct (str_eqb (x :: r) bus_name) eqn:Eb; cbn [negb]; [reflexivity|].
      rewrite (resolve_addressee (r_bus s) (s_table st) (x :: r) Mb Rb) by discriminate.
      destruct (addressee (s_table st) (x :: r)); reflexivity.
    + rewrite fwd_list_fwd, receivers_spec, Hr, holders_pair, map_written_holders. reflexivity.
Qed.

(* ---- rawDBusMessageReceived ------------------------------------------------------------------------------------------------- *)
Lemma sim_recv s st c m :
  Inv s st -> In c (t_live (s_table st)) ->
  Inv (fst (recv remarshal false s c m)) (fst (spec_recv st c m)) /\
  fwd_list (d_deliv (snd (recv remarshal false s c m))) = map (fun x => (fst x, written (snd x))) (snd (spec_recv st c m)).
Proof.
  intros I Hc. unfold recv, spec_recv. cbn [fst snd].
  destruct (negb (mem c (r_hello s)) && (g_type m =? 1) && opt_is bus_name (g_destination m)
            && opt_is s_Hello (g_member m)) eqn:Hh.
  - apply andb_true_iff in Hh. destruct Hh as [Hh Hm]. apply andb_true_iff in Hh. destruct Hh as [Hh Hb].
    rewrite <- to_bus_eq in Hb. rewrite (owed_to_bus st c m Hb). cbn [fst snd d_deliv fwd_list flat_map map app].
    split; [|reflexivity].
    assert (E : bus_effect st c m = st).
    { unfold bus_effect. destruct ((g_type m =? 1) && to_bus m); [|reflexivity].
      destruct (hello_no_effect m Hm) as [-> | ->]; reflexivity. }
    rewrite E. destruct I as [Mb St Rb Hr Hl]. constructor; assumption.
  - unfold remarshal.
    destruct (sim_message s st c m I Hc) as [I1 F1].
    destruct (message_received false s c (with_sender (unique_name c) m) (written (with_sender (unique_name c) m)))
      as [s' d]. cbn [fst snd d_deliv] in *. split; [exact I1 | exact F1].
Qed.

(* ---- one event -------------------------------------------------------------------------------------------------------------------- *)
Lemma fwds_list o : fwds o = fwd_list (d_deliv o).
Proof. reflexivity. Qed.
Lemma replies_list o : replies o = reply_list (d_deliv o).
Proof. reflexivity. Qed.

Definition as_written (l : list (client * bmsg)) : list (client * bmsg) :=
  map (fun x => (fst x, written (snd x))) l.

Lemma inv_connect s st :
  Inv s st ->
  Inv (set_bus s (fst (BusNames.step (r_bus s) Connect)))
      (mkSS (fst (NameSpec.spec_step (s_table st) Connect)) (s_held st)) /\
  In (t_next (s_table st)) (t_live (fst (NameSpec.spec_step (s_table st) Connect))) /\
  b_next (r_bus s) = t_next (s_table st).
Proof.
  intros [Mb St Rb Hr Hh].
  destruct (BusNamesProofs.sim_step (r_bus s) (s_table st) Connect Mb St Rb) as [M1 [R1 _]].
  split; [|split].
  - constructor; cbn [r_bus set_bus s_table s_held r_rules]; try assumption.
    + exact (sinv_step (s_table st) Connect St).
    + intros c r H. cbn [NameSpec.spec_step spec_connect fst t_live]. apply in_or_app. left. exact (Hh c r H).
  - cbn [NameSpec.spec_step spec_connect fst t_live]. apply in_or_app. right. left. reflexivity.
  - apply Rb.
Qed.

Lemma map_filter_snd {A B} (f : B -> bool) (l : list (A * B)) :
  map snd (filter (fun e => f (snd e)) l) = filter f (map snd l).
Proof.
  induction l as [|x l IH]; [reflexivity|]. cbn [filter map]. destruct (f (snd x)); cbn [map]; rewrite IH; reflexivity.
Qed.

Theorem rsim_step s st e :
  Inv s st ->
  Inv (fst (step s e)) (fst (sstep st e)) /\
  fwds (snd (step s e)) = as_written (snd (sstep st e)).
Proof.
  intro I. unfold step, as_written. destruct e as [m|c m|c]; cbn [step_with sstep].
  - destruct (valid_type m); cbn [negb]; [|split; [exact I | reflexivity]].
    destruct (inv_connect s st I) as [I0 [Hc Hn]]. rewrite Hn.
    destruct (sim_recv _ _ (t_next (s_table st)) m I0 Hc) as [I1 F1].
    destruct (recv remarshal false (set_bus s (fst (BusNames.step (r_bus s) Connect))) (t_next (s_table st)) m)
      as [s1 o]. cbn [fst snd] in *. split; [exact I1 | exact F1].
  - rewrite (mem_live (r_bus s) (s_table st) c (i_r s st I)).
    destruct (is_live (s_table st) c) eqn:L; cbn [andb]; [|split; [exact I | reflexivity]].
    destruct (valid_type m); cbn [negb]; [|split; [exact I | reflexivity]].
    apply is_live_in in L. exact (sim_recv s st c m I L).
  - rewrite (mem_live (r_bus s) (s_table st) c (i_r s st I)).
    destruct (is_live (s_table st) c) eqn:L; [|split; [exact I | reflexivity]].
    destruct I as [Mb St Rb Hr Hh].
    destruct (BusNamesProofs.sim_step (r_bus s) (s_table st) (Disconnect c) Mb St Rb) as [M1 [R1 _]].
    destruct (BusNames.step (r_bus s) (Disconnect c)) as [b' x]. cbn [fst snd] in *.
    split.
    + constructor; cbn [r_bus r_rules s_table s_held]; try assumption.
      * exact (sinv_step (s_table st) (Disconnect c) St).
      * rewrite <- Hr. exact (map_filter_snd (fun h => negb (N.eqb c (fst h))) (r_rules s)).
      * intros c' r H. apply filter_In in H. destruct H as [H Hne].
        rewrite (live_disconnect (s_table st) c L). apply filter_In. split; [exact (Hh c' r H) | exact Hne].
    + rewrite fwds_list. cbn [d_deliv]. apply fwd_list_signals.
Qed.

(* ---- histories ------------------------------------------------------------------------------------------------------------------------ *)
Lemma rsim_run_from h : forall s st,
  Inv s st ->
  Inv (fst (run_from s h)) (fst (srun_from st h)) /\
  Forall2 (fun o x => fwds o = as_written x) (snd (run_from s h)) (snd (srun_from st h)).
Proof.
  induction h as [|e h IH]; intros s st I; unfold run_from; cbn [run_from_with srun_from].
  - split; [exact I | constructor].
  - destruct (rsim_step s st e I) as [I1 F1]. fold step.
    destruct (step s e) as [s1 o]. destruct (sstep st e) as [st1 x]. cbn [fst snd] in *.
    destruct (IH s1 st1 I1) as [I2 F2]. unfold run_from in I2, F2.
    destruct (run_from_with remarshal false false s1 h) as [s2 os]. destruct (srun_from st1 h) as [st2 xs].
    cbn [fst snd] in *. split; [exact I2 | constructor; assumption].
Qed.

Theorem refines h : Forall2 (fun o x => fwds o = as_written x) (snd (run h)) (snd (srun h)).
Proof. exact (proj2 (rsim_run_from h init_state spec_init inv_init)). Qed.

Lemma inv_run h : Inv (fst (run h)) (fst (srun h)).
Proof. exact (proj1 (rsim_run_from h init_state spec_init inv_init)). Qed.

(* a history continues from the state it reached *)
Lemma run_from_app h1 h2 s :
  run_from s (h1 ++ h2) =
  (fst (run_from (fst (run_from s h1)) h2), snd (run_from s h1) ++ snd (run_from (fst (run_from s h1)) h2)).
Proof.
  revert s. induction h1 as [|e h1 IH]; intro s; unfold run_from in *; cbn [app run_from_with].
  - cbn [fst snd app]. destruct (run_from_with remarshal false false s h2); reflexivity.
  - destruct (step_with remarshal false false s e) as [s1 x]. rewrite (IH s1).
    destruct (run_from_with remarshal false false s1 h1) as [s2 xs]. cbn [fst snd app]. reflexivity.
Qed.

Lemma srun_from_app h1 h2 st :
  srun_from st (h1 ++ h2) =
  (fst (srun_from (fst (srun_from st h1)) h2), snd (srun_from st h1) ++ snd (srun_from (fst (srun_from st h1)) h2)).
Proof.
  revert st. induction h1 as [|e h1 IH]; intro st; cbn [app srun_from].
  - cbn [fst snd app]. destruct (srun_from st h2); reflexivity.
  - destruct (sstep st e) as [st1 x]. rewrite (IH st1).
    destruct (srun_from st1 h1) as [st2 xs]. cbn [fst snd app]. reflexivity.
Qed.

(* what the event after a history shows is the step from the state the history reached *)
Theorem trace_step h1 e h2 :
  snd (run (h1 ++ e :: h2)) =
  snd (run h1) ++ snd (step (fst (run h1)) e) :: snd (run_from (fst (step (fst (run h1)) e)) h2) /\
  snd (srun (h1 ++ e :: h2)) =
  snd (srun h1) ++ snd (sstep (fst (srun h1)) e) :: snd (srun_from (fst (sstep (fst (srun h1)) e)) h2).
Proof.
  unfold run, srun. rewrite run_from_app, srun_from_app. cbn [snd]. split; f_equal.
  - unfold run_from. cbn [run_from_with]. fold step.
    destruct (step (fst (run_from_with remarshal false false init_state h1)) e) as [s1 x]. cbn [fst snd].
    destruct (run_from_with remarshal false false s1 h2); reflexivity.
  - cbn [srun_from]. destruct (sstep (fst (srun_from spec_init h1)) e) as [st1 x]. cbn [fst snd].
    destruct (srun_from st1 h2); reflexivity.
Qed.

(* ================================================================================================== *)
(* The statements of the property                                                                      *)

(* ---- what the specification owes for an event ---------------------------------------------------- *)
Lemma sstep_owed st e c m : origin st e = Some (c, m) -> snd (sstep st e) = owed (at_delivery st e) c m.
Proof.
  destruct e as [m0|c0 m0|c0]; cbn [origin sstep at_delivery].
  - destruct (valid_type m0); cbn [negb]; [|discriminate]. intro H. injection H as <- <-. reflexivity.
  - destruct (is_live (s_table st) c0 && valid_type m0); [|discriminate]. intro H. injection H as <- <-. reflexivity.
  - discriminate.
Qed.

Lemma origin_valid st e c m : origin st e = Some (c, m) -> valid_type m = true.
Proof.
  destruct e as [m0|c0 m0|c0]; cbn [origin].
  - destruct (valid_type m0) eqn:V; [|discriminate]. intro H. injection H as _ <-. exact V.
  - destruct (is_live (s_table st) c0); cbn [andb]; [|discriminate].
    destruct (valid_type m0) eqn:V; [|discriminate]. intro H. injection H as _ <-. exact V.
  - discriminate.
Qed.

Lemma owed_stamped st c m x y : In (x, y) (owed st c m) -> y = stamped c m.
Proof.
  unfold owed. destruct (dest_of m) as [d|].
  - destruct (str_eqb d bus_name); [intros []|]. destruct (addressee (s_table st) d); [|intros []].
    intros [H | []]. injection H as _ <-. reflexivity.
  - intro H. apply in_flat_map in H. destruct H as [hr [_ H]].
    destruct (MatchSpec.matches (snd hr) (view (stamped c m))); [|destruct H].
    destruct H as [H | []]. injection H as _ <-. reflexivity.
Qed.

Lemma inv_at_delivery s st e : Inv s st -> SInv (s_table (at_delivery st e)) /\ s_held (at_delivery st e) = s_held st.
Proof.
  intro I. destruct e as [m|c m|c]; cbn [at_delivery]; try (split; [exact (i_s s st I) | reflexivity]).
  destruct (valid_type m); [|split; [exact (i_s s st I) | reflexivity]].
  split; [exact (sinv_step (s_table st) Connect (i_s s st I)) | reflexivity].
Qed.

Lemma held_live_at_delivery s st e x r :
  Inv s st -> In (x, r) (s_held st) -> is_live (s_table (at_delivery st e)) x = true.
Proof.
  intros I H. apply is_live_in. pose proof (i_held s st I x r H) as L.
  destruct e as [m|c m|c]; cbn [at_delivery]; try exact L.
  destruct (valid_type m); [|exact L]. cbn [NameSpec.spec_step spec_connect fst s_table t_live].
  apply in_or_app. left. exact L.
Qed.

Lemma step_fwds h e : fwds (snd (step (fst (run h)) e)) = as_written (snd (sstep (fst (srun h)) e)).
Proof. exact (proj2 (rsim_step _ _ e (inv_run h))). Qed.

(* ---- unicast ----------------------------------------------------------------------------------------------- *)
Theorem unicast_exactly_once h e c m d :
  let s := fst (run h) in
  let st := fst (srun h) in
  origin st e = Some (c, m) -> dest_of m = Some d -> d <> bus_name ->
  (forall o, addressee (s_table (at_delivery st e)) d = Some o ->
             fwds (snd (step s e)) = [(o, written (stamped c m))] /\
             is_live (s_table (at_delivery st e)) o = true) /\
  (addressee (s_table (at_delivery st e)) d = None -> fwds (snd (step s e)) = []).
Proof.
  intros s st. subst s st. intros Ho Hd Hb. rewrite step_fwds, (sstep_owed _ e c m Ho). unfold owed. rewrite Hd.
  assert (Eb : str_eqb d bus_name = false).
  { destruct (str_eqb d bus_name) eqn:E; [|reflexivity]. apply str_eqb_spec in E. contradiction. }
  rewrite Eb. split.
  - intros o Ha. rewrite Ha. split; [reflexivity|].
    exact (addressee_live _ d o (proj1 (inv_at_delivery _ _ e (inv_run h))) Ha).
  - intros ->. reflexivity.
Qed.

(* ---- sender, unchanged --------------------------------------------------------------------------------------- *)
Lemma delivered_is_written h e c m to m' :
  origin (fst (srun h)) e = Some (c, m) -> In (to, m') (fwds (snd (step (fst (run h)) e))) ->
  m' = written (stamped c m).
Proof.
  intros Ho Hin. rewrite step_fwds, (sstep_owed _ e c m Ho) in Hin. unfold as_written in Hin.
  apply in_map_iff in Hin. destruct Hin as [[x y] [E Hy]]. cbn [fst snd] in E. injection E as _ <-.
  rewrite (owed_stamped _ c m x y Hy). reflexivity.
Qed.

Theorem sender_true h e c m to m' :
  origin (fst (srun h)) e = Some (c, m) -> In (to, m') (fwds (snd (step (fst (run h)) e))) ->
  g_sender m' = Some (unique_name c).
Proof.
  intros Ho Hin. rewrite (delivered_is_written h e c m to m' Ho Hin).
  rewrite written_sender; [reflexivity|]. exact (origin_valid _ e c m Ho).
Qed.

Theorem unchanged h e c m to m' :
  origin (fst (srun h)) e = Some (c, m) -> In (to, m') (fwds (snd (step (fst (run h)) e))) ->
  (g_le m' = g_le m /\ g_type m' = g_type m /\ g_flags m' = g_flags m /\ g_serial m' = g_serial m /\
   g_destination m' = g_destination m /\ g_signature m' = g_signature m /\ g_body m' = g_body m /\
   g_args m' = g_args m /\ g_rs_signed m' = g_rs_signed m) /\
  (conforming m ->
   m' = stamped c m /\
   g_path m' = g_path m /\ g_interface m' = g_interface m /\ g_member m' = g_member m /\
   g_error_name m' = g_error_name m /\ g_reply_serial m' = g_reply_serial m).
Proof.
  intros Ho Hin. rewrite (delivered_is_written h e c m to m' Ho Hin). split.
  - exact (written_fixed (stamped c m) (origin_valid _ e c m Ho)).
  - intro Cf. rewrite (written_conforming (stamped c m) Cf). repeat split; reflexivity.
Qed.

(* ---- order ------------------------------------------------------------------------------------------------------ *)
Lemma received_by_app {A} d (l1 l2 : list (client * A)) :
  received_by d (l1 ++ l2) = received_by d l1 ++ received_by d l2.
Proof. unfold received_by. rewrite filter_app, map_app. reflexivity. Qed.

Theorem order_concat h d :
  received_by d (flat_map fwds (snd (run h)))
  = flat_map (fun x => received_by d (as_written x)) (snd (srun h)).
Proof.
  pose proof (refines h) as F. induction F as [|o x os xs E F IH]; [reflexivity|].
  cbn [flat_map]. rewrite received_by_app, IH, E. reflexivity.
Qed.

Lemma run_snoc h e : snd (run (h ++ [e])) = snd (run h) ++ [snd (step (fst (run h)) e)].
Proof. rewrite (proj1 (trace_step h e [])). reflexivity. Qed.

Theorem order_append h e d :
  received_by d (flat_map fwds (snd (run (h ++ [e]))))
  = received_by d (flat_map fwds (snd (run h))) ++ received_by d (fwds (snd (step (fst (run h)) e))).
Proof. rewrite run_snoc, flat_map_app, received_by_app. cbn [flat_map]. rewrite app_nil_r. reflexivity. Qed.

Theorem order_pair h1 e1 h2 e2 d (x1 x2 : bmsg) :
  In x1 (received_by d (fwds (snd (step (fst (run h1)) e1)))) ->
  In x2 (received_by d (fwds (snd (step (fst (run (h1 ++ e1 :: h2))) e2)))) ->
  exists l1 l2 l3,
    received_by d (flat_map fwds (snd (run (h1 ++ e1 :: h2 ++ [e2])))) = l1 ++ x1 :: l2 ++ x2 :: l3.
Proof.
  intros H1 H2.
  replace (h1 ++ e1 :: h2 ++ [e2]) with ((h1 ++ e1 :: h2) ++ [e2]) by (rewrite <- app_assoc; reflexivity).
  rewrite order_append. rewrite (proj1 (trace_step h1 e1 h2)), flat_map_app, received_by_app.
  cbn [flat_map]. rewrite received_by_app.
  apply in_split in H1. destruct H1 as [a1 [a2 ->]]. apply in_split in H2. destruct H2 as [b1 [b2 E2]].
  rewrite E2.
  exists (received_by d (flat_map fwds (snd (run h1))) ++ a1),
         (a2 ++ received_by d (flat_map fwds (snd (run_from (fst (step (fst (run h1)) e1)) h2))) ++ b1), b2.
  repeat rewrite <- app_assoc. cbn [app]. repeat rewrite <- app_assoc. reflexivity.
Qed.

(* ---- addressed to the bus ------------------------------------------------------------------------------------------ *)
Lemma bus_call_replies s c m :
  N.testbit (g_flags m) 0 = false -> reply_list (snd (bus_call s c m)) = [(c, g_serial m)].
Proof.
  intro Hf. unfold bus_call.
  assert (Rp : forall a, reply_list (reply_to c m a) = [(c, g_serial m)]).
  { intro a. unfold reply_to. rewrite Hf. reflexivity. }
  destruct (bus_op_of m) as [|n f|n|n|n|text|]; cbn [snd]; try apply Rp;
    try (rewrite name_call_replies, Hf; reflexivity).
  destruct (Router.parse_rule text) as [r|]; [|apply Rp]. destruct (Router.compile r); apply Rp.
Qed.

Lemma recv_replies s c m :
  g_type m = 1 -> to_bus m = true -> N.testbit (g_flags m) 0 = false ->
  reply_list (d_deliv (snd (recv remarshal false s c m))) = [(c, g_serial m)].
Proof.
  intros Ht Hb Hf. unfold recv. rewrite <- to_bus_eq, Hb, Ht. cbn [N.eqb Pos.eqb andb negb].
  destruct (negb (mem c (r_hello s)) && true && true && opt_is s_Hello (g_member m)); [reflexivity|].
  unfold remarshal, message_received.
  change (g_destination (with_sender (unique_name c) m)) with (g_destination m).
  change (g_type (with_sender (unique_name c) m)) with (g_type m).
  rewrite <- (to_bus_eq m), Hb, Ht, (to_bus_truthy m Hb). cbn [N.eqb Pos.eqb andb negb orb].
  pose proof (bus_call_replies s c (with_sender (unique_name c) m) Hf) as B.
  destruct (bus_call s c (with_sender (unique_name c) m)) as [s1 d1]. cbn [snd d_deliv] in *.
  rewrite !app_nil_r. exact B.
Qed.

Theorem bus_addressed_not_forwarded h e c m :
  let s := fst (run h) in
  origin (fst (srun h)) e = Some (c, m) -> to_bus m = true ->
  fwds (snd (step s e)) = [] /\
  (expects_answer m = true -> replies (snd (step s e)) = [(c, g_serial m)]).
Proof.
  intros s Ho Hb. split.
  - subst s. rewrite step_fwds, (sstep_owed _ e c m Ho), (owed_to_bus _ c m Hb). reflexivity.
  - unfold expects_answer. rewrite Hb. intro Hx. apply andb_true_iff in Hx. destruct Hx as [Hx Hf].
    apply andb_true_iff in Hx. destruct Hx as [Ht _]. apply N.eqb_eq in Ht. apply negb_true_iff in Hf.
    pose proof (inv_run h) as I. fold s in I.
    unfold step. destruct e as [m0|c0 m0|c0]; cbn [origin step_with] in *.
    + destruct (valid_type m0); cbn [negb]; [|discriminate]. injection Ho as <- <-.
      rewrite <- (r_next _ _ (i_r _ _ I)).
      pose proof (recv_replies (set_bus s (fst (BusNames.step (r_bus s) Connect))) (b_next (r_bus s)) m0 Ht Hb Hf) as Rp.
      destruct (recv remarshal false (set_bus s (fst (BusNames.step (r_bus s) Connect))) (b_next (r_bus s)) m0) as [s1 o].
      exact Rp.
    + rewrite (mem_live _ _ c0 (i_r _ _ I)).
      destruct (is_live (s_table (fst (srun h))) c0); cbn [andb] in *; [|discriminate].
      destruct (valid_type m0); cbn [negb]; [|discriminate]. injection Ho as <- <-.
      exact (recv_replies s c0 m0 Ht Hb Hf).
    + discriminate.
Qed.

(* ---- broadcast ------------------------------------------------------------------------------------------------------- *)
Theorem broadcast_iff_rule h e c m :
  let s := fst (run h) in
  let st := fst (srun h) in
  origin st e = Some (c, m) -> dest_of m = None ->
  fwds (snd (step s e))
  = flat_map (fun hr => if MatchSpec.matches (snd hr) (view (stamped c m))
                        then [(fst hr, written (stamped c m))] else []) (s_held st) /\
  (forall x, In x (map fst (fwds (snd (step s e)))) <->
             exists r, In (x, r) (s_held st) /\ MatchSpec.matches r (view (stamped c m)) = true) /\
  (forall x r, In (x, r) (s_held st) -> is_live (s_table (at_delivery st e)) x = true).
Proof.
  intros s st. subst s st. intros Ho Hd.
  set (s := fst (run h)). set (st := fst (srun h)).
  assert (E : fwds (snd (step s e))
              = flat_map (fun hr => if MatchSpec.matches (snd hr) (view (stamped c m))
                                    then [(fst hr, written (stamped c m))] else []) (s_held st)).
  { subst s st. rewrite step_fwds, (sstep_owed _ e c m Ho). unfold owed. rewrite Hd.
    rewrite (proj2 (inv_at_delivery _ _ e (inv_run h))). unfold as_written. apply map_written_holders. }
  split; [exact E | split].
  - intro x. rewrite E. split.
    + intro H. apply in_map_iff in H. destruct H as [[x' y] [Ex H]]. cbn [fst] in Ex. subst x'.
      apply in_flat_map in H. destruct H as [[x' r] [Hin H]]. cbn [fst snd] in H.
      destruct (MatchSpec.matches r (view (stamped c m))) eqn:Mt; [|destruct H].
      destruct H as [H | []]. injection H as -> _. exists r. split; [exact Hin | exact Mt].
    + intros [r [Hin Mt]]. apply in_map_iff. exists (x, written (stamped c m)). split; [reflexivity|].
      apply in_flat_map. exists (x, r). split; [exact Hin|]. cbn [fst snd]. rewrite Mt. left. reflexivity.
  - intros x r Hin. exact (held_live_at_delivery s st e x r (inv_run h) Hin).
Qed.

(* ---- unique names ------------------------------------------------------------------------------------------------------- *)
(* the connection numbers given by clientConnected during a history, in order *)
Definition named_of (os : list rout) : list client :=
  flat_map (fun o => match d_named o with Some c => [c] | None => [] end) os.

Lemma recv_named s c m : d_named (snd (recv remarshal false s c m)) = None.
Proof.
  unfold recv. destruct (_ && opt_is s_Hello (g_member m)); [reflexivity|]. unfold remarshal.
  destruct (message_received false s c _ _); reflexivity.
Qed.

(* what clientConnected did in a step, read off the event *)
Definition names (e : event) (next : N) : option client :=
  match e with EFirst m => if valid_type m then Some next else None | _ => None end.

Lemma step_named s e : d_named (snd (step s e)) = names e (b_next (r_bus s)).
Proof.
  unfold step. destruct e as [m|c m|c]; cbn [step_with names].
  - destruct (valid_type m); cbn [negb]; [|reflexivity].
    destruct (recv remarshal false _ (b_next (r_bus s)) m); reflexivity.
  - destruct (mem c (b_clients (r_bus s))); [|reflexivity].
    destruct (valid_type m); cbn [negb]; [apply recv_named | reflexivity].
  - destruct (mem c (b_clients (r_bus s))); [|reflexivity].
    destruct (BusNames.step (r_bus s) (Disconnect c)); reflexivity.
Qed.

Lemma next_effect st c m : t_next (s_table (bus_effect st c m)) = t_next (s_table st).
Proof.
  unfold bus_effect. destruct ((g_type m =? 1) && to_bus m); [|reflexivity].
  destruct (bus_op_of m) as [|n f|n|n|n|text|]; cbn [s_table]; try reflexivity.
  - apply next_request.
  - apply next_release.
  - destruct (Router.parse_rule text) as [r|]; [|reflexivity]. destruct (MatchSpec.registrable r); reflexivity.
Qed.

Lemma live_effect st c m : t_live (s_table (bus_effect st c m)) = t_live (s_table st).
Proof.
  unfold bus_effect. destruct ((g_type m =? 1) && to_bus m); [|reflexivity].
  destruct (bus_op_of m) as [|n f|n|n|n|text|]; cbn [s_table]; try reflexivity.
  - apply live_request.
  - apply live_release.
  - destruct (Router.parse_rule text) as [r|]; [|reflexivity]. destruct (MatchSpec.registrable r); reflexivity.
Qed.

Lemma next_sstep st e :
  t_next (s_table (fst (sstep st e)))
  = match names e (t_next (s_table st)) with Some _ => t_next (s_table st) + 1 | None => t_next (s_table st) end.
Proof.
  destruct e as [m|c m|c]; cbn [sstep names].
  - destruct (valid_type m); cbn [negb]; [|reflexivity]. cbn [spec_recv fst]. rewrite next_effect. reflexivity.
  - destruct (is_live (s_table st) c && valid_type m); [|reflexivity]. cbn [spec_recv fst]. apply next_effect.
  - destruct (is_live (s_table st) c) eqn:L; [|reflexivity]. cbn [fst s_table]. apply next_disconnect.
Qed.

(* connection numbers start at 1 and the live ones have been given *)
Definition Pos (st : sstate) : Prop :=
  1 <= t_next (s_table st) /\ forall c, In c (t_live (s_table st)) -> 1 <= c /\ c < t_next (s_table st).

Lemma pos_sstep st e : Pos st -> Pos (fst (sstep st e)).
Proof.
  intros [P1 P2]. unfold Pos. rewrite next_sstep.
  destruct e as [m|c m|c]; cbn [sstep names].
  - destruct (valid_type m); cbn [negb]; [|split; [exact P1 | exact P2]].
    cbn [spec_recv fst]. rewrite live_effect. cbn [s_table NameSpec.spec_step spec_connect fst t_live].
    split; [lia|]. intros c H. apply in_app_or in H. destruct H as [H | [<- | []]]; [|lia].
    destruct (P2 c H). lia.
  - destruct (is_live (s_table st) c && valid_type m); [|split; [exact P1 | exact P2]].
    cbn [spec_recv fst]. rewrite live_effect. split; [exact P1 | exact P2].
  - destruct (is_live (s_table st) c) eqn:L; [|split; [exact P1 | exact P2]].
    cbn [fst s_table]. rewrite (live_disconnect _ c L). split; [exact P1|].
    intros c' H. apply filter_In in H. exact (P2 c' (proj1 H)).
Qed.

Lemma pos_init : Pos spec_init.
Proof. split; [cbn; lia | intros c []]. Qed.

Lemma pos_run_from h : forall st, Pos st -> Pos (fst (srun_from st h)).
Proof.
  induction h as [|e h IH]; intros st P; cbn [srun_from]; [exact P|].
  pose proof (pos_sstep st e P) as P1. destruct (sstep st e) as [st1 x]. cbn [fst] in P1.
  pose proof (IH st1 P1) as P2. destruct (srun_from st1 h) as [st2 xs]. exact P2.
Qed.

(* the numbers given from a state on are next, next+1, ...; the counter ends after them *)
Lemma named_run_from h : forall s st,
  Inv s st ->
  named_of (snd (run_from s h))
  = map (fun i => b_next (r_bus s) + N.of_nat i) (seq 0 (length (named_of (snd (run_from s h))))) /\
  b_next (r_bus (fst (run_from s h))) = b_next (r_bus s) + N.of_nat (length (named_of (snd (run_from s h)))).
Proof.
  induction h as [|e h IH]; intros s st I; unfold run_from; cbn [run_from_with].
  - cbn. split; [reflexivity | lia].
  - destruct (rsim_step s st e I) as [I1 _]. fold step.
    pose proof (step_named s e) as Hn. pose proof (next_sstep st e) as Hx.
    rewrite <- (r_next _ _ (i_r _ _ I)) in Hx. rewrite <- (r_next _ _ (i_r _ _ I1)) in Hx.
    destruct (step s e) as [s1 o]. cbn [fst snd] in *.
    destruct (IH s1 (fst (sstep st e)) I1) as [IHa IHb]. unfold run_from in IHa, IHb.
    destruct (run_from_with remarshal false false s1 h) as [s2 os]. cbn [fst snd] in *.
    unfold named_of in *. cbn [flat_map]. rewrite Hn.
    destruct (names e (b_next (r_bus s))) as [c|] eqn:Nm.
    + assert (c = b_next (r_bus s)) as ->.
      { destruct e as [m| |]; cbn [names] in Nm; try discriminate. destruct (valid_type m); [|discriminate].
        injection Nm as <-. reflexivity. }
      cbn [app length seq map]. split.
      * f_equal; [f_equal; lia|]. rewrite IHa at 1. rewrite Hx. rewrite <- seq_shift, map_map.
        apply map_ext. intro i. lia.
      * rewrite IHb, Hx. lia.
    + cbn [app]. rewrite Hx in IHa, IHb. split; [exact IHa | exact IHb].
Qed.

Theorem names_never_reused h :
  let given := named_of (snd (run h)) in
  given = map (fun i => 1 + N.of_nat i) (seq 0 (length given)) /\
  b_next (r_bus (fst (run h))) = 1 + N.of_nat (length given) /\
  NoDup given /\ NoDup (map unique_name given) /\
  (forall c, In c (b_clients (r_bus (fst (run h)))) -> In c given).
Proof.
  intro given. destruct (named_run_from h init_state spec_init inv_init) as [Ha Hb].
  change (named_of (snd (run_from init_state h))) with given in Ha, Hb.
  change (fst (run_from init_state h)) with (fst (run h)) in Hb.
  change (b_next (r_bus init_state)) with 1 in Ha, Hb.
  assert (ND : NoDup given).
  { rewrite Ha. apply FinFun.Injective_map_NoDup; [|apply seq_NoDup]. intros i j E. lia. }
  split; [exact Ha | split; [exact Hb | split; [exact ND | split]]].
  - apply FinFun.Injective_map_NoDup; [|exact ND]. intros a b E. exact (unique_name_inj a b E).
  - intros c Hc. pose proof (inv_run h) as I. pose proof (pos_run_from h spec_init pos_init) as [_ P2].
    fold (srun h) in P2. rewrite (r_live _ _ (i_r _ _ I)) in Hc. destruct (P2 c Hc) as [L1 L2].
    rewrite <- (r_next _ _ (i_r _ _ I)), Hb in L2.
    rewrite Ha. apply in_map_iff. exists (N.to_nat (c - 1)). split; [lia|]. apply in_seq. lia.
Qed.

Theorem counter_increases h e :
  let s := fst (run h) in
  match d_named (snd (step s e)) with
  | Some c => c = b_next (r_bus s) /\ b_next (r_bus (fst (step s e))) = c + 1
  | None => b_next (r_bus (fst (step s e))) = b_next (r_bus s)
  end.
Proof.
  intro s. pose proof (inv_run h) as I. fold s in I.
  destruct (rsim_step s _ e I) as [I1 _]. pose proof (next_sstep (fst (srun h)) e) as Hx.
  rewrite <- (r_next _ _ (i_r _ _ I)) in Hx. rewrite <- (r_next _ _ (i_r _ _ I1)) in Hx.
  rewrite step_named. destruct (names e (b_next (r_bus s))) as [c|] eqn:Nm; [|exact Hx].
  assert (c = b_next (r_bus s)) as ->.
  { destruct e as [m| |]; cbn [names] in Nm; try discriminate. destruct (valid_type m); [|discriminate].
    injection Nm as <-. reflexivity. }
  split; [reflexivity | exact Hx].
Qed.

(* ---- witnesses ------------------------------------------------------------------------------------------------------------ *)
Definition p_a : str := [47; 97].                         (* /a *)
Definition i_xy : str := [120; 46; 121].                  (* x.y *)
Definition m_M : str := [77].                             (* M *)
Definition t_signal : str := [116; 121; 112; 101; 61; 39; 115; 105; 103; 110; 97; 108; 39].   (* type='signal' *)
Definition n_ab : str := [97; 46; 98].                    (* a.b *)
Definition u (c : client) : str := unique_name c.

(* a short string as a DBus body of signature "s" (little-endian) *)
Definition enc_s (s : str) : bytes := [N.of_nat (length s); 0; 0; 0] ++ s ++ [0].

Definition w_hello : bmsg :=
  mkB true 1 0 1 (Some bus_path) (Some bus_name) (Some s_Hello) None None (Some bus_name) None None [] None false.
Definition w_add (text : str) : bmsg :=
  mkB true 1 0 2 (Some bus_path) (Some bus_name) (Some s_AddMatch) None None (Some bus_name) None (Some sig_s)
      (enc_s text) (Some [Router.AStr text]) false.
Definition w_req (n : str) (f : N) : bmsg :=
  mkB true 1 0 3 (Some bus_path) (Some bus_name) (Some s_RequestName) None None (Some bus_name) None (Some sig_su)
      (enc_s n ++ [f; 0; 0; 0]) (Some [Router.AStr n; Router.AOther f]) false.
(* a signal /a x.y.M without arguments *)
Definition w_sig (dest sender : option str) (serial : N) : bmsg :=
  mkB true 4 0 serial (Some p_a) (Some i_xy) (Some m_M) None None dest sender None [] None false.
(* the same to :1.2 with one argument: a variant holding UINT32 7 *)
Definition w_var : bmsg :=
  mkB true 4 0 9 (Some p_a) (Some i_xy) (Some m_M) None None (Some (u 2)) None (Some [118])
      [1; 117; 0; 0; 7; 0; 0; 0] (Some [Router.AOther 7]) false.
(* big-endian, flags byte 4 (ALLOW_INTERACTIVE_AUTHORIZATION), one UINT32 7 *)
Definition w_be : bmsg :=
  mkB false 4 4 9 (Some p_a) (Some i_xy) (Some m_M) None None (Some (u 2)) None (Some [117])
      [0; 0; 0; 7] (Some [Router.AOther 7]) false.
(* a method return to :1.2 *)
Definition w_ret (rs : N) : bmsg :=
  mkB true 2 0 9 None None None None (Some rs) (Some (u 2)) None None [] None false.

Definition w_three : list event := [EFirst w_hello; EFirst w_hello; EFirst w_hello].
Definition w_rule3 : list event := w_three ++ [ESend 3 (w_add t_signal)].

(* D24: connection 3 holds type='signal'; 1 sends a signal to :1.2 pretending to be :1.3 *)
Lemma legacy_d24 :
  map fst (fwds (snd (step_legacy (fst (run_legacy w_rule3)) (ESend 1 (w_sig (Some (u 2)) (Some (u 3)) 9))))) = [2; 3] /\
  fwds (snd (step (fst (run w_rule3)) (ESend 1 (w_sig (Some (u 2)) (Some (u 3)) 9))))
  = [(2, stamped 1 (w_sig (Some (u 2)) (Some (u 3)) 9))].
Proof. split; vm_compute; reflexivity. Qed.

(* the same rule: a signal addressed to the bus reached connection 3 *)
Lemma legacy_bus_addressed :
  map fst (fwds (snd (step_legacy (fst (run_legacy w_rule3)) (ESend 1 (w_sig (Some bus_name) None 9))))) = [3] /\
  fwds (snd (step (fst (run w_rule3)) (ESend 1 (w_sig (Some bus_name) None 9)))) = [].
Proof. split; vm_compute; reflexivity. Qed.

(* D50: connection 3 is gone; its rule still received broadcasts *)
Lemma legacy_d50 :
  b_clients (r_bus (fst (run_legacy (w_rule3 ++ [EDisconnect 3])))) = [1; 2] /\
  map fst (fwds (snd (step_legacy (fst (run_legacy (w_rule3 ++ [EDisconnect 3]))) (ESend 1 (w_sig None None 9))))) = [3] /\
  fwds (snd (step (fst (run (w_rule3 ++ [EDisconnect 3]))) (ESend 1 (w_sig None None 9)))) = [].
Proof. repeat split; vm_compute; reflexivity. Qed.

(* D25 / D53: what the pre-repair bus delivered to :1.2 *)
Lemma legacy_d25 :
  (* the variant's content comes out as INT32 *)
  map (fun x => g_body (snd x)) (fwds (snd (step_legacy (fst (run_legacy w_three)) (ESend 1 w_var))))
    = [[1; 105; 0; 0; 7; 0; 0; 0]] /\
  (* big-endian comes out little-endian, the flags byte 4 as 0 *)
  map (fun x => (g_le (snd x), g_flags (snd x), g_body (snd x)))
      (fwds (snd (step_legacy (fst (run_legacy w_three)) (ESend 1 w_be)))) = [(true, 0, [7; 0; 0; 0])] /\
  (* REPLY_SERIAL comes out as INT32 ... *)
  map (fun x => g_rs_signed (snd x)) (fwds (snd (step_legacy (fst (run_legacy w_three)) (ESend 1 (w_ret 7))))) = [true] /\
  (* ... and from 2^31 on nothing comes out at all: the exception escapes *)
  snd (step_legacy (fst (run_legacy w_three)) (ESend 1 (w_ret 2147483648))) = mkROut None [] true.
Proof. repeat split; vm_compute; reflexivity. Qed.

Lemma repaired_d25 :
  fwds (snd (step (fst (run w_three)) (ESend 1 w_var))) = [(2, stamped 1 w_var)] /\
  fwds (snd (step (fst (run w_three)) (ESend 1 w_be))) = [(2, stamped 1 w_be)] /\
  fwds (snd (step (fst (run w_three)) (ESend 1 (w_ret 2147483648)))) = [(2, stamped 1 (w_ret 2147483648))].
Proof. repeat split; vm_compute; reflexivity. Qed.

(* the class tables of message.py, as used by [written] *)
Lemma class_fields :
  map (fun t => map Message.attr_code (Message.hattrs t)) [1; 2; 3; 4]
  = [[1; 2; 3; 6; 7; 8]; [5; 6; 7; 8]; [4; 5; 6; 7; 8]; [1; 2; 3; 6; 7; 8]].
Proof. reflexivity. Qed.
