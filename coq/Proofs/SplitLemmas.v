(* Lemmas relating Python-style string scans (".." in s, s[0], s[-1], regex
   "\.\d") to the element list obtained by splitting at a separator.  Shared
   by the name validators (separator '.') and object paths (separator '/'). *)
From Tx Require Import Lib.Base.
Local Open Scope N_scope.

Definition is_nil {A} (l : list A) : bool := match l with [] => true | _ => false end.

Lemma contains_nil sub : contains sub [] = starts_with sub [].
Proof. simpl. rewrite orb_false_r. reflexivity. Qed.

Lemma contains_cons sub x s :
  contains sub (x :: s) = starts_with sub (x :: s) || contains sub s.
Proof. reflexivity. Qed.

Lemma split_on_nonempty c s : split_on c s <> [].
Proof.
  destruct s as [|x s]; simpl; [discriminate|].
  destruct (x =? c); [discriminate|]. destruct (split_on c s); discriminate.
Qed.

Lemma split_on_cons c x s :
  split_on c (x :: s) =
  if x =? c then [] :: split_on c s
  else (x :: hd [] (split_on c s)) :: tl (split_on c s).
Proof.
  simpl. destruct (x =? c); [reflexivity|].
  destruct (split_on c s) eqn:E; [exfalso; eapply split_on_nonempty; eauto|reflexivity].
Qed.

Lemma split_on_hd_tl c s : split_on c s = hd [] (split_on c s) :: tl (split_on c s).
Proof. destruct (split_on c s) eqn:E; [exfalso; eapply split_on_nonempty; eauto|reflexivity]. Qed.

Section Sep.
  Variable c : N.

  Definition starts_sep (s : str) : bool := match s with x :: _ => x =? c | [] => false end.
  Definition nil_or_starts_sep (s : str) : bool := match s with x :: _ => x =? c | [] => true end.

  (* (A) the separator occurs iff there are at least two elements *)
  Lemma has_sep_split s : existsb (N.eqb c) s = (2 <=? length (split_on c s))%nat.
  Proof.
    induction s as [|x s IH]; [reflexivity|].
    rewrite split_on_cons. cbn [existsb]. rewrite (N.eqb_sym c x).
    destruct (x =? c) eqn:E.
    - cbn [length orb]. pose proof (split_on_nonempty c s).
      destruct (split_on c s); [congruence|reflexivity].
    - cbn [orb length]. rewrite IH. rewrite (split_on_hd_tl c s) at 1. reflexivity.
  Qed.

  (* (B) characters allowed "or separator" iff every element is made of allowed characters *)
  Lemma forallb_split (okc : N -> bool) s :
    forallb (fun x => okc x || (x =? c)) s = forallb (forallb okc) (split_on c s).
  Proof.
    induction s as [|x s IH]; [reflexivity|].
    rewrite split_on_cons. cbn [forallb]. rewrite IH.
    destruct (x =? c) eqn:E.
    - rewrite orb_true_r. reflexivity.
    - rewrite orb_false_r. rewrite (split_on_hd_tl c s) at 1. cbn [forallb].
      rewrite andb_assoc. reflexivity.
  Qed.

  (* (C) the first element is empty iff the string is empty or starts with the separator *)
  Lemma hd_nil_split s : is_nil (hd [] (split_on c s)) = nil_or_starts_sep s.
  Proof.
    destruct s as [|x s]; [reflexivity|]. rewrite split_on_cons. cbn.
    destruct (x =? c); reflexivity.
  Qed.

  (* (D) some later element is empty iff a doubled separator occurs or the string ends in one *)
  Lemma tl_nil_split s :
    existsb is_nil (tl (split_on c s)) = contains [c; c] s || ends_with_char c s.
  Proof.
    induction s as [|x s IH]; [reflexivity|].
    rewrite split_on_cons, contains_cons.
    assert (Hlast : ends_with_char c (x :: s) =
                    match s with [] => x =? c | _ => ends_with_char c s end).
    { unfold ends_with_char. destruct s; reflexivity. }
    rewrite Hlast. cbn [starts_with].
    destruct (x =? c) eqn:E.
    - cbn [tl]. rewrite (split_on_hd_tl c s). cbn [existsb].
      rewrite hd_nil_split, IH.
      destruct s as [|y s].
      + cbn. rewrite ?andb_false_r, ?orb_true_r. reflexivity.
      + cbn [nil_or_starts_sep starts_with].
        rewrite (N.eqb_sym c x), E, (N.eqb_sym c y). rewrite andb_true_r.
        destruct (y =? c); reflexivity.
    - rewrite (N.eqb_sym c x), E. cbn [tl andb orb]. rewrite IH.
      destruct s; [cbn; rewrite ?andb_false_r; reflexivity|reflexivity].
  Qed.

  (* all elements non-empty, in terms of scans *)
  Lemma no_empty_split s :
    forallb (fun e => negb (is_nil e)) (split_on c s) =
    negb (nil_or_starts_sep s) && negb (contains [c; c] s) && negb (ends_with_char c s).
  Proof.
    rewrite (split_on_hd_tl c s). cbn [forallb].
    rewrite hd_nil_split.
    assert (H : forallb (fun e : list N => negb (is_nil e)) (tl (split_on c s))
                = negb (existsb is_nil (tl (split_on c s)))).
    { induction (tl (split_on c s)) as [|e l IHl]; [reflexivity|].
      cbn [forallb existsb]. rewrite IHl, negb_orb. reflexivity. }
    rewrite H, tl_nil_split, negb_orb, andb_assoc. reflexivity.
  Qed.

  Section Digit.
    Variable dig : N -> bool.
    Hypothesis dig_sep : dig c = false.

    Definition first_dig (s : str) : bool := match s with x :: _ => dig x | [] => false end.

    Fixpoint sep_dig (s : str) : bool :=
      match s with
      | [] => false
      | x :: r => ((x =? c) && first_dig r) || sep_dig r
      end.

    (* (F) *)
    Lemma first_dig_split s : first_dig (hd [] (split_on c s)) = first_dig s.
    Proof.
      destruct s as [|x s]; [reflexivity|]. rewrite split_on_cons.
      destruct (x =? c) eqn:E; [|reflexivity].
      apply N.eqb_eq in E; subst. cbn. symmetry; exact dig_sep.
    Qed.

    (* (E) separator immediately followed by a digit iff a later element starts with a digit *)
    Lemma sep_dig_split s : sep_dig s = existsb first_dig (tl (split_on c s)).
    Proof.
      induction s as [|x s IH]; [reflexivity|].
      rewrite split_on_cons. cbn [sep_dig]. rewrite IH.
      destruct (x =? c) eqn:E.
      - cbn [tl andb]. rewrite (split_on_hd_tl c s) at 2. cbn [existsb].
        rewrite first_dig_split. reflexivity.
      - reflexivity.
    Qed.
  End Digit.
End Sep.
