(* Proofs for C20, receiving side from the START of the connection: descriptors
   that arrive during the authentication handshake (before, or in the same read
   as, the line that completes it) stay queued across the switch to binary
   framing and go to the messages they were sent with. *)
From Tx Require Import Lib.Base Model.PyVal Model.Marshal Model.Message Model.Framing Model.FdFraming
  Spec.WireSpec Spec.MsgSpec Spec.FramingSpec Spec.FdSpec
  Proofs.SigProofs Proofs.FramingProofs Proofs.FdProofs.
Local Open Scope N_scope.

(* ------------------------------------------------------------------------ *)
(* lists                                                                      *)

Definition nomsg (e : event) : Prop := match e with Msg _ => False | _ => True end.

Lemma firstn_plus {X} : forall a b (l : list X), firstn (a + b) l = firstn a l ++ firstn b (skipn a l).
Proof.
  induction a as [|a IH]; intros b l; [reflexivity|].
  destruct l as [|x l]; [cbn; rewrite firstn_nil; reflexivity|].
  cbn [Nat.add firstn skipn app]. rewrite IH. reflexivity.
Qed.

Lemma nomsg_prefix_of_msgs d (Y : list bytes) x : Forall nomsg d -> map Msg Y = d ++ x -> d = [].
Proof.
  intros Hd E. destruct d as [|e d]; [reflexivity|]. inversion Hd as [|? ? He _]; subst.
  destruct Y as [|y Y]; [discriminate|]. cbn in E. injection E as <- _. contradiction.
Qed.

(* the events of one more read, given the shape of the events before and after *)
Lemma diff_events hl hl' (X X' : list bytes) e :
  Forall nomsg hl -> Forall nomsg hl' ->
  hl ++ map Msg X ++ e = hl' ++ map Msg X' ->
  exists d, hl' = hl ++ d /\ Forall nomsg d /\ (X = [] \/ d = []) /\ map Msg X ++ e = d ++ map Msg X'.
Proof.
  intros H H' E. apply app_eq_app in E as [l [[E1 E2]|[E1 E2]]].
  - (* hl = hl' ++ l: l is message-free and a prefix of map Msg X' *)
    assert (Hl : Forall nomsg l) by (rewrite E1 in H; apply Forall_app in H; tauto).
    pose proof (nomsg_prefix_of_msgs l X' _ Hl E2) as ->. rewrite app_nil_r in E1. subst hl'.
    exists []. rewrite app_nil_r. cbn [app] in E2 |- *. repeat split; auto.
  - exists l. assert (Hl : Forall nomsg l) by (rewrite E1 in H'; apply Forall_app in H'; tauto).
    repeat split; auto.
    destruct X as [|x X]; [left; reflexivity|right].
    destruct l as [|e0 l]; [reflexivity|]. inversion Hl as [|? ? He _]; subst.
    cbn in E2. injection E2 as <- _. contradiction.
Qed.

Lemma complete_mono : forall l n n', (n <= n')%nat -> (complete l n <= complete l n')%nat.
Proof.
  induction l as [|x l IH]; intros n n' H; [cbn; lia|]. cbn [complete].
  destruct (Nat.leb_spec (length (wire x)) n); destruct (Nat.leb_spec (length (wire x)) n'); try lia.
  specialize (IH (n - length (wire x))%nat (n' - length (wire x))%nat). lia.
Qed.

Lemma reads_app a b : reads (a ++ b) = reads a ++ reads b.
Proof. induction a as [|[v|x] a IH]; cbn [app reads]; [reflexivity|exact IH|]. rewrite IH. reflexivity. Qed.

Lemma bytes_of_reads ins : bytes_of ins = concat (reads ins).
Proof. induction ins as [|[v|x] r IH]; cbn [bytes_of reads concat]; [reflexivity|exact IH|]. rewrite IH. reflexivity. Qed.

Lemma first_read_prefix client a b :
  client = true \/ first_read_nonempty (a ++ b) -> client = true \/ first_read_nonempty a.
Proof.
  intros [H|H]; [left; exact H|right]. destruct a as [|x a]; [exact I|exact H].
Qed.

(* ------------------------------------------------------------------------ *)
(* the handshake, cut short                                                    *)

Lemma cut_line_prefix_none a b : cut_line (a ++ b) = None -> cut_line a = None.
Proof.
  intros H. destruct (cut_line a) as [[l r]|] eqn:E; [|reflexivity].
  rewrite (cut_line_app_some _ _ _ b E) in H. discriminate.
Qed.

(* a strict prefix of  l ++ "\r\n"  holds no complete line *)
Lemma cut_line_partial l p y : cut_line l = None -> l ++ [13; 10] = p ++ y -> y <> [] -> cut_line p = None.
Proof.
  intros Hl E Hy. destruct (cut_line p) as [[l0 r0]|] eqn:C; [|reflexivity]. exfalso.
  pose proof (cut_line_app_some _ _ _ y C) as C2. rewrite <- E in C2.
  pose proof (cut_line_join l [] Hl) as J. rewrite J in C2. injection C2 as _ E2.
  symmetry in E2. apply app_eq_nil in E2 as [_ E2]. contradiction.
Qed.

Section Start.
  Context {A : Type}.
  Variable astep : A -> bytes -> A * ares.
  Variable maxl : N.

  Definition lines_bytes (lines : list bytes) : bytes := concat (map (fun l => l ++ [13; 10]) lines).

  Lemma handshake_partial : forall lines a p y,
    Forall (good_line maxl) lines -> auth_accepts astep a lines = true ->
    lines_bytes lines = p ++ y -> y <> [] ->
    exists j r, handshake_of astep maxl a p = (map Line (firstn j lines), Some r).
  Proof.
    induction lines as [|l ls IH]; intros a p y HG HA E Hy; [discriminate|].
    inversion HG as [|? ? [G1 G2] HG']; subst.
    unfold lines_bytes in E. cbn [map concat] in E. fold (lines_bytes ls) in E.
    destruct (Nat.leb_spec (length (l ++ [13; 10])) (length p)) as [L|L].
    - (* the first line is complete *)
      assert (HP : prefix p ((l ++ [13; 10]) ++ lines_bytes ls)) by (exists y; exact E).
      destruct (prefix_long _ _ _ HP L) as (p2 & -> & _).
      rewrite <- (app_assoc (l ++ [13; 10]) p2 y) in E. apply app_inv_head in E.
      rewrite <- app_assoc. cbn [app].
      rewrite handshake_of_step, (cut_line_join l _ G1).
      assert (El : (maxl <? size l) = false) by (apply N.ltb_ge; exact G2).
      rewrite El. cbn [auth_accepts] in HA.
      destruct (astep a l) as [a' res]. destruct res, ls as [|l2 ls]; try discriminate.
      + destruct (IH a' p2 y HG' HA E Hy) as (j & r & Hh). rewrite Hh.
        exists (S j), r. reflexivity.
      + (* the last line complete and bytes missing: impossible *)
        unfold lines_bytes in E. cbn in E. symmetry in E. apply app_eq_nil in E as [_ E]. contradiction.
    - (* inside the first line *)
      assert (HP : prefix p ((l ++ [13; 10]) ++ lines_bytes ls)) by (exists y; exact E).
      destruct (prefix_short _ _ _ HP ltac:(lia)) as (z & Ez).
      assert (Hz : z <> []).
      { intros ->. rewrite app_nil_r in Ez. subst p. lia. }
      pose proof (cut_line_partial l p z G1 Ez Hz) as C.
      rewrite handshake_of_step, C.
      assert (Hs : (maxl + 1 <? size p) = false).
      { apply N.ltb_ge. unfold size in *. rewrite app_length in L. cbn [length] in L. lia. }
      rewrite Hs. exists 0%nat, p. reflexivity.
  Qed.

  Variable client : bool.
  Variable a : A.
  Variable lines : list bytes.
  Variable msgs : list sent.
  Hypothesis HG : Forall (good_line maxl) lines.
  Hypothesis HA : auth_accepts astep a lines = true.
  Hypothesis HS : Forall sent_ok msgs.

  Notation hs := (hs_bytes client lines).
  Notation sem := (sem astep maxl client a).

  (* the whole handshake and a prefix of the messages *)
  Lemma sem_long X : prefix X (wire_all msgs) ->
    sem (hs ++ X) =
      (map Line lines ++ AuthOk :: map Msg (map wire (firstn (complete msgs (length X)) msgs)),
       Some (skipn (length (wire_all (firstn (complete msgs (length X)) msgs))) X)).
  Proof.
    intros HP.
    assert (HW : Forall (fun x => wellframed (wire x)) msgs).
    { eapply Forall_impl; [|exact HS]. intros x Hx. apply sent_wellframed. exact Hx. }
    assert (E : sem (hs ++ X) = (map Line lines ++ AuthOk :: fst (frames_of X), snd (frames_of X))).
    { unfold hs_bytes, FramingSpec.sem. destruct client.
      - cbn [app]. apply handshake_lines; assumption.
      - cbn [app N.eqb]. apply handshake_lines; assumption. }
    rewrite E, (frames_prefix msgs X HW HP). reflexivity.
  Qed.

  Lemma sem_short p y : hs = p ++ y -> y <> [] ->
    exists j r, sem p = (map Line (firstn j lines), Some r).
  Proof.
    intros E Hy. unfold hs_bytes in E. unfold FramingSpec.sem. destruct client.
    - cbn [app] in E. exact (handshake_partial lines a p y HG HA E Hy).
    - destruct p as [|b0 p].
      + exists 0%nat, []. reflexivity.
      + cbn [app] in E. injection E as <- E. cbn [N.eqb].
        exact (handshake_partial lines a p y HG HA E Hy).
  Qed.

  (* the stream semantics of every prefix of  handshake ++ messages *)
  Lemma sem_shape P : prefix P (hs ++ wire_all msgs) ->
    exists hl r,
      sem P = (hl ++ map Msg (map wire (firstn (complete msgs (length P - length hs)) msgs)), Some r) /\
      Forall nomsg hl /\
      ((length hs <= length P)%nat ->
         hl = map Line lines ++ [AuthOk] /\
         P = hs ++ wire_all (firstn (complete msgs (length P - length hs)) msgs) ++ r).
  Proof.
    intros HP. destruct (Nat.leb_spec (length hs) (length P)) as [L|L].
    - destruct (prefix_long _ _ _ HP L) as (X & -> & HX).
      replace (length (hs ++ X) - length hs)%nat with (length X) by (rewrite app_length; lia).
      rewrite (sem_long X HX).
      exists (map Line lines ++ [AuthOk]), (skipn (length (wire_all (firstn (complete msgs (length X)) msgs))) X).
      split; [rewrite <- app_assoc; reflexivity|]. split.
      + apply Forall_app. split; [|repeat constructor].
        apply Forall_forall. intros e He. apply in_map_iff in He as (l & <- & _). exact I.
      + intros _. split; [reflexivity|]. f_equal.
        pose proof (complete_fits msgs (length X)) as Fits.
        set (k := complete msgs (length X)) in *.
        assert (HX' : prefix X (wire_all (firstn k msgs) ++ wire_all (skipn k msgs))).
        { rewrite <- wire_all_app, firstn_skipn. exact HX. }
        destruct (prefix_long _ _ _ HX' Fits) as (p2 & E2 & _).
        rewrite E2 at 1. rewrite E2, skipn_app_exact. reflexivity.
    - destruct (prefix_short _ _ _ HP ltac:(lia)) as (y & Ey).
      assert (Hy : y <> []) by (intros ->; rewrite app_nil_r in Ey; rewrite Ey in L; lia).
      destruct (sem_short P y Ey Hy) as (j & r & E).
      replace (length P - length hs)%nat with 0%nat by lia.
      rewrite (complete_zero msgs HS). cbn [firstn map].
      exists (map Line (firstn j lines)), r. rewrite app_nil_r. split; [exact E|]. split; [|lia].
      apply Forall_forall. intros e He. apply in_map_iff in He as (l & <- & _). exact I.
  Qed.
End Start.

(* ------------------------------------------------------------------------ *)
(* the connection from its start                                               *)

Lemma deliver_all_others legacy fuel : forall d rest q, Forall nomsg d ->
  deliver_all legacy fuel (d ++ rest) q =
  let '(o, q', dead) := deliver_all legacy fuel rest q in (map Other d ++ o, q', dead).
Proof.
  induction d as [|e d IH]; intros rest q H.
  - cbn [app map]. destruct (deliver_all legacy fuel rest q) as [[o q'] dead]. reflexivity.
  - inversion H as [|? ? He Hd]; subst. cbn [app].
    destruct e; try contradiction; cbn [deliver_all]; rewrite (IH rest q Hd);
      destruct (deliver_all legacy fuel rest q) as [[o q'] dead]; reflexivity.
Qed.

Lemma map_wire_nil (l : list sent) : map wire l = [] -> l = [].
Proof. destruct l; [reflexivity|discriminate]. Qed.

Section Start2.
  Context {A : Type}.
  Variable astep : A -> bytes -> A * ares.
  Variable maxl : N.
  Variable fuel : nat.
  Variable client : bool.
  Variable a : A.
  Variable lines : list bytes.
  Variable msgs : list sent.
  Hypothesis HG : Forall (good_line maxl) lines.
  Hypothesis HA : auth_accepts astep a lines = true.
  Hypothesis HS : Forall sent_ok msgs.
  Hypothesis HD : Forall (fun x => (msg_depth (sn_msg x) <= fuel)%nat) msgs.

  Notation hs := (hs_bytes client lines).
  Notation run_st := (run_st astep maxl).
  Notation step := (step astep maxl false fuel).
  Notation run_conn := (run_conn astep maxl false fuel).

  Lemma run_st_closed (s : st A) l : s_closed s = true -> run_st s l = (s, []).
  Proof. intros H. destruct l; cbn [Framing.run_st]; [reflexivity|]. rewrite H. reflexivity. Qed.

  Lemma run_st_app : forall x y (s : st A),
    run_st s (x ++ y) =
    let '(s1, e1) := run_st s x in let '(s2, e2) := run_st s1 y in (s2, e1 ++ e2).
  Proof.
    induction x as [|c x IH]; intros y s.
    - cbn [app Framing.run_st]. destruct (run_st s y); reflexivity.
    - cbn [app Framing.run_st]. destruct (s_closed s) eqn:Hc.
      + rewrite (run_st_closed s y Hc). reflexivity.
      + destruct (recv astep maxl s c) as [s1 e1]. rewrite IH.
        destruct (run_st s1 x) as [s2 e2]. destruct (run_st s2 y) as [s3 e3].
        rewrite app_assoc. reflexivity.
  Qed.

  Definition kof (ins : list input) : nat := complete msgs (length (bytes_of ins) - length hs).

  Definition J (ins : list input) (c : conn A) (o : list out) : Prop :=
    exists E hl ps,
      c_dead c = false /\ s_closed (c_st c) = false /\
      run_st (init client a) (reads ins) = (c_st c, E) /\
      E = hl ++ map Msg (map wire (firstn (kof ins) msgs)) /\ Forall nomsg hl /\
      o = map Other hl ++ map Deliver ps /\
      map view ps = map seen_of (firstn (kof ins) msgs) /\
      fds_of ins = fds_all (firstn (kof ins) msgs) ++ c_q c.

  Lemma so_hs_prefix ins i : stream_order_hs hs msgs (ins ++ [i]) -> stream_order_hs hs msgs ins.
  Proof.
    intros (H1 & H2 & H3). rewrite bytes_of_app in H1. rewrite fds_of_app in H2.
    split; [eapply prefix_app_l; exact H1|]. split; [eapply prefix_app_l; exact H2|].
    intros pre b post E. apply (H3 pre b (post ++ [i])). rewrite E, <- app_assoc. reflexivity.
  Qed.

  Lemma run_J : forall ins,
    stream_order_hs hs msgs ins -> client = true \/ first_read_nonempty (reads ins) ->
    forall c o, run_conn (fresh client a) ins = (c, o) -> J ins c o.
  Proof.
    induction ins as [|i ins IH] using rev_ind; intros SO NE c o R.
    - cbn in R. inversion R; subst. exists [], [], [].
      unfold kof. cbn [bytes_of length Nat.sub]. rewrite (complete_zero msgs HS).
      cbn. repeat split; constructor.
    - rewrite run_conn_app in R.
      destruct (run_conn (fresh client a) ins) as [c1 o1] eqn:R1.
      assert (NE1 : client = true \/ first_read_nonempty (reads ins)).
      { rewrite reads_app in NE. eapply first_read_prefix. exact NE. }
      specialize (IH (so_hs_prefix _ _ SO) NE1 c1 o1 eq_refl).
      destruct IH as (E & hl & ps & Hdead & Hcl & RS & EE & Hhl & Eo & Ev & Ef).
      cbn [FdFraming.run_conn] in R.
      destruct (step c1 i) as [c2 o2] eqn:St. inversion R; subst c o. clear R.
      unfold FdFraming.step in St. rewrite Hdead, Hcl in St. cbn [orb] in St.
      destruct i as [v|b].
      + (* a descriptor arrives: before, during or after the handshake *)
        inversion St; subst c2 o2. clear St.
        assert (Ek : kof (ins ++ [Fd v]) = kof ins).
        { unfold kof. rewrite bytes_of_app. cbn [bytes_of]. rewrite app_nil_r. reflexivity. }
        exists E, hl, ps. cbn [c_dead c_st c_q]. rewrite Ek, reads_app. cbn [reads]. rewrite !app_nil_r.
        split; [reflexivity|]. split; [exact Hcl|]. split; [exact RS|]. split; [exact EE|].
        split; [exact Hhl|]. split; [exact Eo|]. split; [exact Ev|].
        rewrite fds_of_app. cbn [fds_of]. rewrite Ef, app_assoc. reflexivity.
      + (* bytes arrive *)
        destruct (recv astep maxl (c_st c1) b) as [s' e] eqn:Rv.
        set (ins' := ins ++ [Read b]) in *.
        assert (RS' : run_st (init client a) (reads ins') = (s', E ++ e)).
        { unfold ins'. rewrite reads_app. cbn [reads]. rewrite run_st_app, RS.
          cbn [Framing.run_st]. rewrite Hcl, Rv, app_nil_r. reflexivity. }
        destruct SO as (SO1 & SO2 & SO3).
        (* the whole-stream semantics of what has arrived *)
        pose proof (partition_independent astep maxl client a (reads ins') NE) as PI.
        unfold Framing.run in PI. rewrite RS', <- bytes_of_reads in PI.
        destruct (sem_shape astep maxl client a lines msgs HG HA HS (bytes_of ins') SO1)
          as (hl' & r' & Esem & Hhl' & _).
        fold (kof ins') in Esem. rewrite Esem in PI. injection PI as PE PR.
        assert (Hcl' : s_closed s' = false).
        { unfold residual in PR. destruct (s_closed s'); [discriminate|reflexivity]. }
        set (k := kof ins) in *. set (k' := kof ins') in *.
        assert (Hkk : (k <= k')%nat).
        { unfold k, k', kof. apply complete_mono. unfold ins'. rewrite bytes_of_app, app_length. lia. }
        set (M1 := firstn k msgs) in *.
        set (newly := firstn (k' - k) (skipn k msgs)).
        assert (EM : firstn k' msgs = M1 ++ newly).
        { replace k' with (k + (k' - k))%nat at 1 by lia. apply firstn_plus. }
        assert (Emsgs : msgs = M1 ++ newly ++ skipn k' msgs).
        { rewrite app_assoc, <- EM. symmetry. apply firstn_skipn. }
        (* the events of this read *)
        rewrite EE, <- app_assoc in PE.
        destruct (diff_events hl hl' _ _ e Hhl Hhl' PE) as (d & Ehl' & Hd & Hcase & Ediff).
        assert (Ee : e = d ++ map Msg (map wire newly) /\ (ps = [] \/ d = [])).
        { rewrite EM, !map_app in Ediff. destruct Hcase as [HX | ->].
          - apply map_eq_nil in HX.
            rewrite HX in Ediff, Ev. cbn [map app] in Ediff, Ev. apply map_eq_nil in Ev.
            split; [exact Ediff | left; exact Ev].
          - cbn [app] in Ediff |- *. apply app_inv_head in Ediff. split; [exact Ediff | right; reflexivity]. }
        destruct Ee as [Ee Hpsd].
        (* the descriptors of the newly complete messages head the queue *)
        assert (Hq : exists q', c_q c1 = fds_all newly ++ q').
        { specialize (SO3 ins b [] eq_refl).
          assert (Ek' : complete msgs (length (bytes_of ins) + length b - length hs) = k').
          { unfold k', kof, ins'. rewrite bytes_of_app, app_length. cbn [bytes_of]. rewrite app_nil_r.
            reflexivity. }
          rewrite Ek' in SO3. unfold fds_upto in SO3. fold (fds_all (firstn k' msgs)) in SO3.
          rewrite EM, fds_all_app, Ef, !app_length in SO3.
          unfold ins' in SO2. rewrite fds_of_app in SO2. cbn [fds_of] in SO2.
          rewrite app_nil_r, Ef in SO2. fold (fds_all msgs) in SO2. rewrite Emsgs, !fds_all_app in SO2.
          apply prefix_app_cancel in SO2.
          destruct (prefix_long _ _ _ SO2 ltac:(lia)) as (q' & Eq & _). exists q'. exact Eq. }
        destruct Hq as (q' & Eq).
        assert (HSn : Forall sent_ok newly).
        { rewrite Emsgs in HS. apply Forall_app in HS as [_ HS2]. apply Forall_app in HS2. tauto. }
        assert (HDn : Forall (fun x => (msg_depth (sn_msg x) <= fuel)%nat) newly).
        { rewrite Emsgs in HD. apply Forall_app in HD as [_ HD2]. apply Forall_app in HD2. tauto. }
        destruct (deliver_all_own fuel newly q' HSn HDn) as (ps' & Ed & Vd).
        rewrite Ee, Eq, (deliver_all_others false fuel d _ _ Hd), Ed in St.
        inversion St; subst c2 o2. clear St.
        exists (E ++ e), hl', (ps ++ ps'). cbn [c_dead c_st c_q]. fold k'.
        split; [reflexivity|]. split; [exact Hcl'|]. split; [exact RS'|].
        split; [rewrite EE, <- app_assoc; exact PE|]. split; [exact Hhl'|].
        split; [|split].
        * rewrite Eo, Ehl', app_nil_r, !map_app. destruct Hpsd as [-> | ->]; cbn [map app];
            rewrite ?app_nil_r, <- ?app_assoc; reflexivity.
        * rewrite EM, !map_app, Ev, Vd. reflexivity.
        * unfold ins'. rewrite fds_of_app. cbn [fds_of]. rewrite app_nil_r, Ef, Eq, EM, fds_all_app, <- app_assoc.
          reflexivity.
  Qed.

  (* From the start of the connection: handshake lines the authenticator accepts
     at the last one, then the messages; descriptors arriving anywhere in stream
     order, reads cut anywhere. *)
  Theorem attribution_start ins :
    stream_order_hs hs msgs ins -> client = true \/ first_read_nonempty (reads ins) ->
    exists hl ps r,
      run_start astep maxl false fuel client a ins
        = (map Other hl ++ map Deliver ps, snd (expected_hs hs msgs ins), Some r) /\
      map view ps = fst (expected_hs hs msgs ins) /\
      Forall nomsg hl /\
      fst (sem astep maxl client a (bytes_of ins))
        = hl ++ map Msg (map wire (firstn (complete msgs (length (bytes_of ins) - length hs)) msgs)) /\
      ((length hs <= length (bytes_of ins))%nat ->
         hl = map Line lines ++ [AuthOk] /\
         bytes_of ins = hs ++ wire_all (firstn (complete msgs (length (bytes_of ins) - length hs)) msgs) ++ r).
  Proof.
    intros SO NE. unfold run_start, expected_hs.
    destruct (run_conn (fresh client a) ins) as [c o] eqn:R.
    destruct (run_J ins SO NE c o R) as (E & hl & ps & Hdead & Hcl & RS & EE & Hhl & Eo & Ev & Ef).
    fold (kof ins) in *.
    pose proof (partition_independent astep maxl client a (reads ins) NE) as PI.
    unfold Framing.run in PI. rewrite RS, <- bytes_of_reads in PI.
    destruct SO as (SO1 & _).
    destruct (sem_shape astep maxl client a lines msgs HG HA HS (bytes_of ins) SO1)
      as (hl2 & r2 & Esem & Hhl2 & Hlong).
    fold (kof ins) in Esem, Hlong. rewrite Esem in PI. injection PI as PE PR.
    assert (Ehl : hl = hl2) by (rewrite EE in PE; apply app_inv_tail in PE; exact PE).
    subst hl2.
    exists hl, ps, r2. rewrite Hdead, PR. cbn [fst snd].
    split; [|split; [exact Ev|split; [exact Hhl|split; [rewrite Esem; reflexivity|exact Hlong]]]].
    subst o. unfold fds_upto. fold (fds_all (firstn (kof ins) msgs)).
    rewrite Ef, skipn_app_exact. reflexivity.
  Qed.
End Start2.

(* ------------------------------------------------------------------------ *)
(* the decision procedure                                                      *)

Lemma order_ok_hs_sound nhs msgs : forall ins nb nf, order_ok_hs nhs msgs ins nb nf = true ->
  forall pre b post, ins = pre ++ Read b :: post ->
    (length (fds_upto msgs (complete msgs (nb + length (bytes_of pre) + length b - nhs)))
     <= nf + length (fds_of pre))%nat.
Proof.
  induction ins as [|i ins IH]; intros nb nf H pre b post E.
  - destruct pre; discriminate.
  - destruct pre as [|i0 pre].
    + cbn [app] in E. injection E as -> ->. cbn [order_ok_hs] in H. apply andb_true_iff in H as [H1 _].
      apply Nat.leb_le in H1. cbn [bytes_of fds_of length]. rewrite !Nat.add_0_r. exact H1.
    + cbn [app] in E. injection E as <- E. destruct i as [v|b0]; cbn [order_ok_hs] in H.
      * specialize (IH nb (S nf) H pre b post E). cbn [bytes_of fds_of length]. lia.
      * apply andb_true_iff in H as [_ H2].
        specialize (IH (nb + length b0)%nat nf H2 pre b post E).
        cbn [bytes_of fds_of]. rewrite app_length.
        replace (nb + (length b0 + length (bytes_of pre)) + length b - nhs)%nat
          with (nb + length b0 + length (bytes_of pre) + length b - nhs)%nat by lia. exact IH.
Qed.

Theorem stream_order_hs_b_sound hs msgs ins :
  stream_order_hs_b hs msgs ins = true -> stream_order_hs hs msgs ins.
Proof.
  unfold stream_order_hs_b. intros H. apply andb_true_iff in H as [H H3]. apply andb_true_iff in H as [H1 H2].
  split; [|split].
  - eapply is_prefix_sound; [|exact H1]. intros x y. apply N.eqb_eq.
  - eapply is_prefix_sound; [|exact H2]. exact pv_eqb_sound.
  - intros pre b post E. exact (order_ok_hs_sound (length hs) msgs ins 0 0 H3 pre b post E).
Qed.
